#!/bin/bash
# mutrt.sh <patch|/dev/null-like empty patch> <file> <old> <new>: refactored tree + one textual mutation -> checker findings (N=lines)
PF=$(realpath $1); W=$(mktemp -d /tmp/mut-XXXXXX); rsync -a --exclude .git /repo/ $W/
(cd $W && GIT_CEILING_DIRECTORIES=/ git apply --allow-empty --whitespace=nowarn $PF) || { echo "PATCH FAILS"; rm -rf $W; exit; }
python3 - "$W/$2" "$3" "$4" <<'PY'
import sys
p,old,new=sys.argv[1:4]
s=open(p).read()
if old not in s: print("MUTATION TEXT NOT FOUND"); sys.exit()
open(p,'w').write(s.replace(old,new,1))
PY
(cd $W && export GOFLAGS=-mod=mod GOPROXY=off GOSUMDB=off GOTOOLCHAIN=local && go build $(go list ./... | grep -v "mocks\|pkg/test") 2>&1 | grep -v "^#" | head -3)
${FSDBCHECK_BIN:-/verif/bin/fsdbcheck} -repo $W -prop all -no-evidence | grep -E "^OBLIGATION|^VIOLATION|^UNDEC" | sed 's#replay=.*##' | head -${N:-6}
rm -rf $W
