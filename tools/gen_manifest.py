#!/usr/bin/env python3
"""Regenerates /verif/MANIFEST.json from the table below (claimed properties) and validates it."""
import json, sys, os

BASE = json.load(open('/root/.vp/BASELINE.json'))['cmd'] if os.path.exists('/root/.vp/BASELINE.json') else \
    "for m in $(cat /w/out/gomods.txt); do MF=$(cd /repo/$m && . /w/out/goenv.sh && gomodflag); (cd /repo/$m && go test $MF -json -vet=off -count=1 -timeout 25m ./...); done"

# id -> (technique, level text, level note, design ref)
CLAIMS = json.load(open(os.path.join(os.path.dirname(__file__), 'claims.json')))
NA = json.load(open(os.path.join(os.path.dirname(__file__), 'not_applicable.json')))
HOOKS = json.load(open(os.path.join(os.path.dirname(__file__), 'hooks.json')))

import re
def rule_ids(pid):
    try:
        e = json.load(open(f'/verif/evidence/{pid}.json'))
        ids = sorted(set(re.findall(r'(C\d\d\.[a-z]):', e['coverage']['explanation'])))
        return ids
    except Exception:
        return []

checks = []
for pid in sorted(CLAIMS):
    c = dict(CLAIMS[pid])
    ids = rule_ids(pid)
    if ids:
        c["text"] = c["text"] + " Rules decided on every run: " + ", ".join(ids) + " (each stated in /verif/evidence/" + pid + ".json; rules added after the seeding rounds: DESIGN.md 8.9, 8.11, 8.13). A VIOLATION needs a positive witness; an anchor that cannot be resolved makes the check UNDECIDED (exit 3)."
    checks.append({
        "property_id": pid,
        "quick_cmd": f"/verif/bin/fsdbcheck -prop {pid} -tier quick",
        "thorough_cmd": f"/verif/bin/fsdbcheck -prop {pid} -tier thorough",
        "evidence_file": f"/verif/evidence/{pid}.json",
        "replay_cmd_template": "/verif/bin/fsdbcheck -replay {path}",
        "engine": "fsdbcheck",
        "level_claimed": {"category": "other", "text": c["text"], "design_ref": c.get("design_ref", f"DESIGN.md §3 {pid}")},
        "level_note": c["note"],
        "technique": c["technique"],
    })
m = {
    "version": 1,
    "setup_cmd": "cd /verif/checker && GOFLAGS=-mod=mod GOPROXY=off GOSUMDB=off GOWORK=off GOTOOLCHAIN=local go build -o /verif/bin/fsdbcheck .",
    "hooks": {
        "guard": "verif",
        "enable": "no hook is needed: the checker reads /repo's source (default build tags; thorough tier adds -tags test and GOOS=windows); nothing in /repo is built with a verif tag",
        "baseline_off_cmd": BASE,
        "source_commits": HOOKS.get("source_commits", []),
        "add_only": True,
    },
    "engines": [{
        "name": "fsdbcheck",
        "path": "/verif/checker",
        "serves_properties": sorted(CLAIMS),
        "kind_free_text": "repository-specific static analyser (go/packages + go/types + go/cfg): lock-region dataflow, ordering/dominance and error-gating on the CFG, table extraction with constant folding, order-type truth tables, who-may-call over a CHA call graph of the product packages",
    }],
    "checks": checks,
    "not_applicable": [{"property_id": k, "reason": v} for k, v in sorted(NA.items())],
    "notes": "Static analysis only: every check parses and type-checks /repo's current working tree on every run and decides structural necessary conditions of the property (level 'other'). Exit 0 = all obligations hold (KNOWN-FINDING lines allowed), 1 = VIOLATION, 3 = UNDECIDED (an anchor of a rule could not be resolved or the tree does not type-check). Known findings: /verif/known_findings.json.",
}
json.dump(m, open('/verif/MANIFEST.json', 'w'), indent=1)
try:
    import jsonschema
    jsonschema.validate(m, json.load(open('/root/.vp/MANIFEST.schema.json')))
    print("MANIFEST valid:", len(checks), "checks,", len(NA), "not applicable")
except ImportError:
    print("written (jsonschema not available)")
