#!/bin/bash
# mut.sh save <prop> <name> <M|R> : store the current diff of /tmp/fsdb_scratch as a seeded variant
#   M = must be reported (mutants/<prop>/<name>.patch), R = behaviour preserving, must stay silent (refactors/...)
#   verifies: builds, baseline tests pass, checker verdict as expected; then resets the scratch copy.
# mut.sh try <prop>  : run the checker for <prop> on the scratch copy as it is
S=/tmp/fsdb_scratch
export GOFLAGS=-mod=mod GOPROXY=off GOSUMDB=off GOTOOLCHAIN=local; unset GOWORK
case "$1" in
 try) /verif/bin/fsdbcheck -repo $S -prop $2 -no-evidence; echo "exit=$?";;
 save)
  prop=$2; name=$3; kind=$4
  dir=/verif/mutants/$prop; [ "$kind" = R ] && dir=/verif/refactors/$prop
  mkdir -p $dir
  git -C $S diff > $dir/$name.patch
  [ -s $dir/$name.patch ] || { echo "empty diff"; rm -f $dir/$name.patch; exit 2; }
  (cd $S && go build $(go list ./... 2>/dev/null | grep -v '/mocks\|pkg/test') && go vet $(go list ./... 2>/dev/null | grep -v '/mocks\|pkg/test\|repository/content$\|streamwriter') >/dev/null 2>&1) || { echo "DOES NOT BUILD (or test files do not compile)"; git -C $S checkout -q -- . ; exit 2; }
  if [ -z "$NOTEST" ]; then /verif/tools/scratch.sh test || { echo "baseline tests kill this variant: kept as tk_$name (still a must-detect case for the checker)"; mv "$dir/$name.patch" "$dir/tk_$name.patch"; }; fi
  out=$(/verif/bin/fsdbcheck -repo $S -prop $prop -no-evidence); code=$?
  echo "$out" | grep -E 'OBLIGATION|^  |VIOLATION|UNDECIDED|KNOWN' | head -20
  echo "checker exit=$code (kind $kind)"
  git -C $S checkout -q -- . ; git -C $S clean -fdq
  ;;
esac
