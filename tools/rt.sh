#!/bin/bash
# rt.sh <patch> [prop] : apply a patch to a fresh copy of /repo, run the checker (one property or all), print findings, remove the copy.
PF=$(realpath $1); PROP=${2:-all}
W=$(mktemp -d /tmp/rt-XXXXXX); rsync -a --exclude .git /repo/ $W/
(cd $W && GIT_CEILING_DIRECTORIES=/ git apply --whitespace=nowarn $PF) || { echo "PATCH DOES NOT APPLY"; rm -rf $W; exit 2; }
FSDBCHECK_DUMP=${DUMP:-} ${FSDBCHECK_BIN:-/verif/bin/fsdbcheck} -repo $W -prop $PROP -no-evidence | grep -E "^VIOLATION|^UNDECIDED|^OBLIGATION|^  |^SELFTEST" | sed 's#replay=.*##' | head -${LINES_MAX:-40}
rm -rf $W
