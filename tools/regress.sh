#!/bin/bash
# regress.sh : the whole corpus against the current checker, 12 variants in parallel.
#   refactors/*/*.patch  must be silent for every property
#   mutants/<P>/*.patch  must be reported by property P
#   seeded/*/patch.diff  must be reported by some property (lists the ones that are only undecided / missed)
cd /verif
one() {
  kind=$1; f=$2; prop=$3
  W=$(mktemp -d /tmp/rg-XXXXXX); rsync -a --exclude .git /repo/ $W/
  if ! (cd $W && GIT_CEILING_DIRECTORIES=/ git apply --whitespace=nowarn /verif/$f 2>/dev/null); then echo "STALE $f"; rm -rf $W; return; fi
  out=$(/verif/bin/fsdbcheck -repo $W -prop $prop -no-evidence 2>&1)
  rm -rf $W
  case $kind in
    ref) if echo "$out" | grep -qE "^VIOLATION|^UNDECIDED|^LOAD"; then echo "NOISE $f: $(echo "$out" | grep -E '^OBLIGATION' | head -2 | tr '\n' ' ')"; fi ;;
    mut) if ! echo "$out" | grep -q "^VIOLATION"; then echo "UNKILLED $f"; fi ;;
    seed) if ! echo "$out" | grep -q "^VIOLATION"; then if echo "$out" | grep -q "^UNDECIDED"; then echo "ONLY-UNDECIDED $f"; else echo "MISS $f"; fi; fi ;;
  esac
}
export -f one
{
  for f in refactors/*/*.patch; do echo "ref $f all"; done
  for f in mutants/*/*.patch; do p=$(basename $(dirname $f)); echo "mut $f $p"; done
  for f in seeded/*/patch.diff; do echo "seed $f all"; done
} | xargs -P 12 -L 1 bash -c 'one $0 $1 $2'
echo REGRESS_DONE
