#!/bin/bash
# scratch.sh reset|test|diff  — maintains a scratch copy of /repo (with .git) under /tmp/fsdb_scratch
set -e
S=/tmp/fsdb_scratch
export GOFLAGS=-mod=mod GOPROXY=off GOSUMDB=off GOTOOLCHAIN=local; unset GOWORK
case "$1" in
 reset) rm -rf $S; mkdir -p $S; rsync -a /repo/ $S/; git -C $S checkout -q -- . ; git -C $S clean -fdq; echo "scratch at $(git -C $S rev-parse --short HEAD)";;
 test) cd ${2:-$S} && go test -vet=off -count=1 ./... 2>&1 | grep -E '^(FAIL|--- FAIL|panic)' | grep -vE 'FAIL\s+github.com/glebziz/fs_db/(internal/repository/content|internal/utils/grpc/streamwriter|internal/utils/grpc/streamwriter/mocks|pkg/test) \[build failed\]|^FAIL$' > /tmp/fsdb_test_fail.txt || true; if [ -s /tmp/fsdb_test_fail.txt ]; then cat /tmp/fsdb_test_fail.txt; echo "BASELINE TESTS: FAIL"; exit 1; else echo "BASELINE TESTS: pass"; fi;;
 build) cd $S && go build $(go list ./... | grep -v /mocks) && echo build ok;;
 diff) git -C $S diff;;
 rm) rm -rf $S;;
esac
