#!/usr/bin/env python3
"""seed_store.py: (1) import confirmed seeded changes from /tmp/seedwt/<P>/SEED_OUT into /verif/seeded/<P>-<X>/,
(2) with --detect: apply each stored patch to a fresh copy of /repo, run all claimed checks, record detected_by."""
import json, os, shutil, subprocess, sys, glob, tempfile

V = '/verif'
def sh(cmd, cwd=None):
    return subprocess.run(cmd, shell=True, cwd=cwd, capture_output=True, text=True)

def imp(prop, x, needs, confirmed):
    src = os.environ.get('SEEDROOT','/tmp/seedwt') + f'/{prop}/SEED_OUT'
    sid = os.environ.get('SEEDID', x)  # stored id letter (round 2 uses C/D so round-1 A/B are kept)
    dst = f'{V}/seeded/{prop}-{sid}'
    os.makedirs(dst, exist_ok=True)
    shutil.copy(f'{src}/{x}.patch.diff', f'{dst}/patch.diff')
    if os.path.isdir(f'{src}/{x}.demo'):
        shutil.rmtree(f'{dst}/demo', ignore_errors=True)
        shutil.copytree(f'{src}/{x}.demo', f'{dst}/demo')
    if os.path.exists(f'{src}/{x}.meta.txt'):
        shutil.copy(f'{src}/{x}.meta.txt', f'{dst}/author_notes.txt')
    meta = {"id": f"{prop}-{sid}", "property": prop, "author": "independent sub-agent (saw only the property text and a scratch worktree)",
            "needs": needs, "ran": confirmed, "detected_by": []}
    json.dump(meta, open(f'{dst}/meta.json', 'w'), indent=1)

def detect():
    for d in sorted(glob.glob(f'{V}/seeded/*/')):
        meta = json.load(open(d + 'meta.json'))
        tmp = tempfile.mkdtemp(prefix='seeddetect-')
        try:
            sh(f'rsync -a --exclude .git /repo/ {tmp}/')
            r = sh(f'git apply --whitespace=nowarn {d}patch.diff', cwd=tmp)
            if r.returncode != 0:
                meta['detected_by'] = []; meta['detect_note'] = 'patch no longer applies to the current tree'
            else:
                out = sh(f'{V}/bin/fsdbcheck -repo {tmp} -prop all -no-evidence').stdout
                det = sorted({l.split('property=')[1].split()[0] for l in out.splitlines() if l.startswith('VIOLATION')})
                und = sorted({l.split('property=')[1].split()[0] for l in out.splitlines() if l.startswith('UNDECIDED')})
                obl = [l for l in out.splitlines() if l.startswith('OBLIGATION') and 'violated' in l]
                meta['detected_by'] = det
                meta['undecided_in'] = und
                meta['reported_obligations'] = [o.replace('OBLIGATION ', '') for o in obl][:12]
                meta.pop('detect_note', None)
            json.dump(meta, open(d + 'meta.json', 'w'), indent=1)
            print(meta['id'], 'detected_by', meta['detected_by'], 'undecided', meta.get('undecided_in'))
        finally:
            shutil.rmtree(tmp, ignore_errors=True)

if __name__ == '__main__':
    if sys.argv[1] == '--detect':
        detect()
    else:
        imp(sys.argv[1], sys.argv[2], sys.argv[3], sys.argv[4])
