#!/bin/bash
# seed_eval.sh <prop> <A|B> [extra go test flags]
#   confirms a seeded change written by an independent agent (in /tmp/seedwt/<prop>/SEED_OUT) on fresh copies of /repo:
#   builds, baseline tests pass, demo passes without / fails with the change; then runs every claimed check on the
#   changed copy and prints which properties report a VIOLATION. Nothing is written to /repo.
set -u
P=$1; X=$2; shift 2; FLAGS="$*"
OUT=${SEEDROOT:-/tmp/seedwt}/$P/SEED_OUT
export GOFLAGS=-mod=mod GOPROXY=off GOSUMDB=off GOTOOLCHAIN=local; unset GOWORK
W=/tmp/seedeval/$P-$X
rm -rf $W; mkdir -p $W/with $W/without
rsync -a --exclude .git --exclude SEED_OUT /repo/ $W/with/; rsync -a --exclude .git /repo/ $W/without/
(cd $W/with && git apply --whitespace=nowarn $OUT/$X.patch.diff) || { echo "PATCH DOES NOT APPLY"; exit 2; }
echo "== patch: $(grep -c '^[-+][^-+]' $OUT/$X.patch.diff) changed lines in: $(grep '^+++ ' $OUT/$X.patch.diff | sed 's#+++ b/##' | tr '\n' ' ')"
(cd $W/with && go build $(go list ./... 2>/dev/null | grep -v '/mocks\|pkg/test')) || { echo "DOES NOT BUILD"; exit 2; }
echo "== baseline tests with the change:"; /verif/tools/scratch.sh test $W/with
# demo
if [ -d $OUT/$X.demo ]; then
  cp -r $OUT/$X.demo/. $W/with/; cp -r $OUT/$X.demo/. $W/without/
  dirs=$(cd $OUT/$X.demo && find . -name '*_test.go' -exec dirname {} \; | sort -u)
  for d in $dirs; do
    for side in without with; do
      echo "== demo $d ($side the change): go test $FLAGS $d"
      (cd $W/$side && timeout 600 go test -count=1 $FLAGS $d 2>&1 | grep -aE '^(ok|FAIL|--- FAIL|panic|WARNING: DATA RACE)' | sort | uniq -c | head -8)
    done
  done
fi
echo "== checks on the changed tree:"
/verif/bin/fsdbcheck -repo $W/with -prop all -no-evidence | grep -E "^VIOLATION|^UNDECIDED|^OBLIGATION" | sed 's#replay=.*##' | head -30
echo "== (silent checks not listed)"
