#!/bin/bash
# ref_eval.sh <area> : applies every refactoring patch of /tmp/refwt/<area>/REF_OUT to a fresh copy of /repo,
# checks that it builds and keeps the baseline green, and lists every check that is not silent on it.
A=$1
export GOFLAGS=-mod=mod GOPROXY=off GOSUMDB=off GOTOOLCHAIN=local; unset GOWORK
for pf in ${REFROOT:-/tmp/refwt}/$A/REF_OUT/*.patch.diff; do
  X=$(basename $pf .patch.diff); W=/tmp/refeval/$A-$X; rm -rf $W; mkdir -p $W; rsync -a --exclude .git --exclude REF_OUT /repo/ $W/
  echo "######## $A $X: $(grep '^+++ ' $pf | sed 's#+++ b/##' | tr '\n' ' ')"
  (cd $W && git apply --whitespace=nowarn $pf) || { echo "PATCH DOES NOT APPLY"; continue; }
  (cd $W && go build $(go list ./... 2>/dev/null | grep -v '/mocks\|pkg/test')) || { echo "DOES NOT BUILD"; continue; }
  /verif/tools/scratch.sh test $W | tail -3
  /verif/bin/fsdbcheck -repo $W -prop all -no-evidence | grep -E "^VIOLATION|^UNDECIDED|^OBLIGATION|^  " | sed 's#replay=.*##' | head -12
  rm -rf $W
done
