#!/bin/bash
# runs the thorough tier of every claimed property and prints the self-test counts
cd /verif
for p in $(python3 -c "import json;print(' '.join(sorted(json.load(open('tools/claims.json')))))"); do
  out=$(bin/fsdbcheck -prop $p -tier thorough); code=$?
  st=$(python3 -c "import json;e=json.load(open('evidence/$p.json'));print(e['coverage'].get('selftest',{}).get('counts'))")
  echo "$p exit=$code selftest=$st"; echo "$out" | grep -E "SELFTEST|VIOLATION|UNDECIDED|OBLIGATION" | head -5
  python3 -c "
import json;e=json.load(open('evidence/$p.json'))
for v in e['coverage'].get('selftest',{}).get('variants',[]):
    if v['status'] in ('skipped','error'): print('   ',v['status'],v['variant'],v['detail'][:100])"
done
