package main

// Rules added after the fifth round of seeded changes (DESIGN.md 8.15). Each is a structural necessary
// condition of the property it is registered under, silent on the pinned tree and on the refactoring corpus.

import (
	"fmt"
	"go/ast"
	"go/constant"
	"go/token"
	"go/types"
	"sort"
	"strings"
)

// c10WriteKeepsNoCallerBytes (seeded C10-J): an io.Writer of the product copies what it keeps. A Write method that
// stores its parameter (or a reslice of it) into its receiver lets the caller, who may reuse the buffer as soon
// as Write has returned (io.Writer contract; io.Copy does), change bytes that are still to be sent or stored.
func c10WriteKeepsNoCallerBytes(p *Prog, r *Report, rule string) {
	var keys []string
	for k, fi := range p.Funcs {
		if fi.Decl == nil || fi.Decl.Body == nil || fi.Decl.Recv == nil || fi.Decl.Name.Name != "Write" {
			continue
		}
		sig := fi.Sig()
		if sig == nil || sig.Params().Len() != 1 || sig.Results().Len() != 2 {
			continue
		}
		if sl, ok := sig.Params().At(0).Type().Underlying().(*types.Slice); !ok || !isByte(sl.Elem()) {
			continue
		}
		keys = append(keys, k)
	}
	sort.Strings(keys)
	for _, k := range keys {
		fi := p.Funcs[k]
		po := paramObjs(fi)
		if po[0] == nil {
			continue
		}
		at, what := p.retainsParam(fi, po[0], 0, map[string]bool{})
		pos := p.pos(fi.Decl)
		if at != nil {
			pos = p.pos(at)
		}
		r.Check(at == nil, rule, k+"#keeps-no-caller-bytes", pos, "the parameter is only read (copied, written through, sent before returning)",
			"Write keeps the caller's slice ("+what+"): the caller may reuse the buffer once Write has returned, and the bytes still to be sent or stored change under the writer")
	}
	r.Floor(rule, "write-methods", len(keys), 4)
}

func isByte(t types.Type) bool {
	b, ok := t.Underlying().(*types.Basic)
	return ok && (b.Kind() == types.Byte || b.Kind() == types.Uint8)
}

// retainsParam: a statement of fi that stores the slice parameter po (or an alias / reslice of it) where it
// outlives the call: a field reached from the receiver, a package-level variable, a bytes.Buffer / bytes.Reader
// built over it and stored there. Static callees of the module that receive the alias are followed (depth 2).
func (p *Prog) retainsParam(fi *FuncInfo, po types.Object, depth int, seen map[string]bool) (ast.Node, string) {
	if seen[fi.Key] {
		return nil, ""
	}
	seen[fi.Key] = true
	info := fi.Pkg.TypesInfo
	alias := map[types.Object]bool{po: true}
	var isAlias func(e ast.Expr) bool
	isAlias = func(e ast.Expr) bool {
		switch x := ast.Unparen(e).(type) {
		case *ast.Ident:
			return alias[objOf(info, x)]
		case *ast.SliceExpr:
			return isAlias(x.X)
		case *ast.StarExpr:
			return isAlias(x.X)
		case *ast.UnaryExpr:
			return x.Op == token.AND && isAlias(x.X)
		case *ast.CallExpr:
			// a view over the bytes: bytes.NewBuffer(p), bytes.NewReader(p)
			if (isFunc(info, x, "bytes", "NewBuffer") || isFunc(info, x, "bytes", "NewReader")) && len(x.Args) == 1 {
				return isAlias(x.Args[0])
			}
		case *ast.CompositeLit:
			for _, el := range x.Elts {
				if kv, ok := el.(*ast.KeyValueExpr); ok {
					el = kv.Value
				}
				if isAlias(el) {
					return true
				}
			}
		}
		return false
	}
	// local aliases, to a fixed point (flow-insensitive: `data := p; data = data[n:]`)
	for changed := true; changed; {
		changed = false
		ast.Inspect(fi.Decl.Body, func(x ast.Node) bool {
			as, ok := x.(*ast.AssignStmt)
			if !ok || len(as.Lhs) != len(as.Rhs) {
				return true
			}
			for i, l := range as.Lhs {
				id, ok := ast.Unparen(l).(*ast.Ident)
				if !ok {
					continue
				}
				o := objOf(info, id)
				if v, isVar := o.(*types.Var); isVar && !v.IsField() && v.Parent() != fi.Pkg.Types.Scope() && !alias[o] && isAlias(as.Rhs[i]) {
					alias[o] = true
					changed = true
				}
			}
			return true
		})
	}
	var recv types.Object
	if fi.Decl.Recv != nil && len(fi.Decl.Recv.List) == 1 && len(fi.Decl.Recv.List[0].Names) == 1 {
		recv = info.Defs[fi.Decl.Recv.List[0].Names[0]]
	}
	outlives := func(l ast.Expr) bool {
		// a field / element reached from the receiver, or a package-level variable
		for {
			switch x := ast.Unparen(l).(type) {
			case *ast.SelectorExpr:
				l = x.X
				if o := objOf(info, x.X); o != nil && o == recv {
					return true
				}
				continue
			case *ast.IndexExpr:
				l = x.X
				continue
			case *ast.StarExpr:
				l = x.X
				continue
			case *ast.Ident:
				if v, ok := objOf(info, x).(*types.Var); ok && !v.IsField() && v.Parent() == fi.Pkg.Types.Scope() {
					return true
				}
			}
			return false
		}
	}
	var at ast.Node
	what := ""
	ast.Inspect(fi.Decl.Body, func(x ast.Node) bool {
		if at != nil {
			return false
		}
		switch s := x.(type) {
		case *ast.AssignStmt:
			if len(s.Lhs) != len(s.Rhs) {
				return true
			}
			for i, l := range s.Lhs {
				rhs := s.Rhs[i]
				kept := isAlias(rhs)
				// append(field, alias) keeps the slice header; append(field, alias...) copies
				if c, ok := ast.Unparen(rhs).(*ast.CallExpr); ok && !kept {
					if id, ok := c.Fun.(*ast.Ident); ok && id.Name == "append" && c.Ellipsis == token.NoPos {
						for _, a := range c.Args[1:] {
							if isAlias(a) {
								kept = true
							}
						}
					}
				}
				if kept && outlives(l) {
					at, what = s, types.ExprString(l)+" = "+types.ExprString(rhs)
				}
			}
		case *ast.CallExpr:
			if depth >= 2 {
				return true
			}
			callee := p.staticCallee(fi.Pkg, s)
			if callee == nil || callee.Decl == nil || callee.Decl.Body == nil {
				return true
			}
			args := argExprs(s, callee)
			for i, cpo := range paramObjs(callee) {
				if cpo == nil || i < 0 || args[i] == nil || !isAlias(args[i]) {
					continue
				}
				if _, isSlice := cpo.Type().Underlying().(*types.Slice); !isSlice {
					continue
				}
				if n, w := p.retainsParam(callee, cpo, depth+1, seen); n != nil {
					at, what = n, fmt.Sprintf("through %s: %s", callee.Key, w)
				}
			}
		}
		return true
	})
	return at, what
}

func init() {
	wrap := func(id string, extra func(p *Prog, r *Report)) {
		old := registry[id]
		registry[id] = func(p *Prog, r *Report) {
			old(p, r)
			extra(p, r)
		}
	}
	for id, rule := range map[string]string{"C10": "C10.l", "C01": "C01.i"} {
		id, rule := id, rule
		wrap(id, func(p *Prog, r *Report) {
			r.Rule(rule, "a Write method of the product keeps no reference to its caller's slice: what stays behind after Write has returned is a copy")
			c10WriteKeepsNoCallerBytes(p, r, rule)
		})
	}
}

// c09AllStoreNeverAsksTheMirror (seeded C09-J): the all-store is built without the search mirror (WithoutSearch),
// so its per-key array is never filled. A method called on the all-store that reads the array outside the
// `!withoutSearch` maintenance guards decides by data that is always empty: the collector (or whoever calls it)
// treats every key of the all-store as having no version.
func c09AllStoreNeverAsksTheMirror(p *Prog, r *Report, rule string) {
	pkg := p.Pkg("internal/usecase/core")
	if pkg == nil {
		return
	}
	sites := 0
	reported := map[string]bool{}
	for _, k := range sortedFuncKeys(p) {
		fi := p.Funcs[k]
		if fi.Pkg != pkg || fi.Decl == nil || fi.Decl.Body == nil {
			continue
		}
		info := pkg.TypesInfo
		ast.Inspect(fi.Decl.Body, func(x ast.Node) bool {
			c, ok := x.(*ast.CallExpr)
			if !ok {
				return true
			}
			sel, ok := ast.Unparen(c.Fun).(*ast.SelectorExpr)
			if !ok {
				return true
			}
			fsel, ok := ast.Unparen(sel.X).(*ast.SelectorExpr)
			if !ok || fsel.Sel.Name != allStoreField {
				return true
			}
			if fv, ok := info.Uses[fsel.Sel].(*types.Var); !ok || !fv.IsField() {
				return true
			}
			sites++
			callee := p.staticCallee(pkg, c)
			if callee == nil {
				return true
			}
			at, via := p.readsMirrorUnguarded(callee, 0, map[string]bool{})
			cons := fmt.Sprintf("%s#all-store.%s", k, sel.Sel.Name)
			if at != nil {
				if !reported[cons] {
					reported[cons] = true
					r.Viol(rule, cons, p.pos(at), "the all-store keeps no search mirror (it is built WithoutSearch), and "+via+" reads the per-key array to decide: for the all-store the array is always empty, so every key looks as if it had no version (ReadUncommitted readers lose every key once this has run)")
				}
			} else if !reported[cons] {
				reported[cons] = true
				r.Hold(rule, cons, p.pos(c), "does not consult the search mirror")
			}
			return true
		})
	}
	r.Floor(rule, "all-store-call-sites", sites, 6)
}

// readsMirrorUnguarded: a read of the per-key array (fileFields.Arr) in fi or a static callee (depth 3) that is
// not inside an if whose condition tests the WithoutSearch flag.
func (p *Prog) readsMirrorUnguarded(fi *FuncInfo, depth int, seen map[string]bool) (ast.Node, string) {
	if seen[fi.Key] || depth > 3 {
		return nil, ""
	}
	seen[fi.Key] = true
	info := fi.Pkg.TypesInfo
	f := p.FlatOf(fi)
	mentionsFlag := func(n ast.Node, locals map[types.Object]bool) bool {
		found := false
		ast.Inspect(n, func(y ast.Node) bool {
			switch x := y.(type) {
			case *ast.SelectorExpr:
				if x.Sel.Name == fileFields.Flag {
					found = true
				}
			case *ast.Ident:
				if locals[objOf(info, x)] {
					found = true
				}
			case *ast.CallExpr:
				// a predicate of the type that reads the flag: f.indexed()
				if callee := p.staticCallee(fi.Pkg, x); callee != nil && callee.Pkg == fi.Pkg && callee.Decl.Body != nil && len(callee.Decl.Body.List) == 1 {
					if rs, ok := callee.Decl.Body.List[0].(*ast.ReturnStmt); ok {
						ast.Inspect(rs, func(z ast.Node) bool {
							if sel, ok := z.(*ast.SelectorExpr); ok && sel.Sel.Name == fileFields.Flag {
								found = true
							}
							return !found
						})
					}
				}
			}
			return !found
		})
		return found
	}
	// locals that hold the flag (indexed := !f.withoutSearch)
	locals := map[types.Object]bool{}
	for _, n := range f.Nodes {
		if as, ok := n.Ast.(*ast.AssignStmt); ok && len(as.Lhs) == len(as.Rhs) {
			for i, rhs := range as.Rhs {
				if mentionsFlag(rhs, nil) {
					if o := objOf(info, as.Lhs[i]); o != nil {
						locals[o] = true
					}
				}
			}
		}
	}
	guards := map[int]bool{}
	for _, n := range f.Nodes {
		if n.IsCond && mentionsFlag(n.Ast, locals) {
			guards[n.ID] = true
		}
	}
	for _, n := range f.Nodes {
		if n.Ast == nil {
			continue
		}
		if _, isDefer := n.Ast.(*ast.DeferStmt); isDefer {
			continue
		}
		var hit ast.Node
		ast.Inspect(n.Ast, func(x ast.Node) bool {
			if sel, ok := x.(*ast.SelectorExpr); ok && sel.Sel.Name == fileFields.Arr {
				if fv, ok := info.Uses[sel.Sel].(*types.Var); ok && fv.IsField() && shortPath(fv.Pkg().Path()) == "internal/model/core" {
					hit = sel
				}
			}
			return hit == nil
		})
		// a test of the flag on every path to the access (the guard of the maintenance code), or the access
		// sits in the very condition that tests it
		if hit != nil && !guards[n.ID] && !f.MustPrecede(guards, n.ID) {
			return hit, fi.Key
		}
		for _, c := range callsIn(n.Ast, false) {
			if callee := p.staticCallee(fi.Pkg, c); callee != nil && shortPath(callee.Pkg.PkgPath) == "internal/model/core" {
				if at, v := p.readsMirrorUnguarded(callee, depth+1, seen); at != nil {
					return at, v
				}
			}
		}
	}
	return nil, ""
}

// c09DeleteKeepsTheBytes (seeded C09-I): removing a version's content is an unlink and nothing else. A reader that
// opened the version before the collector (or a commit, a rollback) removed it keeps reading the unlinked file; a
// truncation or rewrite of the path before the unlink shortens what that reader gets.
func c09DeleteKeepsTheBytes(p *Prog, r *Report, rule string) {
	k := "(*internal/repository/content.Repo).Delete"
	fi := p.Func(k)
	if fi == nil {
		r.Undecided(rule, k, "", "content.Repo.Delete not found")
		return
	}
	contentMutators := map[string]bool{"os.Truncate": true, "os.WriteFile": true, "os.Create": true, "os.OpenFile": true,
		"(*os.File).Truncate": true, "(*os.File).Write": true, "(*os.File).WriteString": true, "(*os.File).WriteAt": true, "io/ioutil.WriteFile": true}
	var at ast.Node
	what := ""
	n := 0
	seen := map[string]bool{}
	var walk func(f *FuncInfo, depth int)
	walk = func(f *FuncInfo, depth int) {
		if seen[f.Key] || depth > 3 {
			return
		}
		seen[f.Key] = true
		n++
		ast.Inspect(f.Decl.Body, func(x ast.Node) bool {
			c, ok := x.(*ast.CallExpr)
			if !ok || at != nil {
				return at == nil
			}
			if fn, ok := typeutilCallee(f.Pkg.TypesInfo, c); ok {
				name := fn.FullName()
				if contentMutators[name] {
					at, what = c, name
					return false
				}
			}
			if callee := p.staticCallee(f.Pkg, c); callee != nil {
				walk(callee, depth+1)
			}
			return true
		})
	}
	walk(fi, 0)
	pos := p.pos(fi.Decl)
	if at != nil {
		pos = p.pos(at)
	}
	r.Check(at == nil, rule, k+"#unlinks-only", pos, fmt.Sprintf("no call that changes the file's bytes (%d functions followed)", n),
		"removing a content calls "+what+": the bytes of a version change while a reader that opened it before the removal is still reading, and that reader gets a shortened or different content")
}

func typeutilCallee(info *types.Info, c *ast.CallExpr) (*types.Func, bool) {
	var id *ast.Ident
	switch f := ast.Unparen(c.Fun).(type) {
	case *ast.SelectorExpr:
		id = f.Sel
	case *ast.Ident:
		id = f
	default:
		return nil, false
	}
	fn, ok := info.Uses[id].(*types.Func)
	return fn, ok && fn != nil
}

// c15NoLazyViewLeavesItsLock (seeded C15-J): maps.Keys / maps.Values / maps.All / slices.All / slices.Values /
// slices.Backward return iterators that read the container when they are ranged over, not when they are made. A
// method of a struct that owns a mutex and returns (or stores) such a view of one of its fields hands out an
// unlocked read of the field: the deferred unlock has run by the time the caller iterates.
func c15NoLazyViewLeavesItsLock(p *Prog, r *Report, rule string) {
	lazy := map[string]bool{"maps.Keys": true, "maps.Values": true, "maps.All": true, "slices.All": true, "slices.Values": true, "slices.Backward": true}
	methods := 0
	for _, k := range sortedFuncKeys(p) {
		fi := p.Funcs[k]
		if fi.Decl == nil || fi.Decl.Body == nil || fi.Decl.Recv == nil || len(fi.Decl.Recv.List) != 1 || len(fi.Decl.Recv.List[0].Names) != 1 {
			continue
		}
		info := fi.Pkg.TypesInfo
		recv := info.Defs[fi.Decl.Recv.List[0].Names[0]]
		if recv == nil || !ownsMutex(recv.Type()) {
			continue
		}
		methods++
		isLazyView := func(e ast.Expr) *ast.CallExpr {
			c, ok := ast.Unparen(e).(*ast.CallExpr)
			if !ok || len(c.Args) != 1 {
				return nil
			}
			fn, ok := typeutilCallee(info, c)
			if !ok || fn.Pkg() == nil || !lazy[fn.Pkg().Path()+"."+fn.Name()] {
				return nil
			}
			// of a field of the receiver
			root := c.Args[0]
			for {
				switch x := ast.Unparen(root).(type) {
				case *ast.SelectorExpr:
					root = x.X
					continue
				case *ast.IndexExpr:
					root = x.X
					continue
				case *ast.StarExpr:
					root = x.X
					continue
				}
				break
			}
			if objOf(info, root) != recv || ast.Unparen(c.Args[0]) == ast.Unparen(root) {
				return nil
			}
			return c
		}
		// locals holding a lazy view
		views := map[types.Object]*ast.CallExpr{}
		ast.Inspect(fi.Decl.Body, func(x ast.Node) bool {
			if as, ok := x.(*ast.AssignStmt); ok && len(as.Lhs) == len(as.Rhs) {
				for i, l := range as.Lhs {
					if c := isLazyView(as.Rhs[i]); c != nil {
						if o := objOf(info, l); o != nil {
							views[o] = c
						}
					}
				}
			}
			return true
		})
		viewOf := func(e ast.Expr) *ast.CallExpr {
			if c := isLazyView(e); c != nil {
				return c
			}
			if o := objOf(info, e); o != nil {
				return views[o]
			}
			return nil
		}
		var at *ast.CallExpr
		how := ""
		walkNoLit(fi.Decl.Body, func(x ast.Node) bool {
			switch s := x.(type) {
			case *ast.ReturnStmt:
				for _, res := range s.Results {
					if c := viewOf(res); c != nil {
						at, how = c, "returned"
					}
				}
			case *ast.AssignStmt:
				if len(s.Lhs) == len(s.Rhs) {
					for i, l := range s.Lhs {
						if _, isSel := ast.Unparen(l).(*ast.SelectorExpr); isSel {
							if c := viewOf(s.Rhs[i]); c != nil {
								at, how = c, "stored in "+types.ExprString(l)
							}
						}
					}
				}
			case *ast.SendStmt:
				if c := viewOf(s.Value); c != nil {
					at, how = c, "sent on a channel"
				}
			}
			return true
		})
		if at != nil {
			r.Viol(rule, k+"#lazy-view", p.pos(at), types.ExprString(at)+" is "+how+": the iterator reads "+types.ExprString(at.Args[0])+" when it is ranged over, after this method's lock has been released, concurrently with the methods that write the field")
		}
	}
	r.Hold(rule, "methods-of-mutex-owning-types", "", fmt.Sprintf("%d methods examined", methods))
	r.Floor(rule, "methods-of-mutex-owning-types", methods, 20)
}

// ownsMutex: t (or its pointee) is a struct with a sync.Mutex / sync.RWMutex field.
func ownsMutex(t types.Type) bool {
	if pt, ok := t.Underlying().(*types.Pointer); ok {
		t = pt.Elem()
	}
	st, ok := t.Underlying().(*types.Struct)
	if !ok {
		return false
	}
	for i := 0; i < st.NumFields(); i++ {
		ft := st.Field(i).Type()
		if pt, ok := ft.(*types.Pointer); ok {
			ft = pt.Elem()
		}
		if s := ft.String(); s == "sync.Mutex" || s == "sync.RWMutex" {
			return true
		}
	}
	return false
}

func init() {
	wrap := func(id string, extra func(p *Prog, r *Report)) {
		old := registry[id]
		registry[id] = func(p *Prog, r *Report) {
			old(p, r)
			extra(p, r)
		}
	}
	wrap("C09", func(p *Prog, r *Report) {
		r.Rule("C09.i", "no method called on the all-store decides by the per-key search array, which the all-store (WithoutSearch) never fills")
		c09AllStoreNeverAsksTheMirror(p, r, "C09.i")
		r.Rule("C09.j", "removing a content is an unlink only: nothing on the way truncates or rewrites the file an earlier reader still has open")
		c09DeleteKeepsTheBytes(p, r, "C09.j")
	})
	wrap("C15", func(p *Prog, r *Report) {
		r.Rule("C15.f", "no lazy iterator (maps.Keys/Values/All, slices.All/Values/Backward) over a field of a mutex-owning struct is returned, stored or sent by its methods")
		c15NoLazyViewLeavesItsLock(p, r, "C15.f")
	})
}

// c13FinishOnlyWhatTheRegistryReleased (seeded C03-I): Commit and Rollback touch a transaction's versions (publish
// them, discard them) only after the registry has released that very transaction: while the error of the
// registry's Delete may be non-nil, neither core.UpdateTx nor core.DeleteTx is reachable. With no id in the context
// the id is the main store's, which the registry never holds; discarding "its" versions empties the committed state.
func c13FinishOnlyWhatTheRegistryReleased(p *Prog, r *Report, rule string) {
	n := 0
	for _, k := range []string{kTxCommit, kTxRollback} {
		fi := p.Func(k)
		if fi == nil {
			r.Undecided(rule, k, "", "not found")
			continue
		}
		f := p.FlatInlExcept(fi, kTxRepoDelete, kCoreDeleteTx, kUpdateTx)
		sites := f.CallSites(kTxRepoDelete)
		if len(sites) == 0 {
			r.Undecided(rule, k+"#registry-release", p.pos(fi.Decl), "no call of the registry's Delete found")
			continue
		}
		for _, s := range sites {
			if s.Kind != "assigned" || s.ErrVar == nil {
				r.Undecided(rule, k+"#registry-release", p.pos(s.Call), "the error of the registry's Delete is not bound to a variable")
				continue
			}
			st := f.ErrStatesFrom(s.Node, s.ErrVar)
			for _, id := range f.CallNodes(kCoreDeleteTx, kUpdateTx) {
				if !f.ReachableAfter(s.Node, map[int]bool{id: true}, nil) {
					continue
				}
				n++
				// the dataflow tracks the non-nil worlds of the error only: any state here is a failure of Delete
				bad := strings.Join(st.at(id), ", ")
				what := "core.DeleteTx (discard)"
				if f.nodeCalls(f.Nodes[id], kUpdateTx) != nil {
					what = "core.UpdateTx (publish)"
				}
				r.Check(bad == "", rule, fmt.Sprintf("%s#%s only after the registry released the transaction", k, what), p.pos(f.Nodes[id].Ast),
					"reachable only with a nil error of the registry's Delete",
					what+" runs although the registry's Delete may have failed ("+bad+"): for an id the registry does not hold (a finished transaction, or no id at all = the main store's id) the versions stored under that id are published or thrown away; without an id header that is the whole committed state")
			}
		}
	}
	r.Floor(rule, "finishing-calls", n, 2)
}

func init() {
	wrap := func(id string, extra func(p *Prog, r *Report)) {
		old := registry[id]
		registry[id] = func(p *Prog, r *Report) {
			old(p, r)
			extra(p, r)
		}
	}
	for id, rule := range map[string]string{"C13": "C13.i", "C03": "C03.h"} {
		id, rule := id, rule
		wrap(id, func(p *Prog, r *Report) {
			r.Rule(rule, "Commit and Rollback publish / discard a transaction's versions only on the nil-error edge of the registry's Delete")
			c13FinishOnlyWhatTheRegistryReleased(p, r, rule)
		})
	}
}

// c04BatchResultIsBadgersResult (seeded C04-I): Manager.RunTransaction reports what Badger reported. Once db.Update
// has returned nil the batch is durable; a return of anything but nil on that path (the caller's ctx.Err(), a
// status of something else) makes the commit look failed: the use case throws the just-committed versions away
// while they stay in Badger, and a crash before the cleaner is done brings a "failed" commit back.
func c04BatchResultIsBadgersResult(p *Prog, r *Report, rule string) {
	k := "(*internal/db/badger.Manager).RunTransaction"
	fi := p.Func(k)
	if fi == nil {
		r.Undecided(rule, k, "", "Manager.RunTransaction not found")
		return
	}
	info := fi.Pkg.TypesInfo
	// (the Badger call may sit in a helper of the manager shared with the read paths: m.standalone(readWrite, fn))
	f := p.FlatInl(fi)
	isUpdate := func(c *ast.CallExpr) bool {
		fn, ok := typeutilCallee(info, c)
		return ok && fn.Name() == "Update" && fn.Pkg() != nil && strings.Contains(fn.Pkg().Path(), "badger")
	}
	n := 0
	for _, nd := range f.Nodes {
		if nd.Ast == nil {
			continue
		}
		for _, c := range callsIn(nd.Ast, false) {
			if !isUpdate(c) {
				continue
			}
			n++
			bs := f.bindOf(nd, c)
			cons := k + "#success-of-the-batch-is-success"
			switch bs.Kind {
			case "returned":
				r.Hold(rule, cons, p.pos(c), "the result of db.Update is returned as it is")
			case "assigned":
				st := f.ErrStatesFrom(bs.Node, bs.ErrVar)
				bad, badPos := "", ""
				// the dataflow tracks the non-nil worlds of the error: a node without a state is reached only
				// with a nil error
				for _, id := range f.ReturnNodes() {
					if !f.ReachableAfter(bs.Node, map[int]bool{id: true}, nil) {
						continue
					}
					rs := f.returnStmt(id)
					if rs == nil || len(rs.Results) != 1 {
						continue
					}
					res := ast.Unparen(rs.Results[0])
					if isNilIdent(info, res) || objOf(info, res) == bs.ErrVar {
						continue
					}
					if len(st[id]) > 0 && usesObj(info, res, bs.ErrVar) {
						continue // the failure path: the error, wrapped
					}
					bad, badPos = types.ExprString(res), p.pos(rs)
				}
				if bad != "" {
					r.Viol(rule, cons, badPos, "after db.Update has returned nil (the batch is committed) RunTransaction returns "+bad+": a durable commit is reported as failed, the use case discards its versions in memory and hands them to the cleaner while Badger keeps them")
				} else {
					r.Hold(rule, cons, p.pos(c), "every return after a nil result of db.Update returns nil")
				}
			default:
				r.Viol(rule, cons, p.pos(c), "the result of db.Update is not reported ("+bs.Kind+")")
			}
		}
	}
	r.Floor(rule, "badger-update-calls", n, 1)
}

func init() {
	wrap := func(id string, extra func(p *Prog, r *Report)) {
		old := registry[id]
		registry[id] = func(p *Prog, r *Report) {
			old(p, r)
			extra(p, r)
		}
	}
	for id, rule := range map[string]string{"C04": "C04.k", "C03": "C03.i"} {
		id, rule := id, rule
		wrap(id, func(p *Prog, r *Report) {
			r.Rule(rule, "Manager.RunTransaction returns nil whenever Badger's Update returned nil: a durable batch is never reported as failed")
			c04BatchResultIsBadgersResult(p, r, rule)
		})
	}
}

// c11ConvertedOnce (seeded C11-J): adapter ClientError turns a gRPC status into the fs_db error it stands for; given
// an error that is not a status (one it has produced itself) it answers ErrUnknown. In the external client no error
// that already went through ClientError is given to it again: not the result of a client function that converts,
// not the error of io.Copy into a writer whose Write converts.
func c11ConvertedOnce(p *Prog, r *Report, rule string) {
	pkg := p.Pkg(pkgExtDB)
	if pkg == nil {
		return
	}
	info := pkg.TypesInfo
	// functions of the client whose error results have been converted
	converts := map[string]bool{}
	for _, k := range sortedFuncKeys(p) {
		fi := p.Funcs[k]
		if fi.Pkg != pkg || fi.Decl == nil || fi.Decl.Body == nil {
			continue
		}
		ast.Inspect(fi.Decl.Body, func(x ast.Node) bool {
			if c, ok := x.(*ast.CallExpr); ok && p.callIs(pkg, c, kAdClientErr) {
				converts[k] = true
			}
			return true
		})
	}
	// convertedSource: the error of this call has (possibly) been converted already
	convertedSource := func(c *ast.CallExpr) string {
		if callee := p.staticCallee(pkg, c); callee != nil && callee.Pkg == pkg && converts[callee.Key] {
			return callee.Key
		}
		if fn, ok := typeutilCallee(info, c); ok && fn.Pkg() != nil && fn.Pkg().Path() == "io" && len(c.Args) >= 2 {
			switch fn.Name() {
			case "Copy", "CopyN", "CopyBuffer", "WriteString":
				for _, a := range c.Args[:2] {
					tv, ok := info.Types[a]
					if !ok {
						continue
					}
					for _, mname := range []string{"Write", "Read"} {
						obj, _, _ := types.LookupFieldOrMethod(tv.Type, true, pkg.Types, mname)
						if m, ok := obj.(*types.Func); ok {
							if mfi := p.funcOfObj(m); mfi != nil && mfi.Pkg == pkg && converts[mfi.Key] {
								return mfi.Key + " (through io." + fn.Name() + ")"
							}
						}
					}
				}
			}
		}
		return ""
	}
	sites := 0
	for _, k := range sortedFuncKeys(p) {
		fi := p.Funcs[k]
		if fi.Pkg != pkg || fi.Decl == nil || fi.Decl.Body == nil {
			continue
		}
		f := p.FlatOf(fi)
		for _, nd := range f.Nodes {
			if nd.Ast == nil {
				continue
			}
			for _, c := range callsIn(nd.Ast, false) {
				if !p.callIs(pkg, c, kAdClientErr) || len(c.Args) != 1 {
					continue
				}
				sites++
				src := ""
				switch a := ast.Unparen(c.Args[0]).(type) {
				case *ast.CallExpr:
					src = convertedSource(a)
				case *ast.Ident:
					if o := objOf(info, a); o != nil {
						for _, d := range f.ReachingDefs(nd.ID, o) {
							if dc, ok := d.Rhs.(*ast.CallExpr); ok && d.Rhs != nil {
								if s := convertedSource(dc); s != "" {
									src = s
								}
							}
						}
					}
				}
				cons := fmt.Sprintf("%s#converted-once/%s", k, p.pos(c))
				if src != "" {
					r.Viol(rule, fmt.Sprintf("%s#converted-once", k), p.pos(c), "ClientError is applied to an error that "+src+" has already converted: the second conversion finds no gRPC status in it and answers ErrUnknown, the sentinel the server sent is lost")
				} else {
					_ = cons
				}
			}
		}
	}
	r.Hold(rule, "client-conversion-sites", "", fmt.Sprintf("%d ClientError call sites in %s examined, %d converting functions", sites, pkgExtDB, len(converts)))
	r.Floor(rule, "client-conversion-sites", sites, 10)
}

func init() {
	old := registry["C11"]
	registry["C11"] = func(p *Prog, r *Report) {
		old(p, r)
		r.Rule("C11.m", "the external client converts every transport error exactly once: ClientError is never given an error that a converting function or writer of the client has produced")
		c11ConvertedOnce(p, r, "C11.m")
	}
}

// storageCall: c is x.<name>(..) on the registry's storage: an ordered map under whatever name (a type that has
// both Load and Delete).
func storageCall(info *types.Info, c *ast.CallExpr, name string) bool {
	sel, ok := ast.Unparen(c.Fun).(*ast.SelectorExpr)
	if !ok || sel.Sel.Name != name {
		return false
	}
	tv, ok := info.Types[sel.X]
	if !ok {
		return false
	}
	t := tv.Type
	if _, isPtr := t.(*types.Pointer); !isPtr {
		t = types.NewPointer(t)
	}
	ms := types.NewMethodSet(t)
	has := map[string]bool{}
	for i := 0; i < ms.Len(); i++ {
		has[ms.At(i).Obj().Name()] = true
	}
	return has["Load"] && has["Delete"]
}

// c13RegistryDeleteIsOneStep (seeded C13-I): the registry's Delete finds the transaction and removes it in one
// exclusive region: both the lookup and the removal run with the registry's lock write-held, and the lock is not
// released in between. Otherwise two finishers of one transaction both find it: two Commits succeed, or a Commit
// succeeds for data a Rollback has thrown away.
func c13RegistryDeleteIsOneStep(p *Prog, r *Report, rule string) {
	fi := p.Func(kTxRepoDelete)
	if fi == nil {
		return
	}
	recv := "r"
	if fi.Decl.Recv != nil && len(fi.Decl.Recv.List[0].Names) == 1 {
		recv = fi.Decl.Recv.List[0].Names[0].Name
	}
	var loads, dels, rels []*LockEvent
	for _, ev := range p.DeepLockEvents(fi, nil, 2) {
		switch {
		case ev.Kind == "call" && ev.Call != nil && ev.Fn != nil && ev.Fn.Pkg == fi.Pkg && storageCall(ev.Fn.Pkg.TypesInfo, ev.Call, "Load"):
			loads = append(loads, ev) // in Delete itself or in a helper of the registry it calls (registered(id))
		case ev.Kind == "call" && ev.Call != nil && ev.Fn != nil && ev.Fn.Pkg == fi.Pkg && storageCall(ev.Fn.Pkg.TypesInfo, ev.Call, "Delete"):
			dels = append(dels, ev)
		case ev.Kind == "release" && ev.Ctx == "" && ev.Fn == fi:
			rels = append(rels, ev)
		}
	}
	cons := kTxRepoDelete + "#find-and-remove-in-one-exclusive-region"
	if len(loads) == 0 || len(dels) == 0 {
		r.Undecided(rule, cons, p.pos(fi.Decl), "the lookup / the removal on the registry's storage was not found")
		return
	}
	wHeld := func(hs []Held) bool {
		for _, h := range hs {
			if h.Mode == "W" && (strings.HasPrefix(h.Path, recv+".") || strings.Contains(h.Class, "repository/transaction.")) {
				return true
			}
		}
		return false
	}
	for _, ev := range append(append([]*LockEvent{}, loads...), dels...) {
		if !wHeld(ev.Held) {
			r.Viol(rule, cons, p.pos(ev.Call), fmt.Sprintf("%s runs holding %s, not the registry's lock in write mode: two finishers of one transaction can both find it registered (two successful Commits, or a successful Commit of data a Rollback has discarded)", types.ExprString(ev.Call.Fun), heldString(ev.Held)))
			return
		}
	}
	// no release between the lookup and the removal
	f := p.FlatOf(fi)
	for _, l := range loads {
		ln := f.NodeContaining(l.Call)
		for _, d := range dels {
			dn := f.NodeContaining(d.Call)
			for _, rel := range rels {
				rn := -1
				if rel.Call != nil {
					rn = f.NodeContaining(rel.Call)
				}
				if ln < 0 || dn < 0 || rn < 0 {
					continue
				}
				if f.ReachableAfter(ln, map[int]bool{rn: true}, nil) && f.ReachableAfter(rn, map[int]bool{dn: true}, nil) && !f.ReachableAfter(dn, map[int]bool{ln: true}, nil) {
					r.Viol(rule, cons, p.pos(rel.Call), "the registry's lock is released between the lookup and the removal: two finishers of one transaction can both find it registered")
					return
				}
			}
		}
	}
	r.Hold(rule, cons, p.pos(fi.Decl), "lookup and removal under one write-held region of the registry's lock")
}

func init() {
	old := registry["C13"]
	registry["C13"] = func(p *Prog, r *Report) {
		old(p, r)
		r.Rule("C13.j", "exactly one finisher per transaction: the registry's Delete looks the transaction up and removes it under one write-held region of its lock")
		c13RegistryDeleteIsOneStep(p, r, "C13.j")
	}
}

// boolWorlds enumerates the values the free boolean locals of cond can have at node: for each such variable the
// constants among its reaching definitions (a definition that is not a constant gives both values).
func boolWorlds(f *Flat, node int, cond ast.Expr, known map[types.Object]bool) []map[types.Object]bool {
	info := f.Pkg.TypesInfo
	var vars []types.Object
	seen := map[types.Object]bool{}
	ast.Inspect(cond, func(x ast.Node) bool {
		id, ok := x.(*ast.Ident)
		if !ok {
			return true
		}
		v, ok := info.Uses[id].(*types.Var)
		if !ok || v.IsField() || known[v] || seen[v] {
			return true
		}
		if b, ok := v.Type().Underlying().(*types.Basic); ok && b.Info()&types.IsBoolean != 0 {
			seen[v] = true
			vars = append(vars, v)
		}
		return true
	})
	worlds := []map[types.Object]bool{{}}
	for _, v := range vars {
		vals := map[bool]bool{}
		defs := f.ReachingDefs(node, v)
		if len(defs) == 0 {
			vals[true], vals[false] = true, true
		}
		for _, d := range defs {
			if d.Rhs == nil {
				vals[false] = true // var b bool
				continue
			}
			if tv, ok := info.Types[d.Rhs]; ok && tv.Value != nil && tv.Value.Kind() == constant.Bool {
				vals[constant.BoolVal(tv.Value)] = true
			} else {
				vals[true], vals[false] = true, true
			}
		}
		var next []map[types.Object]bool
		for _, w := range worlds {
			for _, b := range []bool{false, true} {
				if !vals[b] {
					continue
				}
				nw := map[types.Object]bool{v: b}
				for k, x := range w {
					nw[k] = x
				}
				next = append(next, nw)
			}
		}
		worlds = next
	}
	return worlds
}

// c17NoRoomNeverTried (seeded C17-J): store.Set never writes into a directory that reports no free space. The
// registry reports zero for a directory whose root is not among the configured ones (it is only measured for
// configured roots), so this skip is what keeps content out of roots that are not configured any more.
func c17NoRoomNeverTried(p *Prog, r *Report, rule string) {
	fi := p.Func(kStoreSet)
	if fi == nil {
		return
	}
	info := fi.Pkg.TypesInfo
	f := p.FlatInl(fi)
	cons := kStoreSet + "#a-directory-without-free-space-is-never-tried"
	var dirObj types.Object
	for _, body := range p.deepBodies(fi) {
		for _, rs := range rangeLoops(body) {
			if c, ok := ast.Unparen(rs.X).(*ast.CallExpr); ok && p.callIs(fi.Pkg, c, kDirsIterate) && rs.Key != nil {
				dirObj = objOf(info, rs.Key)
			}
		}
	}
	var mins *placeSet
	if dirObj != nil {
		mins = minPlaces(f, dirObj)
	}
	if mins == nil || len(mins.keys) == 0 {
		r.Undecided(rule, cons, p.pos(fi.Decl), "the variable remembering the free space of the failed attempt was not found")
		return
	}
	// (the places that are plain variables, for the flag worlds of the guard)
	minObjs := map[types.Object]bool{}
	for _, n := range f.Nodes {
		if as, ok := n.Ast.(*ast.AssignStmt); ok {
			for _, l := range as.Lhs {
				if id, ok := ast.Unparen(l).(*ast.Ident); ok && mins.has(id) {
					if o := objOf(info, id); o != nil {
						minObjs[o] = true
					}
				}
			}
		}
	}
	stores := setOf(f.CallNodes(kContentStore))
	found := false
	for _, n := range f.Nodes {
		if !n.IsCond || !mins.mentions(n.Ast) {
			continue
		}
		mentionsFree := false
		ast.Inspect(n.Ast, func(x ast.Node) bool {
			if sel, ok := x.(*ast.SelectorExpr); ok && sel.Sel.Name == "Free" {
				mentionsFree = true
			}
			return true
		})
		if !mentionsFree {
			continue
		}
		found = true
		for _, w := range boolWorlds(f, n.ID, n.Ast.(ast.Expr), minObjs) {
			env := &Env{P: p, Pkg: fi.Pkg, Vars: map[types.Object]*Val{}}
			desc := ""
			for o, b := range w {
				env.Vars[o] = boolVal(b)
				desc += fmt.Sprintf(" with %s=%v", o.Name(), b)
			}
			env.Hook = func(env *Env, e ast.Expr) (*Val, bool) {
				if sel, ok := e.(*ast.SelectorExpr); ok && sel.Sel.Name == "Free" {
					return intVal(0), true
				}
				switch e.(type) {
				case *ast.Ident, *ast.SelectorExpr:
					if mins.has(e) {
						return intVal(0), true
					}
				}
				return nil, false
			}
			v, err := env.Eval(n.Ast.(ast.Expr))
			if err != nil || v.C == nil {
				r.Undecided(rule, cons, p.pos(n.Ast), fmt.Sprintf("guard not evaluable: %v", err))
				return
			}
			taken := 2
			if constant.BoolVal(v.C) {
				taken = 1
			}
			tries := false
			for _, e := range n.Succs {
				if e.Label == taken {
					reach := f.Reach([]int{e.To}, func(x *GNode) bool { return x.Block != nil && x.Block.Kind.String() == "RangeLoop" && x.Ast == nil }, nil)
					for id := range reach {
						if stores[id] {
							tries = true
						}
					}
				}
			}
			if tries {
				r.Viol(rule, cons, p.pos(n.Ast), "on the first attempt (nothing has failed yet)"+desc+" a directory that reports Free = 0 is written to: the registry reports 0 for every directory whose root is not configured (re-activated by the collector after a reopen with fewer roots), so content is created outside the configured roots")
				return
			}
		}
		r.Hold(rule, cons, p.pos(n.Ast), "Free = 0 is skipped in every reachable state of the guard's flags")
	}
	if !found {
		r.Undecided(rule, cons, p.pos(fi.Decl), "no guard comparing a directory's free space with the failed attempt's was found")
	}
}

func init() {
	old := registry["C17"]
	registry["C17"] = func(p *Prog, r *Report) {
		old(p, r)
		r.Rule("C17.n", "store.Set skips a directory that reports no free space in every state of the loop (directories of roots that are not configured report 0)")
		c17NoRoomNeverTried(p, r, "C17.n")
	}
}

// c07NextIsOneAtomicStep (seeded C07-J): sequence.Next hands out each number once. The value it returns is the
// result of one atomic read-modify-write of the counter (atomic.Add, or the value a successful compare-and-swap
// installed, or an increment under a mutex); a number computed from an atomic load and written back separately can
// be handed to two callers: a Begin and a commit that draw the same number neither see nor conflict with each other.
func c07NextIsOneAtomicStep(p *Prog, r *Report, rule string) {
	fi := p.Func(kSeqNext)
	if fi == nil {
		r.Undecided(rule, kSeqNext, "", "sequence.Next not found")
		return
	}
	info := fi.Pkg.TypesInfo
	scope := fi.Pkg.Types.Scope()
	cons := kSeqNext + "#one-atomic-read-modify-write"
	isCounter := func(e ast.Expr) bool {
		e = ast.Unparen(e)
		if u, ok := e.(*ast.UnaryExpr); ok && u.Op == token.AND {
			e = ast.Unparen(u.X)
		}
		v, ok := objOfSel(info, e).(*types.Var)
		if !ok || (!v.IsField() && v.Parent() != scope) {
			return false
		}
		t := v.Type().String()
		if b, ok := v.Type().Underlying().(*types.Basic); ok && b.Info()&types.IsInteger != 0 {
			return true
		}
		return strings.HasPrefix(t, "sync/atomic.")
	}
	f := p.FlatInl(fi)
	var rmw, loads []*ast.CallExpr
	var casNodes []int
	underMutex := false
	for _, n := range f.Nodes {
		if n.Ast == nil {
			continue
		}
		for _, c := range callsIn(n.Ast, false) {
			name := exprPath(c.Fun)
			sel, isSel := ast.Unparen(c.Fun).(*ast.SelectorExpr)
			switch {
			case strings.HasPrefix(name, "atomic.Add") && len(c.Args) == 2 && isCounter(c.Args[0]):
				rmw = append(rmw, c)
			case isSel && sel.Sel.Name == "Add" && isCounter(sel.X):
				rmw = append(rmw, c)
			case strings.HasPrefix(name, "atomic.CompareAndSwap") && len(c.Args) == 3 && isCounter(c.Args[0]),
				isSel && sel.Sel.Name == "CompareAndSwap" && isCounter(sel.X):
				if n.IsCond {
					casNodes = append(casNodes, n.ID)
				}
			case strings.HasPrefix(name, "atomic.Load") && len(c.Args) == 1 && isCounter(c.Args[0]),
				isSel && sel.Sel.Name == "Load" && isCounter(sel.X):
				loads = append(loads, c)
			case isSel && sel.Sel.Name == "Lock":
				if tv, ok := info.Types[sel.X]; ok && strings.HasSuffix(tv.Type.String(), "sync.Mutex") {
					underMutex = true
				}
			}
		}
	}
	contains := func(e ast.Expr, cs []*ast.CallExpr) bool {
		found := false
		ast.Inspect(e, func(x ast.Node) bool {
			for _, c := range cs {
				if x == c {
					found = true
				}
			}
			return !found
		})
		return found
	}
	fromRMW := func(node int, e ast.Expr) bool {
		if contains(e, rmw) {
			return true
		}
		ok := false
		ast.Inspect(e, func(x ast.Node) bool {
			if id, isId := x.(*ast.Ident); isId {
				for _, o := range f.Origins(node, id) {
					if contains(o, rmw) {
						ok = true
					}
				}
			}
			return !ok
		})
		return ok
	}
	// a successful compare-and-swap: returns reachable only through the true edge of a CAS condition
	g := f.WithoutEdges(func(from *GNode, e Edge) bool {
		for _, c := range casNodes {
			if from.ID == c && e.Label == 1 {
				return true
			}
		}
		return false
	})
	noCAS := g.Reach([]int{g.Entry}, nil, nil)
	bad := ""
	n := 0
	for _, id := range f.ReturnNodes() {
		rs := f.returnStmt(id)
		if rs == nil || len(rs.Results) != 1 {
			continue
		}
		n++
		switch {
		case fromRMW(id, rs.Results[0]):
		case len(casNodes) > 0 && !noCAS[id]:
		case underMutex:
		default:
			bad = p.pos(rs)
		}
	}
	if n == 0 {
		r.Undecided(rule, cons, p.pos(fi.Decl), "no return of a value found in sequence.Next")
		return
	}
	how := "a plain read of the counter"
	if len(loads) > 0 {
		how = "an atomic load of the counter (" + p.pos(loads[0]) + ") and written back separately"
	}
	r.Check(bad == "", rule, cons, firstNonEmpty(bad, p.pos(fi.Decl)), "the returned number is the result of one atomic read-modify-write of the counter",
		"the number Next returns is computed from "+how+": two callers that overlap get the same number; a transaction that begins with the number a commit stamps neither sees that commit nor conflicts with it, and both commits succeed")
}

func firstNonEmpty(a, b string) string {
	if a != "" {
		return a
	}
	return b
}

func init() {
	wrap := func(id string, extra func(p *Prog, r *Report)) {
		old := registry[id]
		registry[id] = func(p *Prog, r *Report) {
			old(p, r)
			extra(p, r)
		}
	}
	for id, rule := range map[string]string{"C07": "C07.c", "C08": "C08.e", "C05": "C05.g"} {
		id, rule := id, rule
		wrap(id, func(p *Prog, r *Report) {
			r.Rule(rule, "sequence.Next returns the result of one atomic read-modify-write of the counter: no number is handed out twice")
			c07NextIsOneAtomicStep(p, r, rule)
		})
	}
}

// bufferViewCall: c is recv.<field>.Bytes() or recv.<field>.Next(n) on a bytes.Buffer: a slice into the buffer's
// own memory, valid only until the buffer is next written, read or reset.
func bufferViewCall(info *types.Info, c *ast.CallExpr) (method string, buf ast.Expr, ok bool) {
	sel, isSel := ast.Unparen(c.Fun).(*ast.SelectorExpr)
	if !isSel || (sel.Sel.Name != "Bytes" && sel.Sel.Name != "Next") {
		return "", nil, false
	}
	tv, has := info.Types[sel.X]
	if !has {
		return "", nil, false
	}
	t := tv.Type
	if pt, isPtr := t.(*types.Pointer); isPtr {
		t = pt.Elem()
	}
	if t.String() != "bytes.Buffer" {
		return "", nil, false
	}
	return sel.Sel.Name, sel.X, true
}

// c12NoBufferViewOutsideTheLock (seeded C12-I): a slice returned by Bytes / Next of a buffer that a mutex guards is
// used only while that mutex is held: once the lock is released the other side may write, and bytes.Buffer reuses
// (resets, slides) the memory the slice points into.
func c12NoBufferViewOutsideTheLock(p *Prog, r *Report, rule string) {
	methods, views := 0, 0
	for _, k := range sortedFuncKeys(p) {
		fi := p.Funcs[k]
		if fi.Decl == nil || fi.Decl.Body == nil || fi.Decl.Recv == nil || len(fi.Decl.Recv.List) != 1 || len(fi.Decl.Recv.List[0].Names) != 1 {
			continue
		}
		info := fi.Pkg.TypesInfo
		recv := info.Defs[fi.Decl.Recv.List[0].Names[0]]
		if recv == nil || !ownsMutex(recv.Type()) {
			continue
		}
		methods++
		f := p.FlatOf(fi)
		isMutexOp := func(n *GNode, names ...string) bool {
			if n.Ast == nil {
				return false
			}
			if _, isDefer := n.Ast.(*ast.DeferStmt); isDefer {
				return false
			}
			for _, c := range callsIn(n.Ast, false) {
				sel, ok := ast.Unparen(c.Fun).(*ast.SelectorExpr)
				if !ok {
					continue
				}
				for _, nm := range names {
					if sel.Sel.Name != nm {
						continue
					}
					if tv, ok := info.Types[sel.X]; ok {
						if s := tv.Type.String(); s == "sync.Mutex" || s == "sync.RWMutex" || s == "*sync.Mutex" || s == "*sync.RWMutex" {
							return true
						}
					}
				}
			}
			return false
		}
		for _, n := range f.Nodes {
			as, ok := n.Ast.(*ast.AssignStmt)
			if !ok || len(as.Lhs) != len(as.Rhs) {
				continue
			}
			for i, rhs := range as.Rhs {
				c, ok := ast.Unparen(rhs).(*ast.CallExpr)
				if !ok {
					continue
				}
				m, buf, ok := bufferViewCall(info, c)
				if !ok {
					continue
				}
				root := buf
				for {
					if sel, ok := ast.Unparen(root).(*ast.SelectorExpr); ok {
						root = sel.X
						continue
					}
					break
				}
				if objOf(info, root) != recv {
					continue
				}
				view := objOf(info, as.Lhs[i])
				if view == nil {
					continue
				}
				views++
				// a use of the view after an explicit unlock (no lock taken again in between)
				unlocked := f.Reach(f.succsOf(n.ID), func(x *GNode) bool { return false }, nil)
				bad := ""
				for id := range unlocked {
					u := f.Nodes[id]
					if !isMutexOp(u, "Unlock", "RUnlock") {
						continue
					}
					after := f.Reach(f.succsOf(u.ID), func(x *GNode) bool { return isMutexOp(x, "Lock", "RLock") }, nil)
					for uid := range after {
						un := f.Nodes[uid]
						if un.Ast != nil && uid != n.ID && usesObj(info, un.Ast, view) {
							if _, reassign := un.Ast.(*ast.AssignStmt); reassign && len(assignedObjs(info, un.Ast)) > 0 && assignedObjs(info, un.Ast)[0] == view {
								continue
							}
							bad = p.pos(un.Ast)
						}
					}
				}
				r.Check(bad == "", rule, fmt.Sprintf("%s#view-of-%s.%s-used-under-the-lock", k, types.ExprString(buf), m), firstNonEmpty(bad, p.pos(c)), "the slice is used only while the lock is held",
					"the slice returned by "+types.ExprString(c.Fun)+" is used after the lock has been released: a concurrent Write reuses the buffer's memory (reset, slide) while these bytes are still being copied, and what is stored is not what was written")
			}
		}
	}
	r.Hold(rule, "methods-of-mutex-owning-types", "", fmt.Sprintf("%d methods examined, %d buffer views", methods, views))
	r.Floor(rule, "methods-of-mutex-owning-types", methods, 20)
}

// c12SentBytesLeaveTheBuffer (seeded C12-J): in the stream writer's Write every byte is sent once: a chunk sent from
// the pending buffer is taken out of it. Sending the non-consuming view Bytes() without a Reset on every path to
// the end of Write sends the same bytes again with the next chunk.
func c12SentBytesLeaveTheBuffer(p *Prog, r *Report, rule string) {
	// the Write method of the stream writer, whatever its type is called
	var fi *FuncInfo
	for _, key := range sortedFuncKeys(p) {
		if c := p.Funcs[key]; c.Decl != nil && c.Decl.Body != nil && c.Decl.Recv != nil && c.Decl.Name.Name == "Write" && shortPath(c.Pkg.PkgPath) == "internal/utils/grpc/streamwriter" {
			fi = c
		}
	}
	if fi == nil {
		r.Undecided(rule, "internal/utils/grpc/streamwriter#Write", "", "the stream writer's Write not found")
		return
	}
	k := fi.Key
	info := fi.Pkg.TypesInfo
	f := p.FlatOf(fi)
	cons := k + "#each-byte-sent-once"
	bad := ""
	for _, n := range f.Nodes {
		if n.Ast == nil {
			continue
		}
		for _, c := range callsIn(n.Ast, false) {
			m, buf, ok := bufferViewCall(info, c)
			if !ok || m != "Bytes" {
				continue
			}
			// is the view handed to a call (sent)? directly or through the local it is assigned to
			var view types.Object
			if as, ok := n.Ast.(*ast.AssignStmt); ok && len(as.Lhs) == len(as.Rhs) {
				for i, rhs := range as.Rhs {
					if ast.Unparen(rhs) == c {
						view = objOf(info, as.Lhs[i])
					}
				}
			}
			var sends []int
			for _, m2 := range f.Nodes {
				if m2.Ast == nil {
					continue
				}
				for _, c2 := range callsIn(m2.Ast, false) {
					if c2 == c || p.staticCallee(fi.Pkg, c2) == nil {
						continue
					}
					for _, a := range c2.Args {
						if ast.Unparen(a) == c || (view != nil && objOf(info, a) == view) {
							sends = append(sends, m2.ID)
						}
					}
				}
			}
			for _, s := range sends {
				// every path from the send to a return passes a Reset / Truncate of that buffer
				resets := f.Match(func(x *GNode) bool {
					for _, c3 := range callsIn(x.Ast, false) {
						if sel, ok := ast.Unparen(c3.Fun).(*ast.SelectorExpr); ok && (sel.Sel.Name == "Reset" || sel.Sel.Name == "Truncate") && types.ExprString(sel.X) == types.ExprString(buf) {
							return true
						}
					}
					return false
				})
				rs := setOf(resets)
				reach := f.Reach(f.succsOf(s), func(x *GNode) bool { return rs[x.ID] }, nil)
				for _, ret := range f.successReturns(fi) {
					if reach[ret] {
						bad = p.pos(f.Nodes[s].Ast)
					}
				}
			}
		}
	}
	r.Check(bad == "", rule, cons, firstNonEmpty(bad, p.pos(fi.Decl)), "what Write sends from the pending buffer is taken out of it",
		"Write sends the pending bytes as the view Bytes() and leaves them in the buffer: they are sent a second time with the next chunk, and the stored content is not the concatenation of the writes")
}

func init() {
	wrap := func(id string, extra func(p *Prog, r *Report)) {
		old := registry[id]
		registry[id] = func(p *Prog, r *Report) {
			old(p, r)
			extra(p, r)
		}
	}
	wrap("C12", func(p *Prog, r *Report) {
		r.Rule("C12.h", "a slice into a mutex-guarded bytes.Buffer (Bytes / Next) is used only while the mutex is held")
		c12NoBufferViewOutsideTheLock(p, r, "C12.h")
		r.Rule("C12.i", "the stream writer sends each pending byte once: a Bytes() view that is sent is followed by a Reset on every path to the end of Write")
		c12SentBytesLeaveTheBuffer(p, r, "C12.i")
	})
	wrap("C15", func(p *Prog, r *Report) {
		r.Rule("C15.g", "a slice into a mutex-guarded bytes.Buffer is used only while the mutex is held (= C12.h)")
		c12NoBufferViewOutsideTheLock(p, r, "C15.g")
	})
}

// c14FinishedMeansPublishedOrDiscarded (seeded C14-J): once the registry has released a transaction, Commit and
// Rollback leave only through core.UpdateTx / core.DeleteTx: the transaction's versions are published or handed to
// the cleaner. A return in between (a rejected isolation level, a validation) strands them: the follow-up Rollback
// finds no transaction and does nothing, and the versions stay in the store and on disk until the next restart.
func c14FinishedMeansPublishedOrDiscarded(p *Prog, r *Report, rule string) {
	for _, k := range []string{kTxCommit, kTxRollback} {
		fi := p.Func(k)
		if fi == nil {
			r.Undecided(rule, k, "", "not found")
			continue
		}
		f := p.FlatInlExcept(fi, kTxRepoDelete, kCoreDeleteTx, kUpdateTx)
		cons := k + "#released-then-published-or-discarded"
		sites := f.CallSites(kTxRepoDelete)
		if len(sites) == 0 {
			r.Undecided(rule, cons, p.pos(fi.Decl), "no call of the registry's Delete found")
			continue
		}
		finish := setOf(f.CallNodes(kCoreDeleteTx, kUpdateTx))
		for _, s := range sites {
			if s.Kind != "assigned" || s.ErrVar == nil {
				r.Undecided(rule, cons, p.pos(s.Call), "the error of the registry's Delete is not bound to a variable")
				continue
			}
			st := f.ErrStatesFrom(s.Node, s.ErrVar)
			// (nil facts: a nil-passing wrapper `failed(step, err)` spliced in after `if err != nil` does not take its
			// own "err == nil" exit)
			reach := f.ReachNil(f.succsOf(s.Node), func(n *GNode) bool { return finish[n.ID] })
			bad := ""
			for _, id := range f.ReturnNodes() {
				// a return reached without a finishing call, and not on the failure path of Delete itself
				if reach[id] && len(st[id]) == 0 {
					bad = p.pos(f.Nodes[id].Ast)
				}
			}
			r.Check(bad == "", rule, cons, firstNonEmpty(bad, p.pos(s.Call)), "after the registry released the transaction every return passes core.UpdateTx / core.DeleteTx",
				"a return after the registry has released the transaction bypasses both core.UpdateTx and core.DeleteTx: the transaction's versions are neither published nor handed to the cleaner, and no later call can reach them (Rollback finds no transaction and returns nil)")
		}
	}
}

func init() {
	wrap := func(id string, extra func(p *Prog, r *Report)) {
		old := registry[id]
		registry[id] = func(p *Prog, r *Report) {
			old(p, r)
			extra(p, r)
		}
	}
	for id, rule := range map[string]string{"C14": "C14.i", "C03": "C03.j"} {
		id, rule := id, rule
		wrap(id, func(p *Prog, r *Report) {
			r.Rule(rule, "a finished transaction's versions are published or discarded: after the registry's Delete succeeded, Commit / Rollback return only through core.UpdateTx / core.DeleteTx")
			c14FinishedMeansPublishedOrDiscarded(p, r, rule)
		})
	}
}

// c14DrainLoopsPopEverything (seeded C14-I): the loops of UpdateTx / DeleteTx / DeleteOld that take the remaining
// versions of a key pop until the list is empty. A counted loop whose bound is re-read from the list it pops
// (for i := 0; i < f.Len(); i++ { f.PopFront() }) stops half way: the bound shrinks while the counter grows, and
// what is left is neither published nor handed to the cleaner.
func c14DrainLoopsPopEverything(p *Prog, r *Report, rule string) {
	n := 0
	for _, k := range []string{kUpdateTx, kCoreDeleteTx, kCoreDeleteOld} {
		fi := p.Func(k)
		if fi == nil {
			continue
		}
		info := fi.Pkg.TypesInfo
		var loops []*ast.ForStmt
		for _, body := range p.deepBodies(fi) {
			loops = append(loops, forLoops(body)...)
		}
		for _, loop := range loops {
			// the list the loop pops from
			popped := ""
			var scope []ast.Node
			if loop.Post != nil {
				scope = append(scope, loop.Post)
			}
			if loop.Init != nil {
				scope = append(scope, loop.Init)
			}
			scope = append(scope, loop.Body)
			for _, sc := range scope {
				ast.Inspect(sc, func(x ast.Node) bool {
					if inner, ok := x.(*ast.ForStmt); ok && inner != loop {
						return false
					}
					if c, ok := x.(*ast.CallExpr); ok {
						if sel, ok := ast.Unparen(c.Fun).(*ast.SelectorExpr); ok && (sel.Sel.Name == "PopFront" || sel.Sel.Name == "PopBack") {
							popped = types.ExprString(sel.X)
						}
					}
					return true
				})
			}
			if popped == "" {
				continue
			}
			n++
			if loop.Cond == nil {
				r.Hold(rule, fmt.Sprintf("%s#drain-loop/%d pops until the list is empty", k, n), p.pos(loop), "the loop leaves through a test in its body")
				continue
			}
			cons := fmt.Sprintf("%s#drain-loop/%d pops until the list is empty", k, n)
			// counted: i < <popped>.M() with i stepped in Post
			counted := false
			if be, ok := ast.Unparen(loop.Cond).(*ast.BinaryExpr); ok && (be.Op == token.LSS || be.Op == token.LEQ || be.Op == token.GTR || be.Op == token.GEQ) {
				for _, side := range []ast.Expr{be.X, be.Y} {
					if c, ok := ast.Unparen(side).(*ast.CallExpr); ok {
						if sel, ok := ast.Unparen(c.Fun).(*ast.SelectorExpr); ok && types.ExprString(sel.X) == popped {
							if _, isInc := loop.Post.(*ast.IncDecStmt); isInc {
								counted = true
							}
						}
					}
					if c, ok := ast.Unparen(side).(*ast.CallExpr); ok {
						if id, ok := c.Fun.(*ast.Ident); ok && id.Name == "len" && len(c.Args) == 1 && strings.HasPrefix(types.ExprString(c.Args[0]), popped+".") {
							if _, isInc := loop.Post.(*ast.IncDecStmt); isInc {
								counted = true
							}
						}
					}
				}
			}
			_ = info
			r.Check(!counted, rule, cons, p.pos(loop), "the loop does not count against a bound re-read from the list it pops",
				"the loop counts up to a bound it re-reads from "+popped+" on every iteration while popping from it: the bound shrinks as the counter grows, only half of the versions are taken, and the rest is neither published nor handed to the cleaner")
		}
	}
	r.Floor(rule, "drain-loops", n, 2)
}

func init() {
	old := registry["C14"]
	registry["C14"] = func(p *Prog, r *Report) {
		old(p, r)
		r.Rule("C14.j", "the loops that take the remaining versions of a key pop until the list is empty (no counted loop against a bound re-read from the shrinking list)")
		c14DrainLoopsPopEverything(p, r, "C14.j")
	}
}
