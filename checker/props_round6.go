package main

// Rules added after the fifth round of seeded changes (DESIGN.md 8.15). Each is a structural necessary
// condition of the property it is registered under, silent on the pinned tree and on the refactoring corpus.

import (
	"fmt"
	"go/ast"
	"go/token"
	"go/types"
	"sort"
)

// c10WriteKeepsNoCallerBytes (seeded C10-J): an io.Writer of the product copies what it keeps. A Write method that
// stores its parameter (or a reslice of it) into its receiver lets the caller, who may reuse the buffer as soon
// as Write has returned (io.Writer contract; io.Copy does), change bytes that are still to be sent or stored.
func c10WriteKeepsNoCallerBytes(p *Prog, r *Report, rule string) {
	var keys []string
	for k, fi := range p.Funcs {
		if fi.Decl == nil || fi.Decl.Body == nil || fi.Decl.Recv == nil || fi.Decl.Name.Name != "Write" {
			continue
		}
		sig := fi.Sig()
		if sig == nil || sig.Params().Len() != 1 || sig.Results().Len() != 2 {
			continue
		}
		if sl, ok := sig.Params().At(0).Type().Underlying().(*types.Slice); !ok || !isByte(sl.Elem()) {
			continue
		}
		keys = append(keys, k)
	}
	sort.Strings(keys)
	for _, k := range keys {
		fi := p.Funcs[k]
		po := paramObjs(fi)
		if po[0] == nil {
			continue
		}
		at, what := p.retainsParam(fi, po[0], 0, map[string]bool{})
		pos := p.pos(fi.Decl)
		if at != nil {
			pos = p.pos(at)
		}
		r.Check(at == nil, rule, k+"#keeps-no-caller-bytes", pos, "the parameter is only read (copied, written through, sent before returning)",
			"Write keeps the caller's slice ("+what+"): the caller may reuse the buffer once Write has returned, and the bytes still to be sent or stored change under the writer")
	}
	r.Floor(rule, "write-methods", len(keys), 4)
}

func isByte(t types.Type) bool {
	b, ok := t.Underlying().(*types.Basic)
	return ok && (b.Kind() == types.Byte || b.Kind() == types.Uint8)
}

// retainsParam: a statement of fi that stores the slice parameter po (or an alias / reslice of it) where it
// outlives the call: a field reached from the receiver, a package-level variable, a bytes.Buffer / bytes.Reader
// built over it and stored there. Static callees of the module that receive the alias are followed (depth 2).
func (p *Prog) retainsParam(fi *FuncInfo, po types.Object, depth int, seen map[string]bool) (ast.Node, string) {
	if seen[fi.Key] {
		return nil, ""
	}
	seen[fi.Key] = true
	info := fi.Pkg.TypesInfo
	alias := map[types.Object]bool{po: true}
	var isAlias func(e ast.Expr) bool
	isAlias = func(e ast.Expr) bool {
		switch x := ast.Unparen(e).(type) {
		case *ast.Ident:
			return alias[objOf(info, x)]
		case *ast.SliceExpr:
			return isAlias(x.X)
		case *ast.StarExpr:
			return isAlias(x.X)
		case *ast.UnaryExpr:
			return x.Op == token.AND && isAlias(x.X)
		case *ast.CallExpr:
			// a view over the bytes: bytes.NewBuffer(p), bytes.NewReader(p)
			if (isFunc(info, x, "bytes", "NewBuffer") || isFunc(info, x, "bytes", "NewReader")) && len(x.Args) == 1 {
				return isAlias(x.Args[0])
			}
		case *ast.CompositeLit:
			for _, el := range x.Elts {
				if kv, ok := el.(*ast.KeyValueExpr); ok {
					el = kv.Value
				}
				if isAlias(el) {
					return true
				}
			}
		}
		return false
	}
	// local aliases, to a fixed point (flow-insensitive: `data := p; data = data[n:]`)
	for changed := true; changed; {
		changed = false
		ast.Inspect(fi.Decl.Body, func(x ast.Node) bool {
			as, ok := x.(*ast.AssignStmt)
			if !ok || len(as.Lhs) != len(as.Rhs) {
				return true
			}
			for i, l := range as.Lhs {
				id, ok := ast.Unparen(l).(*ast.Ident)
				if !ok {
					continue
				}
				o := objOf(info, id)
				if v, isVar := o.(*types.Var); isVar && !v.IsField() && v.Parent() != fi.Pkg.Types.Scope() && !alias[o] && isAlias(as.Rhs[i]) {
					alias[o] = true
					changed = true
				}
			}
			return true
		})
	}
	var recv types.Object
	if fi.Decl.Recv != nil && len(fi.Decl.Recv.List) == 1 && len(fi.Decl.Recv.List[0].Names) == 1 {
		recv = info.Defs[fi.Decl.Recv.List[0].Names[0]]
	}
	outlives := func(l ast.Expr) bool {
		// a field / element reached from the receiver, or a package-level variable
		for {
			switch x := ast.Unparen(l).(type) {
			case *ast.SelectorExpr:
				l = x.X
				if o := objOf(info, x.X); o != nil && o == recv {
					return true
				}
				continue
			case *ast.IndexExpr:
				l = x.X
				continue
			case *ast.StarExpr:
				l = x.X
				continue
			case *ast.Ident:
				if v, ok := objOf(info, x).(*types.Var); ok && !v.IsField() && v.Parent() == fi.Pkg.Types.Scope() {
					return true
				}
			}
			return false
		}
	}
	var at ast.Node
	what := ""
	ast.Inspect(fi.Decl.Body, func(x ast.Node) bool {
		if at != nil {
			return false
		}
		switch s := x.(type) {
		case *ast.AssignStmt:
			if len(s.Lhs) != len(s.Rhs) {
				return true
			}
			for i, l := range s.Lhs {
				rhs := s.Rhs[i]
				kept := isAlias(rhs)
				// append(field, alias) keeps the slice header; append(field, alias...) copies
				if c, ok := ast.Unparen(rhs).(*ast.CallExpr); ok && !kept {
					if id, ok := c.Fun.(*ast.Ident); ok && id.Name == "append" && c.Ellipsis == token.NoPos {
						for _, a := range c.Args[1:] {
							if isAlias(a) {
								kept = true
							}
						}
					}
				}
				if kept && outlives(l) {
					at, what = s, types.ExprString(l)+" = "+types.ExprString(rhs)
				}
			}
		case *ast.CallExpr:
			if depth >= 2 {
				return true
			}
			callee := p.staticCallee(fi.Pkg, s)
			if callee == nil || callee.Decl == nil || callee.Decl.Body == nil {
				return true
			}
			args := argExprs(s, callee)
			for i, cpo := range paramObjs(callee) {
				if cpo == nil || i < 0 || args[i] == nil || !isAlias(args[i]) {
					continue
				}
				if _, isSlice := cpo.Type().Underlying().(*types.Slice); !isSlice {
					continue
				}
				if n, w := p.retainsParam(callee, cpo, depth+1, seen); n != nil {
					at, what = n, fmt.Sprintf("through %s: %s", callee.Key, w)
				}
			}
		}
		return true
	})
	return at, what
}

func init() {
	wrap := func(id string, extra func(p *Prog, r *Report)) {
		old := registry[id]
		registry[id] = func(p *Prog, r *Report) {
			old(p, r)
			extra(p, r)
		}
	}
	for id, rule := range map[string]string{"C10": "C10.l", "C01": "C01.i"} {
		id, rule := id, rule
		wrap(id, func(p *Prog, r *Report) {
			r.Rule(rule, "a Write method of the product keeps no reference to its caller's slice: what stays behind after Write has returned is a copy")
			c10WriteKeepsNoCallerBytes(p, r, rule)
		})
	}
}
