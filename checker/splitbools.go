package main

// SplitBools: a refinement of the flat CFG that keeps apart the paths on which a boolean local holds different
// constants. A helper that reports "nothing to do" through a flag (known, ok, found) and a caller that tests the
// flag are correlated: without the split, ordering rules see the path "helper took its early exit" continue
// into "caller goes on as if it had not". Only locals whose every assignment in the graph is a constant are
// tracked, so the valuation carried along a path is exact; conditions over tracked locals (x, !x, &&, ||) drop
// their infeasible edge. The result is an ordinary Flat (nodes are duplicated per valuation), every analysis runs
// on it unchanged; it never adds a path.

import (
	"go/ast"
	"go/constant"
	"go/token"
	"go/types"
	"sort"

	"golang.org/x/tools/go/cfg"
)

func (f *Flat) SplitBools() *Flat {
	info := f.Pkg.TypesInfo
	// tracked: boolean locals, and error locals (valuation: 1 = true / certainly not nil, 2 = false / nil)
	isBoolLocal := func(o types.Object) bool {
		v, ok := o.(*types.Var)
		if !ok || v.IsField() || v.Pkg() == nil || v.Parent() == v.Pkg().Scope() {
			return false
		}
		if isErrorType(v.Type()) {
			return true
		}
		b, ok := v.Type().Underlying().(*types.Basic)
		return ok && b.Info()&types.IsBoolean != 0
	}
	track, bad := map[types.Object]bool{}, map[types.Object]bool{}
	constBool := func(e ast.Expr) (bool, bool) {
		if tv, ok := info.Types[e]; ok && tv.Value != nil && tv.Value.Kind() == constant.Bool {
			return constant.BoolVal(tv.Value), true
		}
		// nil-ness of an error: nil, or a sentinel / a freshly built error
		if tv, ok := info.Types[e]; ok && tv.Type != nil {
			if isNilIdent(info, e) {
				return false, true
			}
			if isErrorType(tv.Type) && certainlyNonNilError(info, e) {
				return true, true
			}
		}
		return false, false
	}
	for _, n := range f.Nodes {
		if n.Ast == nil {
			continue
		}
		// a local that a function literal assigns or whose address is taken is not tracked
		ast.Inspect(n.Ast, func(x ast.Node) bool {
			switch y := x.(type) {
			case *ast.FuncLit:
				for _, o := range assignedObjs(info, y.Body) {
					bad[o] = true
				}
			case *ast.UnaryExpr:
				if y.Op == token.AND {
					if o := objOf(info, y.X); o != nil {
						bad[o] = true
					}
				}
			}
			return true
		})
		switch st := n.Ast.(type) {
		case *ast.AssignStmt:
			if len(st.Lhs) == len(st.Rhs) {
				for _, l := range st.Lhs {
					o := objOf(info, l)
					if o == nil || !isBoolLocal(o) {
						continue
					}
					// (an assignment of anything else makes the value unknown again from there on)
					track[o] = true
				}
			} else {
				for _, o := range assignedObjs(info, st) {
					if isBoolLocal(o) {
						track[o] = true
					}
				}
			}
		case *ast.ValueSpec:
			for _, nm := range st.Names {
				o := info.Defs[nm]
				if o == nil || !isBoolLocal(o) {
					continue
				}
				if len(st.Values) == 0 {
					track[o] = true
				} else {
					track[o] = true
				}
			}
		default:
			if !n.IsCond {
				for _, o := range assignedObjs(info, n.Ast) {
					bad[o] = true
				}
			}
		}
	}
	var vars []types.Object
	for o := range track {
		if !bad[o] {
			vars = append(vars, o)
		}
	}
	if len(vars) == 0 {
		return f
	}
	// (only locals that some condition tests are worth a dimension)
	{
		var testedVars []types.Object
		for _, o := range vars {
			for _, n := range f.Nodes {
				if n.IsCond && usesObj(info, n.Ast, o) {
					testedVars = append(testedVars, o)
					break
				}
			}
		}
		// a copy chain (found's parameter ok := take's local ok): the sources of tested locals are kept too
		for changed := true; changed; {
			changed = false
			for _, n := range f.Nodes {
				as, ok := n.Ast.(*ast.AssignStmt)
				if !ok || len(as.Lhs) != len(as.Rhs) {
					continue
				}
				for i, l := range as.Lhs {
					lo, ro := objOf(info, l), objOf(info, as.Rhs[i])
					if lo == nil || ro == nil || !track[ro] || bad[ro] {
						continue
					}
					inT, inS := false, false
					for _, o := range testedVars {
						if o == lo {
							inT = true
						}
						if o == ro {
							inS = true
						}
					}
					if inT && !inS {
						testedVars = append(testedVars, ro)
						changed = true
					}
				}
			}
		}
		vars = testedVars
	}
	if len(vars) == 0 {
		return f
	}
	sort.Slice(vars, func(i, j int) bool { return vars[i].Pos() < vars[j].Pos() })
	if len(vars) > 8 {
		vars = vars[:8]
	}
	idx := map[types.Object]int{}
	for i, o := range vars {
		idx[o] = i
	}
	// only worth it when a condition tests a tracked local
	tested := false
	for _, n := range f.Nodes {
		if n.IsCond {
			for _, o := range vars {
				if usesObj(info, n.Ast, o) {
					tested = true
				}
			}
		}
	}
	if !tested {
		return f
	}
	type valuation [8]int8 // 0 unknown, 1 true, 2 false
	var cond3 func(e ast.Expr, v valuation) (bool, bool)
	cond3 = func(e ast.Expr, v valuation) (bool, bool) {
		e = ast.Unparen(e)
		if tv, ok := info.Types[e]; ok && tv.Value != nil && tv.Value.Kind() == constant.Bool {
			b := constant.BoolVal(tv.Value)
			return b, !b
		}
		switch x := e.(type) {
		case *ast.Ident:
			if i, ok := idx[objOf(info, x)]; ok {
				switch v[i] {
				case 1:
					return true, false
				case 2:
					return false, true
				}
			}
		case *ast.UnaryExpr:
			if x.Op == token.NOT {
				t, fl := cond3(x.X, v)
				return fl, t
			}
		case *ast.CallExpr:
			// errors.Is(err, X) / errors.As(err, &t) of an error known to be nil is false
			if (isFunc(info, x, "errors", "Is") || isFunc(info, x, "errors", "As")) && len(x.Args) == 2 {
				if i, ok := idx[objOf(info, x.Args[0])]; ok && v[i] == 2 {
					return false, true
				}
			}
		case *ast.BinaryExpr:
			if x.Op == token.EQL || x.Op == token.NEQ {
				// err != nil / err == nil on a tracked error local
				var other ast.Expr
				if isNilIdent(info, x.Y) {
					other = x.X
				} else if isNilIdent(info, x.X) {
					other = x.Y
				}
				if other != nil {
					if i, ok := idx[objOf(info, other)]; ok && v[i] != 0 {
						nonNil := v[i] == 1
						if x.Op == token.NEQ {
							return nonNil, !nonNil
						}
						return !nonNil, nonNil
					}
				}
			}
			switch x.Op {
			case token.LAND:
				at, af := cond3(x.X, v)
				bt, bf := cond3(x.Y, v)
				return at && bt, af || (at && bf)
			case token.LOR:
				at, af := cond3(x.X, v)
				bt, bf := cond3(x.Y, v)
				return at || (af && bt), af && bf
			}
		}
		return true, true
	}
	// refine: on the edge of `x` / `!x` the tracked local is known
	var refine func(e ast.Expr, v valuation, taken bool) valuation
	refine = func(e ast.Expr, v valuation, taken bool) valuation {
		e = ast.Unparen(e)
		if u, ok := e.(*ast.UnaryExpr); ok && u.Op == token.NOT {
			e, taken = ast.Unparen(u.X), !taken
		}
		if b, ok := e.(*ast.BinaryExpr); ok {
			switch {
			case b.Op == token.LAND && taken, b.Op == token.LOR && !taken:
				return refine(b.Y, refine(b.X, v, taken), taken)
			case b.Op == token.EQL || b.Op == token.NEQ:
				var other ast.Expr
				if isNilIdent(info, b.Y) {
					other = b.X
				} else if isNilIdent(info, b.X) {
					other = b.Y
				}
				if other != nil {
					if i, ok := idx[objOf(info, other)]; ok && v[i] == 0 {
						if (b.Op == token.NEQ) == taken {
							v[i] = 1
						} else {
							v[i] = 2
						}
					}
				}
			}
			return v
		}
		if id, ok := e.(*ast.Ident); ok {
			if i, ok := idx[objOf(info, id)]; ok && v[i] == 0 {
				if taken {
					v[i] = 1
				} else {
					v[i] = 2
				}
			}
		}
		return v
	}
	transfer := func(n *GNode, v valuation) valuation {
		if n.Ast == nil || n.IsCond {
			return v
		}
		switch st := n.Ast.(type) {
		case *ast.AssignStmt:
			if len(st.Lhs) == len(st.Rhs) {
				nv, copied := v, map[int]bool{} // (parallel assignment: the right sides are read first)
				for i, l := range st.Lhs {
					if j, ok := idx[objOf(info, l)]; ok {
						if b, isC := constBool(st.Rhs[i]); isC {
							if b {
								v[j] = 1
							} else {
								v[j] = 2
							}
						} else if k, isCopy := idx[objOf(info, st.Rhs[i])]; isCopy && isPlainIdent(st.Rhs[i]) {
							nv[j] = v[k]
							copied[j] = true
						} else {
							v[j] = 0
						}
					}
				}
				for j := range copied {
					v[j] = nv[j]
				}
			} else {
				for _, l := range st.Lhs {
					if j, ok := idx[objOf(info, l)]; ok {
						v[j] = 0
					}
				}
			}
		case *ast.ValueSpec:
			for i, nm := range st.Names {
				if j, ok := idx[info.Defs[nm]]; ok {
					v[j] = 2
					if len(st.Values) > 0 {
						v[j] = 0
						if i < len(st.Values) && len(st.Values) == len(st.Names) {
							if b, isC := constBool(st.Values[i]); isC {
								v[j] = 2
								if b {
									v[j] = 1
								}
							}
						}
					}
				}
			}
		}
		return v
	}
	type key struct {
		id int
		v  valuation
	}
	g := *f
	g.Nodes = nil
	ids := map[key]int{}
	var order []key
	get := func(k key) int {
		if id, ok := ids[k]; ok {
			return id
		}
		id := len(g.Nodes)
		c := *f.Nodes[k.id]
		c.ID = id
		c.Succs, c.Preds = nil, nil
		g.Nodes = append(g.Nodes, &c)
		ids[k] = id
		order = append(order, k)
		return id
	}
	g.Entry = get(key{f.Entry, valuation{}})
	for i := 0; i < len(order); i++ {
		if len(order) > 20*len(f.Nodes)+1000 {
			return f // blow-up guard: keep the unrefined graph
		}
		k := order[i]
		n := f.Nodes[k.id]
		from := ids[k]
		out := transfer(n, k.v)
		for _, e := range n.Succs {
			nv := out
			if n.IsCond {
				mt, mf := cond3(n.Ast.(ast.Expr), k.v)
				if (e.Label == 1 && !mt) || (e.Label == 2 && !mf) {
					continue
				}
				nv = refine(n.Ast.(ast.Expr), k.v, e.Label == 1)
			}
			to := get(key{e.To, nv})
			g.Nodes[from].Succs = append(g.Nodes[from].Succs, Edge{To: to, Label: e.Label})
		}
	}
	for _, n := range g.Nodes {
		for _, e := range n.Succs {
			g.Nodes[e.To].Preds = append(g.Nodes[e.To].Preds, n.ID)
		}
	}
	// what is known on entry to each copy (1 = true / not nil, 2 = false / nil)
	g.Facts = map[int]map[types.Object]int8{}
	for k, id := range ids {
		m := map[types.Object]int8{}
		for i, o := range vars {
			if k.v[i] != 0 {
				m[o] = k.v[i]
			}
		}
		g.Facts[id] = m
	}
	// origin tables follow the copies
	if f.Inl != nil {
		g.Inl = map[int]InlInfo{}
		for k, id := range ids {
			if ii, ok := f.Inl[k.id]; ok {
				// the call site of the spliced node: any copy of it
				site := ii.Site
				for k2, id2 := range ids {
					if k2.id == ii.Site {
						site = id2
						break
					}
				}
				g.Inl[id] = InlInfo{Callee: ii.Callee, Site: site}
			}
		}
	}
	g.first = map[*cfg.Block]int{}
	for b, id := range f.first {
		for k, nid := range ids {
			if k.id == id {
				if old, ok := g.first[b]; !ok || nid < old {
					g.first[b] = nid
				}
			}
		}
	}
	return &g
}

func isPlainIdent(e ast.Expr) bool {
	_, ok := ast.Unparen(e).(*ast.Ident)
	return ok
}
