package main

// C13 A finished transaction is finished. C14 Space of unreachable contents is reclaimed.

import (
	"fmt"
	"go/ast"
	"go/types"
	"strings"
)

func init() {
	register("C13", propC13)
	register("C14", propC14)
}

const (
	kDeleteFilesAsync = "(*internal/usecase/cleaner.UseCase).DeleteFilesAsync"
	kDeleteFiles      = "(*internal/usecase/cleaner.UseCase).DeleteFiles"
)

func propC13(p *Prog, r *Report) {
	r.Rule("C13.a", "registry first: in every exported method of the store usecase that derives a transaction id from model.GetTxId(ctx) (enumerated), a registry lookup (txRepo.Get) of that id, error-gated, precedes every call through any other dependency of the usecase: a finished or unknown transaction fails with ErrTxNotFound before anything is written or read")
	r.Rule("C13.b", "commit/rollback order: txRepo.Delete (error-gated) precedes UpdateTx in Commit and DeleteTx in Rollback; Rollback maps exactly ErrTxNotFound to nil")
	r.Rule("C13.c", "class: ErrTxNotFound keeps its class from the registry to both APIs (wrap-class on the inline path; table round-trip C11.a on the wire)")
	r.NotDecided = []string{"invisibility of the rejected calls over histories"}
	r.Assume = []string{"the registry (ordered map) reflects exactly the open transactions"}

	c13RegistryFirst(p, r)
	c13RegistryOrigin(p, r)
	r.Rule("C13.e", "registry discipline: only Begin calls the registry's Store (a finished transaction is never re-registered); every field of the registry that Get consults is updated by Delete")
	c13RegistryDiscipline(p, r, "C13.e")
	c07CommitOrder(p, r, "C13.b")
	c13Rollback(p, r)
	r.Rule("C13.d", "each Begin yields an independent transaction: generated id, requested level, fresh snapshot point, registry error returned (shared with C02.f)")
	c02Defaults(p, r, "C13.d")
	r.Rule("C13.f", "a handle names one transaction for ever: the id of the inline and external transaction handles is set in the composite literal that constructs the handle and never assigned afterwards")
	c13HandleIdentityImmutable(p, r, "C13.f")
	n := wrapClassRule(p, r, "C13.c", wrapOpts{
		Sentinels: []string{"fs_db.ErrTxNotFound"},
		Entries:   inlineEntries(p),
		SkipPkgs:  []string{pkgExtDB, pkgAdapterErr},
		// (the registry's Store asks "is this id free": a lookup that answers ErrTxNotFound is the good case there)
		Tolerated: map[string][]string{kTxRollback: {"is:fs_db.ErrTxNotFound"}, kCleanerDeleteOld: {"is:fs_db.ErrTxNotFound"},
			"(*internal/repository/transaction.Repo).Store": {"is:fs_db.ErrTxNotFound"}},
		Sinks: []string{"(*internal/utils/async.readWriter).SetError"},
	})
	r.Floor("C13.c", "class-relevant-call-sites", n, 12)
	// wire: the sentinel round-trips (subset of C11.a)
	tmp := NewReport("C11", r.Tier, r.Seed)
	c11Tables(p, tmp)
	for _, o := range tmp.Obls {
		if strings.Contains(o.Construct, "ErrTxNotFound") {
			o.Rule = "C13.c"
			r.add(o)
		}
	}
}

func c13RegistryFirst(p *Prog, r *Report) {
	n := 0
	for _, k := range p.methodsOf("internal/usecase/store", "UseCase") {
		fi := p.Funcs[k]
		if !fi.Obj.Exported() || fi.Decl.Body == nil {
			continue
		}
		info := fi.Pkg.TypesInfo
		f := p.FlatInl(fi)
		usesTx := len(f.CallNodes("internal/model.GetTxId")) > 0 || p.funcCallsDeep(fi, p.keysPred("internal/model.GetTxId"))
		if !usesTx {
			continue
		}
		n++
		// other dependencies: calls through interface/pointer fields of the receiver other than the registry
		var recv types.Object
		if len(fi.Decl.Recv.List[0].Names) == 1 {
			recv = info.Defs[fi.Decl.Recv.List[0].Names[0]]
		}
		lookups := f.CallSites(kTxRepoGet)
		var others []int
		for _, gn := range f.Nodes {
			if gn.Ast == nil {
				continue
			}
			for _, c := range callsIn(gn.Ast, false) {
				sel, ok := c.Fun.(*ast.SelectorExpr)
				if !ok {
					continue
				}
				inner, ok := ast.Unparen(sel.X).(*ast.SelectorExpr)
				if !ok || f.CanonObj(objOf(info, inner.X)) != recv {
					continue
				}
				if p.callIs(fi.Pkg, c, kTxRepoGet) {
					continue
				}
				others = append(others, gn.ID)
			}
		}
		cons := k + "#registry-first"
		if len(lookups) == 0 {
			r.Viol("C13.a", cons, p.pos(fi.Decl), fmt.Sprintf("%s acts on the transaction named in its context without looking it up in the registry: through a committed or rolled-back handle it still succeeds (the core creates the per-transaction store on demand, a ReadUncommitted reader sees the write)", fi.Obj.Name()))
			continue
		}
		set := map[int]bool{}
		for _, l := range lookups {
			set[l.Node] = true
		}
		ok := true
		for _, o := range others {
			if !f.MustPrecede(set, o) {
				ok = false
			}
		}
		gated, _, st := f.GatedBy(lookups[0], others)
		r.Check(ok && gated, "C13.a", cons, p.pos(lookups[0].Call), "registry lookup precedes and gates every other dependency call",
			"a dependency is called before the registry lookup or although it failed ("+strings.Join(st, ",")+")")
		f.SiteConsumed(r, "C13.a", k+"#lookup-error", fi, lookups[0], flowOpts{Class: true})
	}
	r.Floor("C13.a", "store-usecase-entry-points", n, 4)
}

// c13RegistryOrigin: an id that is not registered yields ErrTxNotFound from the registry's Get and Delete.
func c13RegistryOrigin(p *Prog, r *Report) {
	for _, k := range []string{kTxRepoGet, kTxRepoDelete} {
		fi := p.Func(k)
		if fi == nil {
			r.Undecided("C13.a", k, "", "registry method not found")
			continue
		}
		info := fi.Pkg.TypesInfo
		// helpers (and closures run by a locking helper) are spliced in
		f := p.FlatInl(fi)
		// the found-flag of the map lookup
		var okObj types.Object
		for _, gn := range f.Nodes {
			if as, ok := gn.Ast.(*ast.AssignStmt); ok && len(as.Lhs) == 2 && len(as.Rhs) == 1 {
				if c, ok := ast.Unparen(as.Rhs[0]).(*ast.CallExpr); ok {
					if sel, ok := c.Fun.(*ast.SelectorExpr); ok && sel.Sel.Name == "Load" {
						okObj = objOf(info, as.Lhs[1])
					}
				}
			}
		}
		var idObj types.Object
		for _, fld := range fi.Decl.Type.Params.List {
			for _, nm := range fld.Names {
				if o := info.Defs[nm]; o != nil {
					if bt, ok := o.Type().(*types.Basic); ok && bt.Kind() == types.String {
						idObj = o
					}
				}
			}
		}
		if idObj == nil {
			r.Undecided("C13.a", k+"#unknown-id", p.pos(fi.Decl), "lookup flag / id parameter not identified")
			continue
		}
		env := &Env{P: p, Pkg: fi.Pkg, Vars: map[types.Object]*Val{idObj: strVal("11111111-1111-1111-1111-111111111111")}}
		// (the storage answers "not there" wherever the lookup sits: in the method or in a helper it calls)
		env.Multi = func(env *Env, c *ast.CallExpr) ([]*Val, bool) {
			if storageCall(env.Pkg.TypesInfo, c, "Load") {
				return []*Val{{Fields: map[string]*Val{}, Complete: true}, boolVal(false)}, true
			}
			return nil, false
		}
		env.Hook = func(env *Env, e ast.Expr) (*Val, bool) {
			if id, ok := e.(*ast.Ident); ok && env.Pkg == fi.Pkg && okObj != nil && objOf(info, id) == okObj {
				return boolVal(false), true
			}
			// a sentinel error is a value of its own (it may travel through a helper's result variable)
			if k := exprObjKey(env.Pkg.TypesInfo, e); strings.HasPrefix(k, "fs_db.Err") {
				return &Val{Tag: k}, true
			}
			return nil, false
		}
		_, exit, err := f.WalkPath(env)
		if err != nil {
			r.Undecided("C13.a", k+"#unknown-id", p.pos(fi.Decl), err.Error())
			continue
		}
		got := ""
		if rs := f.returnStmt(exit); rs != nil && len(rs.Results) > 0 {
			last := rs.Results[len(rs.Results)-1]
			got = valueKey(info, last)
			if v, err := env.Eval(last); err == nil && v != nil && strings.HasPrefix(v.Tag, "fs_db.Err") {
				got = v.Tag
			}
		}
		r.Check(got == "fs_db.ErrTxNotFound" || got == "wrap:fs_db.ErrTxNotFound", "C13.a", k+"#unknown-id", p.pos(fi.Decl), "an unregistered id yields ErrTxNotFound",
			"the registry answers an unregistered (finished) transaction id with "+got+" instead of ErrTxNotFound")
	}
}

func c13Rollback(p *Prog, r *Report) {
	fi := p.Func(kTxRollback)
	if fi == nil {
		r.Undecided("C13.b", kTxRollback, "", "transaction.Rollback not found")
		return
	}
	f := p.FlatOf(fi)
	f.CheckChain(r, "C13.b", fi, []step{
		{Name: "transaction removed from the registry", Keys: []string{kTxRepoDelete}, EarlyExit: []string{"is:fs_db.ErrTxNotFound"}},
		{Name: "versions of the transaction discarded", Keys: []string{kCoreDeleteTx}},
	})
	sites := f.CallSites(kTxRepoDelete)
	for _, s := range sites {
		// other errors are returned
		f.SiteConsumed(r, "C13.b", kTxRollback+"#registry-error", fi, s, flowOpts{Class: true, Tolerated: []string{"is:fs_db.ErrTxNotFound"}})
		// ErrTxNotFound -> nil: a success return is reachable in that state
		if s.Kind == "assigned" {
			st := f.ErrStatesFrom(s.Node, s.ErrVar)
			okNil := false
			for _, id := range f.successReturns(fi) {
				if st[id]["is:fs_db.ErrTxNotFound"] {
					okNil = true
				}
			}
			r.Check(okNil, "C13.b", kTxRollback+"#unknown-is-noop", p.pos(s.Call), "an unknown transaction makes Rollback return nil", "Rollback of a finished/unknown transaction does not return nil")
		}
	}
}

// ---------------------------------------------------------------------------

func propC14(p *Prog, r *Report) {
	r.Rule("C14.a", "delete lists are always consumed: at each call site of core.UpdateTx / DeleteTx / DeleteOld / Load (resolved through the usecase interfaces) the returned list reaches DeleteFilesAsync / DeleteFiles on every path, except through the false edge of len(list) > 0 or the producer's own error return in a function that returns it")
	r.Rule("C14.b", "producers hand over everything they drop: in UpdateTx / DeleteTx / DeleteOld the value of every popped node is appended to the returned list or to the set that is published; in Load every record that is not kept is appended (C04.e table)")
	r.Rule("C14.c", "deleteFile removes content, content record and version record in a restartable order (= C04.c) and re-activates the directory (C17.d)")
	r.Rule("C14.d", "background jobs are not stranded (= C16.a/b)")
	r.NotDecided = []string{"what a directory walk finds after quiescence", "orphaned partial content files after a failed write"}
	r.Assume = []string{"fault-free operation (the statement's premise)"}

	c14Consumed(p, r)
	c14Producers(p, r)
	c14ReturnsAccumulated(p, r, "C14.b")
	r.Rule("C14.f", "delete lists are owned by their consumer: a list returned by the core is allocated by the call (make / nil / literal grown by append) and is neither taken from nor kept in a field of the use case")
	c14FreshLists(p, r, "C14.f")
	r.Rule("C14.h", "a collector pass examines every key: in core.DeleteOld every iteration over the store's keys walks the versions before the horizon")
	c14CollectorVisitsEveryKey(p, r, "C14.h")
	r.Rule("C14.g", "the cleaner attempts every file of a list: in DeleteFiles every iteration of the loop over the list reaches deleteFile and nothing leaves the loop early")
	c14VisitsEveryFile(p, r, "C14.g")
	r.Rule("C14.e", "per-iteration capture: no function literal handed on inside a loop (a background job) captures a variable declared outside the loop and reassigned in it")
	loopClosureCapture(p, r, "C14.e")
	c04DeleteOrder(p, r, "C14.c")
	tmp := NewReport("C16", r.Tier, r.Seed)
	c16Handoff(p, tmp)
	c16BeforeRun(p, tmp)
	for _, o := range tmp.Obls {
		o.Rule = "C14.d"
		r.add(o)
	}
}

// pruneEmptyList removes the edges a non-empty list never takes (false edge of len(list) > 0, true edge of
// len(list) == 0): with nothing to delete there is nothing to hand over.
func pruneEmptyList(p *Prog, fi *FuncInfo, f *Flat, listObj types.Object) *Flat {
	info := fi.Pkg.TypesInfo
	return f.WithoutEdges(func(from *GNode, e Edge) bool {
		if !from.IsCond {
			return false
		}
		env := &Env{P: p, Pkg: fi.Pkg, Vars: map[types.Object]*Val{}}
		env.Hook = func(env *Env, x ast.Expr) (*Val, bool) {
			if c, ok := x.(*ast.CallExpr); ok && len(c.Args) == 1 {
				if id, ok := c.Fun.(*ast.Ident); ok && id.Name == "len" && objOf(info, c.Args[0]) == listObj {
					return intVal(1), true
				}
			}
			return nil, false
		}
		v, err := env.Eval(from.Ast.(ast.Expr))
		if err != nil || v.C == nil {
			return false
		}
		// with a non-empty list the condition has this value: the other edge is "list empty"
		taken := 2
		if v.C.ExactString() == "true" {
			taken = 1
		}
		return e.Label != taken
	})
}

func c14Consumed(p *Prog, r *Report) {
	producers := []string{kUpdateTx, kCoreDeleteTx, kCoreDeleteOld, kCoreLoad}
	// "hands the list to the cleaner": DeleteFiles(Async)(.., list), or a module function that does so with its
	// parameter on every path on which the list is not empty
	toCleaner := p.newMustUse("to-cleaner", func(fi *FuncInfo, c *ast.CallExpr, match func(ast.Expr) bool) bool {
		if !p.callIs(fi.Pkg, c, kDeleteFilesAsync, kDeleteFiles) {
			return false
		}
		for _, a := range c.Args {
			if match(a) {
				return true
			}
		}
		return false
	})
	toCleaner.Prune = func(fi *FuncInfo, f *Flat, po types.Object) *Flat { return pruneEmptyList(p, fi, f, po) }
	n := 0
	for _, k := range sortedFuncKeys(p) {
		fi := p.Funcs[k]
		if fi.Decl.Body == nil || shortPath(fi.Pkg.PkgPath) == pkgCoreUC {
			continue
		}
		info := fi.Pkg.TypesInfo
		f := p.FlatOf(fi)
		for _, s := range f.CallSites(producers...) {
			n++
			name := types.ExprString(s.Call.Fun)
			cons := k + "#" + name
			// the list variable
			var listObj types.Object
			switch st := f.Nodes[s.Node].Ast.(type) {
			case *ast.AssignStmt:
				// (only when the statement binds the producer's own results)
				if len(st.Lhs) >= 1 && len(st.Rhs) == 1 && ast.Unparen(st.Rhs[0]) == ast.Expr(s.Call) {
					if id, ok := st.Lhs[0].(*ast.Ident); ok && id.Name != "_" {
						listObj = objOf(info, st.Lhs[0])
					}
				}
			}
			// the list wrapped into a small carrier struct: old := u.batchOf(u.core.DeleteOld(..)); old.run(ctx)
			if listObj == nil {
				var ctor *ast.CallExpr
				field := ""
				for _, c := range callsIn(f.Nodes[s.Node].Ast, false) {
					for i, a := range c.Args {
						if ast.Unparen(a) == ast.Expr(s.Call) {
							if fld := p.carrierCtor(fi.Pkg, c, i); fld != "" {
								ctor, field = c, fld
							}
						}
					}
				}
				if ctor != nil {
					usesCarrier := func(c *ast.CallExpr, isCarrier func(ast.Expr) bool) bool {
						callee := p.staticCallee(fi.Pkg, c)
						if callee == nil {
							return false
						}
						for i, a := range argExprs(c, callee) {
							if isCarrier(a) && toCleaner.ParamField(callee, i, field) {
								return true
							}
						}
						return false
					}
					// used on the spot: u.batchOf(list).run(ctx)
					onSpot := false
					for _, c := range callsIn(f.Nodes[s.Node].Ast, false) {
						if usesCarrier(c, func(a ast.Expr) bool { return ast.Unparen(a) == ast.Expr(ctor) }) {
							onSpot = true
						}
					}
					if onSpot {
						r.Hold("C14.a", cons, p.pos(s.Call), "list wrapped into a carrier that hands it to the cleaner in the same statement")
						continue
					}
					if as, ok := f.Nodes[s.Node].Ast.(*ast.AssignStmt); ok && len(as.Lhs) == 1 && len(as.Rhs) == 1 && ast.Unparen(as.Rhs[0]) == ast.Expr(ctor) {
						if carrier := objOf(info, as.Lhs[0]); carrier != nil {
							sinks := setOf(f.Match(func(gn *GNode) bool {
								for _, c := range callsIn(gn.Ast, false) {
									if usesCarrier(c, func(a ast.Expr) bool { return objOf(info, a) == carrier }) {
										return true
									}
								}
								return false
							}))
							var start0 []int
							for _, sid := range f.succsOf(s.Node) {
								if !sinks[sid] {
									start0 = append(start0, sid)
								}
							}
							reach := f.Reach(start0, func(gn *GNode) bool { return sinks[gn.ID] }, nil)
							bad := ""
							for _, e := range f.Exits() {
								if reach[e] {
									bad = p.pos(f.Nodes[e].Ast)
								}
							}
							r.Check(bad == "" && len(sinks) > 0, "C14.a", cons, p.pos(s.Call), "the returned list, wrapped into "+carrier.Name()+"."+field+", reaches the cleaner on every path",
								"the list of versions to delete returned by "+name+" (kept in "+carrier.Name()+"."+field+") does not reach DeleteFiles(Async) on the path to "+bad+": their contents stay on disk forever")
							continue
						}
					}
				}
			}
			if listObj == nil {
				// passed directly?
				direct := false
				for _, c := range callsIn(f.Nodes[s.Node].Ast, false) {
					if c != s.Call && toCleaner.CallUses(fi, c, func(a ast.Expr) bool { return ast.Unparen(a) == ast.Expr(s.Call) }) {
						direct = true
					}
				}
				r.Check(direct, "C14.a", cons, p.pos(s.Call), "list handed straight to the cleaner", "the list of versions to delete returned by "+name+" is dropped: their contents stay on disk forever")
				continue
			}
			sinks := f.Match(func(gn *GNode) bool {
				for _, c := range callsIn(gn.Ast, false) {
					if toCleaner.CallUses(fi, c, func(a ast.Expr) bool { return usesObj(info, a, listObj) }) {
						return true
					}
				}
				return false
			})
			// paths from the call to an exit that avoid the sinks
			g := pruneEmptyList(p, fi, f, listObj)
			// the producer's own error: a return that propagates it is accepted
			errOK := map[int]bool{}
			if s.Kind == "assigned" && s.ErrVar != nil {
				st := f.ErrStatesFrom(s.Node, s.ErrVar)
				for _, id := range f.ReturnNodes() {
					if len(st.at(id)) > 0 {
						// accepted only when the list was consumed before OR the producer returned no list with its error (Load)
						if p.callIs(fi.Pkg, s.Call, kCoreLoad) {
							errOK[id] = true
						}
					}
				}
			}
			var start0 []int
			for _, sid := range g.succsOf(s.Node) {
				if !setOf(sinks)[sid] {
					start0 = append(start0, sid)
				}
			}
			reach := g.Reach(start0, func(gn *GNode) bool { return setOf(sinks)[gn.ID] }, nil)
			bad := ""
			for _, e := range g.Exits() {
				if reach[e] && !errOK[e] {
					bad = p.pos(g.Nodes[e].Ast)
				}
			}
			r.Check(bad == "" && len(sinks) > 0, "C14.a", cons, p.pos(s.Call), "the returned list reaches the cleaner on every path",
				"the list of versions to delete returned by "+name+" does not reach DeleteFiles(Async) on the path to "+bad+": their contents stay on disk forever")
		}
	}
	r.Floor("C14.a", "delete-list-producer-call-sites", n, 5)
}

// c14Producers: every popped node's value lands in the returned list or the published set.
func c14Producers(p *Prog, r *Report) {
	for _, k := range []string{kUpdateTx, kCoreDeleteTx, kCoreDeleteOld} {
		fi := p.Func(k)
		if fi == nil {
			r.Undecided("C14.b", k, "", "not found")
			continue
		}
		info := fi.Pkg.TypesInfo
		f := p.FlatInl(fi)
		pops := f.Match(func(gn *GNode) bool {
			for _, c := range callsIn(gn.Ast, false) {
				if p.callIs(fi.Pkg, c, "(*internal/model/core.file).PopBack", "(*internal/model/core.file).PopFront") {
					return true
				}
			}
			return false
		})
		if len(pops) == 0 {
			r.Viol("C14.b", k+"#pops", p.pos(fi.Decl), "no version is popped any more")
			continue
		}
		// result list(s), named by storage path: named result, returned variable or field of a local state struct,
		// or what a small helper of the package returns (d.all() = append(d.dropped, d.moved...))
		lists := map[string]bool{}
		res := fi.Sig().Results()
		for i := 0; i < res.Len(); i++ {
			if _, ok := res.At(i).Type().Underlying().(*types.Slice); ok && res.At(i).Name() != "" {
				lists[objID(res.At(i))] = true
			}
		}
		for _, id := range f.ReturnNodes() {
			if rs := f.returnStmt(id); rs != nil && len(rs.Results) >= 1 {
				for lp := range listPaths(p, fi, f, rs.Results[0]) {
					lists[lp] = true
				}
			}
		}
		// collections that flow into the lists through a deferred append (UpdateTx: files)
		scopes := []*ast.BlockStmt{fi.Decl.Body}
		seenBody := map[string]bool{}
		for _, ii := range f.Inl {
			if h := p.Func(ii.Callee); h != nil && h.Decl != nil && h.Decl.Body != nil && !seenBody[ii.Callee] {
				seenBody[ii.Callee] = true
				scopes = append(scopes, h.Decl.Body)
			}
		}
		for _, sc := range scopes {
			ast.Inspect(sc, func(x ast.Node) bool {
				if as, ok := x.(*ast.AssignStmt); ok && len(as.Rhs) == 1 && len(as.Lhs) == 1 {
					if c, ok := ast.Unparen(as.Rhs[0]).(*ast.CallExpr); ok {
						if id, ok := c.Fun.(*ast.Ident); ok && id.Name == "append" && len(c.Args) >= 2 {
							if lists[f.rawPath(as.Lhs[0])] && c.Ellipsis.IsValid() {
								if op := f.rawPath(c.Args[1]); op != "" {
									lists[op] = true
								}
							}
						}
					}
				}
				return true
			})
		}
		// the result binding of a spliced-in helper makes the helper's local the same list: dropped := u.drop(tx)
		for changed := true; changed; {
			changed = false
			for _, gn := range f.Nodes {
				as, ok := gn.Ast.(*ast.AssignStmt)
				if !ok || gn.Synth == "" || len(as.Lhs) != len(as.Rhs) {
					continue
				}
				for i, l := range as.Lhs {
					lp, rp := f.rawPath(l), f.rawPath(as.Rhs[i])
					if lp != "" && rp != "" && lists[lp] && !lists[rp] {
						lists[rp] = true
						changed = true
					}
				}
			}
		}
		isList := func(e ast.Expr) bool {
			lp := f.rawPath(e)
			return lp != "" && lists[lp]
		}
		for i, pid := range pops {
			gn := f.Nodes[pid]
			cons := fmt.Sprintf("%s#pop/%d", k, i+1)
			// popped node variable
			var nodeObj types.Object
			if as, ok := gn.Ast.(*ast.AssignStmt); ok && len(as.Lhs) == 1 {
				nodeObj = objOf(info, as.Lhs[0])
			}
			// an append to a list mentioning the node's value (n.V()) or the iteration value must follow on every path
			// before the node variable is overwritten or the function exits (nil pops excepted)
			appends := f.Match(func(an *GNode) bool {
				as, ok := an.Ast.(*ast.AssignStmt)
				if !ok || len(as.Rhs) != 1 || len(as.Lhs) != 1 || an.Synth != "" || !isList(as.Lhs[0]) {
					return false
				}
				c, ok := ast.Unparen(as.Rhs[0]).(*ast.CallExpr)
				if !ok {
					return false
				}
				id, ok := c.Fun.(*ast.Ident)
				return ok && id.Name == "append"
			})
			// the pop is an argument of the very append that records it: removed = append(removed, u.discard(f.PopFront()))
			if setOf(appends)[pid] {
				r.Hold("C14.b", cons, p.pos(gn.Ast), "the popped version is recorded by the statement that pops it")
				continue
			}
			if nodeObj == nil {
				// value popped in an expression statement: the value comes from the iterator (DeleteOld)
				ok := false
				for _, a := range appends {
					if f.MustPrecede(setOf([]int{a}), pid) || f.ReachableAfter(pid, setOf([]int{a}), nil) {
						ok = true
					}
				}
				r.Check(ok, "C14.b", cons, p.pos(gn.Ast), "the popped version is recorded in the delete list", "a version is popped without being recorded in the returned delete list: its content is never removed")
				continue
			}
			// from the non-nil edge after the pop, every path reaches an append (of n.V() or a value derived from it) before exit / re-pop
			// the value may have been recorded before the pop in the same loop iteration (iterator-driven loops)
			recordedBefore := false
			var loops []*ast.RangeStmt
			for _, sc := range scopes {
				loops = append(loops, rangeLoops(sc)...)
			}
			for _, rs := range loops {
				if gn.Ast.Pos() < rs.Body.Pos() || gn.Ast.End() > rs.Body.End() {
					continue
				}
				// only the loop driven by the collection iterator: its loop variable is the value of the front version
				ic, isCall := ast.Unparen(rs.X).(*ast.CallExpr)
				if !isCall || !p.callIs(fi.Pkg, ic, "(*internal/model/core.file).IterateBeforeSeq") || rs.Key == nil {
					continue
				}
				loopVar := objOf(info, rs.Key)
				head := f.loopHead(rs)
				if head < 0 {
					continue
				}
				var bodyStart []int
				for _, e := range f.Nodes[head].Succs {
					if e.Label == 1 {
						bodyStart = append(bodyStart, e.To)
					}
				}
				var inBody []int
				for _, a := range appends {
					if an := f.Nodes[a].Ast; an.Pos() >= rs.Body.Pos() && an.End() <= rs.Body.End() && usesObj(info, an.(*ast.AssignStmt).Rhs[0], loopVar) {
						inBody = append(inBody, a)
					}
				}
				if len(inBody) > 0 {
					before := f.Reach(bodyStart, func(x *GNode) bool { return setOf(inBody)[x.ID] }, nil)
					startIsAppend := false
					for _, b := range bodyStart {
						if setOf(inBody)[b] {
							startIsAppend = true
						}
					}
					if startIsAppend || !before[pid] {
						recordedBefore = true
					}
				}
			}
			if recordedBefore {
				r.Hold("C14.b", cons, p.pos(gn.Ast), "the version is recorded in the delete list before it is popped, in the same iteration")
				continue
			}
			var start []int
			for _, sid := range f.succsOf(pid) {
				if !setOf(appends)[sid] {
					start = append(start, sid)
				}
			}
			reach := f.Reach(start, func(x *GNode) bool { return setOf(appends)[x.ID] || x.ID == pid }, func(from *GNode, e Edge) bool {
				// prune the nil edge of `n == nil` / `n != nil` tests
				if from.IsCond {
					if ex := isNilCompare(info, from.Ast.(ast.Expr)); ex != nil && objOf(info, ex) == nodeObj {
						be := ast.Unparen(from.Ast.(ast.Expr)).(*ast.BinaryExpr)
						nilLabel := 1
						if be.Op.String() == "!=" {
							nilLabel = 2
						}
						return e.Label != nilLabel
					}
				}
				return true
			})
			bad := ""
			for _, e := range f.Exits() {
				if reach[e] {
					bad = p.pos(f.Nodes[e].Ast)
				}
			}
			// loop back to another pop without recording also loses the version
			for _, other := range pops {
				if other != pid && reach[other] {
					bad = p.pos(f.Nodes[other].Ast)
				}
			}
			r.Check(bad == "" && len(appends) > 0, "C14.b", cons, p.pos(gn.Ast), "the popped version is appended to the returned or published list on every path",
				"a popped version can reach "+bad+" without being appended to the returned delete list or the published set: its content is never removed")
		}
	}
}

// listPaths: the storage paths of the slices an expression is made of -- a variable or field itself, the
// arguments of append, or what a small helper of the package returns (d.all() = append(d.dropped, d.moved...),
// the helper's receiver standing for the call's receiver expression).
func listPaths(p *Prog, fi *FuncInfo, f *Flat, e ast.Expr) map[string]bool {
	lists := map[string]bool{}
	var addListExpr func(g *Flat, e ast.Expr, subst func(string) string, depth int)
	addListExpr = func(g *Flat, e ast.Expr, subst func(string) string, depth int) {
		e = ast.Unparen(e)
		if lp := g.rawPath(e); lp != "" {
			lists[subst(lp)] = true
			return
		}
		c, ok := e.(*ast.CallExpr)
		if !ok || depth > 2 {
			return
		}
		if id, ok := c.Fun.(*ast.Ident); ok && id.Name == "append" {
			for _, a := range c.Args {
				addListExpr(g, a, subst, depth+1)
			}
			return
		}
		if h := p.staticCallee(g.Pkg, c); h != nil && h.Pkg == fi.Pkg && h.Decl != nil && h.Decl.Body != nil {
			hf := p.FlatOf(h)
			hsub := subst
			if sel, ok := ast.Unparen(c.Fun).(*ast.SelectorExpr); ok {
				if ro := paramObjs(h)[-1]; ro != nil {
					from, to := objID(ro), subst(g.rawPath(sel.X))
					hsub = func(s string) string {
						if s == from || strings.HasPrefix(s, from+".") {
							return to + s[len(from):]
						}
						return s
					}
				}
			}
			for _, id := range hf.ReturnNodes() {
				if rs := hf.returnStmt(id); rs != nil && len(rs.Results) >= 1 {
					addListExpr(hf, rs.Results[0], hsub, depth+1)
				}
			}
		}
	}
	addListExpr(f, e, func(s string) string { return s }, 0)
	return lists
}
