package main

// C10 A write that fails or is aborted leaves no trace.

import (
	"fmt"
	"go/ast"
	"go/constant"
	"go/token"
	"go/types"
	"golang.org/x/tools/go/packages"
	"os"
	"sort"
	"strings"
)

func init() { register("C10", propC10) }

const (
	kStoreSet     = "(*internal/usecase/store.UseCase).Set"
	kContentStore = "(*internal/repository/content.Repo).Store"
	kCFStore      = "(*internal/repository/content_file.Repo).Store"
	kCoreStore    = "(*internal/usecase/core.UseCase).Store"
	kDirsIterate  = "(internal/model.Dirs).Iterate"
	kFileRepoSet  = "(*internal/repository/file.Repo).Set"
	kStoreToTx    = "(*internal/usecase/core.UseCase).storeToTx"
	kNESReader    = "(internal/model.NotEnoughSpaceError).Reader"
	kSRRead       = "(*internal/utils/grpc/streamreader.reader).Read"
	kSetFile      = "(*internal/delivery/grpc/store.Service).SetFile"
	tNES          = "internal/model.NotEnoughSpaceError"
)

// iteratorEndsWithSentinel: the iterator literal returned by Dirs.Iterate finishes every complete
// iteration with yield(_, false).
func iteratorEndsWithSentinel(p *Prog, r *Report, rule string) bool {
	fi := p.Func(kDirsIterate)
	if fi == nil {
		r.Undecided(rule, kDirsIterate, "", "Dirs.Iterate not found")
		return false
	}
	info := fi.Pkg.TypesInfo
	// the iterator: a literal, or a method value / function of the module
	itFI, lit := p.returnedFunc(fi)
	var yield types.Object
	if itFI != nil {
		po := paramObjs(itFI)
		if len(po) >= 1 {
			yield = po[0]
		}
	}
	if itFI == nil || yield == nil {
		r.Undecided(rule, kDirsIterate, p.pos(fi.Decl), "iterator function not recognised")
		return false
	}
	f := p.FlatOf(itFI)
	isYield := func(c *ast.CallExpr) bool { return objOf(info, c.Fun) == yield }
	sentinel := f.Match(func(n *GNode) bool {
		for _, c := range callsIn(n.Ast, false) {
			if isYield(c) && len(c.Args) == 2 {
				if tv, ok := info.Types[c.Args[1]]; ok && tv.Value != nil && tv.Value.Kind() == constant.Bool && !constant.BoolVal(tv.Value) {
					return true
				}
			}
		}
		return false
	})
	// consumer-stopped edges are not complete iterations
	g := f.WithoutEdges(func(from *GNode, e Edge) bool {
		if !from.IsCond {
			return false
		}
		ex := ast.Unparen(from.Ast.(ast.Expr))
		neg := false
		if u, ok := ex.(*ast.UnaryExpr); ok && u.Op == token.NOT {
			neg = true
			ex = ast.Unparen(u.X)
		}
		if c, ok := ex.(*ast.CallExpr); ok && isYield(c) {
			stoppedLabel := 2 // yield(...) false
			if neg {
				stoppedLabel = 1
			}
			return e.Label == stoppedLabel
		}
		return false
	})
	reach := g.Reach([]int{g.Entry}, nil, nil)
	ok := len(sentinel) > 0
	for _, e := range g.Exits() {
		if reach[e] && !g.MustPrecede(setOf(sentinel), e) {
			ok = false
		}
	}
	r.Check(ok, rule, kDirsIterate+"#terminal-sentinel", p.pos(lit), "every complete iteration ends with yield(_, false)",
		"the directory iterator can finish without yielding the terminal (Dir{}, false): the caller's loop ends without a directory and the write proceeds with no content")
	return ok
}

// setLoop prepares the CFG of store.Set with the infeasible exhaustion edge of the directory loop removed,
// after checking the two contracts that make it infeasible.
func setLoop(p *Prog, r *Report, rule string) (*FuncInfo, *Flat, *ast.RangeStmt) {
	fi := p.Func(kStoreSet)
	if fi == nil {
		r.Undecided(rule, kStoreSet, "", "store.Set not found")
		return nil, nil, nil
	}
	info := fi.Pkg.TypesInfo
	f := p.FlatOf(fi)
	var loop *ast.RangeStmt
	for _, rs := range rangeLoops(fi.Decl.Body) {
		if c, ok := ast.Unparen(rs.X).(*ast.CallExpr); ok && p.callIs(fi.Pkg, c, kDirsIterate) {
			loop = rs
		}
	}
	if loop == nil {
		// the directory loop in a helper of the use case (place): the helper is spliced into the graph
		for _, body := range p.deepBodies(fi)[1:] {
			for _, rs := range rangeLoops(body) {
				if c, ok := ast.Unparen(rs.X).(*ast.CallExpr); ok && p.callIs(fi.Pkg, c, kDirsIterate) {
					loop = rs
				}
			}
		}
		if loop != nil {
			f = p.FlatInlExcept(fi, kContentStore, kCFStore, kCoreStore)
		}
	}
	if loop == nil {
		// no iterator loop: plain analysis
		return fi, f, nil
	}
	if len(f.CallSites(kContentStore)) == 0 {
		// the loop is Set's own, the attempt is made by a helper (place.try(ctx, dir, &cFile)): spliced in
		f = p.FlatInlExcept(fi, kContentStore, kCFStore, kCoreStore)
	}
	iterOK := iteratorEndsWithSentinel(p, r, rule)
	head := f.loopHead(loop)
	okVar := objOf(info, loop.Value)
	bodyOK := false
	if head >= 0 && okVar != nil {
		// with ok == false the body neither stores nor continues
		g := f.WithoutEdges(func(from *GNode, e Edge) bool {
			if !from.IsCond {
				return false
			}
			ex := ast.Unparen(from.Ast.(ast.Expr))
			if u, isU := ex.(*ast.UnaryExpr); isU && u.Op == token.NOT && objOf(info, u.X) == okVar {
				return e.Label == 2
			}
			if objOf(info, ex) == okVar {
				return e.Label == 1
			}
			return false
		})
		var start []int
		for _, e := range g.Nodes[head].Succs {
			if e.Label == 1 {
				start = append(start, e.To)
			}
		}
		reach := g.Reach(start, nil, nil)
		bodyOK = !reach[head]
		for _, id := range g.CallNodes(kContentStore) {
			if reach[id] {
				bodyOK = false
			}
		}
		// ... and what it returns then says "no free space": the sentinel itself, or an error that keeps it in its
		// chain (seeded C12-B, round 6: the error of the last failed attempt was returned instead, whose chain ends in
		// the operating system's ENOSPC: inline callers see a wrong class, gRPC callers ErrUnknown)
		noSpace := func(e ast.Expr) bool {
			var is func(e ast.Expr, depth int) bool
			is = func(e ast.Expr, depth int) bool {
				e = ast.Unparen(e)
				if exprObjKey(info, e) == "fs_db.ErrNoFreeSpace" {
					return true
				}
				c, ok := e.(*ast.CallExpr)
				if !ok || depth > 3 {
					return false
				}
				if isFunc(info, c, "errors", "Join") {
					for _, a := range c.Args {
						if is(a, depth+1) {
							return true
						}
					}
				}
				if isFunc(info, c, "fmt", "Errorf") && len(c.Args) > 1 {
					format, _ := constStr(info, c.Args[0])
					verbs := fmtVerbs(format)
					for i, a := range c.Args[1:] {
						if i < len(verbs) && verbs[i] == 'w' && is(a, depth+1) {
							return true
						}
					}
				}
				return false
			}
			return is(e, 0)
		}
		// (an error variable that is given a certainly non-nil error on this path - the sentinel a helper answers,
		// bound to the caller's err - does not take the "err == nil" edge afterwards)
		for round := 0; round < 3; round++ {
			cur, curReach := g, reach
			g2 := cur.WithoutEdges(func(from *GNode, e Edge) bool {
				if !from.IsCond || !curReach[from.ID] {
					return false
				}
				x := isNilCompare(info, from.Ast.(ast.Expr))
				if x == nil {
					return false
				}
				o := objOf(info, x)
				if o == nil || !isErrorType(o.Type()) {
					return false
				}
				// the definitions that reach the test on this path (inside the region), through copies
				var nonNilAt func(node int, o types.Object, depth int) bool
				nonNilAt = func(node int, o types.Object, depth int) bool {
					n, all := 0, true
					for _, d := range cur.ReachingDefs(node, o) {
						if !curReach[d.Node] {
							continue
						}
						n++
						switch {
						case d.Rhs == nil:
							all = false
						case certainlyNonNilError(info, d.Rhs):
						default:
							ro := objOf(info, d.Rhs)
							if ro == nil || depth > 3 || !nonNilAt(d.Node, ro, depth+1) {
								all = false
							}
						}
					}
					return n > 0 && all
				}
				if !nonNilAt(from.ID, o, 0) {
					return false
				}
				be := ast.Unparen(from.Ast.(ast.Expr)).(*ast.BinaryExpr)
				nilLabel := 1 // x == nil: the true edge is the nil edge
				if be.Op == token.NEQ {
					nilLabel = 2
				}
				return e.Label == nilLabel
			})
			nr := g2.Reach(start, nil, nil)
			same := len(nr) == len(reach)
			g, reach = g2, nr
			if same {
				break
			}
		}
		for _, id := range g.ReturnNodes() {
			if !reach[id] {
				continue
			}
			rs := g.returnStmt(id)
			if rs == nil || len(rs.Results) == 0 {
				continue
			}
			last := rs.Results[len(rs.Results)-1]
			// (the helper that holds the loop answers the sentinel, its caller returns the variable it was bound to)
			var viaVar func(e ast.Expr, depth int) bool
			viaVar = func(e ast.Expr, depth int) bool {
				if noSpace(e) {
					return true
				}
				o := objOf(info, e)
				if o == nil || depth > 4 {
					return false
				}
				n, all := 0, true
				for _, gn := range g.Nodes {
					if !reach[gn.ID] {
						continue
					}
					as, isAs := gn.Ast.(*ast.AssignStmt)
					if !isAs || len(as.Lhs) != len(as.Rhs) {
						continue
					}
					for i, l := range as.Lhs {
						if objOf(info, l) == o {
							n++
							if !viaVar(as.Rhs[i], depth+1) {
								all = false
							}
						}
					}
				}
				return n > 0 && all
			}
			r.Check(viaVar(last, 0), rule, kStoreSet+"#no-directory-left-is-ErrNoFreeSpace", p.pos(rs), "with no directory left Set fails with ErrNoFreeSpace",
				"when the iterator reports that no directory is left Set returns "+types.ExprString(last)+", an error that is not ErrNoFreeSpace: the caller cannot tell a full store from a broken one (over gRPC it arrives as ErrUnknown)")
		}
	}
	r.Check(bodyOK, rule, kStoreSet+"#terminal-sentinel-handled", p.pos(loop), "when the iterator reports !ok the loop body returns (no store, no continue)",
		"when the iterator reports that no directory is left the loop body can still store or continue")
	if iterOK && bodyOK {
		f = f.WithoutEdges(func(from *GNode, e Edge) bool { return from.ID == head && e.Label == 2 })
		f.InfeasibleLoopExits = append(f.InfeasibleLoopExits, loop)
	}
	return fi, f, loop
}

// storeSetChain: content -> content record -> version record, each error-gated (C01.b = C04.a = C10.a).
func storeSetChain(p *Prog, r *Report, rule string) {
	fi, f, _ := setLoop(p, r, rule)
	if fi == nil {
		return
	}
	f.CheckChain(r, rule, fi, []step{
		{Name: "content file written", Keys: []string{kContentStore}},
		{Name: "content record stored", Keys: []string{kCFStore}},
		{Name: "version record stored", Keys: []string{kCoreStore}},
	})
	// durable before in-memory publication, in core.Store
	cs := p.Func(kCoreStore)
	if cs == nil {
		r.Undecided(rule, kCoreStore, "", "core.Store not found")
		return
	}
	cf := p.FlatOf(cs)
	cf.CheckChain(r, rule, cs, []step{
		{Name: "version record written to Badger", Keys: []string{kFileRepoSet}},
		{Name: "version published in memory", Keys: []string{kStoreToTx}},
	})
}

func propC10(p *Prog, r *Report) {
	r.Rule("C10.a", "write order and retry gating in store.Set: content file, then content record, then version record, each reachable only on the err == nil edge of its predecessor and all three before every success return; the directory loop is left towards the records only after a nil-error store (the exhaustion edge is excluded because the iterator provably ends with the (Dir{}, false) sentinel and the body returns on it); a NotEnoughSpaceError leads to a retry with content := err.Reader() and minSize := dir.Free; a directory with more free space than minSize is never skipped (order-type table); any other error returns")
	r.Rule("C10.b", "retry stream composition: NotEnoughSpaceError.Reader() = io.MultiReader(Start, Middle, End) in this order; content.Store binds Start to the created file after an error-gated Seek(0, SeekStart), Middle to a reader over the writer's saved chunk, End to the remaining source")
	r.Rule("C10.c", "partial-write awareness (information-flow necessary condition): the count returned by the inner file Write of the chunk-saving writer is stored in a field that the construction of Middle depends on; without that dependence the composition cannot be right both for a write that failed after 0 bytes and after n > 0 bytes")
	r.Rule("C10.d", "end-of-stream vs failure: in streamreader.Read the error of stream.Recv() is returned on every path on which it may be non-nil, io.EOF excepted")
	r.Rule("C10.e", "server gating: in the SetFile handler SendAndClose is reachable only on the err == nil edge of the store usecase's Set")
	r.Rule("C10.f", "client gating: in external SetReader the stream is closed (CloseAndRecv = commit point) only on the success path of the copy")
	r.Rule("C10.g", "inline Create: the error of the store usecase's Set reaches the writer through SetError (class kept), see C12.d")
	r.NotDecided = []string{"equality of stored and source bytes after a retry", "behaviour per concrete fault sequence", "orphaned partial content files (space only, see C14)"}
	r.Assume = []string{"io.Copy returns the first write error and stops; io.MultiReader concatenates in argument order", "gRPC: a cancelled stream context makes the server's Recv fail"}

	storeSetChain(p, r, "C10.a")
	c10Retry(p, r)
	c10Composition(p, r)
	c10StreamReader(p, r)
	c10Gating(p, r)
	c10ChunkSaved(p, r, "C10.c")
	r.Rule("C10.h", "the resume accounting assumes Read/Write pairs: the source handed to io.Copy in content.Store is, on every path, a value whose concrete type has no WriteTo (the destination none with ReadFrom)")
	c10CopySourceIsPlainReader(p, r, "C10.h")
	r.Rule("C10.i", "a retry goes to a strictly larger directory: the guard of store.Set that skips a directory is true when its free space equals that of the attempt that just failed")
	c10SkipAtEquality(p, r, "C10.i")
	r.Rule("C10.j", "root selection works on current measurements: the free space reported by repository/dir.Get comes from disk.Usage calls made in the same invocation, not from a field that replays an earlier measurement")
	c10FreshMeasurements(p, r, "C10.j", "free")
}

func c10Retry(p *Prog, r *Report) {
	fi, f, loop := setLoop(p, NewReport("tmp", "quick", 0), "C10.a")
	if fi == nil {
		return
	}
	info := fi.Pkg.TypesInfo
	sites := f.CallSites(kContentStore)
	if len(sites) == 0 || loop == nil {
		return
	}
	var contentParam types.Object
	if ps := fi.Decl.Type.Params.List; len(ps) == 3 && len(ps[2].Names) == 1 {
		contentParam = info.Defs[ps[2].Names[0]]
	}
	head := f.loopHead(loop)
	for _, s := range sites {
		if s.Kind != "assigned" {
			r.Viol("C10.a", kStoreSet+"#retry", p.pos(s.Call), "the error of the content store is "+s.Kind)
			continue
		}
		// the source: the variable the content store reads from (Set's parameter, or the parameter of the helper
		// that holds the loop)
		// (a variable, or a field of a helper object that carries the attempt: place.content)
		contentPlace := ""
		if contentParam != nil {
			contentPlace = placeKey(f, ast.NewIdent("_"), contentParam)
		}
		if len(s.Call.Args) == 3 {
			if k := placeKey(f, s.Call.Args[2], nil); k != "" {
				contentPlace = k
			} else {
				r.Undecided("C10.a", kStoreSet+"#retry-stream", p.pos(s.Call), "the source of the content store is "+types.ExprString(s.Call.Args[2])+": not a variable or a field the retry rule can follow")
				continue
			}
		}
		st := f.ErrStatesFrom(s.Node, s.ErrVar)
		// nodes reached in the not-enough-space state and leading back to the loop head
		retryState := "as:*" + tNES
		var nes []int
		for id := range st {
			if id < 0 {
				continue
			}
			for k := range st[id] {
				if strings.HasPrefix(k, "as:") && strings.Contains(k, "NotEnoughSpaceError") {
					nes = append(nes, id)
					retryState = k
				}
			}
		}
		if len(nes) == 0 {
			r.Viol("C10.a", kStoreSet+"#retry", p.pos(s.Call), "no errors.As(err, *NotEnoughSpaceError) branch: a full root is not retried on another root")
			continue
		}
		// on the retry path: content is replaced by the error's Reader() and minSize by dir.Free, before the back edge
		var setContent, setMin []int
		dirObj := objOf(info, loop.Key)
		mins := minPlaces(f, dirObj)
		sort.Ints(nes)
		for _, id := range nes {
			as, ok := f.Nodes[id].Ast.(*ast.AssignStmt)
			if !ok || len(as.Lhs) != len(as.Rhs) {
				continue
			}
			// (a parallel assignment updates several of them at once)
			for i := range as.Lhs {
				if contentPlace != "" && placeKey(f, as.Lhs[i], nil) == contentPlace {
					if c, ok := ast.Unparen(as.Rhs[i]).(*ast.CallExpr); ok && p.callIs(fi.Pkg, c, kNESReader) {
						setContent = append(setContent, id)
					}
				}
				// the remembered free space: a place that lives across iterations (a parameter binding of a
				// spliced-in helper does not)
				if f.Nodes[id].Synth == "" && mins.isFree(as.Rhs[i]) {
					setMin = append(setMin, id)
				}
			}
		}
		// every path from the As-true edge back to the loop head passes both assignments
		var asTrue []int
		for _, id := range nes {
			n := f.Nodes[id]
			for _, pr := range n.Preds {
				pn := f.Nodes[pr]
				if pn.IsCond && !st[pr][retryState] {
					asTrue = append(asTrue, id)
				}
			}
		}
		if len(asTrue) == 0 {
			asTrue = nes
		}
		reachBack := func(avoid map[int]bool) bool {
			seen := f.Reach(asTrue, func(n *GNode) bool { return avoid[n.ID] }, func(from *GNode, e Edge) bool { return st.along(from.ID, e.To)[retryState] })
			return seen[head]
		}
		okContent := len(setContent) > 0 && !reachBack(setOf(setContent))
		okMin := len(setMin) > 0 && !reachBack(setOf(setMin))
		r.Check(okContent, "C10.a", kStoreSet+"#retry-stream", p.pos(s.Call), "on NotEnoughSpace the source is replaced by err.Reader() before the next directory",
			"the retry on the next directory does not continue from err.Reader(): bytes already consumed from the source are lost")
		r.Check(okMin, "C10.a", kStoreSet+"#retry-minsize", p.pos(s.Call), "on NotEnoughSpace minSize := dir.Free before the next directory",
			"the retry does not remember the free space of the full directory: it can be retried forever or smaller ones are tried")
		// other errors return: from the "any" state no back edge and no record
		backAny := st[head]["any"]
		r.Check(!backAny, "C10.a", kStoreSet+"#other-errors-return", p.pos(s.Call), "an error other than NotEnoughSpace never continues the loop", "a generic store error continues with the next directory instead of failing the write")
		// skip guard: order-type table over (dir.Free, minSize)
		if len(setMin) > 0 {
			c10SkipGuard(p, r, fi, f, loop, dirObj, mins)
		}
	}
}

func c10SkipGuard(p *Prog, r *Report, fi *FuncInfo, f *Flat, loop *ast.RangeStmt, dirObj types.Object, mins *placeSet) {
	// condition nodes of the loop body (helpers spliced in) mentioning both dir.Free and the remembered minimum
	var guards []*GNode
	for _, n := range f.Nodes {
		inLoop := n.Ast != nil && n.Ast.Pos() >= loop.Body.Pos() && n.Ast.End() <= loop.Body.End()
		if _, spliced := f.Inl[n.ID]; spliced {
			inLoop = true
		}
		if n.IsCond && inLoop && mins.mentions(n.Ast) && mins.mentionsFree(n.Ast) {
			guards = append(guards, n)
		}
	}
	if len(guards) != 1 {
		r.Check(len(guards) == 0, "C10.a", kStoreSet+"#skip-guard", p.pos(loop), "no free-space skip guard (every directory is tried)", "more than one free-space guard: not analysed")
		return
	}
	g := guards[0]
	head := f.loopHead(loop)
	stores := setOf(f.CallNodes(kContentStore))
	type row struct {
		Free, Min int64
		Skips     bool
	}
	var rows []row
	ok := true
	detail := ""
	for _, fm := range [][2]int64{{1, 2}, {2, 2}, {3, 2}, {0, 0}, {1, 0}} {
		env := &Env{P: p, Pkg: fi.Pkg, Vars: map[types.Object]*Val{}}
		free, min := fm[0], fm[1]
		env.Hook = func(_ *Env, e ast.Expr) (*Val, bool) {
			switch e.(type) {
			case *ast.Ident, *ast.SelectorExpr:
				if mins.isFree(e) {
					return intVal(free), true
				}
				if mins.has(e) {
					return intVal(min), true
				}
			}
			return nil, false
		}
		v, err := env.Eval(g.Ast.(ast.Expr))
		if err != nil || v.C == nil {
			r.Undecided("C10.a", kStoreSet+"#skip-guard", p.pos(g.Ast), fmt.Sprintf("guard not evaluable: %v", err))
			return
		}
		want := 2
		if constant.BoolVal(v.C) {
			want = 1
		}
		// does the taken edge lead to the store or back to the loop head first?
		var start []int
		for _, e := range g.Succs {
			if e.Label == want {
				start = append(start, e.To)
			}
		}
		seen := f.Reach(start, func(n *GNode) bool { return stores[n.ID] || n.ID == head }, nil)
		reachesStore := false
		for _, e := range start {
			if stores[e] {
				reachesStore = true
			}
		}
		for id := range seen {
			for _, e := range f.Nodes[id].Succs {
				if stores[e.To] {
					reachesStore = true
				}
			}
		}
		skips := !reachesStore
		rows = append(rows, row{fm[0], fm[1], skips})
		if fm[0] > fm[1] && skips {
			ok = false
			detail = fmt.Sprintf("a directory with Free=%d is skipped although only %d bytes were found insufficient: a root with more free space is never tried", fm[0], fm[1])
		}
	}
	r.Tables["skip_guard"] = rows
	r.Check(ok, "C10.a", kStoreSet+"#skip-guard", p.pos(g.Ast), "a directory with more free space than minSize is tried", detail)
}

func c10Composition(p *Prog, r *Report) {
	// Reader() = MultiReader(Start, Middle, End)
	rd := p.Func(kNESReader)
	if rd == nil {
		r.Undecided("C10.b", kNESReader, "", "NotEnoughSpaceError.Reader not found")
	} else {
		info := rd.Pkg.TypesInfo
		var got []string
		ast.Inspect(rd.Decl.Body, func(x ast.Node) bool {
			if c, ok := x.(*ast.CallExpr); ok && isFunc(info, c, "io", "MultiReader") {
				for _, a := range c.Args {
					if sel, ok := ast.Unparen(a).(*ast.SelectorExpr); ok {
						got = append(got, sel.Sel.Name)
					} else {
						got = append(got, types.ExprString(a))
					}
				}
			}
			return true
		})
		r.Check(strings.Join(got, ",") == "Start,Middle,End", "C10.b", kNESReader+"#order", p.pos(rd.Decl), "MultiReader(Start, Middle, End)",
			"the retry stream is composed as ("+strings.Join(got, ",")+"): the bytes reach the next root in the wrong order")
	}
	cs := p.Func(kContentStore)
	if cs == nil {
		r.Undecided("C10.b", kContentStore, "", "content.Store not found")
		return
	}
	info := cs.Pkg.TypesInfo
	f := p.FlatInl(cs)
	// the literal: in Store itself, in a helper spliced into its graph, or in (a helper of) one of its function
	// literals -- the deferred closure that turns the error into the retry request
	flats := []*Flat{f}
	ast.Inspect(cs.Decl.Body, func(x ast.Node) bool {
		if fl, ok := x.(*ast.FuncLit); ok {
			lf := p.NewFlatInl(cs, fl.Body)
			lf.Outer = f
			flats = append(flats, lf)
		}
		return true
	})
	var lit *ast.CompositeLit
	var lf *Flat
	for _, g := range flats {
		for _, n := range g.Nodes {
			if n.Ast == nil || lit != nil {
				continue
			}
			ast.Inspect(n.Ast, func(x ast.Node) bool {
				if cl, ok := x.(*ast.CompositeLit); ok {
					if tv, ok := info.Types[cl]; ok && strings.HasSuffix(tv.Type.String(), tNES) {
						lit, lf = cl, g
					}
				}
				return true
			})
		}
	}
	if lit == nil {
		r.Viol("C10.b", kContentStore+"#literal", p.pos(cs.Decl), "content.Store no longer builds a NotEnoughSpaceError: a full root cannot be retried elsewhere")
		return
	}
	fields := map[string]ast.Expr{}
	for _, el := range lit.Elts {
		if kv, ok := el.(*ast.KeyValueExpr); ok {
			if id, ok := kv.Key.(*ast.Ident); ok {
				fields[id.Name] = kv.Value
			}
		}
	}
	// the created file
	creates := f.CallSites("internal/utils/os.Create")
	filePath := ""
	for _, c := range creates {
		n := f.Nodes[c.Node]
		if as, ok := n.Ast.(*ast.AssignStmt); ok && len(as.Lhs) >= 1 {
			filePath = f.CanonPath(as.Lhs[0])
		}
	}
	// the copy
	var copyCall *ast.CallExpr
	var copyNode int
	for _, n := range f.Nodes {
		if n.Ast == nil {
			continue
		}
		for _, c := range callsIn(n.Ast, false) {
			if isFunc(info, c, "io", "Copy") && len(c.Args) == 2 {
				copyCall, copyNode = c, n.ID
			}
		}
	}
	if filePath == "" || copyCall == nil {
		r.Undecided("C10.b", kContentStore, p.pos(cs.Decl), "os.Create / io.Copy anchors not found")
		return
	}
	// Start = the file
	r.Check(fields["Start"] != nil && lf.CanonPath(fields["Start"]) == filePath, "C10.b", kContentStore+"#Start", p.pos(lit), "Start is the created file", "Start is not the file that received the prefix")
	// End = the source handed to io.Copy
	srcPath := f.CanonPath(copyCall.Args[1])
	r.Check(fields["End"] != nil && srcPath != "" && lf.CanonPath(fields["End"]) == srcPath, "C10.b", kContentStore+"#End", p.pos(lit), "End is the reader io.Copy was draining", "End is not the remaining source stream")
	// writer and its type
	wPath := f.CanonPath(copyCall.Args[0])
	var wType types.Type
	if tv, ok := info.Types[copyCall.Args[0]]; ok {
		wType = tv.Type
	}
	midFields := map[string]bool{}
	if fields["Middle"] != nil && wPath != "" {
		ast.Inspect(fields["Middle"], func(x ast.Node) bool {
			if sel, ok := x.(*ast.SelectorExpr); ok && lf.rawPath(sel.X) == wPath {
				midFields[sel.Sel.Name] = true
			}
			// a method of the object that owns the writer (spool.unwritten() reading s.out.buf[s.out.n:]): the fields
			// of the writer its body reads, with its receiver standing for the caller's
			if c, ok := x.(*ast.CallExpr); ok {
				if sel, ok := ast.Unparen(c.Fun).(*ast.SelectorExpr); ok {
					if h := p.staticCallee(cs.Pkg, c); h != nil && h.Pkg == cs.Pkg && h.Decl != nil && h.Decl.Body != nil && h.Decl.Recv != nil && len(h.Decl.Recv.List[0].Names) == 1 {
						rn := h.Decl.Recv.List[0].Names[0].Name
						outer := lf.rawPath(sel.X)
						ast.Inspect(h.Decl.Body, func(y ast.Node) bool {
							if hs, ok := y.(*ast.SelectorExpr); ok {
								hp := exprPath(hs.X)
								if hp == rn || strings.HasPrefix(hp, rn+".") {
									if outer+strings.TrimPrefix(hp, rn) == wPath && outer != wPath {
										midFields[hs.Sel.Name] = true
									}
								}
							}
							return true
						})
					}
				}
			}
			// a method of the writer that returns the unwritten part (sink.rest()): the fields its body reads
			if c, ok := x.(*ast.CallExpr); ok {
				if sel, ok := ast.Unparen(c.Fun).(*ast.SelectorExpr); ok && lf.rawPath(sel.X) == wPath {
					if h := p.staticCallee(cs.Pkg, c); h != nil && h.Pkg == cs.Pkg && h.Decl != nil && h.Decl.Body != nil {
						if ro := paramObjs(h)[-1]; ro != nil {
							ast.Inspect(h.Decl.Body, func(y ast.Node) bool {
								if hs, ok := y.(*ast.SelectorExpr); ok && objOf(h.Pkg.TypesInfo, hs.X) == ro {
									midFields[hs.Sel.Name] = true
								}
								return true
							})
						}
					}
				}
			}
			return true
		})
	}
	r.Check(len(midFields) > 0, "C10.b", kContentStore+"#Middle", p.pos(lit), "Middle reads the writer's saved chunk", "Middle does not read the chunk saved by the writer: the failing chunk is lost")
	// Seek(0, SeekStart) error-gated on the not-enough-space path
	bs := f.bindOf(f.Nodes[copyNode], copyCall)
	if bs.Kind == "assigned" {
		st := f.ErrStatesFrom(copyNode, bs.ErrVar)
		seeks := f.Match(func(n *GNode) bool {
			for _, c := range callsIn(n.Ast, false) {
				if sel, ok := c.Fun.(*ast.SelectorExpr); ok && sel.Sel.Name == "Seek" && f.CanonPath(sel.X) == filePath && len(c.Args) == 2 {
					if v, ok := constInt(info, c.Args[0]); ok && v == 0 {
						if w, ok := constInt(info, c.Args[1]); ok && w == 0 {
							return true
						}
					}
				}
			}
			return false
		})
		okSeek := len(seeks) > 0
		for _, id := range f.ReturnNodes() {
			nes := false
			for k := range st[id] {
				if strings.HasPrefix(k, "is:") && strings.Contains(k, "ErrNotEnoughSpace") {
					nes = true
				}
			}
			if nes && !f.MustPrecede(setOf(seeks), id) {
				okSeek = false
			}
		}
		r.Check(okSeek, "C10.b", kContentStore+"#Seek", p.pos(copyCall), "the file is rewound with Seek(0, SeekStart) before the error is returned", "on the no-space path the file is not rewound: Start replays nothing")
		for _, sid := range seeks {
			for _, c := range callsIn(f.Nodes[sid].Ast, false) {
				if sel, ok := c.Fun.(*ast.SelectorExpr); ok && sel.Sel.Name == "Seek" {
					f.SiteConsumed(r, "C10.b", kContentStore+"#Seek-error", cs, f.bindOf(f.Nodes[sid], c), flowOpts{})
				}
			}
		}
	}
	// C10.c: the inner write count reaches a field Middle depends on
	c10PartialWrite(p, r, cs, wType, midFields, lit)
}

func c10PartialWrite(p *Prog, r *Report, cs *FuncInfo, t types.Type, midFields map[string]bool, lit *ast.CompositeLit) {
	if t == nil {
		r.Undecided("C10.c", kContentStore+"#partial-write", p.pos(lit), "writer variable not identified")
		return
	}
	if pt, ok := t.(*types.Pointer); ok {
		t = pt.Elem()
	}
	nt, ok := t.(*types.Named)
	if !ok {
		r.Undecided("C10.c", kContentStore+"#partial-write", p.pos(lit), "writer has no named type")
		return
	}
	wk := "(*" + shortPath(nt.Obj().Pkg().Path()) + "." + nt.Obj().Name() + ").Write"
	wf := p.Func(wk)
	if wf == nil {
		wk = "(" + shortPath(nt.Obj().Pkg().Path()) + "." + nt.Obj().Name() + ").Write"
		wf = p.Func(wk)
	}
	if wf == nil {
		r.Undecided("C10.c", kContentStore+"#partial-write", p.pos(lit), "Write method of "+nt.Obj().Name()+" not found")
		return
	}
	info := wf.Pkg.TypesInfo
	var recv types.Object
	if wf.Decl.Recv != nil && len(wf.Decl.Recv.List[0].Names) == 1 {
		recv = info.Defs[wf.Decl.Recv.List[0].Names[0]]
	}
	// inner write: x.Write(...) on a field of the receiver
	countFields := map[string]bool{}
	found := false
	ast.Inspect(wf.Decl.Body, func(x ast.Node) bool {
		var lhs []ast.Expr
		var rhs ast.Expr
		switch s := x.(type) {
		case *ast.AssignStmt:
			if len(s.Rhs) == 1 {
				lhs, rhs = s.Lhs, s.Rhs[0]
			}
		case *ast.ReturnStmt:
			if len(s.Results) == 1 {
				rhs = s.Results[0]
			}
		}
		if rhs == nil {
			return true
		}
		c, ok := ast.Unparen(rhs).(*ast.CallExpr)
		if !ok {
			return true
		}
		sel, ok := c.Fun.(*ast.SelectorExpr)
		if !ok || sel.Sel.Name != "Write" {
			return true
		}
		inner, ok := sel.X.(*ast.SelectorExpr)
		if !ok || objOf(info, inner.X) != recv {
			return true
		}
		found = true
		if len(lhs) == 2 {
			switch l := ast.Unparen(lhs[0]).(type) {
			case *ast.SelectorExpr:
				if objOf(info, l.X) == recv {
					countFields[l.Sel.Name] = true
				}
			case *ast.Ident:
				// a local: does it flow into a receiver field later?
				lo := objOf(info, l)
				ast.Inspect(wf.Decl.Body, func(y ast.Node) bool {
					if as, ok := y.(*ast.AssignStmt); ok {
						for i, ll := range as.Lhs {
							if s2, ok := ast.Unparen(ll).(*ast.SelectorExpr); ok && objOf(info, s2.X) == recv && i < len(as.Rhs) && lo != nil && usesObj(info, as.Rhs[i], lo) {
								countFields[s2.Sel.Name] = true
							}
						}
					}
					return true
				})
			}
		}
		return true
	})
	if !found {
		r.Undecided("C10.c", wk+"#inner-write", p.pos(wf.Decl), "no forwarding Write on a field of the receiver")
		return
	}
	dep := false
	var cf []string
	for k := range countFields {
		cf = append(cf, k)
		if midFields[k] {
			dep = true
		}
	}
	// alternative accepted idiom: the file is truncated / its offset consulted
	alt := false
	ast.Inspect(cs.Decl.Body, func(x ast.Node) bool {
		if c, ok := x.(*ast.CallExpr); ok {
			if sel, ok := c.Fun.(*ast.SelectorExpr); ok && (sel.Sel.Name == "Truncate" || sel.Sel.Name == "Stat") {
				alt = true
			}
		}
		return true
	})
	r.Check(dep || alt, "C10.c", kContentStore+"#partial-write", p.pos(lit), fmt.Sprintf("Middle depends on the count of the failing write (field %v)", cf),
		"the construction of Start/Middle does not depend on how many bytes the failing write stored: after a short write the partial chunk is replayed twice (once from the file, once from the saved chunk)")
}

func c10StreamReader(p *Prog, r *Report) {
	if p.Func(kSRRead) == nil {
		r.Undecided("C10.d", kSRRead, "", "streamreader.Read not found")
		return
	}
	recv := callPred{name: "sel:Recv", fn: func(pkg *packages.Package, c *ast.CallExpr) bool {
		sel, ok := ast.Unparen(c.Fun).(*ast.SelectorExpr)
		return ok && sel.Sel.Name == "Recv" && p.staticCallee(pkg, c) == nil
	}}
	// all methods of the reader: the receive loop may live in a helper of Read
	n := p.errSitesInScope(r, "C10.d", p.methodsOf("internal/utils/grpc/streamreader", "reader"), recv, func(isBase bool) flowOpts {
		if isBase {
			return flowOpts{Tolerated: []string{"is:io.EOF"}, Class: true}
		}
		return flowOpts{Class: true}
	})
	r.Floor("C10.d", "Recv-sites", n, 1)
}

func c10Gating(p *Prog, r *Report) {
	// server
	if fi := p.Func(kSetFile); fi != nil {
		// (the closing response may be sent by a helper of the package: in.finish())
		f := p.FlatInlExcept(fi, kStoreSet)
		sets := f.CallSites(kStoreSet)
		var closes []int
		for _, n := range f.Nodes {
			if n.Ast == nil {
				continue
			}
			for _, c := range callsIn(n.Ast, false) {
				if sel, ok := c.Fun.(*ast.SelectorExpr); ok && sel.Sel.Name == "SendAndClose" {
					closes = append(closes, n.ID)
				}
			}
		}
		if len(sets) == 0 || len(closes) == 0 {
			r.Viol("C10.e", kSetFile+"#gating", p.pos(fi.Decl), "handler has no store-usecase Set or no SendAndClose")
		} else {
			ok := true
			for _, c := range closes {
				if !f.MustPrecede(setOf([]int{sets[0].Node}), c) {
					ok = false
				}
			}
			g, _, st := f.GatedBy(sets[0], closes)
			r.Check(ok && g, "C10.e", kSetFile+"#gating", p.pos(sets[0].Call), "SendAndClose only after a successful Set", "the success response can be sent although Set failed or before it ran ("+strings.Join(st, ",")+")")
		}
	} else {
		r.Undecided("C10.e", kSetFile, "", "SetFile handler not found")
	}
	// client
	k := "(*" + pkgExtDB + ".db).SetReader"
	if fi := p.Func(k); fi != nil {
		info := fi.Pkg.TypesInfo
		// helpers of the upload path are spliced in
		f := p.FlatInl(fi)
		var copies []callSite
		var closes []int
		// the destination of the copy: the stream writer (a variable of the writer type, or whatever the copy writes to)
		dst := map[types.Object]bool{}
		for _, n := range f.Nodes {
			if n.Ast == nil {
				continue
			}
			for _, c := range callsIn(n.Ast, true) {
				if isFunc(info, c, "io", "Copy") && len(c.Args) == 2 {
					if o := objOf(info, c.Args[0]); o != nil {
						dst[o] = true
					}
				}
			}
		}
		for _, n := range f.Nodes {
			if n.Ast == nil {
				continue
			}
			for _, c := range callsIn(n.Ast, true) {
				if isFunc(info, c, "io", "Copy") {
					copies = append(copies, f.bindOf(n, c))
				}
				if sel, ok := c.Fun.(*ast.SelectorExpr); ok && sel.Sel.Name == "Close" {
					isWriter := false
					if tv, ok := info.Types[sel.X]; ok && strings.Contains(tv.Type.String(), "streamwriter") {
						isWriter = true
					}
					if o := objOf(info, sel.X); o != nil && dst[o] {
						isWriter = true
					}
					if isWriter {
						closes = append(closes, n.ID)
						if _, isDefer := n.Ast.(*ast.DeferStmt); isDefer {
							r.Viol("C10.f", k+"#close-gated", p.pos(c), "the stream is closed by a defer: a failed copy still completes the upload with truncated content")
						}
					}
				}
			}
		}
		if len(copies) == 1 && len(closes) > 0 {
			g, _, st := f.GatedBy(copies[0], closes)
			r.Check(g, "C10.f", k+"#close-gated", p.pos(copies[0].Call), "Close only on the success path of the copy", "the stream can be closed (committed) although the copy failed ("+strings.Join(st, ",")+")")
		} else {
			r.Undecided("C10.f", k+"#close-gated", p.pos(fi.Decl), fmt.Sprintf("%d io.Copy and %d Close sites", len(copies), len(closes)))
		}
	} else {
		r.Undecided("C10.f", k, "", "external SetReader not found")
	}
	// inline Create: error of Set reaches SetError
	c12SetErrorFlow(p, r, "C10.g")
}

// c12SetErrorFlow: in inline Create the error of Store().Set reaches rw.SetError with its class.
func c12SetErrorFlow(p *Prog, r *Report, rule string) {
	k := "(*pkg/inline/db.db).Create"
	fi := p.Func(k)
	if fi == nil {
		r.Undecided(rule, k, "", "inline Create not found")
		return
	}
	// the goroutine literal
	var lit *ast.FuncLit
	ast.Inspect(fi.Decl.Body, func(x ast.Node) bool {
		if g, ok := x.(*ast.GoStmt); ok {
			if l, ok := g.Call.Fun.(*ast.FuncLit); ok {
				lit = l
			}
		}
		return true
	})
	if lit == nil {
		// the job is handed to a method that runs it in a goroutine and delivers its error: rw.Produce(func() error {..})
		if pr := p.createProducer(fi); pr != nil && pr.job != nil {
			c12SetErrorThroughRunner(p, r, rule, k, fi, pr)
			return
		}
		r.Undecided(rule, k+"#goroutine", p.pos(fi.Decl), "no storing goroutine")
		return
	}
	f := p.NewFlat(fi.Pkg, lit.Body)
	if len(lit.Body.List) == 1 && lit.Type.Params.NumFields() == 0 {
		// the goroutine body is a method of the client (go db.store(ctx, key, up)): splice it in
		if es, ok := lit.Body.List[0].(*ast.ExprStmt); ok {
			if c, ok := es.X.(*ast.CallExpr); ok && p.staticCallee(fi.Pkg, c) != nil {
				f = p.NewFlatInl(fi, lit.Body)
			}
		}
	}
	if os.Getenv("FSDBCHECK_DUMP") == "create-lit" {
		fmt.Print(f.Dump())
	}
	sites := f.CallSites(kStoreSet)
	if len(sites) == 0 {
		// through a method of the inline client that hands the reader to the store use case (db.SetReader)
		for _, n := range f.Nodes {
			if n.Ast == nil {
				continue
			}
			for _, c := range callsIn(n.Ast, false) {
				if h := p.staticCallee(fi.Pkg, c); h != nil && h.Pkg == fi.Pkg && p.funcCallsDeep(h, p.keysPred(kStoreSet)) {
					sites = append(sites, f.bindOf(n, c))
				}
			}
		}
	}
	if len(sites) != 1 {
		r.Viol(rule, k+"#set-error", p.pos(lit), fmt.Sprintf("%d calls of the store usecase's Set in the storing goroutine", len(sites)))
		return
	}
	// treat the literal as a function without results: the error must reach the sink
	lfi := &FuncInfo{Key: k + "$go", Pkg: fi.Pkg, Decl: fi.Decl, Obj: fi.Obj}
	res := f.errorConsumed(lfi, sites[0].Node, sites[0].ErrVar, flowOpts{Class: true, Sinks: []string{"(*internal/utils/async.readWriter).SetError"}})
	if sites[0].Kind != "assigned" {
		r.Viol(rule, k+"#set-error", p.pos(sites[0].Call), "the error of Set is "+sites[0].Kind)
		return
	}
	r.Check(res.OK, rule, k+"#set-error", p.pos(sites[0].Call), "the error of Set is delivered to SetError with its class", "the error of Set does not reach the writer: "+res.Detail)
}

// c12SetErrorThroughRunner: the job returns the error of the store use case's Set with its class, and the runner's
// goroutine hands a non-nil result of the job to SetError.
func c12SetErrorThroughRunner(p *Prog, r *Report, rule, k string, fi *FuncInfo, pr *producer) {
	jf := p.NewFlat(fi.Pkg, pr.job.Body)
	sites := jf.CallSites(kStoreSet)
	if len(sites) == 0 {
		for _, n := range jf.Nodes {
			if n.Ast == nil {
				continue
			}
			for _, c := range callsIn(n.Ast, false) {
				if h := p.staticCallee(fi.Pkg, c); h != nil && h.Pkg == fi.Pkg && p.funcCallsDeep(h, p.keysPred(kStoreSet)) {
					sites = append(sites, jf.bindOf(n, c))
				}
			}
		}
	}
	if len(sites) != 1 {
		r.Viol(rule, k+"#set-error", p.pos(pr.job), fmt.Sprintf("%d calls of the store usecase's Set in the storing job", len(sites)))
		return
	}
	if sites[0].Kind != "assigned" && sites[0].Kind != "returned" {
		r.Viol(rule, k+"#set-error", p.pos(sites[0].Call), "the error of Set is "+sites[0].Kind)
		return
	}
	ok1, d1 := true, ""
	if sites[0].Kind == "assigned" {
		jfi := fi.LitInfo(pr.job, 1)
		res := jf.errorConsumed(jfi, sites[0].Node, sites[0].ErrVar, flowOpts{Class: true})
		ok1, d1 = res.OK, res.Detail
	}
	// in the runner: err := job(); err != nil -> SetError(err)
	ri := pr.runner.Pkg.TypesInfo
	gf := p.NewFlat(pr.runner.Pkg, pr.goLit.Body)
	ok2, d2 := false, "the runner does not call the job"
	for _, n := range gf.Nodes {
		if n.Ast == nil {
			continue
		}
		for _, c := range callsIn(n.Ast, false) {
			if objOf(ri, c.Fun) != pr.jobParam {
				continue
			}
			bs := gf.bindOf(n, c)
			if bs.Kind != "assigned" {
				ok2, d2 = false, "the error of the job is "+bs.Kind+" in "+pr.runner.Key
				continue
			}
			gfi := pr.runner.LitInfo(pr.goLit, 1)
			res := gf.errorConsumed(gfi, bs.Node, bs.ErrVar, flowOpts{Class: true, Sinks: []string{"(*internal/utils/async.readWriter).SetError"}})
			ok2, d2 = res.OK, res.Detail
		}
	}
	r.Check(ok1 && ok2, rule, k+"#set-error", p.pos(sites[0].Call), "the error of Set is returned by the job with its class and delivered to SetError by "+pr.runner.Key,
		"the error of Set does not reach the writer: "+d1+" "+d2)
}

// placeSet: the places that hold the free space of the directory whose attempt failed last ("minSize"): local
// variables and fields of a helper object (place.floor), named by object or by canonical access path, found by
// following dir.Free through assignments of the (helper-spliced) graph.
type placeSet struct {
	f    *Flat
	dir  types.Object
	keys map[string]bool
}

// placeKey names an assignable place: a variable by identity, a field by its canonical access path.
func placeKey(f *Flat, e ast.Expr, o types.Object) string {
	info := f.Pkg.TypesInfo
	if o == nil {
		switch x := ast.Unparen(e).(type) {
		case *ast.Ident:
			o = objOf(info, x)
		case *ast.SelectorExpr:
			if p := f.CanonPath(x); p != "" {
				return "path:" + p
			}
			return ""
		default:
			return ""
		}
	}
	if o == nil {
		return ""
	}
	if c := f.CanonObj(o); c != nil {
		o = c
	}
	return "obj:" + objID(o)
}

// isFree: the expression is the Free field of the directory of the iteration (seen through parameter bindings).
func (ps *placeSet) isFree(e ast.Expr) bool {
	info := ps.f.Pkg.TypesInfo
	switch x := ast.Unparen(e).(type) {
	case *ast.SelectorExpr:
		if x.Sel.Name != "Free" {
			return false
		}
		if o := objOf(info, x.X); o != nil {
			return o == ps.dir || ps.f.CanonObj(o) == ps.dir
		}
	case *ast.Ident:
		// a parameter bound to dir.Free
		if o := objOf(info, x); o != nil && ps.f.Alias != nil {
			if a, ok := ps.f.Alias[o]; ok && a != nil && ast.Unparen(a) != ast.Expr(x) {
				return ps.isFree(a)
			}
		}
	}
	return false
}

func (ps *placeSet) has(e ast.Expr) bool {
	k := placeKey(ps.f, e, nil)
	return k != "" && ps.keys[k]
}

func (ps *placeSet) mentions(n ast.Node) bool {
	found := false
	ast.Inspect(n, func(x ast.Node) bool {
		if e, ok := x.(ast.Expr); ok {
			switch e.(type) {
			case *ast.Ident, *ast.SelectorExpr:
				if ps.has(e) {
					found = true
				}
			}
		}
		return !found
	})
	return found
}

func (ps *placeSet) mentionsFree(n ast.Node) bool {
	found := false
	ast.Inspect(n, func(x ast.Node) bool {
		if e, ok := x.(ast.Expr); ok && ps.isFree(e) {
			found = true
		}
		return !found
	})
	return found
}

func minPlaces(f *Flat, dir types.Object) *placeSet {
	ps := &placeSet{f: f, dir: dir, keys: map[string]bool{}}
	for changed := true; changed; {
		changed = false
		for _, n := range f.Nodes {
			as, ok := n.Ast.(*ast.AssignStmt)
			if !ok || len(as.Lhs) != len(as.Rhs) || n.Synth != "" {
				continue
			}
			for i, rhs := range as.Rhs {
				if ps.isFree(rhs) || ps.has(rhs) {
					if k := placeKey(f, as.Lhs[i], nil); k != "" && !ps.keys[k] {
						ps.keys[k] = true
						changed = true
					}
				}
			}
		}
	}
	return ps
}
