package main

import (
	"encoding/json"
	"fmt"
	"os"
	"path/filepath"
	"sort"
	"strings"
	"time"
)

type Verdict string

const (
	Holds     Verdict = "holds"
	Violated  Verdict = "violated"
	Known     Verdict = "known"
	Exempt    Verdict = "exempt"
	Undecided Verdict = "undecided"
)

// Obligation is one instance of a rule on one construct.
type Obligation struct {
	Rule      string   `json:"rule"`      // e.g. C07.a/split-region
	Construct string   `json:"construct"` // function key (+ #role); never a line number
	Pos       string   `json:"pos,omitempty"`
	Verdict   Verdict  `json:"verdict"`
	Detail    string   `json:"detail,omitempty"`
	Path      []string `json:"path,omitempty"` // offending path / witnesses (positions)
}

func (o Obligation) Key() string { return o.Rule + " " + o.Construct }

type KnownFinding struct {
	Property  string `json:"property"`
	Rule      string `json:"rule"`
	Construct string `json:"construct"`
	What      string `json:"what"`
	Evidence  string `json:"evidence,omitempty"`
}

type KnownFile struct {
	Findings []KnownFinding `json:"findings"`
	Fixed    []string       `json:"fixed"`
}

type Report struct {
	Prop       string
	Tier       string
	Seed       int64
	Start      time.Time
	Obls       []Obligation
	Rules      map[string]string // rule id -> text
	ruleOrder  []string
	Tables     map[string]any
	Notes      []string
	Analysed   map[string]int
	Trusted    []string
	Assume     []string
	NotDecided []string
	Controls   []string
	selftest   map[string]any
	only       string
}

func NewReport(prop, tier string, seed int64) *Report {
	return &Report{Prop: prop, Tier: tier, Seed: seed, Start: time.Now(), Rules: map[string]string{},
		Tables: map[string]any{}, Analysed: map[string]int{}}
}

func (r *Report) Rule(id, text string) {
	if _, ok := r.Rules[id]; !ok {
		r.ruleOrder = append(r.ruleOrder, id)
	}
	r.Rules[id] = text
}

func (r *Report) add(o Obligation) {
	if r.only != "" && !strings.Contains(o.Key(), r.only) {
		return
	}
	r.Obls = append(r.Obls, o)
}

func (r *Report) Hold(rule, construct, pos, detail string) {
	r.add(Obligation{Rule: rule, Construct: construct, Pos: pos, Verdict: Holds, Detail: detail})
}
func (r *Report) Viol(rule, construct, pos, detail string, path ...string) {
	r.add(Obligation{Rule: rule, Construct: construct, Pos: pos, Verdict: Violated, Detail: detail, Path: path})
}
func (r *Report) Exempt(rule, construct, pos, reason string) {
	r.add(Obligation{Rule: rule, Construct: construct, Pos: pos, Verdict: Exempt, Detail: reason})
}
func (r *Report) Undecided(rule, construct, pos, detail string) {
	r.add(Obligation{Rule: rule, Construct: construct, Pos: pos, Verdict: Undecided, Detail: detail})
}

// Check records holds/violated according to ok.
func (r *Report) Check(ok bool, rule, construct, pos, okDetail, badDetail string, path ...string) bool {
	if ok {
		r.Hold(rule, construct, pos, okDetail)
	} else {
		r.Viol(rule, construct, pos, badDetail, path...)
	}
	return ok
}

// Floor asserts a minimum instance count; fewer instances mean the rule would
// pass vacuously, which is reported as undecided (exit 3), never as "holds".
func (r *Report) Floor(rule, what string, got, min int) {
	if got < min {
		r.Undecided(rule, "floor/"+what, "", fmt.Sprintf("%d instances found, at least %d were confirmed by hand on the pinned tree: the rule no longer sees its anchors", got, min))
	} else {
		r.Hold(rule, "floor/"+what, "", fmt.Sprintf("%d instances (floor %d)", got, min))
	}
}

func (r *Report) Note(format string, a ...any) { r.Notes = append(r.Notes, fmt.Sprintf(format, a...)) }

func loadKnown(verifDir string) KnownFile {
	var k KnownFile
	b, err := os.ReadFile(filepath.Join(verifDir, "known_findings.json"))
	if err != nil {
		return k
	}
	_ = json.Unmarshal(b, &k)
	return k
}

// Finish applies the known-findings file, prints the report, writes the evidence
// and replay files and returns the process exit code.
func (r *Report) Finish(verifDir string, writeEvidence bool) int {
	known := loadKnown(verifDir)
	kn := map[string]KnownFinding{}
	// (a finding is named by the function it is in: pointer or value receiver is the same function)
	starless := func(s string) string { return strings.ReplaceAll(s, "(*", "(") }
	for _, k := range known.Findings {
		if k.Property == r.Prop {
			kn[starless(k.Rule+" "+k.Construct)] = k
		}
	}
	// one obligation per (rule, construct): duplicates (several dataflow states) keep the worst verdict
	{
		rank := map[Verdict]int{Holds: 0, Exempt: 0, Known: 1, Undecided: 2, Violated: 3}
		byKey := map[string]int{}
		var uniq []Obligation
		for _, o := range r.Obls {
			if i, ok := byKey[o.Key()]; ok {
				if rank[o.Verdict] > rank[uniq[i].Verdict] {
					uniq[i] = o
				}
				continue
			}
			byKey[o.Key()] = len(uniq)
			uniq = append(uniq, o)
		}
		r.Obls = uniq
	}
	sort.SliceStable(r.Obls, func(i, j int) bool {
		a, b := r.Obls[i], r.Obls[j]
		if a.Rule != b.Rule {
			return a.Rule < b.Rule
		}
		return a.Construct < b.Construct
	})
	if os.Getenv("FSDBCHECK_LIST") != "" {
		for _, o := range r.Obls {
			fmt.Printf("LIST %s %s %s\n", o.Rule, o.Construct, o.Verdict)
		}
	}
	var nViol, nUndec, nKnown, nHold, nExempt int
	var viols []Obligation
	distinct := map[string]bool{}
	for i := range r.Obls {
		o := &r.Obls[i]
		if o.Verdict == Violated {
			if k, ok := kn[starless(o.Key())]; ok {
				o.Verdict = Known
				fmt.Printf("KNOWN-FINDING: property=%s %s [%s %s]\n", r.Prop, k.What, o.Rule, o.Construct)
			}
		}
		switch o.Verdict {
		case Violated:
			nViol++
			viols = append(viols, *o)
		case Undecided:
			nUndec++
		case Known:
			nKnown++
		case Holds:
			nHold++
		case Exempt:
			nExempt++
		}
		if o.Verdict != Exempt && !strings.HasPrefix(o.Construct, "floor/") {
			distinct[o.Construct] = true
		}
	}
	for _, o := range r.Obls {
		if o.Verdict == Violated || o.Verdict == Undecided {
			fmt.Printf("OBLIGATION %s %s %s\n  %s  %s\n", o.Rule, o.Construct, o.Verdict, o.Pos, o.Detail)
			for _, p := range o.Path {
				fmt.Printf("    via %s\n", p)
			}
		}
	}
	wall := time.Since(r.Start).Seconds()
	fmt.Printf("SUMMARY property=%s tier=%s obligations=%d holds=%d known=%d exempt=%d violated=%d undecided=%d wall=%.1fs\n",
		r.Prop, r.Tier, len(r.Obls), nHold, nKnown, nExempt, nViol, nUndec, wall)

	evDir := filepath.Join(verifDir, "evidence")
	replay := filepath.Join(evDir, r.Prop+".replay.json")
	code := 0
	if nViol > 0 {
		code = 1
	} else if nUndec > 0 {
		code = 3
	}
	if writeEvidence {
		_ = os.MkdirAll(evDir, 0o755)
		if nViol > 0 {
			rp := map[string]any{"property": r.Prop, "violations": viols,
				"rerun": fmt.Sprintf("/verif/bin/fsdbcheck -prop %s -tier %s", r.Prop, r.Tier)}
			b, _ := json.MarshalIndent(rp, "", " ")
			_ = os.WriteFile(replay, b, 0o644)
		} else {
			_ = os.Remove(replay)
		}
		var expl []string
		for _, id := range r.ruleOrder {
			expl = append(expl, id+": "+r.Rules[id])
		}
		samples := []any{}
		// samples: all non-holding obligations and up to 40 holding ones
		nh := 0
		for _, o := range r.Obls {
			if o.Verdict == Holds {
				if nh >= 40 {
					continue
				}
				nh++
			}
			samples = append(samples, o)
		}
		cov := map[string]any{
			"explanation": "Static analysis of /repo's current source (go/packages + go/types + go/cfg; nothing is executed). " +
				"Each rule below is a structural necessary condition of the property, checked on every path of every function it applies to. Rules: " +
				strings.Join(expl, " || "),
			"obligations":         len(r.Obls),
			"discharged":          nHold + nExempt,
			"known":               nKnown,
			"evaluations":         len(r.Obls),
			"distinct_nontrivial": len(distinct),
			"rule":                "one obligation per (rule, construct); a construct is a function/role/table row resolved from the type-checked program; distinct_nontrivial counts distinct constructs with at least one non-exempt obligation (floors excluded)",
			"samples":             samples,
			"analysed":            r.Analysed,
			"tables":              r.Tables,
			"notes":               r.Notes,
			"not_decided":         r.NotDecided,
			"positive_controls":   r.Controls,
			"trusted_base":        r.Trusted,
			"checker_cmd":         fmt.Sprintf("/verif/bin/fsdbcheck -prop %s -tier %s", r.Prop, r.Tier),
			"exhaustive":          true,
		}
		if r.selftest != nil {
			cov["selftest"] = r.selftest
		}
		ev := map[string]any{
			"property_id": r.Prop,
			"tier":        r.Tier,
			"seed":        r.Seed,
			"level":       "other",
			"coverage":    cov,
			"assumptions": r.Assume,
			"wall_s":      wall,
			"violations":  nViol,
		}
		b, _ := json.MarshalIndent(ev, "", " ")
		if err := os.WriteFile(filepath.Join(evDir, r.Prop+".json"), b, 0o644); err != nil {
			fmt.Printf("cannot write evidence: %v\n", err)
			if code == 0 {
				code = 3
			}
		}
	}
	if nViol > 0 {
		fmt.Printf("VIOLATION property=%s replay=%s\n", r.Prop, replay)
	} else if nUndec > 0 {
		fmt.Printf("UNDECIDED property=%s (the check, not the property, needs attention)\n", r.Prop)
	}
	return code
}
