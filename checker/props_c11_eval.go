package main

// The four tables of the error adapter derived by evaluation. When the adapter is written with tables and search
// helpers (generic codeOf / decode over []entry[C]) instead of switches, the syntactic readers of c11Tables find
// nothing; the adapter's two entry points are then run on abstract errors: Error(err) for an error that is exactly
// one sentinel (errors.Is answers by identity), recording the code given to status.New and the Code field of the
// detail given to WithDetails; ClientError(err) for a status that carries one detail code, or one status code and
// no details, recording which sentinel the result wraps. Nothing of grpc is run: status.New / FromError / Convert /
// WithDetails / Details / Code / Message are answered by the hooks below.

import (
	"go/ast"
	"go/constant"
	"go/types"
	"sort"
	"strings"
)

type c11World struct {
	is         string // the sentinel the server-side error is
	statusCode *Val   // client side: the status code
	details    []*Val // client side: the details
	gotCode    *Val   // server side: code given to status.New
	gotDetails []*Val // server side: details attached
	sent       map[types.Object]string
}

func c11EvalEnv(p *Prog, fi *FuncInfo, w *c11World) *Env {
	env := &Env{P: p, Pkg: fi.Pkg, Vars: map[types.Object]*Val{}, AssertOK: true}
	statusVal := func() *Val {
		return &Val{Tag: "status", Fields: map[string]*Val{}}
	}
	methodOn := func(e *Env, c *ast.CallExpr) (string, *Val) {
		sel, ok := ast.Unparen(c.Fun).(*ast.SelectorExpr)
		if !ok {
			return "", nil
		}
		if _, isPkg := e.Pkg.TypesInfo.Uses[identOf(sel.X)].(*types.PkgName); isPkg {
			return "", nil
		}
		rv, err := e.Eval(sel.X)
		if err != nil {
			return sel.Sel.Name, nil
		}
		return sel.Sel.Name, rv
	}
	env.Hook = func(e *Env, x ast.Expr) (*Val, bool) {
		info := e.Pkg.TypesInfo
		switch y := x.(type) {
		case *ast.Ident:
			if n, ok := w.sent[info.Uses[y]]; ok {
				return &Val{Tag: n}, true
			}
		case *ast.SelectorExpr:
			if n, ok := w.sent[info.Uses[y.Sel]]; ok {
				return &Val{Tag: n}, true
			}
		case *ast.CallExpr:
			switch {
			case isFunc(info, y, "errors", "Is") && len(y.Args) == 2:
				a, b := e.eval(y.Args[0]), e.eval(y.Args[1])
				if a == nil || b == nil || b.Tag == "" {
					e.fail(x, "errors.Is of values outside the domain")
				}
				return boolVal(a.Tag == "err:"+b.Tag), true
			case isFunc(info, y, "errors", "Join"):
				var tags []string
				for _, a := range y.Args {
					if v, err := e.Eval(a); err == nil && v != nil && v.Tag != "" {
						tags = append(tags, v.Tag)
					}
				}
				return &Val{Tag: "join:" + strings.Join(tags, ",")}, true
			case isFunc(info, y, "fmt", "Errorf") && len(y.Args) >= 1:
				format, _ := constStr(info, y.Args[0])
				verbs := fmtVerbs(format)
				for i, a := range y.Args[1:] {
					if i < len(verbs) && verbs[i] == 'w' {
						if v, err := e.Eval(a); err == nil && v != nil && v.Tag != "" {
							return &Val{Tag: "wrap:" + v.Tag}, true
						}
					}
				}
				return &Val{Tag: "error"}, true
			case isFuncPath(info, y, "google.golang.org/grpc/status", "New") && len(y.Args) == 2:
				w.gotCode = e.eval(y.Args[0])
				return statusVal(), true
			case isFuncPath(info, y, "google.golang.org/grpc/status", "Convert"):
				return statusVal(), true
			}
			name, rv := methodOn(e, y)
			if name == "" {
				return nil, false
			}
			if rv != nil && rv.Tag == "status" {
				switch name {
				case "Err":
					return &Val{Tag: "status-error"}, true
				case "Code":
					if w.statusCode != nil {
						return w.statusCode, true
					}
				case "Message":
					return strVal("m"), true
				case "Details":
					return &Val{IsSlice: true, Elems: w.details}, true
				}
			}
			if name == "Error" && len(y.Args) == 0 {
				return strVal("m"), true
			}
			if strings.HasPrefix(name, "Get") && len(y.Args) == 0 && rv != nil {
				b := rv
				for b.Ptr != nil {
					b = b.Ptr
				}
				if f, ok := b.Fields[strings.TrimPrefix(name, "Get")]; ok {
					return f, true
				}
			}
		}
		return nil, false
	}
	env.Multi = func(e *Env, c *ast.CallExpr) ([]*Val, bool) {
		info := e.Pkg.TypesInfo
		if isFuncPath(info, c, "google.golang.org/grpc/status", "FromError") {
			return []*Val{statusVal(), boolVal(true)}, true
		}
		if name, rv := methodOn(e, c); name == "WithDetails" && rv != nil && rv.Tag == "status" {
			for _, a := range c.Args {
				if v, err := e.Eval(a); err == nil && v != nil {
					w.gotDetails = append(w.gotDetails, v)
				}
			}
			return []*Val{rv, {Nil: true}}, true
		}
		return nil, false
	}
	return env
}

func identOf(e ast.Expr) *ast.Ident {
	id, _ := ast.Unparen(e).(*ast.Ident)
	return id
}

// isFuncPath: isFunc with a full import path.
func isFuncPath(info *types.Info, c *ast.CallExpr, path, name string) bool {
	sel, ok := ast.Unparen(c.Fun).(*ast.SelectorExpr)
	if !ok || sel.Sel.Name != name {
		return false
	}
	fn, ok := info.Uses[sel.Sel].(*types.Func)
	return ok && fn.Pkg() != nil && fn.Pkg().Path() == path
}

func c11Run(p *Prog, fi *FuncInfo, w *c11World, arg *Val) (res *Val, err error) {
	defer func() {
		if r := recover(); r != nil {
			if ee, ok := r.(evalErr); ok {
				err = ee
				return
			}
			panic(r)
		}
	}()
	env := c11EvalEnv(p, fi, w)
	if ps := fi.Decl.Type.Params.List; len(ps) == 1 && len(ps[0].Names) == 1 {
		env.Vars[fi.Pkg.TypesInfo.Defs[ps[0].Names[0]]] = arg
	}
	ret, done := env.execBlock(fi.Decl.Body.List)
	if !done || len(ret) == 0 {
		return nil, evalErr{"no result"}
	}
	return ret[0], nil
}

// c11TablesByEval fills the tables that the syntactic readers did not find. ok=false when the adapter is outside
// the evaluator's fragment.
func c11TablesByEval(p *Prog, t *errTables) bool {
	se, ce := p.Func(kAdErr), p.Func(kAdClientErr)
	if se == nil || ce == nil {
		return false
	}
	sent := rootSentinels(p)
	var names []string
	seen := map[string]bool{}
	for _, n := range sent {
		if !seen[n] {
			seen[n] = true
			names = append(names, n)
		}
	}
	sort.Strings(names)
	keyOfConst := func(typeSuffix string, scope *types.Scope) map[string]string {
		m := map[string]string{}
		for _, n := range scope.Names() {
			if c, ok := scope.Lookup(n).(*types.Const); ok && strings.HasSuffix(c.Type().String(), typeSuffix) {
				if _, dup := m[c.Val().ExactString()]; !dup {
					m[c.Val().ExactString()] = objKey(c)
				}
			}
		}
		return m
	}
	var pbKeys, codeKeys map[string]string
	if nt := protoNamed(p, "ErrorCode"); nt != nil {
		pbKeys = keyOfConst("ErrorCode", nt.Obj().Pkg().Scope())
	}
	for _, imp := range se.Pkg.Imports {
		if imp.PkgPath == "google.golang.org/grpc/codes" && imp.Types != nil {
			codeKeys = keyOfConst("codes.Code", imp.Types.Scope())
		}
	}
	if pbKeys == nil || codeKeys == nil {
		return false
	}
	constKey := func(v *Val, keys map[string]string) string {
		for v != nil && v.Ptr != nil {
			v = v.Ptr
		}
		if v == nil || v.C == nil {
			return ""
		}
		return keys[v.C.ExactString()]
	}
	var toPb, toCode, fromPb, fromCode []caseRow
	// server: one run per sentinel, one for an error that is none of them
	for _, S := range append(append([]string{}, names...), "") {
		w := &c11World{is: S, sent: sent}
		if _, err := c11Run(p, se, w, &Val{Tag: "err:" + S}); err != nil {
			return false
		}
		code := constKey(w.gotCode, codeKeys)
		detail := ""
		for _, d := range w.gotDetails {
			b := d
			for b != nil && b.Ptr != nil {
				b = b.Ptr
			}
			if b != nil && b.Fields != nil {
				if c, ok := b.Fields["Code"]; ok {
					detail = constKey(c, pbKeys)
				} else if b.Complete {
					detail = pbKeys["0"]
				}
			}
		}
		if code == "" {
			return false
		}
		if S == "" {
			toCode = append(toCode, caseRow{Default: true, Assign: map[string]string{"code": code}, At: se.Decl})
			if detail != "" {
				toPb = append(toPb, caseRow{Default: true, Assign: map[string]string{"code": detail}, At: se.Decl})
			}
			continue
		}
		toCode = append(toCode, caseRow{Labels: []string{S}, Assign: map[string]string{"code": code}, At: se.Decl})
		if detail != "" {
			toPb = append(toPb, caseRow{Labels: []string{S}, Assign: map[string]string{"code": detail}, At: se.Decl})
		}
	}
	// the default rows say what an unlisted error gets; a sentinel that gets the same is not a row of its own
	// unless the table lists it (ErrUnknown -> Internal): kept, harmless for the round trip
	// client: one run per detail code (neutral status), one per status code (no details)
	var pbVals, codeVals []string
	for v := range pbKeys {
		pbVals = append(pbVals, v)
	}
	for v := range codeKeys {
		codeVals = append(codeVals, v)
	}
	sort.Strings(pbVals)
	sort.Strings(codeVals)
	mk := func(s string) *Val {
		c := constant.MakeFromLiteral(s, 5 /* token.INT */, 0)
		return &Val{C: c}
	}
	neutral := mk("2") // codes.Unknown
	for _, v := range pbVals {
		d := &Val{Ptr: &Val{Fields: map[string]*Val{"Code": mk(v), "Message": strVal("m")}}}
		w := &c11World{sent: sent, statusCode: neutral, details: []*Val{d}}
		res, err := c11Run(p, ce, w, &Val{Tag: "rpc"})
		if err != nil || res == nil {
			return false
		}
		if strings.HasPrefix(res.Tag, "wrap:") || res.Tag == "error" {
			fromPb = append(fromPb, caseRow{Labels: []string{pbKeys[v]}, Return: []string{res.Tag}, Assign: map[string]string{}, At: ce.Decl})
		}
	}
	defSeen := false
	for _, v := range codeVals {
		w := &c11World{sent: sent, statusCode: mk(v)}
		res, err := c11Run(p, ce, w, &Val{Tag: "rpc"})
		if err != nil || res == nil {
			return false
		}
		if strings.HasPrefix(res.Tag, "wrap:") || res.Tag == "error" {
			fromCode = append(fromCode, caseRow{Labels: []string{codeKeys[v]}, Return: []string{res.Tag}, Assign: map[string]string{}, At: ce.Decl})
		} else if !defSeen && res.Tag != "" {
			defSeen = true
			fromCode = append(fromCode, caseRow{Default: true, Return: []string{res.Tag}, Assign: map[string]string{}, At: ce.Decl})
		}
	}
	if len(toPb) == 0 || len(fromPb) == 0 {
		return false
	}
	t.ToPb, t.ToCode, t.FromPb, t.FromCode = toPb, toCode, fromPb, fromCode
	// the functions that stand for the detail path: by signature
	for _, g := range localClosure(p, kAdErr) {
		sig := g.Sig()
		if g.Key != kAdErr && sig.Params().Len() == 1 && isErrorType(sig.Params().At(0).Type()) && sig.Results().Len() == 1 && strings.Contains(sig.Results().At(0).Type().String(), pkgProto+".Error") {
			t.toPbFn = g
		}
	}
	for _, g := range localClosure(p, kAdClientErr) {
		sig := g.Sig()
		if g.Key != kAdClientErr && sig.Params().Len() == 1 && sig.Results().Len() >= 1 && isErrorType(sig.Results().At(0).Type()) {
			if sl, ok := sig.Params().At(0).Type().Underlying().(*types.Slice); ok {
				if _, isIface := sl.Elem().Underlying().(*types.Interface); isIface {
					t.fromPbFn = g
				}
			}
		}
	}
	return t.toPbFn != nil && t.fromPbFn != nil
}
