package main

// C02 Each isolation level shows a transaction exactly the versions it promises.

import (
	"fmt"
	"go/ast"
	"go/constant"
	"go/token"
	"go/types"
	"golang.org/x/tools/go/types/typeutil"
	"os"
	"sort"
	"strings"
)

func init() { register("C02", propC02) }

const (
	kGetFileFromTx  = "(*internal/usecase/core.UseCase).getFileFromTx"
	kGetFilesFromTx = "(*internal/usecase/core.UseCase).getFilesFromTx"
	kMergeFiles     = "(*internal/usecase/core.UseCase).mergeFiles"
	kFileLatestM    = "(internal/model.File).Latest"
	kLastBefore     = "(*internal/model/core.file).LastBefore"
)

type levelRow struct {
	Level     string `json:"level"`
	TxId      string `json:"tx_id"`
	BeforeSeq string `json:"before_seq"`
}

// levelTable extracts the switch over the transaction's isolation level in fn: level value -> filter fields.
func levelTable(p *Prog, fi *FuncInfo) (map[string]levelRow, string, bool) {
	info := fi.Pkg.TypesInfo
	for _, sw := range findSwitches(fi.Decl.Body) {
		if sw.Tag == nil {
			continue
		}
		sel, ok := ast.Unparen(sw.Tag).(*ast.SelectorExpr)
		if !ok || sel.Sel.Name != "IsoLevel" {
			continue
		}
		txVar := exprPath(sel.X)
		rows := extractSwitch(info, sw)
		res := map[string]levelRow{}
		for _, row := range rows {
			lr := levelRow{TxId: "-", BeforeSeq: "-"}
			for k, v := range row.Assign {
				// normalise: ptr.Ptr(x) -> x; the looked-up transaction's Seq by field
				v = strings.TrimSuffix(strings.TrimPrefix(v, "ptr.Ptr("), ")")
				if strings.HasSuffix(v, ".Seq") || v == txVar+".Seq" {
					v = "tx.Seq"
				}
				switch k {
				case ".TxId":
					lr.TxId = v
				case ".BeforeSeq":
					lr.BeforeSeq = v
				default:
					lr.TxId += " +" + k + "=" + v
				}
			}
			if row.Default {
				res["default"] = lr
				continue
			}
			for _, l := range row.Labels {
				if val, ok := constValOfKey(p, l); ok {
					lr.Level = l
					res[val] = lr
				} else {
					return nil, "", false
				}
			}
		}
		return res, p.pos(sw), true
	}
	return nil, "", false
}

func propC02(p *Prog, r *Report) {
	r.Rule("C02.a", "level -> filter table: the switch over the transaction's isolation level in store.Get, store.GetKeys and transaction.Commit, extracted over the constants of the level type (enumerated, so a fifth level is noticed): exhaustive; Get = GetKeys; Get/GetKeys: ReadUncommitted -> no filter, ReadCommitted -> TxId=main, RepeatableRead/Serializable -> TxId=main and BeforeSeq=tx.Seq; Commit: ReadUncommitted/ReadCommitted -> none, RepeatableRead/Serializable -> BeforeSeq=tx.Seq (values classified by source: the constant MainTxId, the Seq field of the looked-up transaction)")
	r.Rule("C02.b", "core dispatch agreement: core.Get and core.GetFiles, evaluated abstractly over (filter.TxId nil?, filter.BeforeSeq nil?), read the same stores: no filter -> the all-store without snapshot point; TxId set -> the caller's own store without snapshot point and the filter's store with the filter's snapshot point; the per-store readers use LastBefore iff a snapshot point is given, Latest otherwise")
	r.Rule("C02.c", "newer-of: Seq.After/Before/Zero are >, <, == 0 (truth tables); File.Latest returns the receiver iff its Seq is larger (tie don't-care); core.Get reports not-found iff the chosen version's Seq is zero; mergeFiles applies Latest per key and drops zero-Seq entries")
	r.Rule("C02.d", "rollback/GC/commit unlink from the all-store: every node popped from a transaction's list in DeleteTx, DeleteOld and UpdateTx reaches DeleteLink (directly, or collected in a slice that a deferred closure ranges over) before it is released")
	r.Rule("C02.e", "transaction id plumbing (= C11.c): all Store methods of fs_db.tx pass ctxFn(ctx); ids are stored and read under one context key / metadata constant; both interceptors installed")
	r.NotDecided = []string{"LastBefore's binary search (C18, not applicable)", "the quantifier over histories"}
	r.Assume = []string{"sequence numbers of two versions of one key are distinct"}

	c02Levels(p, r)
	c02Dispatch(p, r)
	c02NewerOf(p, r)
	c02Unlink(p, r)
	c11Plumbing(p, r, "C02.e")
	r.Rule("C02.f", "defaults: the registry answers the main (no-transaction) id with the ReadCommitted level, both clients use the caller's level and default to ReadCommitted, Begin registers a generated id with the requested level and a fresh snapshot point and returns the registry's error")
	c02Defaults(p, r, "C02.f")
	r.Rule("C02.g", "committed versions carry their commit stamp in memory (= C03.g): visibility is decided by the in-memory sequence numbers")
	c03StampReachesPublished(p, r, "C02.g")
}

func c02Levels(p *Prog, r *Report) {
	root := p.Pkg(".")
	levelNames := map[string]string{}
	for _, n := range root.Types.Scope().Names() {
		if c, ok := root.Types.Scope().Lookup(n).(*types.Const); ok && strings.HasSuffix(c.Type().String(), "model.TxIsoLevel") && n != "IsoLevelDefault" {
			levelNames[c.Val().ExactString()] = n
		}
	}
	var levels []string
	for v := range levelNames {
		levels = append(levels, v)
	}
	sort.Strings(levels)
	r.Floor("C02.a", "declared-isolation-levels", len(levels), 4)
	main := "internal/model.MainTxId"
	expectRead := map[string]levelRow{
		"IsoLevelReadUncommitted": {TxId: "-", BeforeSeq: "-"},
		"IsoLevelReadCommitted":   {TxId: main, BeforeSeq: "-"},
		"IsoLevelRepeatableRead":  {TxId: main, BeforeSeq: "tx.Seq"},
		"IsoLevelSerializable":    {TxId: main, BeforeSeq: "tx.Seq"},
	}
	expectCommit := map[string]levelRow{
		"IsoLevelReadUncommitted": {TxId: "-", BeforeSeq: "-"},
		"IsoLevelReadCommitted":   {TxId: "-", BeforeSeq: "-"},
		"IsoLevelRepeatableRead":  {TxId: "-", BeforeSeq: "tx.Seq"},
		"IsoLevelSerializable":    {TxId: "-", BeforeSeq: "tx.Seq"},
	}
	tables := map[string]map[string]levelRow{}
	for _, it := range []struct {
		key    string
		expect map[string]levelRow
	}{{kStoreGet, expectRead}, {kStoreGetKeys, expectRead}, {kTxCommit, expectCommit}} {
		fi := p.Func(it.key)
		if fi == nil {
			r.Undecided("C02.a", it.key, "", "not found")
			continue
		}
		// the table is derived by abstract evaluation per level (any control structure: switch with or without
		// fallthrough, if chains, lookup tables, membership tests); the syntactic reading of a plain switch is the
		// fallback when the function is outside the evaluator's fragment
		callee := map[string]string{kStoreGet: kCoreGet, kStoreGetKeys: kCoreGetFiles, kTxCommit: kUpdateTx}[it.key]
		tab, pos, ok := levelTableByEval(p, fi, callee, levelNames)
		if !ok {
			tab, pos, ok = levelTable(p, fi)
		}
		if !ok {
			r.Undecided("C02.a", it.key+"#level-switch", p.pos(fi.Decl), "the level -> filter table could be extracted neither from a switch nor by evaluating the function per level")
			continue
		}
		tables[it.key] = tab
		for _, v := range levels {
			name := levelNames[v]
			cons := it.key + "#" + name
			row, has := tab[v]
			if !has {
				if d, hasD := tab["default"]; hasD {
					row = d
				} else {
					// no case and no default: the zero filter
					row = levelRow{TxId: "-", BeforeSeq: "-"}
				}
			}
			exp, known := it.expect[name]
			if !known {
				r.Viol("C02.a", cons, pos, "isolation level "+name+" is declared but the property defines no filter for it: the level->filter table is not exhaustive")
				continue
			}
			r.Check(row.TxId == exp.TxId && row.BeforeSeq == exp.BeforeSeq, "C02.a", cons, pos,
				fmt.Sprintf("%s -> TxId=%s BeforeSeq=%s", name, row.TxId, row.BeforeSeq),
				fmt.Sprintf("%s gives %s the filter TxId=%s BeforeSeq=%s; the level promises TxId=%s BeforeSeq=%s", it.key, name, row.TxId, row.BeforeSeq, exp.TxId, exp.BeforeSeq))
		}
	}
	r.Tables["level_filter_tables"] = tables
	// sibling agreement Get = GetKeys
	if a, b := tables[kStoreGet], tables[kStoreGetKeys]; a != nil && b != nil {
		same := true
		for _, v := range levels {
			if a[v].TxId != b[v].TxId || a[v].BeforeSeq != b[v].BeforeSeq {
				same = false
			}
		}
		r.Check(same, "C02.a", "store.Get=store.GetKeys", "", "the two read paths use the same table", "Get and GetKeys map some level to different filters: GetKeys lists keys whose Get fails (or hides keys that Get returns)")
	}
	// the filter built is the one passed on, with the transaction's own id
	for _, it := range []struct{ fn, callee string }{{kStoreGet, kCoreGet}, {kStoreGetKeys, kCoreGetFiles}, {kTxCommit, kUpdateTx}} {
		fi := p.Func(it.fn)
		if fi == nil {
			continue
		}
		// (the call of the core may sit in a helper of the package the use case hands over to: session.publish)
		n := 0
		ok := true
		for _, g := range localClosure(p, fi.Key) {
			info := g.Pkg.TypesInfo
			for _, s := range p.FlatOf(g).CallSites(it.callee) {
				n++
				last := s.Call.Args[len(s.Call.Args)-1]
				// a filter variable, or a call of the helper that builds the filter (the table above is then read from that call)
				if tv, has := info.Types[last]; !has || tv.Type == nil || !strings.HasSuffix(tv.Type.String(), "model.FileFilter") {
					ok = false
				}
			}
		}
		ok = ok && n > 0
		r.Check(ok, "C02.a", it.fn+"#filter-passed", p.pos(fi.Decl), "the filter built by the switch is passed to the core", "the filter built from the isolation level is not the one passed to the core")
	}
}

type dispatchRow struct {
	TxIdSet, BeforeSet bool
	Reads              []string
}

// snapshotReaders: the per-store readers of the core, recognised by shape rather than by name -- functions of
// usecase/core that are given a transaction store and a snapshot point (*sequence.Seq) and select a version with
// Latest / LastBefore themselves or in a helper of the package.
func snapshotReaders(p *Prog) []string {
	var res []string
	for _, k := range sortedFuncKeys(p) {
		fi := p.Funcs[k]
		if fi.Decl == nil || fi.Decl.Body == nil || shortPath(fi.Pkg.PkgPath) != pkgCoreUC {
			continue
		}
		hasStore, hasPoint := false, false
		sig := fi.Sig()
		for i := 0; i < sig.Params().Len(); i++ {
			t := sig.Params().At(i).Type().String()
			if strings.HasSuffix(t, "internal/model/core.Transaction") && strings.HasPrefix(t, "*") {
				hasStore = true
			}
			if strings.HasSuffix(t, "sequence.Seq") && strings.HasPrefix(t, "*") {
				hasPoint = true
			}
		}
		_ = hasPoint // the snapshot point may travel as a pointer, or inside a small value type
		// ... or the store and the point are fields of the receiver (type txSource struct { tx *core.Transaction;
		// before *sequence.Seq } with methods file / files)
		if !hasStore && sig.Recv() != nil {
			if sf, _ := readerRecvFields(sig.Recv().Type()); sf != "" {
				hasStore = true
			}
		}
		if !hasStore || sig.Results().Len() != 1 || !strings.HasSuffix(sig.Results().At(0).Type().String(), "internal/model.File") {
			continue // a reader returns the version(s) it selected
		}
		selects := false
		for _, cand := range localClosure(p, k) {
			cf := p.FlatOf(cand)
			if len(cf.CallNodes(kFileLatest)) > 0 || len(cf.CallNodes(kLastBefore)) > 0 {
				selects = true
			}
		}
		if selects {
			res = append(res, k)
		}
	}
	return res
}

// c02DispatchTable evaluates core.Get / core.GetFiles (helpers, generic helpers and reader callbacks spliced in)
// for the four shapes of the filter and records which store each reader call is given and whether it is given a
// snapshot point. Stores are told apart by value: the registry lookup of the caller's own id, of the filter's id,
// or the all-store.
// c02SameIds: evaluate the dispatch for a filter that names the caller's own id.
var c02SameIds bool

func c02DispatchTable(p *Prog, fi *FuncInfo, readers ...string) ([]dispatchRow, error) {
	info := fi.Pkg.TypesInfo
	f := p.FlatInlExcept(fi, readers...)
	var filterObj, txIdObj types.Object
	for _, fld := range fi.Decl.Type.Params.List {
		for _, nm := range fld.Names {
			o := info.Defs[nm]
			if o == nil {
				continue
			}
			if strings.HasSuffix(o.Type().String(), "model.FileFilter") {
				filterObj = o
			}
			if bt, ok := o.Type().(*types.Basic); ok && bt.Kind() == types.String && txIdObj == nil {
				txIdObj = o
			}
		}
	}
	if filterObj == nil {
		return nil, fmt.Errorf("no filter parameter")
	}
	var rows []dispatchRow
	for _, txSet := range []bool{false, true} {
		for _, bsSet := range []bool{false, true} {
			fv := &Val{Fields: map[string]*Val{"TxId": {Nil: true}, "BeforeSeq": {Nil: true}}}
			if txSet {
				fv.Fields["TxId"] = &Val{Ptr: strVal("filter-id")}
				if c02SameIds {
					// a read outside any transaction: the caller's id and the filter's id are the same (main) id
					fv.Fields["TxId"] = &Val{Ptr: strVal("own-id")}
				}
			}
			if bsSet {
				fv.Fields["BeforeSeq"] = &Val{Ptr: intVal(5)}
			}
			env := &Env{P: p, Pkg: fi.Pkg, Vars: map[types.Object]*Val{filterObj: fv}}
			if txIdObj != nil {
				env.Vars[txIdObj] = strVal("own-id")
			}
			row := dispatchRow{TxIdSet: txSet, BeforeSet: bsSet}
			env.Multi = func(env *Env, c *ast.CallExpr) ([]*Val, bool) {
				if env.Pkg == fi.Pkg && p.callIs(fi.Pkg, c, "(*internal/model/core.Transactions).Get") && len(c.Args) == 1 {
					id := env.eval(c.Args[0])
					tag := "store(" + types.ExprString(c.Args[0]) + ")"
					if id != nil && id.C != nil && id.C.Kind() == constant.String {
						switch constant.StringVal(id.C) {
						case "own-id":
							tag = "own-store"
						case "filter-id":
							tag = "filter-store"
						}
					}
					return []*Val{{Tag: tag}, boolVal(true)}, true // the store exists
				}
				return nil, false
			}
			env.Hook = func(env *Env, e ast.Expr) (*Val, bool) {
				if env.Pkg != fi.Pkg {
					return nil, false
				}
				switch x := e.(type) {
				case *ast.UnaryExpr:
					if x.Op == token.AND && (strings.HasSuffix(types.ExprString(x.X), "."+allStoreField) ||
						(allStoreEmbedded != "" && strings.HasSuffix(types.ExprString(x.X), "."+allStoreField+"."+allStoreEmbedded))) {
						return &Val{Tag: "all-store"}, true
					}
				case *ast.CallExpr:
					isReader := len(readers) > 0 && p.callIs(fi.Pkg, x, readers...)
					if isReader && p.staticCallee(fi.Pkg, x) == nil {
						// a call through an interface (own.file(key)): the evaluator runs the method of the value's
						// dynamic type, the reader is recognised there
						if sel, ok := ast.Unparen(x.Fun).(*ast.SelectorExpr); ok {
							if rv, err := env.Eval(sel.X); err == nil && rv != nil && (rv.Type != nil || (rv.Ptr != nil && rv.Ptr.Type != nil)) {
								dt := rv.Type
								if dt == nil {
									dt = types.NewPointer(rv.Ptr.Type)
								}
								// the dynamic method is itself a reader (own = txSource{tx: &u.allStore}): recorded here
								if obj, _, _ := types.LookupFieldOrMethod(dt, true, fi.Pkg.Types, sel.Sel.Name); obj != nil {
									if m, ok := obj.(*types.Func); ok {
										mk := fkey(m.Origin())
										for _, rk := range readers {
											if rk == mk || toggleRecvStar(rk) == mk {
												if sf, pf := readerRecvFields(m.Type().(*types.Signature).Recv().Type()); sf != "" {
													store, point := "?", "latest"
													b := rv
													for b.Ptr != nil {
														b = b.Ptr
													}
													if sv := b.Fields[sf]; sv != nil && sv.Tag != "" {
														store = sv.Tag
													}
													if pf != "" {
														switch pv := b.Fields[pf]; {
														case pv == nil && b.Complete, pv != nil && pv.Nil:
															point = "latest"
														case pv != nil && pv.Ptr != nil && pv.Ptr.C != nil && pv.Ptr.C.ExactString() == "5":
															point = "snapshot-point"
														default:
															point = "?"
														}
													}
													row.Reads = append(row.Reads, store+":"+point)
													return &Val{Tag: "read"}, true
												}
											}
										}
									}
								}
								return nil, false
							}
						}
					}
					if !isReader {
						// a reader handed on as a function value and called through the parameter it is bound to
						if o := objOf(info, x.Fun); o != nil && f.Alias[o] != nil {
							var id *ast.Ident
							switch a := ast.Unparen(f.Alias[o]).(type) {
							case *ast.Ident:
								id = a
							case *ast.SelectorExpr:
								id = a.Sel
							}
							if id != nil {
								if fn, ok := info.Uses[id].(*types.Func); ok {
									if h := p.funcOfObj(fn); h != nil {
										for _, rk := range readers {
											if rk == h.Key {
												isReader = true
											}
										}
									}
								}
							}
						}
					}
					// a reader that is a method of a small value carrying the store and the point
					if isReader {
						if h := p.staticCallee(fi.Pkg, x); h != nil && h.Sig().Recv() != nil {
							if sf, pf := readerRecvFields(h.Sig().Recv().Type()); sf != "" {
								if sel, ok := ast.Unparen(x.Fun).(*ast.SelectorExpr); ok {
									store, point := "?", "latest"
									if rv, err := env.Eval(sel.X); err == nil && rv != nil {
										b := rv
										for b.Ptr != nil {
											b = b.Ptr
										}
										if sv := b.Fields[sf]; sv != nil && sv.Tag != "" {
											store = sv.Tag
										}
										if pf != "" {
											switch pv := b.Fields[pf]; {
											case pv == nil && b.Complete, pv != nil && pv.Nil:
												point = "latest"
											case pv != nil && pv.Ptr != nil && pv.Ptr.C != nil && pv.Ptr.C.ExactString() == "5":
												point = "snapshot-point"
											default:
												point = "?"
											}
										}
									}
									row.Reads = append(row.Reads, store+":"+point)
									return &Val{Tag: "read"}, true
								}
							}
						}
					}
					if isReader && len(x.Args) >= 1 {
						store, point := "?", "snapshot-point"
						// a reader that only ever selects the latest version (latestFileOfTx) has no point to be given;
						// one that only selects before a bound is judged by the bound it is handed
						rk := ""
						if h := p.staticCallee(fi.Pkg, x); h != nil {
							rk = p.readerKind(h)
						}
						if rk == "latest-only" {
							point = "latest"
						}
						for _, a := range x.Args {
							tv, ok := info.Types[a]
							if !ok {
								continue
							}
							ts := tv.Type.String()
							switch {
							case strings.HasSuffix(ts, "internal/model/core.Transaction"):
								if v, err := env.Eval(a); err == nil && v != nil && v.Tag != "" {
									store = v.Tag
								} else {
									store = types.ExprString(a)
								}
							case !strings.HasSuffix(ts, "sequence.Seq") && !isNilIdent(info, a) && !strings.HasSuffix(ts, "string"):
								// a small value type carrying the optional point (seqLimit{seq, set}): set = a true flag
								if v, err := env.Eval(a); err == nil && v != nil && v.Fields != nil {
									point = "latest"
									for _, fv := range v.Fields {
										if fv != nil && fv.C != nil && fv.C.Kind() == constant.Bool && constant.BoolVal(fv.C) {
											point = "snapshot-point"
										}
									}
								}
							case strings.HasSuffix(ts, "sequence.Seq") || isNilIdent(info, a):
								v, err := env.Eval(a)
								switch {
								case err != nil || v == nil:
									point = types.ExprString(a)
								case v.Nil:
									point = "latest"
								case v.Ptr != nil && v.Ptr.C != nil && v.Ptr.C.ExactString() == "5":
									point = "snapshot-point"
								case v.C != nil && v.C.ExactString() == "5" && rk == "before-only":
									point = "snapshot-point" // the bound by value (*filter.BeforeSeq)
								default:
									point = types.ExprString(a)
								}
							}
						}
						row.Reads = append(row.Reads, store+":"+point)
						return &Val{Tag: "read"}, true
					}
				}
				return nil, false
			}
			f.WalkExprStmts = true
			_, exit, err := f.WalkPath(env)
			f.WalkExprStmts = false
			if err == nil {
				// a read written inside the return statement (return u.mergeFiles(u.readAll(&u.allStore, nil), nil), nil):
				// the results are evaluated for their reads
				if rs := f.returnStmt(exit); rs != nil {
					for _, res := range rs.Results {
						hasReader := false
						ast.Inspect(res, func(y ast.Node) bool {
							if c, ok := y.(*ast.CallExpr); ok && len(readers) > 0 && p.callIs(fi.Pkg, c, readers...) {
								hasReader = true
							}
							return !hasReader
						})
						if !hasReader {
							continue
						}
						ast.Inspect(res, func(y ast.Node) bool {
							if c, ok := y.(*ast.CallExpr); ok && p.callIs(fi.Pkg, c, readers...) {
								env.Eval(c) //nolint:errcheck // evaluated for the hook's record
								return false
							}
							return true
						})
					}
				}
			}
			if err != nil {
				// accepted when the walk stopped after the dispatch: no reader call is reachable from the stop node
				stop := f.WalkStop
				later := f.Reach([]int{stop}, nil, nil)
				for _, id := range f.CallNodes(readers...) {
					if later[id] {
						return nil, err
					}
				}
			}
			sort.Strings(row.Reads)
			rows = append(rows, row)
		}
	}
	return rows, nil
}

func c02Dispatch(p *Prog, r *Report) {
	g, gf := p.Func(kCoreGet), p.Func(kCoreGetFiles)
	if g == nil || gf == nil {
		r.Undecided("C02.b", "core.Get/GetFiles", "", "not found")
		return
	}
	readers := snapshotReaders(p)
	if len(readers) == 0 {
		r.Undecided("C02.b", "core.Get/GetFiles#dispatch", p.pos(g.Decl), "no per-store reader (a function given a store and a snapshot point that selects with Latest / LastBefore) found in usecase/core")
		return
	}
	t1, err1 := c02DispatchTable(p, g, readers...)
	t2, err2 := c02DispatchTable(p, gf, readers...)
	if err1 != nil || err2 != nil {
		r.Undecided("C02.b", "core.Get/GetFiles#dispatch", p.pos(g.Decl), fmt.Sprintf("dispatch not evaluable: %v %v", err1, err2))
		return
	}
	r.Tables["core_dispatch_get"] = t1
	r.Tables["core_dispatch_get_files"] = t2
	expect := map[[2]bool][]string{
		{false, false}: {"all-store:latest"},
		{true, false}:  {"filter-store:latest", "own-store:latest"},
		{true, true}:   {"filter-store:snapshot-point", "own-store:latest"},
	}
	for i := range t1 {
		a, b := t1[i], t2[i]
		cons := fmt.Sprintf("dispatch TxId-set=%v BeforeSeq-set=%v", a.TxIdSet, a.BeforeSet)
		r.Check(strings.Join(a.Reads, ",") == strings.Join(b.Reads, ","), "C02.b", cons+"/Get=GetFiles", p.pos(g.Decl), fmt.Sprintf("both read %v", a.Reads),
			fmt.Sprintf("core.Get reads %v but core.GetFiles reads %v for the same filter: key listing and key lookup disagree", a.Reads, b.Reads))
		if exp, ok := expect[[2]bool{a.TxIdSet, a.BeforeSet}]; ok {
			r.Check(strings.Join(a.Reads, ",") == strings.Join(exp, ","), "C02.b", cons+"/stores", p.pos(g.Decl), fmt.Sprintf("reads %v", a.Reads),
				fmt.Sprintf("for this filter the core reads %v; the levels need %v", a.Reads, exp))
		}
	}
	// the same with a filter that names the caller's own id (reads outside a transaction: both are the main id): the
	// all-store is still read only when there is no filter
	c02SameIds = true
	for _, fn := range []*FuncInfo{g, gf} {
		ts, err := c02DispatchTable(p, fn, readers...)
		if err != nil {
			continue
		}
		for _, row := range ts {
			if !row.TxIdSet {
				continue
			}
			cons := fmt.Sprintf("dispatch TxId-set=%v BeforeSeq-set=%v own-id=filter-id/%s", row.TxIdSet, row.BeforeSet, fn.Obj.Name())
			r.Check(!strings.Contains(strings.Join(row.Reads, ","), "all-store"), "C02.b", cons, p.pos(fn.Decl), fmt.Sprintf("reads %v", row.Reads),
				fmt.Sprintf("when the filter names the caller's own id (a read outside any transaction) the core reads %v: the all-store holds the uncommitted versions of every open transaction, so a plain Get sees dirty writes and an uncommitted Delete hides a committed value - reads outside transactions must behave as ReadCommitted", row.Reads))
		}
	}
	c02SameIds = false
	// per-store readers: LastBefore iff a snapshot point is given
	r.Floor("C02.b", "per-store-readers", len(readers), 2)
	for _, root := range readers {
		// the selection may live in a package-local helper of the reader
		var fi *FuncInfo
		for _, cand := range localClosure(p, root) {
			cf := p.FlatOf(cand)
			if len(cf.CallNodes(kFileLatest)) > 0 || len(cf.CallNodes(kLastBefore)) > 0 {
				fi = cand
			}
		}
		if fi == nil {
			r.Viol("C02.b", root+"#reader-selection", p.pos(p.Func(root).Decl), "the store reader no longer selects a version with Latest / LastBefore")
			continue
		}
		k := root
		info := fi.Pkg.TypesInfo
		var bsObj types.Object
		for _, fld := range fi.Decl.Type.Params.List {
			for _, nm := range fld.Names {
				if o := info.Defs[nm]; o != nil && strings.HasSuffix(o.Type().String(), "sequence.Seq") {
					bsObj = o
				}
			}
		}
		// ... or the point travels in a small value type with a "set" flag (receiver or parameter of the selecting
		// function): the flag plays the part of "pointer is not nil"
		var setFlag *types.Var
		if bsObj == nil {
			for _, o := range paramObjs(fi) {
				if o == nil {
					continue
				}
				t := o.Type()
				if pt, ok := t.(*types.Pointer); ok {
					t = pt.Elem()
				}
				st, ok := t.Underlying().(*types.Struct)
				if !ok {
					continue
				}
				var flag *types.Var
				hasSeq := false
				for i := 0; i < st.NumFields(); i++ {
					ft := st.Field(i).Type()
					if strings.HasSuffix(ft.String(), "sequence.Seq") {
						hasSeq = true
					}
					if bt, ok := ft.Underlying().(*types.Basic); ok && bt.Kind() == types.Bool {
						flag = st.Field(i)
					}
				}
				if hasSeq && flag != nil {
					setFlag = flag
				}
			}
		}
		// a reader that only ever selects one way has nothing to choose: the dispatch table decides which one is called
		if rk := p.readerKind(fi); rk == "latest-only" || rk == "before-only" {
			byValue := bsObj == nil
			if bsObj != nil {
				_, isPtr := bsObj.Type().(*types.Pointer)
				byValue = !isPtr
			}
			if byValue && setFlag == nil {
				r.Hold("C02.b", k+"#reader-selection", p.pos(fi.Decl), "selects "+rk+" (no optional point to test); which reader is called is decided in the dispatch table")
				continue
			}
		}
		// ... or in a field of the receiver next to the store (txSource{tx, before})
		var recvObj types.Object
		recvPoint := ""
		if bsObj == nil && setFlag == nil && fi.Sig().Recv() != nil {
			if sf, pf := readerRecvFields(fi.Sig().Recv().Type()); sf != "" && pf != "" {
				recvObj, recvPoint = paramObjs(fi)[-1], pf
			}
		}
		if bsObj == nil && setFlag == nil && recvObj == nil {
			r.Undecided("C02.b", k, p.pos(fi.Decl), "no snapshot-point parameter")
			continue
		}
		// every Latest call lies on beforeSeq == nil paths, every LastBefore on != nil paths
		f := p.FlatOf(fi)
		// the conditions are evaluated with "no point given" / "a point given" (locals with one definition, such as
		// bounded := bound != nil, are evaluated through it); a condition that does not depend on it keeps both edges
		prune := func(nilCase bool) *Flat {
			env := &Env{P: p, Pkg: fi.Pkg, Vars: map[types.Object]*Val{}, Body: fi.Decl.Body}
			if bsObj != nil {
				if nilCase {
					env.Vars[bsObj] = &Val{Nil: true}
				} else {
					env.Vars[bsObj] = &Val{Ptr: intVal(5)}
				}
			}
			if recvObj != nil {
				pv := &Val{Ptr: intVal(5)}
				if nilCase {
					pv = &Val{Nil: true}
				}
				rv := &Val{Fields: map[string]*Val{recvPoint: pv}}
				if _, isPtr := recvObj.Type().(*types.Pointer); isPtr {
					rv = &Val{Ptr: rv}
				}
				env.Vars[recvObj] = rv
			}
			if setFlag != nil {
				for _, o := range paramObjs(fi) {
					if o == nil {
						continue
					}
					t := o.Type()
					_, isPtr := t.(*types.Pointer)
					if isPtr {
						t = t.(*types.Pointer).Elem()
					}
					if st, ok := t.Underlying().(*types.Struct); ok {
						for i := 0; i < st.NumFields(); i++ {
							if st.Field(i) == setFlag {
								v := &Val{Fields: map[string]*Val{setFlag.Name(): boolVal(!nilCase)}}
								if isPtr {
									v = &Val{Ptr: v}
								}
								env.Vars[o] = v
							}
						}
					}
				}
			}
			return f.WithoutEdges(func(from *GNode, e Edge) bool {
				if !from.IsCond {
					return false
				}
				v, err := env.Eval(from.Ast.(ast.Expr))
				if err != nil || v == nil || v.C == nil || v.C.Kind() != constant.Bool {
					return false
				}
				taken := 2
				if constant.BoolVal(v.C) {
					taken = 1
				}
				return e.Label != taken
			})
		}
		gNil, gSet := prune(true), prune(false)
		rNil := gNil.Reach([]int{gNil.Entry}, nil, nil)
		rSet := gSet.Reach([]int{gSet.Entry}, nil, nil)
		latest := f.CallNodes(kFileLatest)
		before := f.CallNodes(kLastBefore)
		ok := len(latest) > 0 && len(before) > 0
		for _, n := range latest {
			if rSet[n] {
				ok = false
			}
		}
		for _, n := range before {
			if rNil[n] {
				ok = false
			}
		}
		r.Check(ok, "C02.b", k+"#reader-selection", p.pos(fi.Decl), "Latest without snapshot point, LastBefore with one", "the store reader uses Latest although a snapshot point is given, or LastBefore without one: a snapshot transaction sees versions committed after it began (or others see stale ones)")
	}
}

func c02NewerOf(p *Prog, r *Report) {
	// Seq comparison helpers
	for _, it := range []struct {
		name string
		want func(a, b int64) bool
	}{{"After", func(a, b int64) bool { return a > b }}, {"Before", func(a, b int64) bool { return a < b }}} {
		k := "(internal/model/sequence.Seq)." + it.name
		fi := p.Func(k)
		if fi == nil {
			r.Undecided("C02.c", k, "", "not found")
			continue
		}
		good := true
		detail := ""
		for _, ab := range [][2]int64{{1, 2}, {2, 2}, {3, 2}} {
			v, err := evalMethod(p, fi, intVal(ab[0]), intVal(ab[1]))
			if err != nil || v.C == nil {
				r.Undecided("C02.c", k, p.pos(fi.Decl), fmt.Sprint(err))
				good = false
				break
			}
			if ab[0] == ab[1] {
				continue // tie is don't-care: sequence numbers are unique
			}
			if constant.BoolVal(v.C) != it.want(ab[0], ab[1]) {
				good = false
				detail = fmt.Sprintf("Seq(%d).%s(%d) = %v", ab[0], it.name, ab[1], constant.BoolVal(v.C))
			}
		}
		r.Check(good, "C02.c", k, p.pos(fi.Decl), "truth table matches", "the sequence comparison is wrong: "+detail)
	}
	if fi := p.Func("(internal/model/sequence.Seq).Zero"); fi != nil {
		good := true
		for _, a := range []int64{0, 1} {
			v, err := evalMethod(p, fi, intVal(a))
			if err != nil || v.C == nil || constant.BoolVal(v.C) != (a == 0) {
				good = false
			}
		}
		r.Check(good, "C02.c", "(internal/model/sequence.Seq).Zero", p.pos(fi.Decl), "Zero iff 0", "Seq.Zero is not 'equal to 0': deleted/absent versions are misreported")
	}
	// File.Latest
	if fi := p.Func(kFileLatestM); fi != nil {
		good := true
		detail := ""
		for _, ab := range [][2]int64{{1, 2}, {3, 2}, {0, 2}, {2, 0}} {
			a := &Val{Tag: "receiver", Fields: map[string]*Val{"Seq": intVal(ab[0])}}
			b := &Val{Tag: "other", Fields: map[string]*Val{"Seq": intVal(ab[1])}}
			v, err := evalMethod(p, fi, a, b)
			if err != nil {
				r.Undecided("C02.c", kFileLatestM, p.pos(fi.Decl), err.Error())
				good = false
				break
			}
			want := "other"
			if ab[0] > ab[1] {
				want = "receiver"
			}
			if v.Tag != want {
				good = false
				detail = fmt.Sprintf("Latest(receiver.Seq=%d, other.Seq=%d) returns the %s", ab[0], ab[1], v.Tag)
			}
		}
		r.Check(good, "C02.c", kFileLatestM, p.pos(fi.Decl), "returns the version with the larger Seq", "File.Latest does not return the newer version: "+detail)
	} else {
		r.Undecided("C02.c", kFileLatestM, "", "not found")
	}
	// core.Get: not-found iff chosen version's Seq is zero; chosen = f.Latest(s)
	if fi := p.Func(kCoreGet); fi != nil {
		info := fi.Pkg.TypesInfo
		f := p.FlatOf(fi)
		ok := false
		for _, n := range f.Nodes {
			if !n.IsCond {
				continue
			}
			if zeroLabel, isZ := zeroTest(p, fi, n); isZ {
				// the zero edge returns ErrNotFound, the other edge returns without it
				good := true
				seen := 0
				for _, e := range n.Succs {
					for id := range f.Reach([]int{e.To}, nil, nil) {
						if rs := f.returnStmt(id); rs != nil && len(rs.Results) == 2 {
							seen++
							nf := strings.Contains(valueKey(info, rs.Results[1]), "fs_db.ErrNotFound")
							if nf != (e.Label == zeroLabel) {
								good = false
							}
						}
					}
				}
				ok = good && seen >= 2
			}
		}
		merges := f.CallNodes(kFileLatestM)
		if !(ok && len(merges) > 0) {
			// the same decided by evaluation: the two reads answer (own, committed) with chosen sequence numbers, the
			// result must be the newer one, ErrNotFound iff both are absent (the choice may sit in a helper)
			if sem, detail, decided := c02GetTail(p, fi); decided {
				r.Check(sem, "C02.c", kCoreGet+"#not-found", p.pos(fi.Decl), "newer-of(own, committed), ErrNotFound iff its Seq is zero (evaluated)", "core.Get does not answer with the newer of own and committed version, or does not report ErrNotFound exactly when there is none: "+detail)
				ok = true
				merges = []int{0}
				goto tailDone
			}
		}
		r.Check(ok && len(merges) > 0, "C02.c", kCoreGet+"#not-found", p.pos(fi.Decl), "newer-of(own, committed), ErrNotFound iff its Seq is zero", "core.Get does not combine own and committed version with Latest, or does not report ErrNotFound exactly for a zero sequence")
	tailDone:
	}
	if fi := p.Func(kMergeFiles); fi != nil {
		f := p.FlatOf(fi)
		info := fi.Pkg.TypesInfo
		usesLatest := len(f.CallNodes(kFileLatestM)) > 0
		dropsZero := false
		for _, n := range f.Nodes {
			if n.IsCond {
				if zeroLabel, isZ := zeroTest(p, fi, n); isZ {
					// on the zero edge no append before the next iteration
					appends := f.Match(func(gn *GNode) bool {
						if as, ok := gn.Ast.(*ast.AssignStmt); ok && len(as.Rhs) == 1 {
							if cc, ok := ast.Unparen(as.Rhs[0]).(*ast.CallExpr); ok {
								if id, ok := cc.Fun.(*ast.Ident); ok && id.Name == "append" {
									return true
								}
							}
						}
						return false
					})
					for _, e := range n.Succs {
						if e.Label == zeroLabel {
							reach := f.Reach([]int{e.To}, func(x *GNode) bool { return x.Block.Kind.String() == "RangeLoop" && x.Ast == nil }, nil)
							hit := false
							for _, a := range appends {
								if reach[a] {
									hit = true
								}
							}
							dropsZero = !hit
						}
					}
				}
			}
		}
		if !usesLatest {
			// the per-key merge sits in a helper (an index type, say)
			usesLatest = len(p.FlatInl(fi).CallNodes(kFileLatestM)) > 0
		}
		if !dropsZero {
			// the library form: slices.DeleteFunc(list, func(f) bool { return f.Seq.Zero() }) as the result
			ast.Inspect(fi.Decl.Body, func(x ast.Node) bool {
				c, ok := x.(*ast.CallExpr)
				if !ok || len(c.Args) != 2 {
					return true
				}
				if fn, _ := typeutil.Callee(info, c).(*types.Func); fn == nil || fn.Pkg() == nil || fn.Pkg().Path() != "slices" || fn.Name() != "DeleteFunc" {
					return true
				}
				lit, ok := ast.Unparen(c.Args[1]).(*ast.FuncLit)
				if !ok || len(lit.Body.List) != 1 {
					return true
				}
				rs, ok := lit.Body.List[0].(*ast.ReturnStmt)
				if !ok || len(rs.Results) != 1 {
					return true
				}
				if lbl, isZ := zeroTest(p, fi, &GNode{Ast: rs.Results[0], IsCond: true}); isZ && lbl == 1 {
					dropsZero = true
				}
				return true
			})
		}
		r.Check(usesLatest && dropsZero, "C02.c", kMergeFiles, p.pos(fi.Decl), "Latest per key, zero-Seq entries dropped", "mergeFiles does not merge per key with Latest or lists entries without a version")
	}
}

// zeroTest recognises a condition node that is Seq.Zero() under any number of negations and returns the edge
// label on which the sequence number is zero.
func zeroTest(p *Prog, fi *FuncInfo, n *GNode) (int, bool) {
	e, ok := n.Ast.(ast.Expr)
	if !ok || !n.IsCond {
		return 0, false
	}
	label := 1
	for {
		e = ast.Unparen(e)
		if u, ok := e.(*ast.UnaryExpr); ok && u.Op == token.NOT {
			label = 3 - label
			e = u.X
			continue
		}
		break
	}
	if c, isC := e.(*ast.CallExpr); isC && p.callIs(fi.Pkg, c, "(internal/model/sequence.Seq).Zero") {
		return label, true
	}
	return 0, false
}

// evalMethod evaluates a pure method abstractly with the given receiver/arguments.
func evalMethod(p *Prog, fi *FuncInfo, args ...*Val) (v *Val, err error) {
	defer func() {
		if r := recover(); r != nil {
			if ee, ok := r.(evalErr); ok {
				err = ee
				return
			}
			panic(r)
		}
	}()
	info := fi.Pkg.TypesInfo
	env := &Env{P: p, Pkg: fi.Pkg, Vars: map[types.Object]*Val{}}
	i := 0
	if fi.Decl.Recv != nil && len(fi.Decl.Recv.List[0].Names) == 1 {
		env.Vars[info.Defs[fi.Decl.Recv.List[0].Names[0]]] = args[0]
		i = 1
	}
	for _, fld := range fi.Decl.Type.Params.List {
		for _, nm := range fld.Names {
			if i < len(args) {
				env.Vars[info.Defs[nm]] = args[i]
			}
			i++
		}
	}
	ret, done := env.execBlock(fi.Decl.Body.List)
	if !done || len(ret) != 1 {
		return nil, fmt.Errorf("%s is not a single-result pure function", fi.Key)
	}
	return ret[0], nil
}

func c02Unlink(p *Prog, r *Report) {
	// "unlinks x": x.DeleteLink(), or x handed to a module function that does so on every path
	unl := p.newMustUse("unlink", func(fi *FuncInfo, c *ast.CallExpr, match func(ast.Expr) bool) bool {
		if !p.callIs(fi.Pkg, c, kNodeDeleteLink) {
			return false
		}
		sel, ok := ast.Unparen(c.Fun).(*ast.SelectorExpr)
		return ok && match(sel.X)
	})
	for _, k := range []string{kUpdateTx, kCoreDeleteTx, kCoreDeleteOld} {
		fi := p.Func(k)
		if fi == nil {
			r.Undecided("C02.d", k, "", "not found")
			continue
		}
		fi = p.drainRoot(fi)
		info := fi.Pkg.TypesInfo
		f := p.FlatInl(fi)
		// node variables assigned from pops; pops handed straight to an unlinking call
		popVars := map[types.Object]bool{}
		popLhs := map[int]ast.Expr{}
		var popNodes []int
		direct := 0
		for _, n := range f.Nodes {
			if n.Ast == nil {
				continue
			}
			for _, pc := range callsIn(n.Ast, false) {
				if !p.callIs(fi.Pkg, pc, "(*internal/model/core.file).PopBack", "(*internal/model/core.file).PopFront") {
					continue
				}
				if as, ok := n.Ast.(*ast.AssignStmt); ok && len(as.Rhs) == len(as.Lhs) {
					// n := f.PopFront(), or the parameter binding of a spliced-in helper: u, n := u, f.PopFront()
					bound := false
					for i, rh := range as.Rhs {
						if ast.Unparen(rh) == ast.Expr(pc) && (len(as.Lhs) == 1 || n.Synth != "") {
							if o := objOf(info, as.Lhs[i]); o != nil {
								popVars[o] = true
								popNodes = append(popNodes, n.ID)
								popLhs[n.ID] = as.Lhs[i]
								bound = true
							}
						}
					}
					if bound {
						continue
					}
				}
				used := false
				for _, c := range callsIn(n.Ast, false) {
					if c != pc && unl.CallUses(fi, c, func(e ast.Expr) bool { return ast.Unparen(e) == ast.Expr(pc) }) {
						used = true
					}
				}
				direct++
				r.Check(used, "C02.d", fmt.Sprintf("%s#unlink/direct%d", k, direct), p.pos(pc), "the popped node is handed straight to an unlinking call",
					"a node popped from the transaction's list is neither kept in a variable nor handed to DeleteLink: the version stays in the all-store")
			}
		}
		if len(popNodes) == 0 {
			if direct == 0 {
				r.Viol("C02.d", k+"#unlink", p.pos(fi.Decl), "no pop found")
			}
			continue
		}
		// direct unlink: n.DeleteLink() in the body; or collected: slice = append(slice, n) and a deferred closure ranges the slice calling DeleteLink
		// collectors are named by storage path (UpdateTx's freeNodes, or d.nodes of a state struct filled by an
		// inlined helper)
		collectors := map[string]bool{}
		// where the collector is drained: a deferred closure (node of the DeferStmt) or a loop in the body (node of its range expression)
		drainDefer := map[string][]ast.Node{}
		drainBody := map[string][]ast.Node{}
		// drainsParam: a helper of the package that ranges one of its slice parameters and unlinks every element
		drainsParam := func(h *FuncInfo, idx int) bool {
			po := paramObjs(h)[idx]
			if po == nil || h.Decl == nil || h.Decl.Body == nil {
				return false
			}
			hinfo := h.Pkg.TypesInfo
			found := false
			for _, rs := range rangeLoops(h.Decl.Body) {
				if rs.Value == nil || objOf(hinfo, rs.X) != po {
					continue
				}
				vobj := objOf(hinfo, rs.Value)
				ast.Inspect(rs.Body, func(z ast.Node) bool {
					if c, ok := z.(*ast.CallExpr); ok && unl.CallUses(h, c, func(e ast.Expr) bool { return vobj != nil && objOf(hinfo, e) == vobj }) {
						found = true
					}
					return true
				})
			}
			return found
		}
		scopes := []ast.Node{fi.Decl.Body}
		seenBody := map[string]bool{}
		for _, ii := range f.Inl {
			if h := p.Func(ii.Callee); h != nil && h.Decl != nil && h.Decl.Body != nil && !seenBody[ii.Callee] {
				seenBody[ii.Callee] = true
				scopes = append(scopes, h.Decl.Body)
			}
		}
		for _, top := range scopes {
			ast.Inspect(top, func(x ast.Node) bool {
				// a loop (in a deferred closure or in the body) that ranges a slice and unlinks each element
				var scope ast.Node = x
				var deferStmt ast.Node
				if _, isRange := x.(*ast.RangeStmt); !isRange {
					deferStmt = x
					ds, ok := x.(*ast.DeferStmt)
					if !ok || top != ast.Node(fi.Decl.Body) {
						return true
					}
					lit, ok := ds.Call.Fun.(*ast.FuncLit)
					if !ok {
						return true
					}
					scope = lit.Body
				}
				note := func(cp string, at ast.Expr) {
					if cp == "" {
						return
					}
					collectors[cp] = true
					if deferStmt != nil {
						if _, isD := deferStmt.(*ast.DeferStmt); isD {
							drainDefer[cp] = append(drainDefer[cp], deferStmt)
						}
					} else {
						drainBody[cp] = append(drainBody[cp], at)
					}
				}
				ast.Inspect(scope, func(y ast.Node) bool {
					if c, ok := y.(*ast.CallExpr); ok && deferStmt != nil {
						// the deferred closure hands the collector to a helper that unlinks every element
						if h := p.staticCallee(fi.Pkg, c); h != nil && h.Pkg == fi.Pkg {
							for i, a := range argExprs(c, h) {
								if i >= 0 && drainsParam(h, i) {
									note(f.CanonPath(a), a)
								}
							}
						}
					}
					// an index loop over the whole collector: for i := 0; i < len(S); i++ { unlink(S[i]) }
					if fs, ok := y.(*ast.ForStmt); ok && fs.Cond != nil {
						ast.Inspect(fs.Body, func(z ast.Node) bool {
							c, ok := z.(*ast.CallExpr)
							if !ok {
								return true
							}
							var coll ast.Expr
							if unl.CallUses(fi, c, func(e ast.Expr) bool {
								ix, ok := ast.Unparen(e).(*ast.IndexExpr)
								if !ok {
									return false
								}
								// the loop condition bounds the index by the length of the same slice
								bounded := false
								ast.Inspect(fs.Cond, func(w ast.Node) bool {
									if lc, ok := w.(*ast.CallExpr); ok && len(lc.Args) == 1 {
										if id, ok := lc.Fun.(*ast.Ident); ok && id.Name == "len" && f.CanonPath(lc.Args[0]) != "" && f.CanonPath(lc.Args[0]) == f.CanonPath(ix.X) {
											bounded = true
										}
									}
									return true
								})
								if bounded {
									coll = ix.X
								}
								return bounded
							}) && coll != nil {
								note(f.CanonPath(coll), coll)
							}
							return true
						})
					}
					rs, ok := y.(*ast.RangeStmt)
					if !ok || (rs.Value == nil && rs.Key == nil) {
						return true
					}
					var vobj, kobj types.Object
					if rs.Value != nil {
						vobj = objOf(info, rs.Value)
					} else {
						kobj = objOf(info, rs.Key)
					}
					unlinks := false
					ast.Inspect(rs.Body, func(z ast.Node) bool {
						if c, ok := z.(*ast.CallExpr); ok && unl.CallUses(fi, c, func(e ast.Expr) bool {
							if vobj != nil && objOf(info, e) == vobj {
								return true
							}
							// by position: for i := range S { unlink(S[i]) }
							if ix, isIx := ast.Unparen(e).(*ast.IndexExpr); isIx && kobj != nil && objOf(info, ix.Index) == kobj {
								return f.CanonPath(ix.X) != "" && f.CanonPath(ix.X) == f.CanonPath(rs.X)
							}
							return false
						}) {
							unlinks = true
						}
						return true
					})
					if unlinks {
						note(f.CanonPath(rs.X), rs.X)
					}
					return true
				})
				return true
			})
		}
		// a collector drained by a body loop that sits inside a deferred closure is listed under both; the defer wins
		for o := range drainDefer {
			delete(drainBody, o)
		}
		nodeOf := func(a ast.Node) int {
			for _, n := range f.Nodes {
				if n.Ast == a {
					return n.ID
				}
			}
			return -1
		}
		handled := f.Match(func(n *GNode) bool {
			for _, c := range callsIn(n.Ast, false) {
				if unl.CallUses(fi, c, func(e ast.Expr) bool {
					o := objOf(info, e)
					return o != nil && (popVars[o] || popVars[f.CanonObj(o)])
				}) {
					return true
				}
			}
			if as, ok := n.Ast.(*ast.AssignStmt); ok && len(as.Lhs) == 1 && len(as.Rhs) == 1 && n.Synth == "" && collectors[f.rawPath(as.Lhs[0])] {
				co := f.rawPath(as.Lhs[0])
				if c, ok := ast.Unparen(as.Rhs[0]).(*ast.CallExpr); ok {
					if id, ok := c.Fun.(*ast.Ident); ok && id.Name == "append" {
						for _, a := range c.Args[1:] {
							if ao := objOf(info, a); ao == nil || !(popVars[ao] || popVars[f.CanonObj(ao)]) {
								continue
							}
							// collected: counts only if the collector is certainly drained afterwards
							for _, d := range drainDefer[co] {
								if dn := nodeOf(d); dn >= 0 && f.MustPrecede(setOf([]int{dn}), n.ID) {
									return true
								}
							}
							for _, d := range drainBody[co] {
								dn := nodeOf(d)
								if dn < 0 {
									continue
								}
								// every exit reachable from the append passes the draining loop
								reach := f.Reach(f.succsOf(n.ID), func(x *GNode) bool { return x.ID == dn }, nil)
								okAll := true
								for _, e := range f.Exits() {
									if reach[e] {
										okAll = false
									}
								}
								if okAll {
									return true
								}
							}
						}
					}
				}
			}
			return false
		})
		hs := setOf(handled)
		for i, pid := range popNodes {
			as := f.Nodes[pid].Ast.(*ast.AssignStmt)
			nodeObj := objOf(info, popLhs[pid])
			cons := fmt.Sprintf("%s#unlink/%d", k, i+1)
			reach := f.Reach(f.succsOf(pid), func(x *GNode) bool { return hs[x.ID] }, func(from *GNode, e Edge) bool {
				if from.IsCond {
					if ex := isNilCompare(info, from.Ast.(ast.Expr)); ex != nil && objOf(info, ex) == nodeObj {
						be := ast.Unparen(from.Ast.(ast.Expr)).(*ast.BinaryExpr)
						nilLabel := 1
						if be.Op.String() == "!=" {
							nilLabel = 2
						}
						return e.Label != nilLabel
					}
				}
				return true
			})
			bad := ""
			for _, e := range f.Exits() {
				if reach[e] {
					bad = p.pos(f.Nodes[e].Ast)
				}
			}
			for _, other := range popNodes {
				if reach[other] && objOf(info, popLhs[other]) == nodeObj {
					bad = p.pos(f.Nodes[other].Ast) + " (overwritten by the next pop)"
				}
			}
			r.Check(bad == "" && len(handled) > 0, "C02.d", cons, p.pos(as), "the popped node is unlinked from the all-store (directly or through the deferred free list)",
				"a node popped from the transaction's list can reach "+bad+" without DeleteLink: the version stays in the all-store and ReadUncommitted readers keep seeing a rolled-back / collected / re-stamped version")
		}
	}
}

// levelTableByEval derives the level -> filter table by evaluating the function abstractly for each declared
// level (success path: every error is nil), whatever control structure builds the filter. The filter is read at
// the call that passes it to the core.
func levelTableByEval(p *Prog, fi *FuncInfo, callee string, levels map[string]string) (map[string]levelRow, string, bool) {
	f := p.FlatInl(fi)
	sites := f.CallSites(callee)
	if len(sites) != 1 {
		if os.Getenv("FSDBCHECK_DEBUG") != "" {
			fmt.Println("DEBUG levelTableByEval", fi.Key, "call sites of", callee, ":", len(sites))
		}
		return nil, "", false
	}
	call := sites[0].Call
	res := map[string]levelRow{}
	for val, name := range levels {
		lv := val
		env := &Env{P: p, Pkg: fi.Pkg, Vars: map[types.Object]*Val{}}
		env.Hook = func(env *Env, e ast.Expr) (*Val, bool) {
			if env.Pkg != fi.Pkg {
				return nil, false
			}
			switch x := e.(type) {
			case *ast.SelectorExpr:
				if x.Sel.Name == "IsoLevel" {
					c, _ := constValOfKeyVal(lv)
					return c, true
				}
				if x.Sel.Name == "Seq" {
					return &Val{Tag: "tx.Seq"}, true
				}
				if x.Sel.Name == "Id" {
					return &Val{Tag: "tx.Id"}, true
				}
			case *ast.Ident:
				if o := objOf(env.Pkg.TypesInfo, x); o != nil && isErrorType(o.Type()) {
					return &Val{Nil: true}, true
				}
				// the transaction record itself is opaque (it comes from the registry); its fields are given above
				if o := objOf(env.Pkg.TypesInfo, x); o != nil && env.Vars[o] == nil && strings.HasSuffix(o.Type().String(), "internal/model.Transaction") {
					return &Val{Tag: "tx"}, true
				}
			}
			return nil, false
		}
		visited, _, err := f.WalkPath(env)
		reached := false
		for _, id := range visited {
			if id == sites[0].Node {
				reached = true
			}
		}
		if !reached {
			if err != nil && f.WalkStop == sites[0].Node {
				reached = true
			}
		}
		if !reached {
			if os.Getenv("FSDBCHECK_DEBUG") != "" {
				fmt.Println("DEBUG levelTableByEval", fi.Key, name, "call not reached:", err, "stopped at", p.pos(f.Nodes[f.WalkStop].Ast))
			}
			return nil, "", false
		}
		// the filter as it is handed to the core: the value of the argument expression (a variable, or a call of
		// a pure helper that builds it)
		fv, everr := env.Eval(call.Args[len(call.Args)-1])
		if everr != nil {
			if os.Getenv("FSDBCHECK_DEBUG") != "" {
				fmt.Println("DEBUG levelTableByEval", fi.Key, name, everr)
			}
			return nil, "", false
		}
		row := levelRow{Level: "fs_db." + name, TxId: "-", BeforeSeq: "-"}
		if fv != nil && fv.Fields != nil {
			if t := fv.Fields["TxId"]; t != nil && !t.Nil {
				v := t
				for v.Ptr != nil {
					v = v.Ptr
				}
				if v.C != nil {
					if main, ok := constValOfKeyStr(p, "internal/model.MainTxId"); ok && strings.Trim(v.C.ExactString(), "\"") == main {
						row.TxId = "internal/model.MainTxId"
					} else {
						row.TxId = v.C.ExactString()
					}
				} else {
					row.TxId = v.String()
				}
			}
			if b := fv.Fields["BeforeSeq"]; b != nil && !b.Nil {
				v := b
				for v.Ptr != nil {
					v = v.Ptr
				}
				row.BeforeSeq = v.String()
			}
		}
		res[val] = row
	}
	return res, p.pos(call), true
}

func constValOfKeyVal(v string) (*Val, bool) {
	var n int64
	if _, err := fmt.Sscan(v, &n); err != nil {
		return nil, false
	}
	return intVal(n), true
}

// c02GetTail evaluates core.Get for a filter that names a store and a snapshot point: the k-th read of a per-store
// reader answers a version with a chosen sequence number; the function must return the newer one, and ErrNotFound
// exactly when both are absent (sequence zero).
func c02GetTail(p *Prog, fi *FuncInfo) (good bool, detail string, decided bool) {
	readers := snapshotReaders(p)
	if len(readers) == 0 {
		return false, "", false
	}
	info := fi.Pkg.TypesInfo
	var filterObj, txIdObj types.Object
	for _, fld := range fi.Decl.Type.Params.List {
		for _, nm := range fld.Names {
			o := info.Defs[nm]
			if o == nil {
				continue
			}
			if strings.HasSuffix(o.Type().String(), "model.FileFilter") {
				filterObj = o
			}
			if bt, ok := o.Type().(*types.Basic); ok && bt.Kind() == types.String && txIdObj == nil {
				txIdObj = o
			}
		}
	}
	if filterObj == nil {
		return false, "", false
	}
	good = true
	for _, sc := range [][2]int64{{0, 0}, {3, 0}, {0, 5}, {3, 5}, {5, 3}} {
		f := p.FlatInlExcept(fi, readers...)
		fv := &Val{Fields: map[string]*Val{"TxId": {Ptr: strVal("filter-id")}, "BeforeSeq": {Ptr: intVal(9)}}}
		env := &Env{P: p, Pkg: fi.Pkg, Vars: map[types.Object]*Val{filterObj: fv}}
		if txIdObj != nil {
			env.Vars[txIdObj] = strVal("own-id")
		}
		env.Multi = func(env *Env, c *ast.CallExpr) ([]*Val, bool) {
			if env.Pkg == fi.Pkg && p.callIs(fi.Pkg, c, "(*internal/model/core.Transactions).Get") && len(c.Args) == 1 {
				return []*Val{{Tag: "store"}, boolVal(true)}, true
			}
			return nil, false
		}
		k := 0
		env.Hook = func(env *Env, e ast.Expr) (*Val, bool) {
			if env.Pkg != fi.Pkg {
				return nil, false
			}
			if c, ok := e.(*ast.CallExpr); ok && p.callIs(fi.Pkg, c, readers...) {
				seq := int64(0)
				if k < 2 {
					seq = sc[k]
				}
				k++
				return &Val{Tag: fmt.Sprintf("read%d", k), Complete: true, Fields: map[string]*Val{"Seq": intVal(seq), "Key": strVal("k")}}, true
			}
			return nil, false
		}
		_, exit, err := f.WalkPath(env)
		if err != nil || k != 2 {
			return false, "", false
		}
		rs := f.returnStmt(exit)
		if rs == nil || len(rs.Results) != 2 {
			return false, "", false
		}
		notFound := strings.Contains(valueKey(info, rs.Results[1]), "fs_db.ErrNotFound")
		isNil := isNilIdent(info, rs.Results[1])
		wantNF := sc[0] == 0 && sc[1] == 0
		switch {
		case wantNF && !notFound:
			good, detail = false, "own and committed version absent: no ErrNotFound"
		case !wantNF && !isNil:
			good, detail = false, fmt.Sprintf("own sequence %d, committed sequence %d: an error is returned", sc[0], sc[1])
		case !wantNF:
			v, verr := env.Eval(rs.Results[0])
			if verr != nil || v == nil || v.Fields == nil || v.Fields["Seq"] == nil || v.Fields["Seq"].C == nil {
				return false, "", false
			}
			want := sc[0]
			if sc[1] > want {
				want = sc[1]
			}
			if v.Fields["Seq"].C.ExactString() != fmt.Sprint(want) {
				good, detail = false, fmt.Sprintf("own sequence %d, committed sequence %d: the version with sequence %s is returned", sc[0], sc[1], v.Fields["Seq"].C.ExactString())
			}
		}
	}
	return good, detail, true
}

// readerKind: does a per-store reader select with Latest only, with LastBefore only, or with both?
func (p *Prog) readerKind(fi *FuncInfo) string {
	if fi == nil || fi.Decl == nil || fi.Decl.Body == nil {
		return ""
	}
	latest, before := false, false
	ast.Inspect(fi.Decl.Body, func(x ast.Node) bool {
		if c, ok := x.(*ast.CallExpr); ok {
			if p.callIs(fi.Pkg, c, kFileLatest) {
				latest = true
			}
			if p.callIs(fi.Pkg, c, kLastBefore) {
				before = true
			}
		}
		return true
	})
	switch {
	case latest && before:
		return "both"
	case latest:
		return "latest-only"
	case before:
		return "before-only"
	}
	return ""
}

// readerRecvFields: the receiver type is a struct with a field holding a transaction store (*core.Transaction) and,
// optionally, one holding the snapshot point (*sequence.Seq); it returns their names.
func readerRecvFields(t types.Type) (storeField, pointField string) {
	if pt, ok := t.(*types.Pointer); ok {
		t = pt.Elem()
	}
	st, ok := t.Underlying().(*types.Struct)
	if !ok {
		return "", ""
	}
	for i := 0; i < st.NumFields(); i++ {
		ft := st.Field(i).Type().String()
		switch {
		case strings.HasPrefix(ft, "*") && strings.HasSuffix(ft, "internal/model/core.Transaction"):
			storeField = st.Field(i).Name()
		case strings.HasPrefix(ft, "*") && strings.HasSuffix(ft, "sequence.Seq"):
			pointField = st.Field(i).Name()
		}
	}
	return storeField, pointField
}
