package main

// C15 Free of data races: four repository-specific lockset rules (necessary conditions).

import (
	"fmt"
	"go/ast"
	"go/types"
	"sort"
	"strings"
)

func init() { register("C15", propC15) }

const (
	pkgDI = "internal/di"
)

func propC15(p *Prog, r *Report) {
	r.Rule("C15.a", "lazily built singletons: every di.Container accessor is an unsynchronised check-then-assign; the container fields an accessor reachable from a concurrent entry point (exported methods of the inline db/tx, scheduled jobs, gRPC handlers, app Stop) may assign must already be assigned when the constructor (inline db.New / app.New) returns, or the accessor must be synchronised")
	r.Rule("C15.b", "non-thread-safe API on a shared object: a *math/rand/v2.Rand stored in a singleton is only used through a synchronised Source or under a lock; omap.OMap.Iter/Len (not locked by the dependency, unlike Store/Load/Delete) are only used under a lock of the owning repository that its mutating methods also hold")
	r.Rule("C15.c", "guarded-by: for every struct that owns a mutex, each field written outside constructors is accessed by the type's methods only under a mutex of the receiver (write lock for writes); usecase/core's externally locked stores are covered by C06.c, whose obligations are included here")
	r.Rule("C15.d", "lifecycle fields: wpool.Pool.{ctx,cancel,ch} are written only by the constructor and Run, and both database constructors call Pool().Run before any other use of the pool")
	r.NotDecided = []string{"absence of all data races (needs may-happen-in-parallel and alias analysis over the whole program; no pointer analysis is available in x/tools v0.29.0)", "WaitGroup reuse between Send and Stop (candidate rule C15.e, not armed)"}
	r.Assume = []string{"math/rand/v2.Rand has no state besides its Source", "github.com/glebziz/containers/omap locks Store/Load/Delete but not Iter/Len (read from its source, v1.0.2)"}

	c15Singletons(p, r)
	c15UnsafeAPIs(p, r)
	c06ReadersDoNotWrite(p, r, "C15.c")
	n := c06GuardedBy(p, r, "C15.c")
	n += c15GuardedFields(p, r)
	r.Floor("C15.c", "guarded-accesses", n, 50)
	c15Lifecycle(p, r)
}

// accessor summaries of di.Container
type accessorSum struct {
	fi      *FuncInfo
	assigns map[string]bool
	calls   map[string]bool
	synced  bool
}

func containerAccessors(p *Prog) map[string]*accessorSum {
	res := map[string]*accessorSum{}
	for _, k := range containerMethodKeys(p) {
		fi := p.Funcs[k]
		info := fi.Pkg.TypesInfo
		s := &accessorSum{fi: fi, assigns: map[string]bool{}, calls: map[string]bool{}}
		ast.Inspect(fi.Decl.Body, func(x ast.Node) bool {
			switch n := x.(type) {
			case *ast.AssignStmt:
				for _, l := range n.Lhs {
					if sel, ok := l.(*ast.SelectorExpr); ok {
						if fv, ok := info.Uses[sel.Sel].(*types.Var); ok && fv.IsField() {
							s.assigns[fv.Name()] = true
						}
					}
				}
			case *ast.CallExpr:
				for _, ck := range p.calleeKeys(fi.Pkg, n) {
					if isContainerMethod(p, ck) {
						s.calls[ck] = true
					}
				}
				if p.lockOpOf(fi.Pkg, n) != nil {
					s.synced = true
				}
				if sel, ok := n.Fun.(*ast.SelectorExpr); ok && sel.Sel.Name == "Do" {
					if fn, ok := info.Uses[sel.Sel].(*types.Func); ok && strings.HasPrefix(fkey(fn), "(*sync.Once)") {
						s.synced = true
					}
				}
			}
			return true
		})
		res[k] = s
	}
	return res
}

func accClosure(acc map[string]*accessorSum, roots map[string]bool) (fields map[string]string) {
	fields = map[string]string{} // field -> accessor that assigns it
	seen := map[string]bool{}
	var work []string
	for k := range roots {
		work = append(work, k)
	}
	for len(work) > 0 {
		k := work[len(work)-1]
		work = work[:len(work)-1]
		if seen[k] || acc[k] == nil {
			continue
		}
		seen[k] = true
		if !acc[k].synced {
			for f := range acc[k].assigns {
				fields[f] = k
			}
		}
		for c := range acc[k].calls {
			work = append(work, c)
		}
	}
	return
}

// accessorCallsIn collects the Container accessors called in the node (literals optional).
func accessorCallsIn(p *Prog, fi *FuncInfo, n ast.Node, lits bool) map[string]bool {
	res := map[string]bool{}
	visit := func(x ast.Node) bool {
		if c, ok := x.(*ast.CallExpr); ok {
			for _, ck := range p.calleeKeys(fi.Pkg, c) {
				if isContainerMethod(p, ck) {
					res[ck] = true
				}
			}
		}
		return true
	}
	if lits {
		ast.Inspect(n, visit)
	} else {
		walkNoLit(n, visit)
	}
	return res
}

func c15Singletons(p *Prog, r *Report) {
	acc := containerAccessors(p)
	r.Floor("C15.a", "container-accessors", len(acc), 15)
	type world struct {
		ctor    string
		entries []string
	}
	inlineEntries := append(p.methodsOf("pkg/inline/db", "db"), p.methodsOf("pkg/inline/db", "tx")...)
	appEntries := append(handlerKeys(p), "(*internal/app.app).Stop", "(*internal/app.app).Run")
	tables := map[string]any{}
	for _, w := range []world{{"pkg/inline/db.New", inlineEntries}, {"internal/app.New", appEntries}} {
		ctor := p.Func(w.ctor)
		if ctor == nil {
			r.Undecided("C15.a", w.ctor, "", "constructor not found")
			continue
		}
		// accessors the constructor forces: in its own body and in the helpers (stages) it calls synchronously
		initRoots := map[string]bool{}
		var force func(fi *FuncInfo, depth int, open map[string]bool)
		force = func(fi *FuncInfo, depth int, open map[string]bool) {
			for k := range accessorCallsIn(p, fi, fi.Decl.Body, false) {
				initRoots[k] = true
			}
			if depth == 0 {
				return
			}
			walkNoLit(fi.Decl.Body, func(x ast.Node) bool {
				if _, isGo := x.(*ast.GoStmt); isGo {
					return false
				}
				if c, ok := x.(*ast.CallExpr); ok {
					if callee := p.staticCallee(fi.Pkg, c); callee != nil && callee.Pkg == fi.Pkg && !open[callee.Key] {
						open[callee.Key] = true
						force(callee, depth-1, open)
					}
				}
				return true
			})
		}
		force(ctor, 3, map[string]bool{ctor.Key: true})
		finit := accClosure(acc, initRoots)
		useRoots := map[string]bool{}
		// callbacks registered by the constructor run later, concurrently with API calls
		var ctorBodies []*FuncInfo
		ctorBodies = append(ctorBodies, ctor)
		walkNoLit(ctor.Decl.Body, func(x ast.Node) bool {
			if c, ok := x.(*ast.CallExpr); ok {
				if callee := p.staticCallee(ctor.Pkg, c); callee != nil && callee.Pkg == ctor.Pkg {
					ctorBodies = append(ctorBodies, callee)
				}
			}
			return true
		})
		for _, cb := range ctorBodies {
			ast.Inspect(cb.Decl.Body, func(x ast.Node) bool {
				if lit, ok := x.(*ast.FuncLit); ok {
					for k := range accessorCallsIn(p, cb, lit.Body, true) {
						useRoots[k] = true
					}
				}
				return true
			})
		}
		cg := p.CallGraph()
		reach := cg.Reachable(w.entries, func(k string) bool { return isContainerMethod(p, k) })
		for k := range reach {
			fi := p.Funcs[k]
			if fi == nil || fi.Decl.Body == nil || k == w.ctor {
				continue
			}
			for a := range accessorCallsIn(p, fi, fi.Decl.Body, true) {
				useRoots[a] = true
			}
		}
		fuse := accClosure(acc, useRoots)
		// a job the constructor hands to the pool can start at once: the singletons its callback reaches must
		// have been built by accessor calls that lie on every path to the registration (a call under a condition
		// does not count, a call after the registration comes too late)
		{
			cf := p.FlatInl(ctor)
			accNodes := map[string][]int{} // accessor key -> nodes that call it outside function literals
			for _, n := range cf.Nodes {
				if n.Ast == nil {
					continue
				}
				if _, isDefer := n.Ast.(*ast.DeferStmt); isDefer {
					continue
				}
				for k := range accessorCallsIn(p, ctor, n.Ast, false) {
					accNodes[k] = append(accNodes[k], n.ID)
				}
			}
			for _, n := range cf.Nodes {
				if n.Ast == nil {
					continue
				}
				var lits []*ast.FuncLit
				ast.Inspect(n.Ast, func(x ast.Node) bool {
					if l, ok := x.(*ast.FuncLit); ok {
						lits = append(lits, l)
						return false
					}
					return true
				})
				for _, lit := range lits {
					used := accessorCallsIn(p, ctor, lit.Body, true)
					if len(used) == 0 {
						continue
					}
					need := accClosure(acc, used)
					var names []string
					for f := range need {
						names = append(names, f)
					}
					sort.Strings(names)
					for _, f := range names {
						// accessor calls whose closure assigns f
						var providers []int
						for k, ids := range accNodes {
							if _, gives := accClosure(acc, map[string]bool{k: true})[f]; gives {
								providers = append(providers, ids...)
							}
						}
						cons := w.ctor + "#singleton " + f + " before the job registered at " + p.pos(n.Ast)
						okBefore := len(providers) > 0 && cf.MustPrecede(setOf(providers), n.ID)
						r.Check(okBefore, "C15.a", cons, p.pos(n.Ast), "built on every path before the job can start",
							fmt.Sprintf("the job registered here reaches the lazily built singleton %s (through %s), which the constructor does not build on every path before the registration: the worker goroutine and the constructor (or an API call) race on the unsynchronised check-then-assign", f, need[f]))
					}
				}
			}
		}
		var fi, fu []string
		for f := range finit {
			fi = append(fi, f)
		}
		for f := range fuse {
			fu = append(fu, f)
		}
		sort.Strings(fi)
		sort.Strings(fu)
		tables[w.ctor] = map[string]any{"F_init": fi, "F_use": fu}
		bad := 0
		for _, f := range fu {
			cons := w.ctor + "#singleton " + f
			if _, ok := finit[f]; ok {
				r.Hold("C15.a", cons, p.pos(acc[fuse[f]].fi.Decl), "assigned before the constructor returns")
				continue
			}
			bad++
			r.Viol("C15.a", cons, p.pos(acc[fuse[f]].fi.Decl), fmt.Sprintf("container field %s is first assigned by %s during concurrent API calls (unsynchronised check-then-assign): two goroutines can build two instances / race on the field; the constructor %s does not force it", f, fuse[f], w.ctor))
		}
	}
	r.Tables["di_closure"] = tables
}

func c15UnsafeAPIs(p *Prog, r *Report) {
	// (1) *rand.Rand values stored in singletons
	nRand := 0
	for k, fi := range p.Funcs {
		if fi.Decl.Body == nil {
			continue
		}
		info := fi.Pkg.TypesInfo
		ast.Inspect(fi.Decl.Body, func(x ast.Node) bool {
			c, ok := x.(*ast.CallExpr)
			if !ok || !isFunc(info, c, "math/rand/v2", "New") || len(c.Args) != 1 {
				return true
			}
			nRand++
			cons := k + "#rand.New"
			// source type
			tv := info.Types[c.Args[0]]
			st := tv.Type
			syncSrc := false
			name := shorten(st.String())
			if pt, ok := st.(*types.Pointer); ok {
				st = pt.Elem()
			}
			if nt, ok := st.(*types.Named); ok && nt.Obj().Pkg() != nil && isProductPath(nt.Obj().Pkg().Path()) {
				// product source: its Uint64 must hold a mutex
				for _, mk := range []string{"(*" + shortPath(nt.Obj().Pkg().Path()) + "." + nt.Obj().Name() + ").Uint64", "(" + shortPath(nt.Obj().Pkg().Path()) + "." + nt.Obj().Name() + ").Uint64"} {
					if mf := p.Funcs[mk]; mf != nil {
						lr := p.LockFlow(mf, nil)
						for _, ev := range lr.Events {
							if ev.Kind == "call" && len(ev.Held) > 0 {
								syncSrc = true
							}
						}
					}
				}
			}
			if syncSrc {
				r.Hold("C15.b", cons, p.pos(c), "Rand built over the synchronised source "+name)
				return true
			}
			// otherwise every use of the value must be under a lock: find where it flows (a container field -> usecase field)
			uses := c15RandUses(p)
			if len(uses) == 0 {
				r.Hold("C15.b", cons, p.pos(c), "the Rand is not used by any shared object")
				return true
			}
			for _, u := range uses {
				r.Check(u.locked, "C15.b", cons+" used by "+u.fn, u.pos, "used under a lock",
					fmt.Sprintf("the shared *rand.Rand (source %s, not synchronised) is used by %s without any lock: concurrent Set calls race inside the generator", name, u.fn))
			}
			return true
		})
	}
	r.Floor("C15.b", "rand-constructions", nRand, 1)
	// (2) omap.Iter / Len
	nIter := 0
	for _, k := range sortedFuncKeys(p) {
		fi := p.Funcs[k]
		if fi.Decl.Body == nil {
			continue
		}
		info := fi.Pkg.TypesInfo
		lr := (*LockResult)(nil)
		ast.Inspect(fi.Decl.Body, func(x ast.Node) bool {
			c, ok := x.(*ast.CallExpr)
			if !ok {
				return true
			}
			sel, ok := c.Fun.(*ast.SelectorExpr)
			if !ok {
				return true
			}
			fn, ok := info.Uses[sel.Sel].(*types.Func)
			if !ok || fn.Pkg() == nil || !strings.HasSuffix(fn.Pkg().Path(), "containers/omap") {
				return true
			}
			if fn.Name() != "Iter" && fn.Name() != "Len" {
				return true
			}
			nIter++
			if lr == nil {
				// (an unexported helper starts with the locks held at all of its call sites: first() under Oldest's RLock)
				var entry []Held
				if fi.Obj != nil && !fi.Obj.Exported() {
					entry = inferEntryHeld(p, fi, 0)
				}
				lr = p.LockFlow(fi, entry)
			}
			hs, _ := mustHeldAny(lr, c)
			// the walk may be the body of an iterator the (unexported) function returns: it runs where the caller
			// ranges over it, under the locks held at every call of the function (first(r.inOrder()) under r.m)
			if len(hs) == 0 && fi.Obj != nil && !fi.Obj.Exported() {
				inReturned := false
				ast.Inspect(fi.Decl.Body, func(y ast.Node) bool {
					rs, ok := y.(*ast.ReturnStmt)
					if !ok || len(rs.Results) != 1 {
						return true
					}
					if lit, ok := ast.Unparen(rs.Results[0]).(*ast.FuncLit); ok && lit.Pos() <= c.Pos() && c.End() <= lit.End() {
						inReturned = true
					}
					return true
				})
				if inReturned {
					hs = inferEntryHeld(p, fi, 0)
				}
			}
			cons := k + "#omap." + fn.Name()
			okHeld := len(hs) > 0
			// the mutators of the same field must hold the same lock class in write mode
			detail := ""
			if okHeld {
				inner, _ := ast.Unparen(sel.X).(*ast.SelectorExpr)
				if inner != nil {
					if fv, ok := info.Uses[inner.Sel].(*types.Var); ok {
						if bad := c15OmapMutators(p, fv, hs[0].Class); bad != "" {
							okHeld = false
							detail = bad
						}
					}
				}
			} else {
				detail = fmt.Sprintf("%s walks the ordered map with %s, which the dependency does not lock, while Store/Delete relink the same list under the dependency's own mutex: data race (and a torn iteration)", k, fn.Name())
			}
			r.Check(okHeld, "C15.b", cons, p.pos(c), "under "+heldString(hs)+", which the mutators hold in write mode", detail)
			return true
		})
	}
	r.Floor("C15.b", "omap-unlocked-api-uses", nIter, 1)
}

func sortedFuncKeys(p *Prog) []string {
	var ks []string
	for k := range p.Funcs {
		ks = append(ks, k)
	}
	sort.Strings(ks)
	return ks
}

type randUse struct {
	fn     string
	pos    string
	locked bool
}

// c15RandUses finds the calls of *rand.Rand methods in product code and the locks held there and in the callers
// that pass the generator down (one level: Dirs.Iterate(r) called from store.Set with u.randGen).
func c15RandUses(p *Prog) []randUse {
	var res []randUse
	for _, k := range sortedFuncKeys(p) {
		fi := p.Funcs[k]
		if fi.Decl.Body == nil {
			continue
		}
		info := fi.Pkg.TypesInfo
		var lr *LockResult
		ast.Inspect(fi.Decl.Body, func(x ast.Node) bool {
			c, ok := x.(*ast.CallExpr)
			if !ok {
				return true
			}
			sel, ok := c.Fun.(*ast.SelectorExpr)
			if !ok {
				return true
			}
			fn, ok := info.Uses[sel.Sel].(*types.Func)
			if !ok || !strings.HasPrefix(fkey(fn), "(*math/rand/v2.Rand).") {
				return true
			}
			if lr == nil {
				lr = p.LockFlow(fi, nil)
			}
			hs, _ := mustHeldAny(lr, c)
			locked := len(hs) > 0
			if !locked {
				// receiver is a parameter: all callers hold a lock at the call?
				if o := objOf(info, sel.X); o != nil && isParam(fi, o) {
					callersLocked, any := true, false
					for _, ck := range sortedFuncKeys(p) {
						cfi := p.Funcs[ck]
						if cfi.Decl.Body == nil {
							continue
						}
						var clr *LockResult
						ast.Inspect(cfi.Decl.Body, func(y ast.Node) bool {
							if cc, ok := y.(*ast.CallExpr); ok && p.callIs(cfi.Pkg, cc, k) {
								any = true
								if clr == nil {
									clr = p.LockFlow(cfi, nil)
								}
								h2, _ := mustHeldAny(clr, cc)
								if len(h2) == 0 {
									callersLocked = false
								}
							}
							return true
						})
					}
					locked = any && callersLocked
				}
			}
			res = append(res, randUse{fn: k, pos: p.pos(c), locked: locked})
			return true
		})
	}
	return res
}

func isParam(fi *FuncInfo, o types.Object) bool {
	info := fi.Pkg.TypesInfo
	for _, fld := range fi.Decl.Type.Params.List {
		for _, nm := range fld.Names {
			if info.Defs[nm] == o {
				return true
			}
		}
	}
	return false
}

// c15OmapMutators checks that Store/Delete calls on the same omap field hold class in write mode.
func c15OmapMutators(p *Prog, fv *types.Var, class string) string {
	for _, k := range sortedFuncKeys(p) {
		fi := p.Funcs[k]
		if fi.Decl.Body == nil {
			continue
		}
		info := fi.Pkg.TypesInfo
		var lr *LockResult
		bad := ""
		ast.Inspect(fi.Decl.Body, func(x ast.Node) bool {
			c, ok := x.(*ast.CallExpr)
			if !ok {
				return true
			}
			sel, ok := c.Fun.(*ast.SelectorExpr)
			if !ok || (sel.Sel.Name != "Store" && sel.Sel.Name != "Delete") {
				return true
			}
			inner, ok := ast.Unparen(sel.X).(*ast.SelectorExpr)
			if !ok || info.Uses[inner.Sel] != fv {
				return true
			}
			if lr == nil {
				lr = p.LockFlow(fi, nil)
			}
			hs, _ := mustHeldAny(lr, c)
			if !holdsClass(hs, class, "W") {
				bad = fmt.Sprintf("%s mutates the ordered map (%s) without the write lock %s that the iteration holds: the iteration still races with it", k, sel.Sel.Name, class)
			}
			return true
		})
		if bad != "" {
			return bad
		}
	}
	return ""
}

// guardedFieldExempt: one named method+field, one reason
var guardedFieldExempt = map[string]string{
	"(*internal/utils/wpool.Pool).Stop#el":         "after sendWg.Wait and runWg.Wait no sender, flusher or worker is alive (C16.c/d establish the protocol)",
	"(*internal/utils/async.readWriter).Close#err": "read after rw.Wait(): the storing goroutine, the only writer, has finished",
}

// externally locked types: their methods do not lock, the caller does (C06.c)
var externallyLocked = map[string]bool{"internal/model/core.Transaction": true, "internal/model/core.file": true}

// lifecycle fields handled by C15.d
// lifecycleFields: the pool's context, cancel function and job channel (by role, see roles.go)
func isLifecycleField(k string) bool {
	const pre = "internal/utils/wpool.Pool."
	return k == pre+poolFields.Ctx || k == pre+poolFields.Cancel || k == pre+poolFields.Ch
}

func isSyncType(t types.Type) bool {
	s := t.String()
	return strings.HasPrefix(s, "sync.") || strings.HasPrefix(s, "sync/atomic.") || strings.HasPrefix(s, "*sync.")
}

func c15GuardedFields(p *Prog, r *Report) int {
	// struct types owning a mutex
	type owner struct {
		named  *types.Named
		st     *types.Struct
		mutex  []string
		fields map[*types.Var]bool
	}
	var owners []*owner
	for _, tn := range p.named {
		nt, ok := tn.Type().(*types.Named)
		if !ok {
			continue
		}
		st, ok := nt.Underlying().(*types.Struct)
		if !ok {
			continue
		}
		name := canonTypeName(stripTypeArgs(shorten(nt.String())))
		if externallyLocked[name] {
			continue
		}
		o := &owner{named: nt, st: st, fields: map[*types.Var]bool{}}
		for i := 0; i < st.NumFields(); i++ {
			ft := st.Field(i).Type().String()
			if ft == "sync.Mutex" || ft == "sync.RWMutex" {
				o.mutex = append(o.mutex, st.Field(i).Name())
			}
			// a condition variable brings its own locker (cv.L), which may be the struct's mutex
			if ft == "*sync.Cond" || ft == "sync.Cond" {
				o.mutex = append(o.mutex, st.Field(i).Name()+".L")
			}
		}
		if len(o.mutex) > 0 {
			owners = append(owners, o)
		}
	}
	sort.Slice(owners, func(i, j int) bool { return owners[i].named.String() < owners[j].named.String() })
	n := 0
	for _, o := range owners {
		tname := stripTypeArgs(shorten(o.named.String()))
		// methods of the type (generic origin)
		var methods []*FuncInfo
		for _, k := range sortedFuncKeys(p) {
			fi := p.Funcs[k]
			if fi.Decl.Recv == nil || fi.Decl.Body == nil {
				continue
			}
			rt := fi.Sig().Recv().Type()
			if pt, ok := rt.(*types.Pointer); ok {
				rt = pt.Elem()
			}
			if rn, ok := rt.(*types.Named); ok && rn.Origin().Obj() == o.named.Origin().Obj() {
				methods = append(methods, fi)
			}
		}
		results := map[string]*LockResult{}
		// which fields are written in methods
		written := map[string]bool{}
		for _, fi := range methods {
			// an unexported method starts with the locks held at all of its call sites (a lookup helper that is
			// only called with the registry's lock held)
			lr := p.LockFlow(fi, entryHeldFor(p, fi))
			results[fi.Key] = lr
			for _, ev := range lr.Events {
				if ev.Kind == "fieldwrite" && ev.Field != nil && c15FieldOf(o.st, ev.Field) {
					written[ev.Field.Name()] = true
				}
			}
			// mutating method calls on a field (p.el.PushBack, rw.buf.Write, append target handled as write)
			for _, ev := range lr.Events {
				if ev.Kind == "call" && ev.Call != nil {
					if sel, ok := ev.Call.Fun.(*ast.SelectorExpr); ok {
						if inner, ok := ast.Unparen(sel.X).(*ast.SelectorExpr); ok {
							if fv, ok := fi.Pkg.TypesInfo.Uses[inner.Sel].(*types.Var); ok && c15FieldOf(o.st, fv) && !isSyncType(fv.Type()) {
								if mutatingMethods[sel.Sel.Name] || strings.HasPrefix(sel.Sel.Name, "Push") || strings.HasPrefix(sel.Sel.Name, "Pop") || sel.Sel.Name == "Clear" {
									written[fv.Name()] = true
								}
							}
						}
					}
				}
			}
		}
		for _, fi := range methods {
			lr := results[fi.Key]
			recvName := ""
			if len(fi.Decl.Recv.List[0].Names) == 1 {
				recvName = fi.Decl.Recv.List[0].Names[0].Name
			}
			worst := map[string]*LockEvent{}
			mode := map[string]string{}
			for _, ev := range lr.Events {
				var fv *types.Var
				isWrite := false
				switch ev.Kind {
				case "fieldwrite", "fieldread":
					fv = ev.Field
					isWrite = ev.Kind == "fieldwrite"
				default:
					continue
				}
				if fv == nil || !c15FieldOf(o.st, fv) || !written[fv.Name()] || isSyncType(fv.Type()) {
					continue
				}
				if isLifecycleField(tname + "." + fv.Name()) {
					continue
				}
				// is the access a mutating method call on the field? then it is a write
				need := "R"
				if isWrite {
					need = "W"
				}
				ok := false
				for _, h := range ev.Held {
					if strings.HasPrefix(h.Path, recvName+".") && strings.HasPrefix(h.Class, tname+".") && (need == "R" || h.Mode == "W") {
						ok = true
					}
				}
				key := fv.Name()
				if _, seen := worst[key]; !seen || !ok {
					if !ok || worst[key] == nil {
						e := *ev
						if ok {
							e.Stray = false
						} else {
							e.Stray = true // reuse as "bad" marker
						}
						if worst[key] == nil || !ok {
							worst[key] = &e
							mode[key] = need
						}
					}
				}
			}
			// mutating calls on fields count as writes
			for _, ev := range lr.Events {
				if ev.Kind != "call" || ev.Call == nil {
					continue
				}
				sel, ok := ev.Call.Fun.(*ast.SelectorExpr)
				if !ok {
					continue
				}
				inner, ok := ast.Unparen(sel.X).(*ast.SelectorExpr)
				if !ok {
					continue
				}
				fv, ok := fi.Pkg.TypesInfo.Uses[inner.Sel].(*types.Var)
				if !ok || !c15FieldOf(o.st, fv) || !written[fv.Name()] || isSyncType(fv.Type()) || isLifecycleField(tname+"."+fv.Name()) {
					continue
				}
				if !(mutatingMethods[sel.Sel.Name] || strings.HasPrefix(sel.Sel.Name, "Push") || strings.HasPrefix(sel.Sel.Name, "Pop") || sel.Sel.Name == "Clear") {
					continue
				}
				okW := false
				for _, h := range ev.Held {
					if strings.HasPrefix(h.Path, recvName+".") && strings.HasPrefix(h.Class, tname+".") && h.Mode == "W" {
						okW = true
					}
				}
				if !okW {
					e := *ev
					e.Stray = true
					worst[fv.Name()] = &e
					mode[fv.Name()] = "W"
				}
			}
			var names []string
			for k := range worst {
				names = append(names, k)
			}
			sort.Strings(names)
			for _, fname := range names {
				ev := worst[fname]
				cons := fi.Key + "#" + fname
				n++
				if strings.HasPrefix(fi.Obj.Name(), "New") {
					continue
				}
				// exemptions are written with the pinned field names; a renamed field is recognised by its role
				exKey := cons
				if fi.Decl.Recv != nil {
					exKey = fi.Key + "#" + canonFieldName(fi.Sig().Recv().Type(), fname)
				}
				if why, ok := guardedFieldExempt[exKey]; ok && ev.Stray {
					r.Exempt("C15.c", cons, p.pos(ev.Node), why)
					continue
				}
				where := ""
				if ev.Ctx != "" {
					where = " [in " + ev.Ctx + "]"
				}
				r.Check(!ev.Stray, "C15.c", cons, p.pos(ev.Node), fmt.Sprintf("field %s accessed under a mutex of the receiver", fname),
					fmt.Sprintf("field %s.%s (written by methods of the type, guarded by %v) is accessed in %s without %s-holding a mutex of the receiver (held %s)%s", tname, fname, o.mutex, fi.Key, mode[fname], heldString(ev.Held), where))
			}
		}
	}
	return n
}

func c15FieldOf(st *types.Struct, fv *types.Var) bool {
	for i := 0; i < st.NumFields(); i++ {
		if st.Field(i) == fv || (st.Field(i).Name() == fv.Name() && st.Field(i).Pos() == fv.Pos()) {
			return true
		}
	}
	return false
}

func c15Lifecycle(p *Prog, r *Report) {
	// writers of the lifecycle fields
	for _, k := range sortedFuncKeys(p) {
		fi := p.Funcs[k]
		if fi.Decl.Body == nil || shortPath(fi.Pkg.PkgPath) != pkgWpool {
			continue
		}
		info := fi.Pkg.TypesInfo
		ast.Inspect(fi.Decl.Body, func(x ast.Node) bool {
			as, ok := x.(*ast.AssignStmt)
			if !ok {
				return true
			}
			for _, l := range as.Lhs {
				sel, ok := l.(*ast.SelectorExpr)
				if !ok {
					continue
				}
				fv, ok := info.Uses[sel.Sel].(*types.Var)
				if !ok || !fv.IsField() {
					continue
				}
				if !isLifecycleField(pkgWpool + ".Pool." + fv.Name()) {
					continue
				}
				if tv, ok := info.Types[sel.X]; !ok || !strings.HasSuffix(tv.Type.String(), "wpool.Pool") {
					continue
				}
				okW := k == kPoolRun || k == kPoolNew
				if !okW {
					// an unexported helper that only Run (or the constructor) calls is part of it
					if h := p.Funcs[k]; h != nil && h.Obj != nil && !h.Obj.Exported() {
						callers, only := 0, true
						for ck, outs := range p.CallGraph().Out {
							for _, callee := range outs {
								if callee == k {
									callers++
									if c0 := strings.SplitN(ck, "$", 2)[0]; c0 != kPoolRun && c0 != kPoolNew {
										only = false
									}
								}
							}
						}
						okW = callers > 0 && only
					}
				}
				r.Check(okW, "C15.d", k+"#writes p."+fv.Name(), p.pos(as), "lifecycle field written by Run / the constructor",
					fmt.Sprintf("%s writes the pool's %s while senders and workers read it without synchronisation; only Run (before any use) and the constructor may", k, fv.Name()))
			}
			return true
		})
	}
	c15RunFirst(p, r, "C15.d")
}

// containerTypes: di.Container and the struct types of the package it embeds (layers whose accessors are promoted).
func containerTypes(p *Prog) map[string]bool {
	res := map[string]bool{"Container": true}
	pkg := p.Pkg(pkgDI)
	if pkg == nil {
		return res
	}
	var walk func(name string, depth int)
	walk = func(name string, depth int) {
		o := pkg.Types.Scope().Lookup(name)
		if o == nil || depth > 4 {
			return
		}
		st, ok := o.Type().Underlying().(*types.Struct)
		if !ok {
			return
		}
		for i := 0; i < st.NumFields(); i++ {
			f := st.Field(i)
			if !f.Embedded() {
				continue
			}
			t := f.Type()
			if pt, ok := t.(*types.Pointer); ok {
				t = pt.Elem()
			}
			if nt, ok := t.(*types.Named); ok && nt.Obj().Pkg() == pkg.Types && !res[nt.Obj().Name()] {
				res[nt.Obj().Name()] = true
				walk(nt.Obj().Name(), depth+1)
			}
		}
	}
	walk("Container", 0)
	return res
}

func containerMethodKeys(p *Prog) []string {
	var res []string
	for t := range containerTypes(p) {
		res = append(res, p.methodsOf(pkgDI, t)...)
	}
	sort.Strings(res)
	return res
}

func isContainerMethod(p *Prog, key string) bool {
	for t := range containerTypes(p) {
		if strings.HasPrefix(key, "(*"+pkgDI+"."+t+").") || strings.HasPrefix(key, "("+pkgDI+"."+t+").") {
			return true
		}
	}
	return false
}
