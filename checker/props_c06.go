package main

// C06 Concurrent operations are individually atomic and never deadlock:
// lock discipline (E1 lock-region dataflow, E2 lock-class graph).

import (
	"fmt"
	"go/ast"
	"go/token"
	"go/types"
	"sort"
	"strings"
)

func init() { register("C06", propC06) }

const (
	pkgCoreUC       = "internal/usecase/core"
	kSeqNext        = "internal/model/sequence.Next"
	kSeqSet         = "internal/model/sequence.Set"
	clsTransaction  = "internal/model/core.Transaction.m"
	kNodeDeleteLink = "(*internal/model/core.Node).DeleteLink"
	kTxPushBack     = "(*internal/model/core.Transaction).PushBack"
	kTxFiles        = "(*internal/model/core.Transaction).Files"
	kTxLen          = "(*internal/model/core.Transaction).Len"
)

// flag locks: mutexes used with TryLock as state flags (held across function boundaries by design)
var flagLockClasses = map[string]string{
	"internal/utils/wpool.Pool.runM":      "running flag: taken by Run, released by Stop",
	"internal/utils/wpool.Pool.lazySendM": "single-flusher flag: taken by lazyResend, released by the flusher goroutine",
}

// requires: functions analysed with locks assumed held on entry; every call site must provide them
type lockReq struct {
	Path func(fi *FuncInfo, c *ast.CallExpr) string // lock path in the caller's terms
	Mode string
}

func allStorePath(fi *FuncInfo) string {
	// receiver name + ".allStore.m"
	if fi.Decl.Recv != nil && len(fi.Decl.Recv.List) == 1 && len(fi.Decl.Recv.List[0].Names) == 1 {
		// a method of the all-store's own type: the receiver is the all-store
		if allStoreWrapper != "" && recvDeclTypeName(fi.Decl) == allStoreWrapper {
			return fi.Decl.Recv.List[0].Names[0].Name + ".m"
		}
		return fi.Decl.Recv.List[0].Names[0].Name + "." + allStoreField + ".m"
	}
	return "u." + allStoreField + ".m"
}

// fileOwner resolves the transaction store that owns a *file expression.
func fileOwner(p *Prog, fi *FuncInfo, e ast.Expr, depth int) string {
	info := fi.Pkg.TypesInfo
	e = ast.Unparen(e)
	if c, ok := e.(*ast.CallExpr); ok && p.callIs(fi.Pkg, c, kTxFile) {
		if sel, ok := c.Fun.(*ast.SelectorExpr); ok {
			return exprPath(sel.X)
		}
	}
	if id, ok := e.(*ast.Ident); ok && depth < 3 {
		o := objOf(info, id)
		owner := ""
		ast.Inspect(fi.Decl.Body, func(x ast.Node) bool {
			switch s := x.(type) {
			case *ast.RangeStmt:
				if s.Value != nil && objOf(info, s.Value) == o {
					if c, ok := ast.Unparen(s.X).(*ast.CallExpr); ok && p.callIs(fi.Pkg, c, kTxFiles) {
						if sel, ok := c.Fun.(*ast.SelectorExpr); ok {
							owner = exprPath(sel.X)
						}
					}
				}
			case *ast.AssignStmt:
				for i, l := range s.Lhs {
					if objOf(info, l) == o && i < len(s.Rhs) && len(s.Lhs) == len(s.Rhs) {
						if w := fileOwner(p, fi, s.Rhs[i], depth+1); w != "" {
							owner = w
						}
					}
				}
			}
			return true
		})
		return owner
	}
	return ""
}

type guardedOp struct {
	Keys []string
	Mode string
	// Locks returns the lock paths required at the call (in the caller's terms)
	Locks func(p *Prog, fi *FuncInfo, c *ast.CallExpr) []string
	What  string
}

func recvPath(c *ast.CallExpr) string {
	if sel, ok := ast.Unparen(c.Fun).(*ast.SelectorExpr); ok {
		return exprPath(sel.X)
	}
	return "?"
}

func guardedOps() []guardedOp {
	recvM := func(p *Prog, fi *FuncInfo, c *ast.CallExpr) []string { return []string{recvPath(c) + ".m"} }
	ownerM := func(p *Prog, fi *FuncInfo, c *ast.CallExpr) []string {
		sel, ok := ast.Unparen(c.Fun).(*ast.SelectorExpr)
		if !ok {
			return []string{"?"}
		}
		o := fileOwner(p, fi, sel.X, 0)
		if o == "" {
			// a list handed to an unexported helper as a parameter: its owner is known at the call sites
			if po := objOf(fi.Pkg.TypesInfo, sel.X); po != nil && !fi.Obj.Exported() {
				for i, q := range paramObjs(fi) {
					if q == po && i >= 0 {
						return []string{fmt.Sprintf("@param:%d", i)}
					}
				}
			}
			return []string{"?owner-of " + exprPath(sel.X)}
		}
		return []string{o + ".m"}
	}
	all := func(p *Prog, fi *FuncInfo, c *ast.CallExpr) []string { return []string{allStorePath(fi)} }
	return []guardedOp{
		{Keys: []string{kTxFile, kTxFiles, kTxLen}, Mode: "R", Locks: recvM, What: "reads the per-key map of a transaction store"},
		{Keys: []string{kTxPushBack}, Mode: "W", Locks: recvM, What: "appends a version to a transaction store"},
		{Keys: []string{kFileLatest, "(*internal/model/core.file).LastBefore", "(*internal/model/core.file).IterateBeforeSeq"}, Mode: "R", Locks: ownerM, What: "reads a per-key version list"},
		{Keys: []string{"(*internal/model/core.file).PopFront", "(*internal/model/core.file).PopBack", "(*internal/model/core.file).PushBack"}, Mode: "W", Locks: ownerM, What: "mutates a per-key version list"},
		{Keys: []string{kNodeDeleteLink}, Mode: "W", Locks: all, What: "unlinks a node from the all-store list"},
		{Keys: []string{kStoreToTx}, Mode: "W", Locks: func(p *Prog, fi *FuncInfo, c *ast.CallExpr) []string {
			r := []string{allStorePath(fi)}
			if len(c.Args) > 0 {
				r = append(r, exprPath(c.Args[0])+".m")
			}
			return r
		}, What: "publishes a version into a store and the all-store"},
	}
}

// guardedExempt: one named function + reason
var guardedExempt = map[string]string{
	kCoreLoad: "Load runs before the database handle exists: no other goroutine can reach the stores",
}

// guardedExemptFor: the named functions, and the unexported helpers of the package that run only on their stack
// (every caller in the module is exempt): a stage of Load extracted into a helper is still Load.
func guardedExemptFor(p *Prog, fi *FuncInfo) (string, bool) {
	return guardedExemptRec(p, fi, map[string]bool{})
}

func guardedExemptRec(p *Prog, fi *FuncInfo, open map[string]bool) (string, bool) {
	if why, ok := guardedExempt[fi.Key]; ok {
		return why, true
	}
	if fi.Obj == nil || fi.Obj.Exported() || open[fi.Key] {
		return "", false
	}
	open[fi.Key] = true
	defer delete(open, fi.Key)
	cg := p.CallGraph()
	n := 0
	why := ""
	for caller, outs := range cg.Out {
		for _, callee := range outs {
			if callee != fi.Key {
				continue
			}
			ck := strings.SplitN(caller, "$", 2)[0]
			cf := p.Funcs[ck]
			if cf == nil {
				return "", false
			}
			w, ok := guardedExemptRec(p, cf, open)
			if !ok {
				return "", false
			}
			why = w
			n++
		}
	}
	if n == 0 {
		return "", false
	}
	return why + " (helper called only from there)", true
}

func coreFuncs(p *Prog) []*FuncInfo {
	var res []*FuncInfo
	for _, fi := range p.Funcs {
		if shortPath(fi.Pkg.PkgPath) == pkgCoreUC && fi.Decl.Body != nil {
			res = append(res, fi)
		}
	}
	sort.Slice(res, func(i, j int) bool { return res[i].Key < res[j].Key })
	return res
}

// entryHeldFor: locks a package-local helper may assume on entry = intersection of the locksets held at all of its
// call sites (translated from the caller's access paths to the helper's receiver/parameter names). Exported
// functions and functions without a caller in the package start with the empty lockset.
func entryHeldFor(p *Prog, fi *FuncInfo) []Held {
	return inferEntryHeld(p, fi, 0)
}

func inferEntryHeld(p *Prog, fi *FuncInfo, depth int) []Held {
	if p.entryHeld == nil {
		p.entryHeld = map[string][]Held{}
	}
	if h, ok := p.entryHeld[fi.Key]; ok {
		return h
	}
	p.entryHeld[fi.Key] = nil // recursion guard
	if fi.Obj.Exported() || depth > 3 {
		return nil
	}
	info := fi.Pkg.TypesInfo
	recvName := ""
	if fi.Decl.Recv != nil && len(fi.Decl.Recv.List) == 1 && len(fi.Decl.Recv.List[0].Names) == 1 {
		recvName = fi.Decl.Recv.List[0].Names[0].Name
	}
	var params []string
	for _, fld := range fi.Decl.Type.Params.List {
		for _, nm := range fld.Names {
			params = append(params, nm.Name)
		}
		if len(fld.Names) == 0 {
			params = append(params, "_")
		}
	}
	_ = info
	var inter []Held
	sites := 0
	for _, k := range sortedFuncKeys(p) {
		caller := p.Funcs[k]
		if caller.Decl.Body == nil || caller.Pkg != fi.Pkg || caller == fi {
			continue
		}
		if _, exempt := guardedExemptFor(p, caller); exempt {
			continue
		}
		if strings.HasPrefix(caller.Obj.Name(), "New") && caller.Decl.Recv == nil {
			continue // a constructor fills an object nobody else can see yet
		}
		calls := false
		ast.Inspect(caller.Decl.Body, func(x ast.Node) bool {
			if c, ok := x.(*ast.CallExpr); ok && p.callIs(caller.Pkg, c, fi.Key) {
				calls = true
			}
			return !calls
		})
		if !calls {
			continue
		}
		lr := p.LockFlow(caller, inferEntryHeld(p, caller, depth+1))
		seen := map[*ast.CallExpr]bool{}
		for _, ev := range lr.Events {
			if ev.Kind != "call" || seen[ev.Call] {
				continue
			}
			isCallee := false
			for _, ck := range ev.Keys {
				if ck == fi.Key {
					isCallee = true
				}
			}
			if !isCallee {
				continue
			}
			seen[ev.Call] = true
			hs, _ := mustHeldAny(lr, ev.Call)
			// mapping caller path -> callee name
			mapping := map[string]string{}
			if sel, ok := ast.Unparen(ev.Call.Fun).(*ast.SelectorExpr); ok && recvName != "" {
				mapping[exprPath(sel.X)] = recvName
			}
			for i, a := range ev.Call.Args {
				if i < len(params) && params[i] != "_" {
					mapping[exprPath(a)] = params[i]
				}
			}
			var tr []Held
			for _, h := range hs {
				translated := false
				for from, to := range mapping {
					if h.Path == from || strings.HasPrefix(h.Path, from+".") {
						tr = append(tr, Held{Path: to + strings.TrimPrefix(h.Path, from), Class: h.Class, Mode: h.Mode})
						translated = true
					}
				}
				// a lock of the caller's own object that the callee cannot name (r.m held while r.storage.first() runs
				// on the part it guards): kept under the name of its class
				if !translated && h.Class != "" {
					tr = append(tr, Held{Path: "^" + h.Class, Class: h.Class, Mode: h.Mode})
				}
			}
			if sites == 0 {
				inter = tr
			} else {
				var keep []Held
				for _, h := range inter {
					for _, g := range tr {
						if g.Path == h.Path {
							if g.Mode == "R" {
								h.Mode = "R"
							}
							keep = append(keep, h)
							break
						}
					}
				}
				inter = keep
			}
			sites++
		}
	}
	// dedupe
	seenP := map[string]bool{}
	var res []Held
	for _, h := range inter {
		if !seenP[h.Path] {
			seenP[h.Path] = true
			res = append(res, h)
		}
	}
	sort.Slice(res, func(i, j int) bool { return res[i].Path < res[j].Path })
	p.entryHeld[fi.Key] = res
	return res
}

func entryHeldForOld(p *Prog, fi *FuncInfo) []Held {
	if fi.Key == kStoreToTx {
		// requires W(tx) and W(all-store): enforced at every call site (guarded op storeToTx)
		info := fi.Pkg.TypesInfo
		var txName string
		for _, fld := range fi.Decl.Type.Params.List {
			for _, nm := range fld.Names {
				if o := info.Defs[nm]; o != nil && strings.HasSuffix(o.Type().String(), "core.Transaction") {
					txName = nm.Name
				}
			}
		}
		hs := []Held{{Path: allStorePath(fi), Class: clsTransaction, Mode: "W"}}
		if txName != "" {
			hs = append(hs, Held{Path: txName + ".m", Class: clsTransaction, Mode: "W"})
		}
		sort.Slice(hs, func(i, j int) bool { return hs[i].Path < hs[j].Path })
		return hs
	}
	return nil
}

// c06GuardedBy checks every guarded operation in usecase/core (rule shared with C08.b, C15.c).
func c06GuardedBy(p *Prog, r *Report, rule string) int {
	ops := guardedOps()
	n := 0
	for _, fi := range coreFuncs(p) {
		lr := p.LockFlow(fi, entryHeldFor(p, fi))
		idx := map[string]int{}
		done := map[*ast.CallExpr]bool{}
		for _, ev := range lr.Events {
			if ev.Kind != "call" || done[ev.Call] {
				continue
			}
			for _, op := range ops {
				match := false
				for _, k := range ev.Keys {
					for _, w := range op.Keys {
						if k == w {
							match = true
						}
					}
				}
				if !match {
					continue
				}
				done[ev.Call] = true
				name := types.ExprString(ev.Call.Fun)
				idx[name]++
				cons := fmt.Sprintf("%s#%s/%d", fi.Key, name, idx[name])
				n++
				if why, ok := guardedExemptFor(p, fi); ok {
					r.Exempt(rule, cons, p.pos(ev.Call), why)
					continue
				}
				hs, cnt := mustHeldAny(lr, ev.Call)
				okAll := cnt > 0
				var missing []string
				for _, lp := range op.Locks(p, fi, ev.Call) {
					if !heldHereOrAtCallers(p, fi, hs, lp, op.Mode) {
						okAll = false
						missing = append(missing, op.Mode+"("+lp+")")
					}
				}
				where := ""
				if ev.Ctx != "" {
					where = " [in " + ev.Ctx + "]"
				}
				r.Check(okAll, rule, cons, p.pos(ev.Call), op.What+where+": holds "+heldString(hs),
					fmt.Sprintf("%s %s without %s (held on some path: %s)%s", name, op.What, strings.Join(missing, ", "), heldString(hs), where))
			}
		}
	}
	return n
}

// mustHeldAny intersects over all events of the call regardless of kind/context.
func mustHeldAny(lr *LockResult, c *ast.CallExpr) ([]Held, int) {
	var inter []Held
	n := 0
	for _, e := range lr.Events {
		if e.Call != c || e.Kind != "call" {
			continue
		}
		if n == 0 {
			inter = append([]Held{}, e.Held...)
		} else {
			var keep []Held
			for _, h := range inter {
				for _, g := range e.Held {
					if g.Path == h.Path {
						if g.Mode == "R" {
							h.Mode = "R"
						}
						keep = append(keep, h)
					}
				}
			}
			inter = keep
		}
		n++
	}
	return inter, n
}

func propC06(p *Prog, r *Report) {
	r.Rule("C06.a", "lock-class order: nested acquisitions (intra-procedural locksets from E1, plus callee may-acquire sets over the call graph) form an acyclic class graph; the per-transaction store locks are only nested in the order own < main < all-store (roles from the constant-ness of the id argument at every call site); no lock is acquired while already held; no WaitGroup.Wait / Cond.Wait / blocking channel operation happens while holding a lock that the goroutines releasing the wait may acquire")
	r.Rule("C06.b", "atomic write path: in core.Store the sequence draw, the durable write and the in-memory publication lie in one region holding W(transaction store) and W(all-store)")
	r.Rule("C06.c", "guarded-by: every access to a transaction store's map / per-key list / the all-store list in usecase/core holds the owning lock in the required mode on every path, including inside deferred closures replayed with the lockset at that moment")
	r.Rule("C06.d", "balanced regions: every function returns with the lockset it was entered with, releases only locks it holds and never re-acquires a held lock (try-lock state flags of the worker pool excepted, one named class each)")
	r.NotDecided = []string{"existence of a linearisation", "the lookup-then-open window in store.Get (version chosen under the lock, content opened after it)", "panics"}
	r.Assume = []string{"sync.Mutex / sync.RWMutex semantics; the dependency omap locks Store/Load/Delete internally"}

	n := c06GuardedBy(p, r, "C06.c")
	r.Floor("C06.c", "guarded-sites-in-usecase-core", n, 28)
	c06StoreRegion(p, r)
	c06Balanced(p, r)
	c06ClassGraph(p, r)
	r.Rule("C06.e", "commit is atomic for readers of the all-store: in UpdateTx the committing transaction's versions are never unlinked from the all-store before the re-stamped versions are published, unless both happen inside one uninterrupted all-store write region (otherwise a ReadUncommitted reader finds the key in neither place)")
	c06CommitMoveAtomic(p, r)
	r.Rule("C06.g", "the read / write classification of the store operations (table of C06.c) agrees with the code: an operation classified as a read writes no field of the stores")
	c06ReadersDoNotWrite(p, r, "C06.g")
	r.Rule("C06.f", "ownership hand-off of pooled objects: Pool.Release clears the elements before it publishes them on the free list and does not touch them afterwards")
	c06ReleaseThenHandsOff(p, r, "C06.f")
}

// c06CommitMoveAtomic (seeded C06-A).
func c06CommitMoveAtomic(p *Prog, r *Report) {
	fi := p.Func(kUpdateTx)
	if fi == nil {
		r.Undecided("C06.e", kUpdateTx, "", "core.UpdateTx not found")
		return
	}
	f := p.FlatInlExcept(fi, kStoreToTx)
	all := allStorePath(fi)
	// unlink sites executed in the body (range loops included; deferred closures run after the publication)
	unl := f.Match(func(n *GNode) bool {
		if _, isDefer := n.Ast.(*ast.DeferStmt); isDefer {
			return false
		}
		for _, c := range callsIn(n.Ast, false) {
			if p.callIs(fi.Pkg, c, kNodeDeleteLink) {
				return true
			}
		}
		return false
	})
	pubs := f.CallNodes(kStoreToTx)
	rel := f.Match(func(n *GNode) bool {
		if _, isDefer := n.Ast.(*ast.DeferStmt); isDefer {
			return false
		}
		for _, c := range callsIn(n.Ast, false) {
			if op := p.lockOpOf(fi.Pkg, c); op != nil && !op.Acquire && op.Path == all {
				return true
			}
		}
		return false
	})
	bad := ""
	for _, u := range unl {
		if !f.ReachableAfter(u, setOf(pubs), nil) {
			continue // unlink after the publication (or on paths that never publish)
		}
		// unlink precedes a publication: no release of the all-store lock in between
		for _, x := range rel {
			if f.ReachableAfter(u, setOf([]int{x}), nil) && f.ReachableAfter(x, setOf(pubs), nil) {
				bad = p.pos(f.Nodes[x].Ast)
			}
		}
	}
	if len(pubs) == 0 && bad == "" && p.funcCallsDeep(fi, p.keysPred(kStoreToTx)) {
		r.Undecided("C06.e", kUpdateTx+"#unlink-publish-atomic", p.pos(fi.Decl), "the publication happens in a helper the rule cannot order against the unlinking")
		return
	}
	r.Check(bad == "" && len(pubs) > 0, "C06.e", kUpdateTx+"#unlink-publish-atomic", p.pos(fi.Decl), "no gap between unlinking the transaction's versions and publishing the committed ones",
		"the committing transaction's versions are unlinked from the all-store, the all-store lock is released (at "+bad+") and only later the committed versions are published: in between a ReadUncommitted reader sees neither and reports an acknowledged key as not found")
}

func c06StoreRegion(p *Prog, r *Report) {
	fi := p.Func(kCoreStore)
	if fi == nil {
		r.Undecided("C06.b", kCoreStore, "", "core.Store not found")
		return
	}
	lr := p.LockFlow(fi, nil)
	// the store variable: first arg of storeToTx
	var txPath string
	for _, ev := range lr.eventsCalling(kStoreToTx) {
		if len(ev.Call.Args) > 0 {
			txPath = exprPath(ev.Call.Args[0]) + ".m"
		}
	}
	if txPath == "" {
		r.Viol("C06.b", kCoreStore+"#region", p.pos(fi.Decl), "core.Store does not publish through storeToTx")
		return
	}
	all := allStorePath(fi)
	for _, step := range []struct {
		name string
		keys []string
	}{{"sequence draw", []string{kSeqNext}}, {"durable write", []string{kFileRepoSet}}, {"publication", []string{kStoreToTx}}} {
		evs := lr.eventsCalling(step.keys...)
		if len(evs) == 0 {
			r.Viol("C06.b", kCoreStore+"#"+step.name, p.pos(fi.Decl), "step missing")
			continue
		}
		hs, _ := mustHeldAny(lr, evs[0].Call)
		ok := holdsMode(hs, txPath, "W") && holdsMode(hs, all, "W")
		r.Check(ok, "C06.b", kCoreStore+"#"+step.name, p.pos(evs[0].Call), step.name+" under "+heldString(hs),
			fmt.Sprintf("the %s happens without W(%s) and W(%s) (held %s): two writers can publish in an order different from their sequence numbers", step.name, txPath, all, heldString(hs)))
	}
	// one region: no release between the draw and the publication
	f := p.FlatOf(fi)
	draws := f.CallNodes(kSeqNext)
	pubs := f.CallNodes(kStoreToTx)
	rel := f.Match(func(n *GNode) bool {
		if _, isDefer := n.Ast.(*ast.DeferStmt); isDefer {
			return false
		}
		for _, c := range callsIn(n.Ast, false) {
			if op := p.lockOpOf(fi.Pkg, c); op != nil && !op.Acquire && (op.Path == txPath || op.Path == all) {
				return true
			}
		}
		return false
	})
	split := false
	for _, d := range draws {
		for _, x := range rel {
			if f.ReachableAfter(d, setOf([]int{x}), nil) && f.ReachableAfter(x, setOf(pubs), nil) {
				split = true
			}
		}
	}
	r.Check(!split && len(draws) > 0 && len(pubs) > 0, "C06.b", kCoreStore+"#one-region", p.pos(fi.Decl), "no release between draw and publication", "a lock is released between the sequence draw and the publication")
}

func lockFuncs(p *Prog) []*FuncInfo {
	var res []*FuncInfo
	for _, fi := range p.Funcs {
		if fi.Decl.Body == nil {
			continue
		}
		has := false
		ast.Inspect(fi.Decl.Body, func(x ast.Node) bool {
			if c, ok := x.(*ast.CallExpr); ok {
				if p.lockOpOf(fi.Pkg, c) != nil {
					has = true
				} else if callee := p.staticCallee(fi.Pkg, c); callee != nil && callee != fi {
					// ... or through a helper that changes the caller's lock set (lockWithAll, unlockWithAll, detachTx)
					if net := p.lockNet(callee); net != nil && (len(net.Acq) > 0 || len(net.Rel) > 0) {
						has = true
					}
					if h := p.lockHelper(callee); h != nil && len(h.Acquires) > 0 {
						has = true
					}
				}
			}
			return !has
		})
		if has {
			res = append(res, fi)
		}
	}
	sort.Slice(res, func(i, j int) bool { return res[i].Key < res[j].Key })
	return res
}

func c06Balanced(p *Prog, r *Report) {
	wr := p.lockWrappers()
	n := 0
	for _, fi := range lockFuncs(p) {
		if _, isW := wr[fi.Key]; isW {
			r.Exempt("C06.d", fi.Key, p.pos(fi.Decl), "lock wrapper: returns with the receiver's mutex held/released by contract")
			continue
		}
		if sum := p.lockHelper(fi); len(sum.Acquires) > 0 {
			r.Exempt("C06.d", fi.Key, p.pos(fi.Decl), "lock helper: returns with "+heldString(sum.Acquires)+" held together with the function that releases them (its callers are checked for calling it)")
			continue
		}
		// an unexported helper with a net effect on its caller's lock set (lockWithAll / unlockWithAll / detachTx):
		// its callers are analysed with that effect applied, and they are the ones that must be balanced
		if net := p.lockNet(fi); net != nil && (len(net.Acq) > 0 || len(net.Rel) > 0) && !fi.Obj.Exported() {
			callers := 0
			for _, ck := range sortedFuncKeys(p) {
				c := p.Funcs[ck]
				if c.Decl == nil || c.Decl.Body == nil || c == fi {
					continue
				}
				ast.Inspect(c.Decl.Body, func(x ast.Node) bool {
					if ce, isC := x.(*ast.CallExpr); isC && p.staticCallee(c.Pkg, ce) == fi {
						callers++
					}
					return true
				})
			}
			if callers > 0 {
				r.Exempt("C06.d", fi.Key, p.pos(fi.Decl), fmt.Sprintf("lock helper with a net effect (takes %s, releases %s): its %d call sites are checked with that effect applied", heldString(net.Acq), heldString(net.Rel), callers))
				continue
			}
		}
		n++
		lr := p.LockFlow(fi, nil)
		ok := true
		detail := ""
		for _, hs := range lr.Exits {
			for _, h := range hs {
				if _, flag := flagLockClasses[h.Class]; flag {
					continue
				}
				ok = false
				detail = "returns with " + h.String() + " still held on some path"
			}
		}
		for _, ev := range lr.Events {
			if ev.Op == nil {
				continue
			}
			if _, flag := flagLockClasses[ev.Op.Class]; flag {
				continue
			}
			if ev.Stray && ev.Ctx != "go" {
				ok = false
				detail = fmt.Sprintf("%s releases %s which is not held on some path (%s)", p.pos(ev.Call), ev.Op.Path, heldString(ev.Held))
			}
			if ev.Double {
				ok = false
				detail = fmt.Sprintf("%s acquires %s which is already held: self-deadlock", p.pos(ev.Call), ev.Op.Path)
			}
		}
		r.Check(ok, "C06.d", fi.Key, p.pos(fi.Decl), "balanced on every path", detail)
	}
	r.Floor("C06.d", "functions-with-lock-operations", n, 18)
}

// idRole classifies the transaction-id expression a store was looked up with.
func idRole(p *Prog, fi *FuncInfo, e ast.Expr, depth int) string {
	info := fi.Pkg.TypesInfo
	if k := exprObjKey(info, e); k == "internal/model.MainTxId" {
		return "main"
	}
	o := objOf(info, e)
	if o == nil {
		return "any"
	}
	// parameter?
	idx, i := -1, 0
	for _, fld := range fi.Decl.Type.Params.List {
		for _, nm := range fld.Names {
			if info.Defs[nm] == o {
				idx = i
			}
			i++
		}
	}
	if idx < 0 || depth > 3 {
		// local: from model.GetTxId(ctx) -> the caller's own transaction
		if rhs := singleDef(info, fi.Decl.Body, o); rhs != nil {
			if c, ok := ast.Unparen(rhs).(*ast.CallExpr); ok && p.callIs(fi.Pkg, c, "internal/model.GetTxId") {
				return "own"
			}
		}
		return "any"
	}
	roles := map[string]bool{}
	for _, caller := range p.Funcs {
		if caller.Decl.Body == nil {
			continue
		}
		ast.Inspect(caller.Decl.Body, func(x ast.Node) bool {
			if c, ok := x.(*ast.CallExpr); ok && idx < len(c.Args) && p.callIs(caller.Pkg, c, fi.Key) {
				roles[idRole(p, caller, c.Args[idx], depth+1)] = true
			}
			return true
		})
	}
	if len(roles) == 1 {
		for k := range roles {
			return k
		}
	}
	if len(roles) == 0 {
		return "any"
	}
	return "any"
}

// storeRole classifies a Transaction lock path of a function as own / main / all / any.
func storeRole(p *Prog, fi *FuncInfo, path string) string {
	root := strings.TrimSuffix(path, ".m")
	if strings.HasSuffix(root, "."+allStoreField) {
		return "all"
	}
	if allStoreWrapper != "" && fi.Decl.Recv != nil && recvDeclTypeName(fi.Decl) == allStoreWrapper && len(fi.Decl.Recv.List[0].Names) == 1 && root == fi.Decl.Recv.List[0].Names[0].Name {
		return "all"
	}
	info := fi.Pkg.TypesInfo
	role := "any"
	ast.Inspect(fi.Decl.Body, func(x ast.Node) bool {
		as, ok := x.(*ast.AssignStmt)
		if !ok || len(as.Rhs) != 1 || len(as.Lhs) == 0 {
			return true
		}
		id, ok := as.Lhs[0].(*ast.Ident)
		if !ok || id.Name != root || as.Tok != token.DEFINE {
			return true
		}
		if c, ok := ast.Unparen(as.Rhs[0]).(*ast.CallExpr); ok && len(c.Args) == 1 &&
			p.callIs(fi.Pkg, c, "(*internal/model/core.Transactions).Get", "(*internal/model/core.Transactions).Delete") {
			role = idRole(p, fi, c.Args[0], 0)
		} else if ok {
			// a get-or-create helper of the package: the store registered under one of its parameters
			if h := p.staticCallee(fi.Pkg, c); h != nil && h.Pkg == fi.Pkg && h.Decl != nil && h.Decl.Body != nil {
				args := argExprs(c, h)
				ast.Inspect(h.Decl.Body, func(y ast.Node) bool {
					hc, ok := y.(*ast.CallExpr)
					if !ok || len(hc.Args) != 1 || !p.callIs(h.Pkg, hc, "(*internal/model/core.Transactions).Get", "(*internal/model/core.Transactions).Delete") {
						return true
					}
					for i, po := range paramObjs(h) {
						if po != nil && objOf(h.Pkg.TypesInfo, hc.Args[0]) == po && args[i] != nil {
							role = idRole(p, fi, args[i], 0)
						}
					}
					return true
				})
			}
		}
		_ = info
		return true
	})
	return role
}

var roleRank = map[string]int{"own": 1, "any": 1, "main": 2, "all": 3}

func c06ClassGraph(p *Prog, r *Report) {
	type edge struct{ from, to string }
	edges := map[edge]string{} // -> witness position
	cg := p.CallGraph()
	// direct acquisitions per function (for may-acquire)
	direct := map[string]map[string]bool{}
	results := map[string]*LockResult{}
	for _, fi := range lockFuncs(p) {
		lr := p.LockFlow(fi, entryHeldFor(p, fi))
		results[fi.Key] = lr
		for _, ev := range lr.Events {
			if ev.Kind == "acquire" && ev.Ctx != "go" && !ev.Op.Try {
				if direct[fi.Key] == nil {
					direct[fi.Key] = map[string]bool{}
				}
				direct[fi.Key][ev.Op.Class] = true
			}
		}
	}
	may := map[string]map[string]bool{}
	for k, d := range direct {
		may[k] = map[string]bool{}
		for c := range d {
			may[k][c] = true
		}
	}
	for changed := true; changed; {
		changed = false
		for caller, outs := range cg.Out {
			for _, callee := range outs {
				if cg.Async[caller][callee] {
					continue // started as a goroutine: its locks are not nested in the caller's
				}
				for c := range may[callee] {
					if may[caller] == nil {
						may[caller] = map[string]bool{}
					}
					if !may[caller][c] {
						may[caller][c] = true
						changed = true
					}
				}
			}
		}
	}
	nAcq := 0
	var keys []string
	for k := range results {
		keys = append(keys, k)
	}
	sort.Strings(keys)
	for _, k := range keys {
		lr := results[k]
		fi := lr.Fn
		for _, ev := range lr.Events {
			switch ev.Kind {
			case "acquire":
				nAcq++
				if ev.Op.Try {
					// a try-lock never waits: it cannot be the blocked step of a deadlock cycle (the lock it
					// obtains still counts as held for everything acquired afterwards)
					continue
				}
				for _, h := range ev.Held {
					if h.Path == ev.Op.Path {
						continue
					}
					from, to := h.Class, ev.Op.Class
					if h.Class == clsTransaction && ev.Op.Class == clsTransaction {
						fr, tr := storeRole(p, fi, h.Path), storeRole(p, fi, ev.Op.Path)
						cons := fmt.Sprintf("%s#%s(%s) -> %s(%s)", fi.Key, h.Path, fr, ev.Op.Path, tr)
						ok := roleRank[fr] < roleRank[tr]
						r.Check(ok, "C06.a", cons, p.pos(ev.Call), "store locks nested in the order own < main < all-store",
							fmt.Sprintf("%s (%s store) is held while %s (%s store) is acquired: the global order is own < main < all-store; another operation nesting them the other way deadlocks", h.Path, fr, ev.Op.Path, tr))
						continue
					}
					e := edge{from, to}
					if _, ok := edges[e]; !ok {
						edges[e] = p.pos(ev.Call)
					}
				}
			case "call":
				if len(ev.Held) == 0 {
					continue
				}
				for _, ck := range ev.Keys {
					for c := range may[ck] {
						for _, h := range ev.Held {
							if h.Class == c && c == clsTransaction {
								// a callee takes a store lock while one is held: the callee's lock, named in the
								// caller's terms (receiver and parameters replaced by the arguments), must come later
								// in the order own < main < all-store
								acqs, known := txAcquisitions(p, p.Funcs[ck], 3, map[string]bool{})
								cons := fmt.Sprintf("%s#call %s under %s", fi.Key, ck, h.Path)
								if !known || p.Funcs[ck] == nil || ev.Call == nil {
									r.Undecided("C06.a", cons, p.pos(ev.Call), "a callee may acquire a transaction-store lock while the caller already holds one, and the callee's lock cannot be named in the caller's terms")
									continue
								}
								okAll, detail := true, ""
								undec := false
								for _, a := range acqs {
									tp, ok := translateLockPath(p, fi, ev.Call, p.Funcs[ck], a)
									if !ok {
										undec = true
										continue
									}
									if tp == h.Path {
										okAll, detail = false, fmt.Sprintf("%s is held and %s acquires it again: the call blocks forever", h.Path, ck)
										continue
									}
									fr, tr := storeRole(p, fi, h.Path), storeRole(p, fi, tp)
									if !(roleRank[fr] < roleRank[tr]) {
										okAll, detail = false, fmt.Sprintf("%s (%s store) is held while %s acquires %s (%s store): the global order is own < main < all-store", h.Path, fr, ck, tp, tr)
									}
								}
								if okAll && undec {
									r.Undecided("C06.a", cons, p.pos(ev.Call), "a lock the callee acquires cannot be named in the caller's terms")
									continue
								}
								r.Check(okAll, "C06.a", cons, p.pos(ev.Call), "the callee's store locks come later in the order own < main < all-store", detail)
								continue
							}
							e := edge{h.Class, c}
							if _, ok := edges[e]; !ok {
								edges[e] = p.pos(ev.Call) + " (via " + ck + ")"
							}
						}
					}
				}
			}
		}
	}
	r.Floor("C06.a", "lock-acquisition-sites", nAcq, 20)
	// acyclicity of the class graph (self edges included)
	adj := map[string][]string{}
	var es []string
	for e, pos := range edges {
		adj[e.from] = append(adj[e.from], e.to)
		es = append(es, e.from+" -> "+e.to+" @"+pos)
	}
	sort.Strings(es)
	r.Tables["lock_class_edges"] = es
	color := map[string]int{}
	var cyc []string
	var dfs func(n string, path []string) bool
	dfs = func(n string, path []string) bool {
		color[n] = 1
		for _, m := range adj[n] {
			if color[m] == 1 {
				cyc = append(append([]string{}, path...), n, m)
				return true
			}
			if color[m] == 0 && dfs(m, append(path, n)) {
				return true
			}
		}
		color[n] = 2
		return false
	}
	var nodes []string
	for n := range adj {
		nodes = append(nodes, n)
	}
	sort.Strings(nodes)
	cyclic := false
	for _, n := range nodes {
		if color[n] == 0 && dfs(n, nil) {
			cyclic = true
			break
		}
	}
	r.Check(!cyclic, "C06.a", "lock-class-graph", "", fmt.Sprintf("%d edges, acyclic", len(edges)), "lock classes are acquired in a cyclic order: "+strings.Join(cyc, " -> "))
	c06NoWaitUnderLock(p, r, results, may)
}

// c06NoWaitUnderLock: WaitGroup.Wait / Cond.Wait / channel operations vs held locks.
func c06NoWaitUnderLock(p *Prog, r *Report, results map[string]*LockResult, may map[string]map[string]bool) {
	// who calls Done on which WaitGroup field
	doneBy := map[*types.Var][]string{}
	for k, fi := range p.Funcs {
		if fi.Decl.Body == nil {
			continue
		}
		info := fi.Pkg.TypesInfo
		ast.Inspect(fi.Decl.Body, func(x ast.Node) bool {
			if c, ok := x.(*ast.CallExpr); ok {
				if sel, ok := c.Fun.(*ast.SelectorExpr); ok && sel.Sel.Name == "Done" {
					if fn, ok := info.Uses[sel.Sel].(*types.Func); ok && fkey(fn) == "(*sync.WaitGroup).Done" {
						if fv := wgField(info, sel.X); fv != nil {
							doneBy[fv] = append(doneBy[fv], k)
						}
					}
				}
			}
			return true
		})
	}
	n := 0
	for _, fi := range lockFuncs(p) {
		lr := results[fi.Key]
		if lr == nil {
			continue
		}
		info := fi.Pkg.TypesInfo
		for _, ev := range lr.Events {
			if ev.Kind != "call" || ev.Call == nil {
				continue
			}
			sel, ok := ev.Call.Fun.(*ast.SelectorExpr)
			if !ok {
				continue
			}
			fn, _ := info.Uses[sel.Sel].(*types.Func)
			switch fkey(fn) {
			case "(*sync.WaitGroup).Wait":
				n++
				fv := wgField(info, sel.X)
				cons := fmt.Sprintf("%s#%s.Wait", fi.Key, exprPath(sel.X))
				bad := ""
				for _, h := range ev.Held {
					for _, d := range doneBy[fv] {
						if may[d][h.Class] {
							bad = fmt.Sprintf("waits for %s while holding %s, which %s (a function that calls Done) may acquire: deadlock", exprPath(sel.X), h.String(), d)
						}
					}
				}
				r.Check(bad == "", "C06.a", cons, p.pos(ev.Call), "held "+heldString(ev.Held)+" is disjoint from what the Done callers may acquire", bad)
			case "(*sync.Cond).Wait":
				n++
				cons := fmt.Sprintf("%s#%s.Wait", fi.Key, exprPath(sel.X))
				r.Check(len(ev.Held) <= 1, "C06.a", cons, p.pos(ev.Call), "Cond.Wait with only its own lock held "+heldString(ev.Held), "Cond.Wait while holding additional locks "+heldString(ev.Held)+": they stay held while waiting")
			}
		}
	}
	r.Analysed["wait_sites_under_analysis"] = n
}

func wgField(info *types.Info, e ast.Expr) *types.Var {
	switch x := ast.Unparen(e).(type) {
	case *ast.SelectorExpr:
		if fv, ok := info.Uses[x.Sel].(*types.Var); ok && fv.IsField() {
			return fv
		}
	case *ast.Ident:
		// embedded WaitGroup: rw.Wait() -> the variable's type's embedded field
		if o := objOf(info, x); o != nil {
			t := o.Type()
			if pt, ok := t.(*types.Pointer); ok {
				t = pt.Elem()
			}
			if st, ok := t.Underlying().(*types.Struct); ok {
				for i := 0; i < st.NumFields(); i++ {
					if st.Field(i).Embedded() && strings.HasSuffix(st.Field(i).Type().String(), "sync.WaitGroup") {
						return st.Field(i)
					}
				}
			}
		}
	}
	return nil
}

// localClosure returns the functions of the same package reachable from the roots (inclusive).
func localClosure(p *Prog, roots ...string) []*FuncInfo {
	cg := p.CallGraph()
	seen := map[string]bool{}
	var res []*FuncInfo
	var work []string
	for _, r := range roots {
		work = append(work, r)
	}
	var pkg string
	if len(roots) == 0 {
		return nil
	}
	if fi := p.Funcs[roots[0]]; fi != nil {
		pkg = fi.Pkg.PkgPath
	}
	for len(work) > 0 {
		k := work[len(work)-1]
		work = work[:len(work)-1]
		if seen[k] {
			continue
		}
		seen[k] = true
		fi := p.Funcs[k]
		if fi == nil || fi.Pkg.PkgPath != pkg || fi.Decl.Body == nil {
			continue
		}
		res = append(res, fi)
		for _, o := range cg.Out[k] {
			work = append(work, o)
		}
	}
	sort.Slice(res, func(i, j int) bool { return res[i].Key < res[j].Key })
	return res
}

// txAcquisitions lists the transaction-store locks a function acquires (blocking, on its own stack), as access
// paths in the function's own terms; locks of its same-package callees are renamed through the call's arguments.
// known=false: some acquisition could not be named (interface call, untranslatable argument).
func txAcquisitions(p *Prog, fi *FuncInfo, depth int, open map[string]bool) (paths []string, known bool) {
	if fi == nil || fi.Decl == nil || fi.Decl.Body == nil {
		return nil, false
	}
	if depth < 0 || open[fi.Key] {
		return nil, false
	}
	open[fi.Key] = true
	defer delete(open, fi.Key)
	known = true
	lr := p.LockFlow(fi, entryHeldFor(p, fi))
	seen := map[string]bool{}
	add := func(s string) {
		if !seen[s] {
			seen[s] = true
			paths = append(paths, s)
		}
	}
	for _, ev := range lr.Events {
		if ev.Ctx == "go" {
			continue
		}
		switch ev.Kind {
		case "acquire":
			if !ev.Op.Try && ev.Op.Class == clsTransaction {
				add(ev.Op.Path)
			}
		case "call":
			if ev.Call == nil {
				continue
			}
			callee := p.staticCallee(fi.Pkg, ev.Call)
			if callee == nil || callee.Pkg != fi.Pkg || callee.Decl == nil || callee.Decl.Body == nil {
				continue // other packages: their own store locks are covered by the class graph
			}
			sub, k := txAcquisitions(p, callee, depth-1, open)
			if !k {
				known = false
			}
			for _, sp := range sub {
				if tp, ok := translateLockPath(p, fi, ev.Call, callee, sp); ok {
					add(tp)
				} else {
					known = false
				}
			}
		}
	}
	return paths, known
}

// translateLockPath renames a lock path of the callee (root = receiver or parameter name) into the caller's terms.
func translateLockPath(p *Prog, caller *FuncInfo, c *ast.CallExpr, callee *FuncInfo, path string) (string, bool) {
	root, rest := path, ""
	if i := strings.Index(path, "."); i >= 0 {
		root, rest = path[:i], path[i:]
	}
	args := argExprs(c, callee)
	for i, po := range paramObjs(callee) {
		if po == nil || po.Name() != root || args[i] == nil {
			continue
		}
		a := ast.Unparen(args[i])
		if u, ok := a.(*ast.UnaryExpr); ok && u.Op == token.AND {
			a = ast.Unparen(u.X)
		}
		switch a.(type) {
		case *ast.Ident, *ast.SelectorExpr:
			return types.ExprString(a) + rest, true
		}
		return "", false
	}
	return "", false
}

// heldHereOrAtCallers: the lock path is held in the required mode at this point, or -- for "@param:i", the owner
// of a version list the function received as its i-th parameter -- every call site of the function in its
// package passes a list whose owning store is locked in that mode at the call.
func heldHereOrAtCallers(p *Prog, fi *FuncInfo, hs []Held, lp, mode string) bool {
	if !strings.HasPrefix(lp, "@param:") {
		return holdsMode(hs, lp, mode)
	}
	idx := 0
	fmt.Sscanf(lp, "@param:%d", &idx)
	sites := 0
	for _, k := range sortedFuncKeys(p) {
		caller := p.Funcs[k]
		if caller.Decl == nil || caller.Decl.Body == nil || caller.Pkg != fi.Pkg || caller == fi {
			continue
		}
		var lr *LockResult
		okAll := true
		ast.Inspect(caller.Decl.Body, func(x ast.Node) bool {
			c, ok := x.(*ast.CallExpr)
			if !ok || !p.callIs(caller.Pkg, c, fi.Key) {
				return true
			}
			sites++
			arg := argExprs(c, fi)[idx]
			if arg == nil {
				okAll = false
				return true
			}
			owner := fileOwner(p, caller, arg, 0)
			if owner == "" {
				okAll = false
				return true
			}
			if lr == nil {
				lr = p.LockFlow(caller, entryHeldFor(p, caller))
			}
			chs, n := mustHeldAny(lr, c)
			if n == 0 || !holdsMode(chs, owner+".m", mode) {
				okAll = false
			}
			return true
		})
		if !okAll {
			return false
		}
	}
	return sites > 0
}
