package main

// Loader: parses and type-checks the product packages of /repo (current working
// tree) with the real build configuration. Nothing is executed.

import (
	"fmt"
	"go/ast"
	"go/token"
	"go/types"
	"os"
	"os/exec"
	"sort"
	"strings"

	"golang.org/x/tools/go/packages"
)

const modPrefix = "github.com/glebziz/fs_db"

// minProductPackages is the number of product packages on the pinned tree.
const minProductPackages = 39

type FuncInfo struct {
	Key  string // short key, e.g. (*internal/usecase/core.UseCase).Store
	Pkg  *packages.Package
	Decl *ast.FuncDecl
	Obj  *types.Func
	// Lit is set for pseudo entries describing a function literal (Decl is the enclosing declaration)
	Lit    *ast.FuncLit
	LitSig *types.Signature
}

// Sig returns the signature of the function (of the literal for pseudo entries).
func (fi *FuncInfo) Sig() *types.Signature {
	if fi.LitSig != nil {
		return fi.LitSig
	}
	return fi.Obj.Type().(*types.Signature)
}

// LitInfo builds a pseudo FuncInfo for a function literal inside fi.
func (fi *FuncInfo) LitInfo(lit *ast.FuncLit, n int) *FuncInfo {
	sig, _ := fi.Pkg.TypesInfo.Types[lit].Type.(*types.Signature)
	return &FuncInfo{Key: fmt.Sprintf("%s$lit%d", fi.Key, n), Pkg: fi.Pkg, Decl: fi.Decl, Obj: fi.Obj, Lit: lit, LitSig: sig}
}

type Prog struct {
	RepoDir string
	Tags    string
	GOOS    string
	Fset    *token.FileSet
	Pkgs    map[string]*packages.Package // product packages by short path ("" = root)
	PkgList []*packages.Package
	Funcs   map[string]*FuncInfo
	// named product types (for CHA-style interface resolution)
	named []*types.TypeName

	implCache   map[*types.Func][]*types.Func
	cg          *CallGraph
	entryHeld   map[string][]Held
	wrappers    map[string]wrapperSum
	fieldCache  map[*types.Var][]types.Type
	produce     map[string]map[string]bool
	nFuncs      int
	callSum     map[string]int
	lockHelpers map[string]*lockHelperSum
	lockNets    map[string]*lockNetSum
	// namedResults: the variables declared in result lists (their first read gives the zero value)
	namedResults map[*types.Var]bool
}

func shortPath(p string) string {
	if p == modPrefix {
		return "."
	}
	return strings.TrimPrefix(p, modPrefix+"/")
}

func shorten(s string) string {
	s = strings.ReplaceAll(s, modPrefix+"/", "")
	s = strings.ReplaceAll(s, modPrefix+".", "fs_db.")
	s = strings.ReplaceAll(s, modPrefix, "fs_db")
	return s
}

// fkey returns the stable key of a function object.
func fkey(f *types.Func) string {
	if f == nil {
		return ""
	}
	return canonKey(stripTypeArgs(shorten(f.Origin().FullName())))
}

// stripTypeArgs removes [...] type parameter/argument lists from a key.
func stripTypeArgs(s string) string {
	var b strings.Builder
	depth := 0
	for _, c := range s {
		switch c {
		case '[':
			depth++
		case ']':
			depth--
		default:
			if depth == 0 {
				b.WriteRune(c)
			}
		}
	}
	return b.String()
}

func isProductPath(p string) bool {
	if !strings.HasPrefix(p, modPrefix) {
		return false
	}
	s := shortPath(p)
	if strings.HasSuffix(s, "/mocks") || strings.Contains(s, "/mocks/") {
		return false
	}
	if strings.HasPrefix(s, "example/") || s == "pkg/test" || strings.HasPrefix(s, "pkg/test/") {
		return false
	}
	return true
}

func goEnv(extra ...string) []string {
	env := []string{}
	for _, e := range os.Environ() {
		if strings.HasPrefix(e, "GOWORK=") || strings.HasPrefix(e, "GOFLAGS=") ||
			strings.HasPrefix(e, "GOPROXY=") || strings.HasPrefix(e, "GOSUMDB=") || strings.HasPrefix(e, "GOOS=") {
			continue
		}
		env = append(env, e)
	}
	env = append(env, "GOWORK=off", "GOFLAGS=-mod=mod", "GOPROXY=off", "GOSUMDB=off")
	env = append(env, extra...)
	return env
}

// Load loads the product packages. tags is a comma separated build-tag list.
func Load(repoDir, tags, goos string) (*Prog, error) {
	var extra []string
	if goos != "" {
		extra = append(extra, "GOOS="+goos, "CGO_ENABLED=0")
	}
	args := []string{"list"}
	if tags != "" {
		args = append(args, "-tags", tags)
	}
	args = append(args, "./...")
	cmd := exec.Command("go", args...)
	cmd.Dir = repoDir
	cmd.Env = goEnv(extra...)
	out, err := cmd.Output()
	if err != nil {
		msg := ""
		if ee, ok := err.(*exec.ExitError); ok {
			msg = string(ee.Stderr)
		}
		return nil, fmt.Errorf("go list ./... in %s: %v %s", repoDir, err, msg)
	}
	var pats []string
	for _, l := range strings.Split(strings.TrimSpace(string(out)), "\n") {
		l = strings.TrimSpace(l)
		if l == "" || !isProductPath(l) {
			continue
		}
		pats = append(pats, l)
	}
	if len(pats) == 0 {
		return nil, fmt.Errorf("no product packages listed in %s", repoDir)
	}
	cfg := &packages.Config{
		Mode: packages.NeedName | packages.NeedFiles | packages.NeedCompiledGoFiles | packages.NeedImports |
			packages.NeedDeps | packages.NeedTypes | packages.NeedSyntax | packages.NeedTypesInfo | packages.NeedTypesSizes,
		Dir:   repoDir,
		Env:   goEnv(extra...),
		Tests: false,
	}
	if tags != "" {
		cfg.BuildFlags = []string{"-tags=" + tags}
	}
	pkgs, err := packages.Load(cfg, pats...)
	if err != nil {
		return nil, fmt.Errorf("packages.Load: %v", err)
	}
	p := &Prog{RepoDir: repoDir, Tags: tags, GOOS: goos, Pkgs: map[string]*packages.Package{}, Funcs: map[string]*FuncInfo{},
		implCache: map[*types.Func][]*types.Func{}}
	classThroughHook = p.classThrough
	var errs []string
	for _, pkg := range pkgs {
		if !isProductPath(pkg.PkgPath) {
			continue
		}
		for _, e := range pkg.Errors {
			errs = append(errs, fmt.Sprintf("%s: %v", pkg.PkgPath, e))
		}
		if pkg.Fset != nil {
			p.Fset = pkg.Fset
		}
		p.Pkgs[shortPath(pkg.PkgPath)] = pkg
		p.PkgList = append(p.PkgList, pkg)
	}
	// dependencies with type errors also invalidate the analysis
	packages.Visit(pkgs, nil, func(pkg *packages.Package) {
		if strings.HasPrefix(pkg.PkgPath, modPrefix) && !isProductPath(pkg.PkgPath) {
			errs = append(errs, fmt.Sprintf("non-product package %s was pulled into the product build", pkg.PkgPath))
		}
	})
	if len(errs) > 0 {
		sort.Strings(errs)
		return nil, fmt.Errorf("type/load errors:\n  %s", strings.Join(errs, "\n  "))
	}
	sort.Slice(p.PkgList, func(i, j int) bool { return p.PkgList[i].PkgPath < p.PkgList[j].PkgPath })
	if goos == "" && len(p.PkgList) < minProductPackages {
		return nil, fmt.Errorf("only %d product packages loaded, expected at least %d", len(p.PkgList), minProductPackages)
	}
	resolveRoles(p.Pkgs)
	for _, pkg := range p.PkgList {
		normalizeIterCalls(pkg)
		normalizeVarDecls(pkg)
		normalizeGoCalls(pkg)
		normalizeIndexLoops(pkg)
		normalizeHoistedRanges(pkg)
		unrollTableLoops(pkg)
	}
	registerErrPredicates(p)
	for _, pkg := range p.PkgList {
		for _, f := range pkg.Syntax {
			for _, d := range f.Decls {
				fd, ok := d.(*ast.FuncDecl)
				if !ok {
					continue
				}
				obj, _ := pkg.TypesInfo.Defs[fd.Name].(*types.Func)
				if obj == nil {
					continue
				}
				fi := &FuncInfo{Key: fkey(obj), Pkg: pkg, Decl: fd, Obj: obj}
				p.Funcs[fi.Key] = fi
				p.nFuncs++
			}
		}
		sc := pkg.Types.Scope()
		for _, n := range sc.Names() {
			if tn, ok := sc.Lookup(n).(*types.TypeName); ok {
				p.named = append(p.named, tn)
			}
		}
	}
	// two roles in one function: a helper inlined into its only caller keeps its pinned key as a second name of the
	// caller (the flusher start merged into lazySend)
	for _, mr := range mergedRoles {
		if p.Funcs[mr.Missing] == nil {
			if host := p.Funcs[mr.Host]; host != nil && host.Obj != nil && bodyHas(host.Pkg, host.Obj, mr.Body) {
				p.Funcs[mr.Missing] = host
				roleNotes = append(roleNotes, mr.Missing+" is now part of "+host.Key)
			}
		}
	}
	return p, nil
}

func (p *Prog) pos(n ast.Node) string {
	if n == nil {
		return ""
	}
	return p.posOf(n.Pos())
}

func (p *Prog) posOf(pos token.Pos) string {
	if !pos.IsValid() {
		return ""
	}
	ps := p.Fset.Position(pos)
	f := strings.TrimPrefix(ps.Filename, p.RepoDir+"/")
	return fmt.Sprintf("%s:%d", f, ps.Line)
}

func (p *Prog) line(n ast.Node) int {
	if n == nil {
		return 0
	}
	return p.Fset.Position(n.Pos()).Line
}

// Func returns the function with the given short key or nil.
func (p *Prog) Func(key string) *FuncInfo {
	if fi := p.Funcs[key]; fi != nil {
		return fi
	}
	// a key built from the current name of a renamed type or function
	if fi := p.Funcs[canonKey(key)]; fi != nil {
		return fi
	}
	// pointer receiver <-> value receiver: a method that mutates nothing may be declared either way
	return p.Funcs[toggleRecvStar(key)]
}

// toggleRecvStar turns "(*pkg.T).M" into "(pkg.T).M" and back.
func toggleRecvStar(k string) string {
	switch {
	case strings.HasPrefix(k, "(*"):
		return "(" + k[2:]
	case strings.HasPrefix(k, "("):
		return "(*" + k[1:]
	}
	return k
}

// Pkg returns the product package with the given short path or nil.
func (p *Prog) Pkg(short string) *packages.Package { return p.Pkgs[short] }

// implementers resolves an abstract (interface) method to the concrete methods of
// product types implementing the interface (CHA restricted to product packages:
// mocks are never loaded).
func (p *Prog) implementers(m *types.Func) []*types.Func {
	if r, ok := p.implCache[m]; ok {
		return r
	}
	var res []*types.Func
	sig := m.Type().(*types.Signature)
	recv := sig.Recv()
	if recv == nil {
		return nil
	}
	iface, _ := recv.Type().Underlying().(*types.Interface)
	if iface == nil {
		return nil
	}
	for _, tn := range p.named {
		T := tn.Type()
		if _, isIface := T.Underlying().(*types.Interface); isIface {
			continue
		}
		if nt, ok := T.(*types.Named); ok && nt.TypeParams().Len() > 0 {
			continue // generic types are matched by name below when needed
		}
		for _, cand := range []types.Type{T, types.NewPointer(T)} {
			if types.Implements(cand, iface) {
				obj, _, _ := types.LookupFieldOrMethod(cand, true, tn.Pkg(), m.Name())
				if f, ok := obj.(*types.Func); ok {
					res = append(res, f)
				}
				break
			}
		}
	}
	p.implCache[m] = res
	return res
}
