package main

// Virtual inlining on the flat CFG. Rules that order events inside one function ("the sequence number is drawn,
// then stamped, then written") must not depend on whether a step sits in the function or in a small helper of
// the same package. FlatInl splices the flow graph of such helpers into the caller's graph:
//
//	N: x, err := u.helper(a, b)      =>   N:  p1, p2 := a, b           (parameter binding, synthetic)
//	                                          <copy of helper's graph>
//	                                          <deferred calls of the helper, last registered first>
//	                                          x, err := r1, r2         (one per return of the helper, synthetic)
//
// Only statement-level calls are inlined (expression statement, single-call assignment, single-call return);
// calls inside larger expressions, go/defer statements, interface calls, other packages, recursion and helpers
// whose defer statements are conditional stay opaque calls, exactly as before. The synthetic statements reuse
// the identifiers and expressions of the original syntax trees, so type information stays valid for them.
// Lock-region analysis does not use inlined graphs (it has its own summaries).

import (
	"go/ast"
	"go/token"
	"go/types"
	"strconv"
	"strings"
)

// InlInfo describes where an inlined node comes from.
type InlInfo struct {
	Callee string // key of the inlined function
	Site   int    // node id of the call site in the outer graph
	// Lo, Hi: the source range of the inlined function (declaration or literal): what is declared there is local to it
	Lo, Hi token.Pos
}

const inlineDepth = 3

// FlatInl returns the flat CFG of fi with same-package helpers inlined.
func (p *Prog) FlatInl(fi *FuncInfo) *Flat {
	f := p.FlatOf(fi)
	if f == nil {
		return nil
	}
	f.inline(map[string]bool{fi.Key: true}, inlineDepth)
	return f
}

// FlatInlExcept is FlatInl that leaves calls of the given functions alone (the calls themselves are what a rule
// looks for).
func (p *Prog) FlatInlExcept(fi *FuncInfo, except ...string) *Flat {
	f := p.FlatOf(fi)
	if f == nil {
		return nil
	}
	f.noInline = map[string]bool{}
	for _, k := range except {
		f.noInline[k] = true
	}
	f.inline(map[string]bool{fi.Key: true}, inlineDepth)
	return f
}

// NewFlatInl is NewFlat followed by inlining (for function literal bodies); owner is the enclosing function.
func (p *Prog) NewFlatInl(owner *FuncInfo, body *ast.BlockStmt) *Flat {
	f := p.NewFlat(owner.Pkg, body)
	f.inline(map[string]bool{owner.Key: true}, inlineDepth)
	return f
}

// inlinableCall classifies a statement node: form 1 = expression statement, 2 = assignment, 3 = return.
func inlinableCall(n ast.Node) (*ast.CallExpr, int) {
	switch s := n.(type) {
	case *ast.ExprStmt:
		if c, ok := ast.Unparen(s.X).(*ast.CallExpr); ok {
			return c, 1
		}
	case *ast.AssignStmt:
		if len(s.Rhs) == 1 && (s.Tok == token.ASSIGN || s.Tok == token.DEFINE) {
			if c, ok := ast.Unparen(s.Rhs[0]).(*ast.CallExpr); ok {
				return c, 2
			}
		}
	case *ast.ReturnStmt:
		if len(s.Results) == 1 {
			if c, ok := ast.Unparen(s.Results[0]).(*ast.CallExpr); ok {
				return c, 3
			}
		}
	}
	return nil, 0
}

// topLevelDefers lists the defer statements of a function when all of them are direct children of the body
// (registered on every path that passes them); ok is false when a defer is nested or the body uses recover.
func topLevelDefers(info *types.Info, body *ast.BlockStmt) (defers []*ast.DeferStmt, ok bool) {
	top := map[*ast.DeferStmt]bool{}
	for _, s := range body.List {
		if d, isD := s.(*ast.DeferStmt); isD {
			top[d] = true
			defers = append(defers, d)
		}
	}
	ok = true
	walkNoLit(body, func(x ast.Node) bool {
		if d, isD := x.(*ast.DeferStmt); isD && !top[d] {
			ok = false
		}
		if id, isId := x.(*ast.Ident); isId && id.Name == "recover" {
			if _, isB := info.Uses[id].(*types.Builtin); isB {
				ok = false
			}
		}
		return ok
	})
	return defers, ok
}

func (f *Flat) inline(stack map[string]bool, depth int) {
	if depth <= 0 {
		return
	}
	// chain of callee keys through which a node was spliced in (recursion guard and depth bound); nodes of the
	// original graph have the chain of the caller's own stack
	base := ""
	for k := range stack {
		base += k + ">"
	}
	chain := map[int]string{}
	changed := false
	splices := 0
	for id := 0; id < len(f.Nodes) && splices < 200; id++ {
		N := f.Nodes[id]
		if N.Ast == nil {
			continue
		}
		ch := chain[id]
		if strings.Count(ch, ">") >= depth {
			continue
		}
		call, form := inlinableCall(N.Ast)
		negated := false
		if call == nil && N.IsCond && len(N.Succs) == 2 {
			// a predicate helper used as a branch condition: if [!]u.helper(x) { ... }
			e, _ := N.Ast.(ast.Expr)
			for e != nil {
				e = ast.Unparen(e)
				if u, ok := e.(*ast.UnaryExpr); ok && u.Op == token.NOT {
					negated = !negated
					e = u.X
					continue
				}
				break
			}
			if c, ok := e.(*ast.CallExpr); ok {
				call, form = c, 4
			}
		}
		if call == nil {
			continue
		}
		callee := f.P.staticCallee(f.Pkg, call)
		if callee == nil {
			// a function literal called on the spot (the row of an unrolled table: func() error {...}())
			if lit, ok := ast.Unparen(call.Fun).(*ast.FuncLit); ok {
				sig, _ := f.Pkg.TypesInfo.Types[lit].Type.(*types.Signature)
				callee = &FuncInfo{Key: "lit@" + f.P.pos(lit), Pkg: f.Pkg, Lit: lit, LitSig: sig}
			}
		}
		if callee == nil {
			// a call of a function-typed parameter that an enclosing splice bound to a function literal:
			// r.write(func(s) {...}) with write's "return fn(r.storage)"
			if o := objOf(f.Pkg.TypesInfo, call.Fun); o != nil && f.Alias != nil {
				if lit, ok := ast.Unparen(f.Alias[o]).(*ast.FuncLit); ok {
					sig, _ := f.Pkg.TypesInfo.Types[lit].Type.(*types.Signature)
					callee = &FuncInfo{Key: "lit@" + f.P.pos(lit), Pkg: f.Pkg, Lit: lit, LitSig: sig}
				} else if a := f.Alias[o]; a != nil {
					// ... or to a declared function of the package: readTxs(u, id, filter, filesFromTx)
					var id *ast.Ident
					switch x := ast.Unparen(a).(type) {
					case *ast.Ident:
						id = x
					case *ast.SelectorExpr:
						id = x.Sel
					}
					if id != nil {
						if fn, ok := f.Pkg.TypesInfo.Uses[id].(*types.Func); ok {
							callee = f.P.funcOfObj(fn)
						}
					}
				}
			}
		}
		if callee == nil {
			// a local closure: skip := func(step string, err error) {...}; skip("get", err) - the variable is defined
			// once, by a function literal, in the body this graph was built from
			if id, ok := ast.Unparen(call.Fun).(*ast.Ident); ok && f.Body != nil {
				if o := objOf(f.Pkg.TypesInfo, id); o != nil {
					if _, isVar := o.(*types.Var); isVar {
						if lit, ok := ast.Unparen(singleAssignedIn(f.Pkg.TypesInfo, f.Body, o)).(*ast.FuncLit); ok && lit != nil {
							sig, _ := f.Pkg.TypesInfo.Types[lit].Type.(*types.Signature)
							callee = &FuncInfo{Key: "lit@" + f.P.pos(lit), Pkg: f.Pkg, Lit: lit, LitSig: sig}
						}
					}
				}
			}
		}
		if callee == nil || callee.Pkg != f.Pkg || callee.Sig() == nil || callee.Sig().Variadic() {
			continue
		}
		if strings.Contains(base+ch, callee.Key+">") || f.noInline[callee.Key] {
			continue
		}
		body := callee.body()
		if body == nil {
			continue
		}
		defers, ok := topLevelDefers(f.Pkg.TypesInfo, body)
		if !ok {
			continue
		}
		cf := f.P.FlatOf(callee)
		if cf == nil || len(cf.Nodes) == 0 {
			continue
		}
		if form == 4 && callee.Sig().Results().Len() != 1 {
			continue
		}
		before := len(f.Nodes)
		f.splice(N, call, form, negated, callee, cf, defers)
		for k := before; k < len(f.Nodes); k++ {
			chain[k] = ch + callee.Key + ">"
		}
		splices++
		changed = true
	}
	if changed {
		for _, n := range f.Nodes {
			n.Preds = nil
		}
		for _, n := range f.Nodes {
			for _, e := range n.Succs {
				f.Nodes[e.To].Preds = append(f.Nodes[e.To].Preds, n.ID)
			}
		}
	}
}

// body returns the body of a declared function or of the literal a pseudo entry stands for.
func (fi *FuncInfo) body() *ast.BlockStmt {
	if fi.Lit != nil {
		return fi.Lit.Body
	}
	if fi.Decl == nil {
		return nil
	}
	return fi.Decl.Body
}

// funcType returns the syntax of the signature (parameters / results) and the receiver list.
func (fi *FuncInfo) funcType() (*ast.FuncType, *ast.FieldList) {
	if fi.Lit != nil {
		return fi.Lit.Type, nil
	}
	return fi.Decl.Type, fi.Decl.Recv
}

func (f *Flat) splice(N *GNode, call *ast.CallExpr, form int, negated bool, callee *FuncInfo, cf *Flat, defers []*ast.DeferStmt) {
	info := f.Pkg.TypesInfo
	if f.Inl == nil {
		f.Inl = map[int]InlInfo{}
		f.Alias = map[types.Object]ast.Expr{}
	}
	off := len(f.Nodes)
	var calleeLo, calleeHi token.Pos
	if callee.Lit != nil {
		calleeLo, calleeHi = callee.Lit.Pos(), callee.Lit.End()
	} else if callee.Decl != nil {
		calleeLo, calleeHi = callee.Decl.Pos(), callee.Decl.End()
	}
	isDefer := map[ast.Node]bool{}
	for _, d := range defers {
		isDefer[d] = true
	}
	// copy the callee's graph
	for _, c := range cf.Nodes {
		cp := &GNode{ID: c.ID + off, Block: c.Block, Ast: c.Ast, IsCond: c.IsCond, Exit: c.Exit}
		for _, e := range c.Succs {
			cp.Succs = append(cp.Succs, Edge{To: e.To + off, Label: e.Label})
		}
		if isDefer[c.Ast] {
			cp.Ast = nil // the registration; the deferred call is materialised at the returns
		}
		f.Nodes = append(f.Nodes, cp)
		if ii, ok := cf.Inl[c.ID]; ok {
			f.Inl[cp.ID] = InlInfo{Callee: ii.Callee, Site: ii.Site + off, Lo: ii.Lo, Hi: ii.Hi}
		} else {
			f.Inl[cp.ID] = InlInfo{Callee: callee.Key, Site: N.ID, Lo: calleeLo, Hi: calleeHi}
		}
	}
	for o, e := range cf.Alias {
		f.Alias[o] = e
	}
	for b, id := range cf.first {
		f.first[b] = id + off
	}
	// parameter binding replaces the call statement
	after := N.Succs
	origAst := N.Ast
	var lhs []ast.Expr
	var rhs []ast.Expr
	reassigned := map[types.Object]bool{}
	ftype, frecv := callee.funcType()
	ast.Inspect(callee.body(), func(x ast.Node) bool {
		for _, o := range assignedObjs(info, x) {
			reassigned[o] = true
		}
		if u, ok := x.(*ast.UnaryExpr); ok && u.Op == token.AND {
			if o := objOf(info, u.X); o != nil {
				reassigned[o] = true
			}
		}
		return true
	})
	bind := func(id *ast.Ident, arg ast.Expr) {
		if id == nil || arg == nil {
			return
		}
		lhs = append(lhs, id)
		rhs = append(rhs, arg)
		if o := info.Defs[id]; o != nil && !reassigned[o] {
			switch ast.Unparen(arg).(type) {
			case *ast.Ident, *ast.SelectorExpr, *ast.FuncLit:
				f.Alias[o] = arg
			case *ast.UnaryExpr:
				if u := ast.Unparen(arg).(*ast.UnaryExpr); u.Op == token.AND {
					f.Alias[o] = arg
				}
			}
		}
	}
	args := argExprs(call, callee)
	// found(r.storage.take(id)): the results of the inner call are the parameters, in order
	var spread *ast.CallExpr
	if len(call.Args) == 1 && ftype.Params.NumFields() > 1 {
		if ic, ok := ast.Unparen(call.Args[0]).(*ast.CallExpr); ok {
			if tup, ok := info.Types[ic].Type.(*types.Tuple); ok && tup.Len() == ftype.Params.NumFields() {
				spread = ic
			}
		}
	}
	if frecv != nil && len(frecv.List) == 1 && len(frecv.List[0].Names) == 1 {
		bind(frecv.List[0].Names[0], args[-1])
	}
	i := 0
	var spreadLhs []ast.Expr
	for _, fl := range ftype.Params.List {
		if len(fl.Names) == 0 {
			i++
			spreadLhs = append(spreadLhs, &ast.Ident{NamePos: call.Pos(), Name: "_"})
			continue
		}
		for _, nm := range fl.Names {
			if spread != nil {
				spreadLhs = append(spreadLhs, nm)
			} else if nm.Name != "_" {
				bind(nm, args[i])
			}
			i++
		}
	}
	entry := cf.Entry + off
	if spread != nil {
		// an extra node between the binding of the receiver and the callee's entry; it is a single-call assignment,
		// so the inner call is spliced in its turn when the loop of inline() reaches it
		sn := &GNode{ID: len(f.Nodes), Block: N.Block, Synth: "bind",
			Ast: &ast.AssignStmt{Lhs: spreadLhs, TokPos: call.Lparen, Tok: token.DEFINE, Rhs: []ast.Expr{spread}}}
		sn.Succs = []Edge{{To: entry}}
		f.Nodes = append(f.Nodes, sn)
		f.Inl[sn.ID] = InlInfo{Callee: callee.Key, Site: N.ID, Lo: calleeLo, Hi: calleeHi}
		entry = sn.ID
	}
	if len(lhs) > 0 {
		N.Ast = &ast.AssignStmt{Lhs: lhs, TokPos: call.Lparen, Tok: token.DEFINE, Rhs: rhs}
		N.Synth = "bind"
	} else {
		N.Ast = nil
	}
	N.Succs = []Edge{{To: entry}}
	wasExit := N.Exit
	N.Exit = false
	N.IsCond = false
	// named results (for bare returns)
	var named []ast.Expr
	if ftype.Results != nil {
		for _, fl := range ftype.Results.List {
			for _, nm := range fl.Names {
				named = append(named, nm)
			}
		}
	}
	for k := off; k < off+len(cf.Nodes); k++ {
		c := f.Nodes[k]
		if !c.Exit || f.isNoReturnExit(c) {
			continue
		}
		var results []ast.Expr
		if rs, ok := c.Ast.(*ast.ReturnStmt); ok {
			results = rs.Results
			if len(results) == 0 {
				results = named
			}
		}
		// deferred calls run between the evaluation of the results and the continuation in the caller; they are
		// placed before the (synthetic) result binding, which is exact whenever the results are plain values
		cur := c
		cur.Ast = nil
		cur.Exit = false
		for d := len(defers) - 1; d >= 0; d-- {
			dn := &GNode{ID: len(f.Nodes), Block: c.Block, Ast: &ast.ExprStmt{X: defers[d].Call}}
			f.Nodes = append(f.Nodes, dn)
			f.Inl[dn.ID] = InlInfo{Callee: callee.Key, Site: N.ID, Lo: calleeLo, Hi: calleeHi}
			cur.Succs = []Edge{{To: dn.ID}}
			cur = dn
		}
		bn := &GNode{ID: len(f.Nodes), Block: c.Block, Synth: "result"}
		f.Nodes = append(f.Nodes, bn)
		f.Inl[bn.ID] = InlInfo{Callee: callee.Key, Site: N.ID, Lo: calleeLo, Hi: calleeHi}
		cur.Succs = []Edge{{To: bn.ID}}
		switch form {
		case 1:
			if len(results) > 0 {
				blanks := make([]ast.Expr, len(results))
				for j := range blanks {
					blanks[j] = &ast.Ident{NamePos: call.Pos(), Name: "_"}
				}
				bn.Ast = &ast.AssignStmt{Lhs: blanks, TokPos: call.Pos(), Tok: token.ASSIGN, Rhs: results}
			}
			bn.Succs = after
			bn.Exit = wasExit
		case 2:
			as := origAst.(*ast.AssignStmt)
			if len(results) > 0 {
				bn.Ast = &ast.AssignStmt{Lhs: as.Lhs, TokPos: as.TokPos, Tok: as.Tok, Rhs: results}
			}
			bn.Succs = after
			bn.Exit = wasExit
		case 3:
			rs := origAst.(*ast.ReturnStmt)
			bn.Ast = &ast.ReturnStmt{Return: rs.Return, Results: results}
			bn.Exit = true
		case 4:
			var tTarget, fTarget int
			for _, e := range after {
				if e.Label == 1 {
					tTarget = e.To
				} else {
					fTarget = e.To
				}
			}
			if negated {
				tTarget, fTarget = fTarget, tTarget
			}
			if len(results) != 1 {
				bn.Succs = after
				break
			}
			if tv, ok := info.Types[results[0]]; ok && tv.Value != nil {
				if tv.Value.ExactString() == "true" {
					bn.Succs = []Edge{{To: tTarget}}
				} else {
					bn.Succs = []Edge{{To: fTarget}}
				}
				break
			}
			bn.Ast = results[0]
			bn.IsCond = true
			bn.Succs = []Edge{{To: tTarget, Label: 1}, {To: fTarget, Label: 2}}
		}
	}
}

// CanonObj follows parameter bindings of inlined helpers back to the caller's variable when the argument was a
// plain identifier (and the parameter is never reassigned in the helper).
func (f *Flat) CanonObj(o types.Object) types.Object {
	for i := 0; i < 8 && o != nil; i++ {
		e, ok := f.Alias[o]
		if !ok {
			break
		}
		id, isId := ast.Unparen(e).(*ast.Ident)
		if !isId {
			break
		}
		n := objOf(f.Pkg.TypesInfo, id)
		if n == nil || n == o {
			break
		}
		o = n
	}
	return o
}

// CanonExpr rewrites the root identifier of a selector / index chain through the parameter bindings: inside an
// inlined helper, "files[i].Seq" with files bound to the caller's "files" names the same storage.
func (f *Flat) CanonRoot(e ast.Expr) types.Object {
	for {
		switch x := ast.Unparen(e).(type) {
		case *ast.Ident:
			return f.CanonObj(objOf(f.Pkg.TypesInfo, x))
		case *ast.SelectorExpr:
			e = x.X
		case *ast.IndexExpr:
			e = x.X
		case *ast.StarExpr:
			e = x.X
		case *ast.SliceExpr:
			e = x.X
		case *ast.UnaryExpr:
			e = x.X
		default:
			return nil
		}
	}
}

// CanonPath names the storage an expression denotes as "root.field.field": the root identifier is followed through
// the parameter bindings of inlined helpers (receiver s bound to the caller's op), and a field of a variable that
// is defined exactly once, by a struct literal, and never assigned field-wise stands for the expression the
// literal stores there when that is itself a variable or field (op.dst with op := storeOp{dst: f} is f).
// Address-of and dereference are transparent. "" when the expression is not a storage path.
func (f *Flat) CanonPath(e ast.Expr) string { return f.canonPath(e, 0) }

func objID(o types.Object) string {
	return o.Name() + "@" + strconv.Itoa(int(o.Pos()))
}

func (f *Flat) canonPath(e ast.Expr, depth int) string {
	if depth > 12 || e == nil {
		return ""
	}
	info := f.Pkg.TypesInfo
	switch x := ast.Unparen(e).(type) {
	case *ast.Ident:
		o := objOf(info, x)
		if o == nil {
			return ""
		}
		if _, isVar := o.(*types.Var); !isVar {
			return ""
		}
		for g := f; g != nil; g = g.Outer {
			if a, ok := g.Alias[o]; ok {
				if p := g.canonPath(a, depth+1); p != "" {
					return p
				}
				break
			}
		}
		return objID(o)
	case *ast.StarExpr:
		return f.canonPath(x.X, depth+1)
	case *ast.UnaryExpr:
		if x.Op == token.AND {
			return f.canonPath(x.X, depth+1)
		}
	case *ast.SelectorExpr:
		if sel := info.Selections[x]; sel == nil || sel.Kind() != types.FieldVal {
			return ""
		}
		base := f.canonPath(x.X, depth+1)
		if base == "" {
			return ""
		}
		path := base + "." + x.Sel.Name
		if init := f.pathInit(base, x.Sel.Name); init != nil {
			switch ast.Unparen(init).(type) {
			case *ast.Ident, *ast.SelectorExpr, *ast.StarExpr, *ast.UnaryExpr:
				if p := f.canonPath(init, depth+1); p != "" {
					return p
				}
			}
		}
		return path
	}
	return ""
}

// PathInit returns the expression a struct literal stores in the field `field` of the variable or field named by
// the canonical path base, when that literal is the only definition and no statement assigns the field.
func (f *Flat) pathInit(base, field string) ast.Expr {
	var lit *ast.CompositeLit
	defs := 0
	fieldAssigned := false
	for g := f; g != nil; g = g.Outer {
		for _, n := range g.Nodes {
			var lhs, rhs []ast.Expr
			switch s := n.Ast.(type) {
			case *ast.AssignStmt:
				lhs, rhs = s.Lhs, s.Rhs
			case *ast.ValueSpec:
				for _, nm := range s.Names {
					lhs = append(lhs, nm)
				}
				rhs = s.Values
			case *ast.IncDecStmt:
				lhs = []ast.Expr{s.X}
			default:
				continue
			}
			for i, l := range lhs {
				lp := ""
				switch lx := ast.Unparen(l).(type) {
				case *ast.Ident:
					if o := objOf(g.Pkg.TypesInfo, lx); o != nil {
						lp = objID(o) // a definition of the variable itself, not of what a parameter is bound to
					}
				default:
					lp = g.rawPath(l)
				}
				if lp == "" {
					continue
				}
				if lp == base {
					defs++
					if len(rhs) == len(lhs) {
						r := ast.Unparen(rhs[i])
						if u, ok := r.(*ast.UnaryExpr); ok && u.Op == token.AND {
							r = ast.Unparen(u.X)
						}
						if cl, ok := r.(*ast.CompositeLit); ok {
							lit = cl
						}
					}
				} else if lp == base+"."+field || strings.HasPrefix(lp, base+"."+field+".") {
					fieldAssigned = true
				}
			}
		}
	}
	// a nested literal: op.w with op := storeOp{w: bufWriter{w: f}}
	if defs == 0 {
		if i := strings.LastIndex(base, "."); i > 0 {
			if in := f.pathInit(base[:i], base[i+1:]); in != nil {
				if cl, ok := ast.Unparen(in).(*ast.CompositeLit); ok {
					lit, defs = cl, 1
				}
			}
		}
	}
	if defs != 1 || lit == nil || fieldAssigned {
		return nil
	}
	for _, el := range lit.Elts {
		if kv, ok := el.(*ast.KeyValueExpr); ok {
			if id, ok := kv.Key.(*ast.Ident); ok && id.Name == field {
				return kv.Value
			}
		}
	}
	return nil
}

// rawPath is CanonPath without the resolution through struct literals (the left side of an assignment names the
// field itself).
func (f *Flat) rawPath(e ast.Expr) string {
	switch x := ast.Unparen(e).(type) {
	case *ast.Ident:
		return f.canonPath(x, 0)
	case *ast.StarExpr:
		return f.rawPath(x.X)
	case *ast.SelectorExpr:
		if b := f.rawPath(x.X); b != "" {
			return b + "." + x.Sel.Name
		}
	case *ast.IndexExpr:
		return f.rawPath(x.X)
	}
	return ""
}

// singleAssignedIn: the one expression ever assigned to the local o in body (a BadExpr when there are none or several).
func singleAssignedIn(info *types.Info, body ast.Node, o types.Object) ast.Expr {
	var rhs ast.Expr
	n := 0
	ast.Inspect(body, func(x ast.Node) bool {
		if as, ok := x.(*ast.AssignStmt); ok {
			for i, l := range as.Lhs {
				if objOf(info, l) == o {
					n++
					if len(as.Lhs) == len(as.Rhs) {
						rhs = as.Rhs[i]
					} else {
						rhs = nil
					}
				}
			}
		}
		return true
	})
	if n != 1 || rhs == nil {
		return &ast.BadExpr{}
	}
	return rhs
}
