package main

// unroll.go: a second normalisation at load time. A loop over a table written on the spot
//
//	for _, step := range [...]deleteStep{{name: "a", run: func() error {...}}, {name: "b", ...}} {
//		err = step.run()
//		if err == nil || step.missingOk && errors.Is(err, fs_db.ErrNotFound) { continue }
//		return fmt.Errorf("%s: %w", step.name, err)
//	}
//
// runs its body once per row, in the order of the rows, with the row's fields in the place of step.<field>. The rules
// order calls and gate them on errors, so the loop is replaced by that sequence: one copy of the body per row with
// every `step.f` replaced by the row's expression for f (the zero value when the row does not set it), `continue`
// leaving the copy and `break` leaving them all. Done only when it is exact: the table is a composite literal of
// struct rows (at most 16), the loop variable is used in field selections only and never assigned, and the body has
// no goto / labelled branch. The copies share the objects of the original identifiers, so type information stays
// valid; the information of every copied expression is recorded for the copy.

import (
	"fmt"
	"go/ast"
	"go/constant"
	"go/token"
	"go/types"
	"reflect"

	"golang.org/x/tools/go/packages"
)

func unrollTableLoops(pkg *packages.Package) {
	info := pkg.TypesInfo
	for _, file := range pkg.Syntax {
		for _, d := range file.Decls {
			fd, ok := d.(*ast.FuncDecl)
			if !ok || fd.Body == nil {
				continue
			}
			serial := 0
			ast.Inspect(fd.Body, func(x ast.Node) bool {
				blk, ok := x.(*ast.BlockStmt)
				if !ok {
					return true
				}
				for i, st := range blk.List {
					rs, ok := st.(*ast.RangeStmt)
					if !ok {
						continue
					}
					if rep := unrollOne(info, rs, &serial); rep != nil {
						blk.List[i] = rep
						normalizeNotes = append(normalizeNotes, fmt.Sprintf("%s: loop over a literal table in %s unrolled", pkg.PkgPath, fd.Name.Name))
					}
				}
				return true
			})
		}
	}
}

func unrollOne(info *types.Info, rs *ast.RangeStmt, serial *int) ast.Stmt {
	if rs.Tok != token.DEFINE || rs.Value == nil {
		return nil
	}
	if k, ok := rs.Key.(*ast.Ident); rs.Key != nil && (!ok || k.Name != "_") {
		return nil
	}
	vid, ok := rs.Value.(*ast.Ident)
	if !ok || vid.Name == "_" {
		return nil
	}
	vobj := info.Defs[vid]
	if vobj == nil {
		return nil
	}
	tab, ok := ast.Unparen(rs.X).(*ast.CompositeLit)
	if !ok || len(tab.Elts) == 0 || len(tab.Elts) > 16 {
		return nil
	}
	tv, ok := info.Types[tab]
	if !ok {
		return nil
	}
	var elemT types.Type
	switch t := tv.Type.Underlying().(type) {
	case *types.Slice:
		elemT = t.Elem()
	case *types.Array:
		elemT = t.Elem()
	default:
		return nil
	}
	st, ok := elemT.Underlying().(*types.Struct)
	if !ok {
		return nil
	}
	// rows: field name -> expression
	var rows []map[string]ast.Expr
	for _, el := range tab.Elts {
		row, ok := el.(*ast.CompositeLit)
		if !ok {
			return nil
		}
		m := map[string]ast.Expr{}
		for j, fe := range row.Elts {
			if kv, isKV := fe.(*ast.KeyValueExpr); isKV {
				id, isId := kv.Key.(*ast.Ident)
				if !isId {
					return nil
				}
				m[id.Name] = kv.Value
			} else {
				if len(row.Elts) != st.NumFields() {
					return nil
				}
				m[st.Field(j).Name()] = fe
			}
		}
		rows = append(rows, m)
	}
	// the loop variable: field selections only, never assigned; no goto, no labels
	okUse := true
	ast.Inspect(rs.Body, func(x ast.Node) bool {
		switch y := x.(type) {
		case *ast.SelectorExpr:
			if id, isId := y.X.(*ast.Ident); isId && info.Uses[id] == vobj {
				if _, isField := info.Selections[y]; !isField {
					okUse = false
				}
				if s := info.Selections[y]; s != nil && s.Kind() != types.FieldVal {
					okUse = false
				}
				return false
			}
		case *ast.Ident:
			if info.Uses[y] == vobj {
				okUse = false
			}
		case *ast.LabeledStmt:
			okUse = false
		case *ast.BranchStmt:
			if y.Tok == token.GOTO || y.Label != nil {
				okUse = false
			}
		case *ast.AssignStmt:
			for _, l := range y.Lhs {
				if sel, isSel := ast.Unparen(l).(*ast.SelectorExpr); isSel {
					if id, isId := sel.X.(*ast.Ident); isId && info.Uses[id] == vobj {
						okUse = false
					}
				}
			}
		case *ast.UnaryExpr:
			if y.Op == token.AND {
				if sel, isSel := ast.Unparen(y.X).(*ast.SelectorExpr); isSel {
					if id, isId := sel.X.(*ast.Ident); isId && info.Uses[id] == vobj {
						okUse = false
					}
				}
			}
		}
		return okUse
	})
	if !okUse {
		return nil
	}
	*serial++
	outer := &ast.Ident{NamePos: rs.For, Name: fmt.Sprintf("tableLoop%d", *serial)}
	var copies []ast.Stmt
	for i, row := range rows {
		lab := &ast.Ident{NamePos: rs.For, Name: fmt.Sprintf("tableLoop%dRow%d", *serial, i)}
		cl := &cloner{info: info, subst: func(e ast.Expr) ast.Expr {
			sel, ok := e.(*ast.SelectorExpr)
			if !ok {
				return nil
			}
			id, ok := sel.X.(*ast.Ident)
			if !ok || info.Uses[id] != vobj {
				return nil
			}
			if v, has := row[sel.Sel.Name]; has {
				return v
			}
			return zeroExpr(info, sel)
		}}
		body := cl.node(rs.Body).(*ast.BlockStmt)
		if cl.failed {
			return nil
		}
		retarget(body, lab, outer, 0)
		copies = append(copies, &ast.LabeledStmt{Label: lab, Colon: rs.For, Stmt: &ast.SwitchStmt{Switch: rs.For, Body: &ast.BlockStmt{Lbrace: rs.Body.Lbrace, Rbrace: rs.Body.Rbrace, List: []ast.Stmt{
			&ast.CaseClause{Case: rs.For, Colon: rs.For, Body: body.List},
		}}}})
	}
	return &ast.LabeledStmt{Label: outer, Colon: rs.For, Stmt: &ast.SwitchStmt{Switch: rs.For, Body: &ast.BlockStmt{Lbrace: rs.Body.Lbrace, Rbrace: rs.Body.Rbrace, List: []ast.Stmt{
		&ast.CaseClause{Case: rs.For, Colon: rs.For, Body: copies},
	}}}}
}

// retarget turns the continue / break statements that belong to the unrolled loop into breaks of the copy / of all
// copies. depthLoop counts enclosing inner loops (their own continue / break stay), inner switch / select
// statements own their unlabelled break only.
func retarget(n ast.Node, row, outer *ast.Ident, _ int) {
	var walk func(n ast.Node, inLoop, inSwitch bool)
	walk = func(n ast.Node, inLoop, inSwitch bool) {
		switch x := n.(type) {
		case nil:
			return
		case *ast.FuncLit:
			return
		case *ast.BranchStmt:
			if x.Label != nil {
				return
			}
			switch x.Tok {
			case token.CONTINUE:
				if !inLoop {
					x.Tok = token.BREAK
					x.Label = &ast.Ident{NamePos: x.TokPos, Name: row.Name}
				}
			case token.BREAK:
				if !inLoop && !inSwitch {
					x.Label = &ast.Ident{NamePos: x.TokPos, Name: outer.Name}
				}
			}
			return
		case *ast.ForStmt:
			walk(x.Body, true, false)
			return
		case *ast.RangeStmt:
			walk(x.Body, true, false)
			return
		case *ast.SwitchStmt:
			walk(x.Body, inLoop, true)
			return
		case *ast.TypeSwitchStmt:
			walk(x.Body, inLoop, true)
			return
		case *ast.SelectStmt:
			walk(x.Body, inLoop, true)
			return
		case *ast.BlockStmt:
			for _, s := range x.List {
				walk(s, inLoop, inSwitch)
			}
		case *ast.IfStmt:
			walk(x.Body, inLoop, inSwitch)
			walk(x.Else, inLoop, inSwitch)
		case *ast.CaseClause:
			for _, s := range x.Body {
				walk(s, inLoop, inSwitch)
			}
		case *ast.CommClause:
			for _, s := range x.Body {
				walk(s, inLoop, inSwitch)
			}
		case *ast.LabeledStmt:
			walk(x.Stmt, inLoop, inSwitch)
		}
	}
	walk(n, false, false)
}

// zeroExpr builds the zero value of the type of e as an expression the type information knows.
func zeroExpr(info *types.Info, e ast.Expr) ast.Expr {
	tv, ok := info.Types[e]
	if !ok {
		return nil
	}
	pos := e.Pos()
	switch u := tv.Type.Underlying().(type) {
	case *types.Basic:
		switch {
		case u.Info()&types.IsBoolean != 0:
			id := &ast.Ident{NamePos: pos, Name: "false"}
			info.Uses[id] = types.Universe.Lookup("false")
			info.Types[id] = types.TypeAndValue{Type: tv.Type, Value: constant.MakeBool(false)}
			setMode(info, id, e)
			return id
		case u.Info()&types.IsString != 0:
			lit := &ast.BasicLit{ValuePos: pos, Kind: token.STRING, Value: `""`}
			info.Types[lit] = types.TypeAndValue{Type: tv.Type, Value: constant.MakeString("")}
			return lit
		case u.Info()&types.IsNumeric != 0:
			lit := &ast.BasicLit{ValuePos: pos, Kind: token.INT, Value: "0"}
			info.Types[lit] = types.TypeAndValue{Type: tv.Type, Value: constant.MakeInt64(0)}
			return lit
		}
	case *types.Pointer, *types.Interface, *types.Slice, *types.Map, *types.Signature, *types.Chan:
		id := &ast.Ident{NamePos: pos, Name: "nil"}
		info.Uses[id] = types.Universe.Lookup("nil")
		info.Types[id] = types.TypeAndValue{Type: tv.Type}
		return id
	}
	return nil
}

func setMode(_ *types.Info, _ ast.Expr, _ ast.Expr) {}

// cloner deep-copies a syntax tree (function literals included) and records the type information of every copied
// expression for the copy; subst may replace an expression by another (not copied) one.
type cloner struct {
	info   *types.Info
	subst  func(ast.Expr) ast.Expr
	failed bool
}

func (c *cloner) node(n ast.Node) ast.Node {
	if n == nil || reflect.ValueOf(n).IsNil() {
		return n
	}
	if e, ok := n.(ast.Expr); ok && c.subst != nil {
		if sel, isSel := e.(*ast.SelectorExpr); isSel {
			if r := c.subst(sel); r != nil {
				return r
			} else if id, isId := sel.X.(*ast.Ident); isId && c.info.Uses[id] != nil {
				// (a selection of the loop variable without a replacement: not expressible)
				_ = id
			}
		}
	}
	v := reflect.ValueOf(n)
	cp := c.value(v)
	out := cp.Interface().(ast.Node)
	// type information of the copy
	switch o := n.(type) {
	case *ast.Ident:
		ni := out.(*ast.Ident)
		if d, ok := c.info.Defs[o]; ok {
			c.info.Defs[ni] = d
		}
		if u, ok := c.info.Uses[o]; ok {
			c.info.Uses[ni] = u
		}
	case *ast.SelectorExpr:
		if s, ok := c.info.Selections[o]; ok {
			c.info.Selections[out.(*ast.SelectorExpr)] = s
		}
	case *ast.FuncLit, *ast.CompositeLit:
	}
	if e, ok := n.(ast.Expr); ok {
		if tv, has := c.info.Types[e]; has {
			c.info.Types[out.(ast.Expr)] = tv
		}
	}
	if s, ok := c.info.Scopes[n]; ok {
		c.info.Scopes[out] = s
	}
	if im, ok := c.info.Implicits[n]; ok {
		c.info.Implicits[out] = im
	}
	return out
}

var astNodeType = reflect.TypeOf((*ast.Node)(nil)).Elem()

func (c *cloner) value(v reflect.Value) reflect.Value {
	switch v.Kind() {
	case reflect.Ptr:
		if v.IsNil() {
			return v
		}
		// *ast.Object, *ast.Scope: shared
		switch v.Interface().(type) {
		case *ast.Object, *ast.Scope:
			return v
		}
		if n, ok := v.Interface().(ast.Node); ok && v.Elem().Kind() == reflect.Struct {
			_ = n
			nv := reflect.New(v.Elem().Type())
			for i := 0; i < v.Elem().NumField(); i++ {
				f := v.Elem().Field(i)
				if !nv.Elem().Field(i).CanSet() {
					continue
				}
				nv.Elem().Field(i).Set(c.field(f))
			}
			return nv
		}
		return v
	}
	return v
}

func (c *cloner) field(f reflect.Value) reflect.Value {
	switch f.Kind() {
	case reflect.Interface:
		if f.IsNil() {
			return f
		}
		if n, ok := f.Interface().(ast.Node); ok {
			r := c.node(n)
			rv := reflect.New(f.Type()).Elem()
			rv.Set(reflect.ValueOf(r))
			return rv
		}
		return f
	case reflect.Ptr:
		if f.IsNil() {
			return f
		}
		switch f.Interface().(type) {
		case *ast.Object, *ast.Scope:
			return f
		}
		if n, ok := f.Interface().(ast.Node); ok {
			return reflect.ValueOf(c.node(n))
		}
		return f
	case reflect.Slice:
		if f.IsNil() {
			return f
		}
		ns := reflect.MakeSlice(f.Type(), f.Len(), f.Len())
		for i := 0; i < f.Len(); i++ {
			ns.Index(i).Set(c.field(f.Index(i)))
		}
		return ns
	}
	return f
}
