package main

// Error class preservation (rule wrap-class): an error value keeps its class for
// errors.Is / errors.As iff each frame returns it unchanged, wraps it with
// fmt.Errorf using %w at the position of that argument, or joins it.

import (
	"go/ast"
	"go/types"
	"strings"
)

// fmtVerbs returns the verbs of a format string in argument order ("%%" skipped).
func fmtVerbs(format string) []byte {
	var verbs []byte
	for i := 0; i < len(format); i++ {
		if format[i] != '%' {
			continue
		}
		i++
		for i < len(format) && strings.ContainsRune("+-# 0123456789.*[]", rune(format[i])) {
			i++
		}
		if i >= len(format) {
			break
		}
		if format[i] == '%' {
			continue
		}
		verbs = append(verbs, format[i])
	}
	return verbs
}

func isFunc(info *types.Info, c *ast.CallExpr, pkg, name string) bool {
	var id *ast.Ident
	switch f := ast.Unparen(c.Fun).(type) {
	case *ast.SelectorExpr:
		id = f.Sel
	case *ast.Ident:
		id = f
	default:
		return false
	}
	fn, ok := info.Uses[id].(*types.Func)
	return ok && fn.Pkg() != nil && fn.Pkg().Path() == pkg && fn.Name() == name
}

// keepsClass reports whether expression e (a returned / stored error expression) carries the
// class of the error variable o. mentions=false means e does not mention o at all.
// classThroughHook is installed by the loaded program: it decides whether a call hands an argument accepted by
// match to a module function that returns it class-preserved (wrapped with %w or unchanged) whenever it is non-nil.
var classThroughHook func(info *types.Info, c *ast.CallExpr, match func(ast.Expr) bool) (bool, string)

func keepsClass(info *types.Info, e ast.Expr, o types.Object) (keeps bool, mentions bool, why string) {
	e = ast.Unparen(e)
	if !usesObj(info, e, o) {
		return false, false, "does not use the error"
	}
	if errVarOf(info, e) == o {
		return true, true, "returned unchanged"
	}
	c, ok := e.(*ast.CallExpr)
	if !ok {
		return false, true, "error used in an expression that is not a wrap"
	}
	if isFunc(info, c, "fmt", "Errorf") && len(c.Args) >= 1 {
		format, okf := constStr(info, c.Args[0])
		if !okf {
			return false, true, "non-constant format"
		}
		verbs := fmtVerbs(format)
		for i, a := range c.Args[1:] {
			if !usesObj(info, a, o) {
				continue
			}
			if i >= len(verbs) {
				return false, true, "more arguments than verbs"
			}
			k, _, w := keepsClass(info, a, o)
			if !k {
				return false, true, "argument: " + w
			}
			if verbs[i] != 'w' {
				return false, true, "wrapped with %" + string(verbs[i]) + " instead of %w: errors.Is no longer matches"
			}
			return true, true, "wrapped with %w"
		}
		return false, true, "error not among the arguments"
	}
	if isFunc(info, c, "errors", "Join") {
		for _, a := range c.Args {
			if usesObj(info, a, o) {
				k, _, w := keepsClass(info, a, o)
				return k, true, "joined: " + w
			}
		}
	}
	// a module helper that keeps the class of that parameter on every path (summary of its own error flow)
	if classThroughHook != nil {
		if ok, why := classThroughHook(info, c, func(a ast.Expr) bool { return objOf(info, a) == o }); ok {
			return true, true, why
		}
	}
	// a product wrapper/adapter call taking the error: accepted when listed by the rule (caller decides)
	return false, true, "passed to " + types.ExprString(c.Fun)
}
