package main

// fsdbcheck: repository-specific static checker for glebziz/fs_db.
// Usage: fsdbcheck -prop C07 [-tier quick|thorough] [-repo /repo] [-verif /verif]

import (
	"flag"
	"fmt"
	"os"
	"sort"
	"strconv"
	"strings"
)

type propFn func(p *Prog, r *Report)

type propDef struct {
	id  string
	run propFn
}

var registry = map[string]propFn{}

func register(id string, fn propFn) { registry[id] = fn }

func main() {
	prop := flag.String("prop", "", "property id (C01..C20) or 'all'")
	tier := flag.String("tier", "", "quick|thorough (default $VERIF_TIER or quick)")
	repo := flag.String("repo", "/repo", "repository root")
	verif := flag.String("verif", "/verif", "verif root (known findings, evidence)")
	only := flag.String("only", "", "restrict output to obligations whose 'rule construct' contains this text")
	noEv := flag.Bool("no-evidence", false, "do not write evidence files (used for scratch variants)")
	list := flag.Bool("list", false, "list properties")
	replay := flag.String("replay", "", "replay file: re-runs the property it names")
	flag.Parse()

	if *list {
		var ids []string
		for id := range registry {
			ids = append(ids, id)
		}
		sort.Strings(ids)
		fmt.Println(strings.Join(ids, " "))
		return
	}
	if *tier == "" {
		*tier = os.Getenv("VERIF_TIER")
	}
	if *tier != "thorough" {
		*tier = "quick"
	}
	var seed int64
	if s := os.Getenv("VERIF_SEED"); s != "" {
		seed, _ = strconv.ParseInt(s, 10, 64)
	}
	if *replay != "" && *prop == "" {
		// the replay file is named <prop>.replay.json
		b := *replay
		if i := strings.LastIndex(b, "/"); i >= 0 {
			b = b[i+1:]
		}
		*prop = strings.TrimSuffix(b, ".replay.json")
	}
	var ids []string
	if *prop == "all" {
		for id := range registry {
			ids = append(ids, id)
		}
		sort.Strings(ids)
	} else {
		ids = strings.Split(*prop, ",")
	}
	for _, id := range ids {
		if _, ok := registry[id]; !ok {
			fmt.Printf("unknown property %q\n", id)
			os.Exit(3)
		}
	}
	p, err := Load(*repo, "", "")
	if err != nil {
		fmt.Printf("LOAD-FAILURE %v\n", err)
		fmt.Printf("UNDECIDED property=%s (the analysed tree does not load/type-check)\n", *prop)
		os.Exit(3)
	}
	if d := os.Getenv("FSDBCHECK_DUMP"); d != "" {
		if fi := p.Func(d); fi != nil {
			if os.Getenv("FSDBCHECK_INL") != "" {
				fmt.Print(p.FlatInl(fi).Dump())
			} else {
				fmt.Print(p.FlatOf(fi).Dump())
			}
			os.Exit(0)
		} else {
			fmt.Println("no such function", d)
		}
	}
	exit := 0
	for _, id := range ids {
		r := NewReport(id, *tier, seed)
		r.only = *only
		r.Analysed["packages"] = len(p.PkgList)
		r.Analysed["functions"] = p.nFuncs
		if len(roleNotes) > 0 {
			r.Tables["role_aliases"] = roleNotes
		}
		r.Trusted = []string{"go/parser, go/types (x/tools v0.29.0 go/packages loader)", "golang.org/x/tools/go/cfg", "the frozen role / idiom tables in /verif/checker"}
		func() {
			defer func() {
				if e := recover(); e != nil {
					r.Undecided("internal", "checker-panic", "", fmt.Sprint(e))
					if os.Getenv("FSDBCHECK_DEBUG") != "" {
						panic(e)
					}
				}
			}()
			registry[id](p, r)
			if *tier == "thorough" {
				runThorough(p, r, *repo, *verif)
			}
		}()
		code := r.Finish(*verif, !*noEv)
		if code == 1 || (code == 3 && exit == 0) {
			exit = code
		}
	}
	os.Exit(exit)
}
