package main

// C09 Garbage collection never changes what anyone can read.
// C17 Content files live in bounded sub-directories of the configured roots.

import (
	"fmt"
	"go/ast"
	"go/constant"
	"go/token"
	"go/types"
	"os"
	"sort"
	"strings"
)

func init() {
	register("C09", propC09)
	register("C17", propC17)
}

const (
	kIterBefore    = "(*internal/model/core.file).IterateBeforeSeq"
	kDirGet        = "(*internal/usecase/dir.UseCase).Get"
	kDirRepoCreate = "(*internal/repository/dir.Repo).Create"
	kDirRepoRemove = "(*internal/repository/dir.Repo).Remove"
	kDirRepoGet    = "(*internal/repository/dir.Repo).Get"
	kDirRepoRoots  = "(*internal/repository/dir.Repo).GetRoots"
)

func propC09(p *Prog, r *Report) {
	r.Rule("C09.a", "retention guard (order-type table): in file.IterateBeforeSeq the front version is yielded for removal iff its successor exists (non-zero Seq: the list sentinel has the zero value) and the successor's Seq is not newer than the horizon (successor = horizon is don't-care: a horizon is a begin or fresh draw, never a version stamp); the value yielded is the current front's and the walk advances to the successor")
	r.Rule("C09.b", "horizon source: in cleaner.DeleteOld the Seq given to core.DeleteOld is the Seq of txRepo.Oldest()'s result, replaced by a fresh sequence.Next() only on the errors.Is(err, ErrTxNotFound) path; any other error returns; the store id argument is the constant MainTxId")
	r.Rule("C09.c", "one pop per yielded version: in core.DeleteOld's collection loop every iteration pops exactly one front node on every path; popped nodes are unlinked from the all-store (C02.d) under both locks (C06.c)")
	r.Rule("C09.d", "mirror discipline: file.arr, file.l, List.root and Node.{next,prev,link} are written only by methods of their own types; file.PushBack/PopBack/PopFront, evaluated abstractly over (searchable?, list op returned nil?), touch the array mirror iff the list changed and the store is searchable, with the matching operation (append / drop-last / drop-first)")
	r.Rule("C09.e", "delete-after-unlink: the list handed to DeleteFiles is core.DeleteOld's result (C14.a)")
	r.NotDecided = []string{"invariance of read results over histories", "LastBefore's binary search (C18)", "the concurrent horizon race is C08.c S2"}
	r.Assume = []string{"sequence numbers are unique"}

	c09Guard(p, r)
	c09Horizon(p, r)
	r.Rule("C09.f", "a reader pins its content: content.Get returns the file opened by the call itself, so that a later removal by the collector cannot take the bytes away from a reader already handed out")
	c09ReaderPinsContent(p, r, "C09.f")
	r.Rule("C09.g", "the horizon is taken from the registry as it is now: transaction.Repo.Oldest answers from the ordered map in the same call (an answer replayed from another field is not decided, or a violation when its validity is decided by a clock)")
	c10FreshMeasurements(p, r, "C09.g", "oldest")
	c09OnePop(p, r)
	{
		tmp := NewReport("C02", r.Tier, r.Seed)
		c02Unlink(p, tmp)
		for _, o := range tmp.Obls {
			if strings.Contains(o.Construct, "DeleteOld") {
				o.Rule = "C09.c"
				r.add(o)
			}
		}
	}
	c09Mirror(p, r)
	// C09.e: subset of C14.a
	tmp := NewReport("C14", r.Tier, r.Seed)
	c14Consumed(p, tmp)
	for _, o := range tmp.Obls {
		if strings.Contains(o.Construct, "DeleteOld") {
			o.Rule = "C09.e"
			r.add(o)
		}
	}
}

// c09EqualityIsCare: set by C18 around its own run of the retention-guard table.
var c09EqualityIsCare bool

func c09Guard(p *Prog, r *Report) {
	fi := p.Func(kIterBefore)
	if fi == nil {
		r.Undecided("C09.a", kIterBefore, "", "file.IterateBeforeSeq not found")
		return
	}
	info := fi.Pkg.TypesInfo
	var seqParam types.Object
	for _, fld := range fi.Decl.Type.Params.List {
		for _, nm := range fld.Names {
			seqParam = info.Defs[nm]
		}
	}
	cons := kIterBefore + "#retention-guard"
	// the iterator: whatever function value IterateBeforeSeq returns that walks the list (a literal, or a method
	// value of a small walker type); it is run abstractly on short version chains
	var it *returnedFn
	rfs := p.returnedFuncs(fi)
	for i := range rfs {
		if p.funcCallsDeep(rfs[i].FI, p.keysPred("(*internal/model/core.List).Front")) {
			it = &rfs[i]
		}
	}
	if it == nil || seqParam == nil {
		r.Undecided("C09.a", cons, p.pos(fi.Decl), "the iterator function that walks the version list was not found")
		return
	}
	yield := paramObjs(it.FI)[0]
	const horizon = 5
	type scenario struct {
		chain []int64 // sequence numbers of the versions, oldest first; the list root (zero) follows
		want  []int64 // versions yielded for removal
	}
	scenarios := []scenario{
		{[]int64{2, 3, 7}, []int64{2}},
		{[]int64{2, 3, 4}, []int64{2, 3}},
		{[]int64{6}, nil},
		{[]int64{2}, nil},
		{[]int64{2, 7}, nil},
		{[]int64{1, 2, 3, 4, 9}, []int64{1, 2, 3}},
	}
	if c09EqualityIsCare {
		// C18 states the collection at its own observation point: a successor that carries exactly the horizon is
		// "not newer than the horizon", its predecessor goes (for C09 the row is don't-care: through the public API a
		// horizon is never a version stamp)
		scenarios = append(scenarios, scenario{[]int64{2, 5, 9}, []int64{2}}, scenario{[]int64{4, 5}, []int64{4}})
	}
	type row struct {
		Chain   []int64
		Horizon int64
		Yielded []int64
	}
	var rows []row
	good := true
	detail := ""
	for _, sc := range scenarios {
		// build the chain back to front
		root := &Val{Fields: map[string]*Val{"v": {Fields: map[string]*Val{"Seq": intVal(0)}, Complete: true}, "next": {Nil: true}}}
		var next *Val = &Val{Ptr: root}
		for i := len(sc.chain) - 1; i >= 0; i-- {
			node := &Val{Fields: map[string]*Val{"v": {Fields: map[string]*Val{"Seq": intVal(sc.chain[i])}, Complete: true, Tag: fmt.Sprintf("v%d", sc.chain[i])}, "next": next}}
			next = &Val{Ptr: node}
		}
		front := next
		root.Fields["next"] = front // the list is circular: the root's successor is the front
		var yielded []int64
		var f *Flat
		env := &Env{P: p, Pkg: fi.Pkg, Vars: map[types.Object]*Val{seqParam: intVal(horizon)}}
		env.Hook = func(env *Env, e ast.Expr) (*Val, bool) {
			c, ok := e.(*ast.CallExpr)
			if !ok {
				return nil, false
			}
			if os.Getenv("FSDBCHECK_DEBUG") != "" {
				fmt.Println("DEBUG c09 hook call", types.ExprString(c.Fun), env.P.calleeKeys(env.Pkg, c))
			}
			if env.P.callIs(env.Pkg, c, "(*internal/model/core.List).Front") {
				return front, true
			}
			// the consumer: the walker's own parameter, or the parameter of a spliced-in helper it was handed to
			isYield := false
			if yo := objOf(env.Pkg.TypesInfo, c.Fun); yo != nil && yield != nil {
				isYield = yo == yield || (f != nil && f.CanonObj(yo) == yield)
			}
			if isYield && len(c.Args) == 1 {
				v := env.eval(c.Args[0])
				for v != nil && v.Ptr != nil {
					v = v.Ptr
				}
				if v != nil && v.Fields != nil && v.Fields["Seq"] != nil && v.Fields["Seq"].C != nil {
					n, _ := constant.Int64Val(v.Fields["Seq"].C)
					yielded = append(yielded, n)
				} else {
					yielded = append(yielded, -1)
				}
				return boolVal(true), true
			}
			return nil, false
		}
		// a method value: its receiver is the expression the method was taken from, evaluated where it was written
		if sel, isSel := ast.Unparen(it.Value).(*ast.SelectorExpr); isSel && it.FI.Lit == nil {
			if recv := paramObjs(it.FI)[-1]; recv != nil {
				// the enclosing method's own receiver is opaque
				if outer := paramObjs(fi)[-1]; outer != nil {
					env.Vars[outer] = &Val{Ptr: &Val{Fields: map[string]*Val{fileFields.List: {Tag: "list"}}}}
				}
				rv, err := env.Eval(sel.X)
				if err != nil {
					r.Undecided("C09.a", cons, p.pos(it.Pos), fmt.Sprintf("the walker value is not evaluable: %v", err))
					return
				}
				env.Vars[recv] = rv
			}
		} else if outer := paramObjs(fi)[-1]; outer != nil {
			env.Vars[outer] = &Val{Ptr: &Val{Fields: map[string]*Val{fileFields.List: {Tag: "list"}}}}
		}
		// helpers of the walker are spliced in, the list's own methods are not (Front is answered by the scenario)
		f = p.FlatInlExcept(it.FI, p.methodsOf("internal/model/core", "List")...)
		f.WalkMaxVisits = 12
		f.WalkExprStmts = true
		_, _, err := f.WalkPath(env)
		if err != nil {
			// a walk that has already offered a version it must keep is wrong however it goes on
			prefix := len(yielded) <= len(sc.want)
			for i := range yielded {
				if prefix && yielded[i] != sc.want[i] {
					prefix = false
				}
			}
			if prefix {
				r.Undecided("C09.a", cons, p.pos(it.Pos), fmt.Sprintf("the iterator is not evaluable on the chain %v: %v", sc.chain, err))
				return
			}
		}
		rows = append(rows, row{sc.chain, horizon, yielded})
		if fmt.Sprint(yielded) != fmt.Sprint(sc.want) {
			good = false
			detail = fmt.Sprintf("versions %v (then the list root), horizon %d: the walk offers %v for removal, only %v have a successor that is not newer than the horizon", sc.chain, horizon, yielded, sc.want)
		}
	}
	r.Tables["retention_guard"] = rows
	r.Check(good, "C09.a", cons, p.pos(it.Pos), "a version is offered for removal iff its successor exists and is not newer than the horizon; the walk yields the front and advances", detail+": a version a reader at the horizon still needs is removed, or a superseded version nobody can read is kept")
}

func c09Horizon(p *Prog, r *Report) {
	fi := p.Func(kCleanerDeleteOld)
	if fi == nil {
		r.Undecided("C09.b", kCleanerDeleteOld, "", "cleaner.DeleteOld not found")
		return
	}
	info := fi.Pkg.TypesInfo
	// helpers of the collector are spliced in: where the horizon is computed is not the rule's business
	f := p.FlatInl(fi)
	olds := f.CallSites(kTxRepoOldest)
	cols := f.CallSites(kCoreDeleteOld)
	// (one call in the source may be spliced in at several places: collectBefore(ctx, horizon) called from two exits)
	colNodes := map[int]bool{}
	sameCall := len(cols) > 0
	for _, c := range cols {
		colNodes[c.Node] = true
		if c.Call != cols[0].Call {
			sameCall = false
		}
	}
	if len(olds) != 1 || len(cols) == 0 || !sameCall {
		r.Viol("C09.b", kCleanerDeleteOld+"#horizon", p.pos(fi.Decl), fmt.Sprintf("%d Oldest and %d core.DeleteOld calls", len(olds), len(cols)))
		return
	}
	old, col := olds[0], cols[0]
	args := col.Call.Args
	idOK := len(args) >= 3 && exprObjKey(info, args[1]) == "internal/model.MainTxId"
	r.Check(idOK, "C09.b", kCleanerDeleteOld+"#main-store", p.pos(col.Call), "collects in the main store (constant MainTxId)", "the collector is not pointed at the main store by the constant MainTxId")
	as, ok := f.Nodes[old.Node].Ast.(*ast.AssignStmt)
	if !ok || len(as.Lhs) != 2 || old.Kind != "assigned" || len(args) < 3 {
		r.Undecided("C09.b", kCleanerDeleteOld+"#horizon-from-oldest", p.pos(old.Call), "the result of txRepo.Oldest is not bound to (transaction, error) variables")
		return
	}
	txObj := objOf(info, as.Lhs[0])
	// symbolic values: OLDEST (the transaction Oldest returned), OLDEST.Seq, FRESH@<world> (a number drawn now, in
	// that world of Oldest's error), FRESHTX@<world> (a transaction value holding such a number)
	vf := &valueFlow{f: f, info: info}
	vf.Eval = func(s vfState, e ast.Expr) string {
		switch x := ast.Unparen(e).(type) {
		case *ast.CallExpr:
			if p.callIs(fi.Pkg, x, kSeqNext) {
				return "FRESH@" + s.World
			}
		case *ast.SelectorExpr:
			if x.Sel.Name == "Seq" {
				switch v := s.Vals[objOf(info, x.X)]; {
				case v == "OLDEST":
					return "OLDEST.Seq"
				case strings.HasPrefix(v, "FRESHTX@"):
					return "FRESH@" + strings.TrimPrefix(v, "FRESHTX@")
				}
			}
		case *ast.CompositeLit:
			for _, el := range x.Elts {
				if kv, ok := el.(*ast.KeyValueExpr); ok {
					if k, ok := kv.Key.(*ast.Ident); ok && k.Name == "Seq" {
						if c, ok := ast.Unparen(kv.Value).(*ast.CallExpr); ok && p.callIs(fi.Pkg, c, kSeqNext) {
							return "FRESHTX@" + s.World
						}
						if o := objOf(info, kv.Value); o != nil && strings.HasPrefix(s.Vals[o], "FRESH@") {
							return "FRESHTX@" + strings.TrimPrefix(s.Vals[o], "FRESH@")
						}
					}
				}
			}
		}
		return ""
	}
	vf.FieldStore = func(s vfState, x types.Object, field, rhs string) string {
		if field == "Seq" && strings.HasPrefix(rhs, "FRESH@") {
			return "FRESHTX@" + strings.TrimPrefix(rhs, "FRESH@")
		}
		return ""
	}
	type arrival struct{ world, val string }
	arrivals := map[arrival]bool{}
	vf.Visit = func(s vfState) {
		if !colNodes[s.Node] {
			return
		}
		v := ""
		if o := objOf(info, args[2]); o != nil {
			v = s.Vals[o]
		} else {
			v = vf.Eval(s, args[2])
		}
		arrivals[arrival{s.World, v}] = true
	}
	init := map[types.Object]string{}
	if txObj != nil {
		init[txObj] = "OLDEST"
	}
	vf.Run(old.Node, old.ErrVar, init)
	fromOldest, fallbackOK, fallbackSeen, otherErr := true, true, false, ""
	okSeen := false
	var list []string
	for a := range arrivals {
		list = append(list, a.world+":"+a.val)
		switch {
		case a.world == "nil":
			okSeen = true
			if a.val != "OLDEST.Seq" {
				fromOldest = false
			}
		case strings.HasPrefix(a.val, "FRESH@"):
			if a.world != "is:fs_db.ErrTxNotFound" || a.val != "FRESH@is:fs_db.ErrTxNotFound" {
				fallbackOK = false
			} else {
				fallbackSeen = true
			}
		}
		if a.world == "any" || strings.HasPrefix(a.world, "is:") && a.world != "is:fs_db.ErrTxNotFound" || strings.HasPrefix(a.world, "as:") {
			otherErr = a.world
		}
		if a.world == "is:fs_db.ErrTxNotFound" && !strings.HasPrefix(a.val, "FRESH@") {
			fallbackOK = false
		}
		if a.world == "nil" && strings.HasPrefix(a.val, "FRESH@") {
			fallbackOK = false
		}
	}
	sort.Strings(list)
	r.Tables["collector_horizon_arrivals"] = list
	r.Check(fromOldest && okSeen, "C09.b", kCleanerDeleteOld+"#horizon-from-oldest", p.pos(col.Call), "horizon = Seq of the oldest registered transaction", "the horizon given to the collector is not the Seq of txRepo.Oldest()'s result: versions an open transaction still reads can be collected")
	r.Check(fallbackOK && fallbackSeen, "C09.b", kCleanerDeleteOld+"#fallback-horizon", p.pos(old.Call), "a fresh draw replaces the horizon only when no transaction is registered",
		"the horizon is replaced (or not replaced by a fresh draw) outside the errors.Is(err, ErrTxNotFound) path: with open transactions the collector uses a horizon newer than their snapshot points")
	r.Check(otherErr == "", "C09.b", kCleanerDeleteOld+"#other-errors-return", p.pos(old.Call), "collection only after Oldest succeeded or reported no transaction", "the collector runs although txRepo.Oldest failed ("+otherErr+")")
}

func c09OnePop(p *Prog, r *Report) {
	fi := p.Func(kCoreDeleteOld)
	if fi == nil {
		r.Undecided("C09.c", kCoreDeleteOld, "", "core.DeleteOld not found")
		return
	}
	// the walk may sit in a helper spliced into the graph (one shared by the collector and the rollback)
	f := p.FlatInl(fi)
	var loop *ast.RangeStmt
	scopes := []*ast.BlockStmt{fi.Decl.Body}
	seenBody := map[string]bool{}
	for _, ii := range f.Inl {
		if h := p.Func(ii.Callee); h != nil && h.Decl != nil && h.Decl.Body != nil && !seenBody[ii.Callee] {
			seenBody[ii.Callee] = true
			scopes = append(scopes, h.Decl.Body)
		}
	}
	for _, sc := range scopes {
		for _, rs := range rangeLoops(sc) {
			if c, ok := ast.Unparen(rs.X).(*ast.CallExpr); ok && p.callIs(fi.Pkg, c, kIterBefore) {
				loop = rs
			}
		}
	}
	if loop == nil {
		r.Viol("C09.c", kCoreDeleteOld+"#one-pop", p.pos(fi.Decl), "the collector no longer walks IterateBeforeSeq")
		return
	}
	// count-then-pop: the walk only counts the yielded versions (n++) and a second loop, running n times, pops one
	// front node per iteration. The obligations are then those of the second loop.
	if cl := countThenPopLoop(fi.Pkg.TypesInfo, scopes, loop); cl != nil {
		if h := f.loopHeadStmt(cl); h >= 0 {
			body := cl.(interface{ Pos() token.Pos }).Pos()
			_ = body
			var lb *ast.BlockStmt
			switch x := cl.(type) {
			case *ast.RangeStmt:
				lb = x.Body
			case *ast.ForStmt:
				lb = x.Body
			}
			inB := func(c *ast.CallExpr) bool { return c.Pos() >= lb.Pos() && c.End() <= lb.End() }
			pops2 := f.Match(func(n *GNode) bool {
				for _, c := range callsIn(n.Ast, false) {
					if p.callIs(fi.Pkg, c, "(*internal/model/core.file).PopFront") && inB(c) {
						return true
					}
				}
				return false
			})
			var start []int
			for _, e := range f.Nodes[h].Succs {
				if e.Label == 1 {
					start = append(start, e.To)
				}
			}
			atLeast := len(pops2) > 0 && !f.Reach(start, func(n *GNode) bool { return setOf(pops2)[n.ID] }, nil)[h]
			atMost := true
			for _, pn := range pops2 {
				reach := f.Reach(f.succsOf(pn), func(n *GNode) bool { return n.ID == h }, nil)
				for _, q := range pops2 {
					if reach[q] {
						atMost = false
					}
				}
			}
			outside := ""
			for _, id := range f.CallNodes("(*internal/model/core.file).PopFront", "(*internal/model/core.file).PopBack") {
				for _, c := range callsIn(f.Nodes[id].Ast, false) {
					if p.callIs(fi.Pkg, c, "(*internal/model/core.file).PopFront", "(*internal/model/core.file).PopBack") && !inB(c) {
						outside = p.pos(c)
					}
				}
			}
			r.Check(atLeast && atMost && outside == "", "C09.c", kCoreDeleteOld+"#one-pop", p.pos(loop), "the walk counts the yielded versions and exactly that many front nodes are popped",
				fmt.Sprintf("the collector does not pop exactly one front node per version the walk yielded (at least one per counted version: %v, at most one: %v, pops elsewhere: %s)", atLeast, atMost, outside))
			return
		}
	}
	head := f.loopHead(loop)
	// (judged by the position of the call itself: the parameter binding of a spliced-in helper that is given
	// the popped node sits at the helper's position)
	inBody := func(c *ast.CallExpr) bool { return c.Pos() >= loop.Body.Pos() && c.End() <= loop.Body.End() }
	pops := f.Match(func(n *GNode) bool {
		for _, c := range callsIn(n.Ast, false) {
			if p.callIs(fi.Pkg, c, "(*internal/model/core.file).PopFront") && inBody(c) {
				return true
			}
		}
		return false
	})
	var bodyStart []int
	for _, e := range f.Nodes[head].Succs {
		if e.Label == 1 {
			bodyStart = append(bodyStart, e.To)
		}
	}
	// at least one: the head is not reachable from the body start avoiding pops
	atLeast := len(pops) > 0 && !f.Reach(bodyStart, func(n *GNode) bool { return setOf(pops)[n.ID] }, nil)[head]
	// at most one: from a pop no other pop is reachable without passing the head
	atMost := true
	for _, pn := range pops {
		reach := f.Reach(f.succsOf(pn), func(n *GNode) bool { return n.ID == head }, nil)
		for _, q := range pops {
			if reach[q] {
				atMost = false
			}
		}
	}
	// no PopBack in the collector
	backs := f.CallNodes("(*internal/model/core.file).PopBack")
	// and no PopFront outside the walker's loop on any feasible path (nil-facts: a branch for "no horizon" of a
	// helper that is given the address of the horizon is not feasible)
	feasible := f.ReachNil([]int{f.Entry}, nil)
	for _, id := range f.CallNodes("(*internal/model/core.file).PopFront") {
		if !feasible[id] {
			continue
		}
		for _, c := range callsIn(f.Nodes[id].Ast, false) {
			if p.callIs(fi.Pkg, c, "(*internal/model/core.file).PopFront") && !inBody(c) {
				r.Viol("C09.c", kCoreDeleteOld+"#pop-outside-the-walk", p.pos(c), "the collector pops a version outside the loop over IterateBeforeSeq: a version is removed without the retention guard having yielded it")
			}
		}
	}
	r.Check(atLeast && atMost && len(backs) == 0, "C09.c", kCoreDeleteOld+"#one-pop", p.pos(loop), "exactly one PopFront per yielded version",
		fmt.Sprintf("the collection loop does not pop exactly one front node per yielded version (at least one: %v, at most one: %v, PopBack calls: %d): versions are skipped or the newest one is removed", atLeast, atMost, len(backs)))
}

func c09Mirror(p *Prog, r *Report) {
	// who writes the structure fields
	// (the owner of a field is the struct type that declares it; the list also owns the links of its nodes.
	// Nothing here depends on the names of the types or fields.)
	declaring := map[*types.Var]*types.TypeName{}
	for _, tn := range p.named {
		if tn.Pkg() == nil || shortPath(tn.Pkg().Path()) != "internal/model/core" {
			continue
		}
		nt, ok := tn.Type().(*types.Named)
		if !ok {
			continue
		}
		if st, ok := nt.Underlying().(*types.Struct); ok {
			for i := 0; i < st.NumFields(); i++ {
				declaring[st.Field(i)] = tn
			}
		}
	}
	// list-structure fields: fields of the per-key list type, of List and of Node whose type is a node pointer,
	// a List, or a slice of node pointers (the search mirror)
	structural := func(fv *types.Var) bool {
		ts := fv.Type().String()
		return strings.Contains(ts, "core.Node[") || strings.Contains(ts, "core.List[")
	}
	listTypeName := "List"
	n := 0
	for _, k := range sortedFuncKeys(p) {
		fi := p.Funcs[k]
		if fi.Decl.Body == nil {
			continue
		}
		info := fi.Pkg.TypesInfo
		ast.Inspect(fi.Decl.Body, func(x ast.Node) bool {
			var lhs []ast.Expr
			switch s := x.(type) {
			case *ast.AssignStmt:
				lhs = s.Lhs
			case *ast.IncDecStmt:
				lhs = []ast.Expr{s.X}
			}
			for _, l := range lhs {
				e := ast.Unparen(l)
				if ix, ok := e.(*ast.IndexExpr); ok {
					e = ast.Unparen(ix.X)
				}
				sel, ok := e.(*ast.SelectorExpr)
				if !ok {
					continue
				}
				fv, ok := info.Uses[sel.Sel].(*types.Var)
				if !ok || !fv.IsField() || fv.Pkg() == nil || shortPath(fv.Pkg().Path()) != "internal/model/core" {
					continue
				}
				if org := fv.Origin(); org != nil {
					fv = org
				}
				otn := declaring[fv]
				if otn == nil || !structural(fv) {
					continue
				}
				owner := otn.Name()
				n++
				// the writer must be a method of the owning type (the list also owns the links of its sentinel)
				ok2 := false
				if fi.Decl.Recv != nil {
					rt := fi.Sig().Recv().Type()
					if pt, isP := rt.(*types.Pointer); isP {
						rt = pt.Elem()
					}
					if nt, isN := rt.(*types.Named); isN && (nt.Obj().Name() == owner || (nt.Obj().Name() == listTypeName && owner == "Node")) {
						ok2 = true
					}
				} else if fi.Decl != nil && !fi.Obj.Exported() && shortPath(fi.Pkg.PkgPath) == "internal/model/core" {
					// a method written as an unexported function of the package: it takes the owner (pointer) as a
					// parameter and is called only from the owner's (or the list's) methods
					takesOwner := false
					for i := 0; i < fi.Sig().Params().Len(); i++ {
						pt := fi.Sig().Params().At(i).Type()
						if pp, isP := pt.(*types.Pointer); isP {
							pt = pp.Elem()
						}
						if nt, isN := pt.(*types.Named); isN && nt.Obj().Name() == owner {
							takesOwner = true
						}
					}
					callersOK, callers := true, 0
					for _, ck := range sortedFuncKeys(p) {
						c := p.Funcs[ck]
						if c.Decl == nil || c.Decl.Body == nil || c == fi {
							continue
						}
						calls := false
						ast.Inspect(c.Decl.Body, func(y ast.Node) bool {
							if ce, isC := y.(*ast.CallExpr); isC && p.staticCallee(c.Pkg, ce) == fi {
								calls = true
							}
							return true
						})
						if !calls {
							continue
						}
						callers++
						okCaller := false
						if c.Decl.Recv != nil && c.Pkg == fi.Pkg {
							rt := c.Sig().Recv().Type()
							if pp, isP := rt.(*types.Pointer); isP {
								rt = pp.Elem()
							}
							if nt, isN := rt.(*types.Named); isN && (nt.Obj().Name() == owner || (nt.Obj().Name() == listTypeName && owner == "Node")) {
								okCaller = true
							}
						}
						if !okCaller {
							callersOK = false
						}
					}
					ok2 = takesOwner && callersOK && callers > 0
				}
				r.Check(ok2, "C09.d", k+"#writes "+canonTypeName("internal/model/core." + owner)[len("internal/model/core."):]+"."+fv.Name(), p.pos(l), "written by a method of "+owner,
					fmt.Sprintf("%s writes %s.%s from outside the type's own methods: the list/array mirror discipline can no longer be established", k, owner, fv.Name()))
			}
			return true
		})
	}
	r.Floor("C09.d", "structure-field-writes", n, 10)
	// abstract evaluation of the three mutators
	for _, m := range []struct{ name, listOp, mirror string }{
		{"PushBack", "(*internal/model/core.List).PushBack", "append"},
		{"PopBack", "(*internal/model/core.List).PopBack", "drop-last"},
		{"PopFront", "(*internal/model/core.List).PopFront", "drop-first"},
	} {
		k := "(*internal/model/core.file)." + m.name
		fi := p.Func(k)
		if fi == nil {
			r.Undecided("C09.d", k, "", "not found")
			continue
		}
		info := fi.Pkg.TypesInfo
		// methods of a search-index type are spliced in; the list's own methods are not
		f := p.FlatInlExcept(fi, p.methodsOf("internal/model/core", "List")...)
		var isArr func(x ast.Expr) bool
		isArr = func(x ast.Expr) bool {
			for {
				x = ast.Unparen(x)
				if st, ok := x.(*ast.StarExpr); ok {
					x = st.X
					continue
				}
				if u, ok := x.(*ast.UnaryExpr); ok && u.Op == token.AND {
					x = u.X
					continue
				}
				break
			}
			if sel, ok := x.(*ast.SelectorExpr); ok {
				return sel.Sel.Name == fileFields.Arr
			}
			if o := objOf(info, x); o != nil && f.Alias != nil {
				if al, ok := f.Alias[o]; ok {
					return isArr(al)
				}
			}
			return false
		}
		var recv types.Object
		if len(fi.Decl.Recv.List[0].Names) == 1 {
			recv = info.Defs[fi.Decl.Recv.List[0].Names[0]]
		}
		// the variable holding the list op's result (pops)
		var resObj types.Object
		for _, gn := range f.Nodes {
			if as, ok := gn.Ast.(*ast.AssignStmt); ok && len(as.Rhs) == 1 && len(as.Lhs) == 1 {
				if c, ok := ast.Unparen(as.Rhs[0]).(*ast.CallExpr); ok && p.callIs(fi.Pkg, c, m.listOp) {
					resObj = objOf(info, as.Lhs[0])
				}
			}
		}
		const mirrorLen = 5 // abstract length of the mirror before the operation
		good := true
		detail := ""
		for _, searchable := range []bool{true, false} {
			for _, gotNode := range []bool{true, false} {
				if m.name == "PushBack" && !gotNode {
					continue
				}
				env := &Env{P: p, Pkg: fi.Pkg, Vars: map[types.Object]*Val{}}
				env.Vars[recv] = &Val{Ptr: &Val{Fields: map[string]*Val{fileFields.Flag: fileFlagVal(p, !searchable), fileFields.Arr: {Tag: "arr"}, fileFields.List: {Tag: "l"}}}}
				for _, fld := range fi.Decl.Type.Params.List {
					for _, nm := range fld.Names {
						env.Vars[info.Defs[nm]] = &Val{Ptr: &Val{Tag: "node"}}
					}
				}
				env.Hook = func(env *Env, e ast.Expr) (*Val, bool) {
					if env.Pkg != fi.Pkg {
						return nil, false
					}
					if id, ok := e.(*ast.Ident); ok && resObj != nil && objOf(info, id) == resObj {
						if gotNode {
							return &Val{Ptr: &Val{Tag: "node"}}, true
						}
						return &Val{Nil: true}, true
					}
					if c, ok := e.(*ast.CallExpr); ok && len(c.Args) == 1 && isArr(c.Args[0]) {
						if id, ok := c.Fun.(*ast.Ident); ok && id.Name == "len" {
							return intVal(mirrorLen), true
						}
					}
					// copy(arr, arr[1:]) moves len-1 elements and says so
					if c, ok := e.(*ast.CallExpr); ok && len(c.Args) == 2 && isArr(c.Args[0]) {
						if id, ok := c.Fun.(*ast.Ident); ok && id.Name == "copy" && arrShapeWith(info, c.Args[1], isArr) == "reslice-from-1" {
							return intVal(mirrorLen - 1), true
						}
					}
					return nil, false
				}
				// bounds written with locals (last := len(arr)-1; arr = arr[:last]) are read off the evaluated values
				evalInt := func(e ast.Expr) (int64, bool) {
					v, err := env.Eval(e)
					if err != nil || v == nil || v.C == nil {
						return 0, false
					}
					return constant.Int64Val(v.C)
				}
				shapeOf := func(e ast.Expr) string {
					sh := arrShapeWith(info, e, isArr)
					if se, ok := ast.Unparen(e).(*ast.SliceExpr); ok && strings.HasPrefix(sh, "other(") && isArr(se.X) && se.Max == nil {
						lo, hi := int64(0), int64(mirrorLen)
						okb := true
						if se.Low != nil {
							lo, okb = evalInt(se.Low)
						}
						if se.High != nil && okb {
							hi, okb = evalInt(se.High)
						}
						switch {
						case okb && lo == 0 && hi == mirrorLen-1:
							return "drop-last"
						case okb && lo == 1 && hi == mirrorLen:
							return "reslice-from-1"
						}
					}
					return sh
				}
				visited, _, err := f.WalkPath(env)
				if err != nil {
					r.Undecided("C09.d", k+"#mirror", p.pos(fi.Decl), err.Error())
					good = false
					break
				}
				touched, shape, listCalled := false, "", false
				for _, id := range visited {
					a := f.Nodes[id].Ast
					for _, c := range callsIn(a, false) {
						if p.callIs(fi.Pkg, c, m.listOp) {
							listCalled = true
						}
						if idn, ok := c.Fun.(*ast.Ident); ok && idn.Name == "copy" && len(c.Args) == 2 && shapeOf(c.Args[1]) == "reslice-from-1" {
							dst := ast.Unparen(c.Args[0])
							// the whole mirror as destination: arr, or arr[at:] with at evaluating to 0
							if se, isSl := dst.(*ast.SliceExpr); isSl && isArr(se.X) && se.High == nil && se.Max == nil && se.Low != nil {
								if lo, okLo := evalInt(se.Low); okLo && lo == 0 {
									dst = se.X
								}
							}
							if isArr(dst) {
								shape += "shift;"
							}
						}
					}
					if as, ok := a.(*ast.AssignStmt); ok && len(as.Lhs) == 1 && f.Nodes[id].Synth == "" {
						if isArr(as.Lhs[0]) {
							touched = true
							shape += shapeOf(as.Rhs[0]) + ";"
						}
					}
				}
				wantTouch := searchable && gotNode
				okShape := true
				if touched {
					switch m.mirror {
					case "append":
						okShape = shape == "append;"
					case "drop-last":
						okShape = shape == "drop-last;"
					case "drop-first":
						okShape = shape == "shift;drop-last;" || shape == "reslice-from-1;"
					}
				}
				if touched != wantTouch || !okShape || !listCalled {
					good = false
					detail = fmt.Sprintf("searchable=%v list-op-returned-node=%v: list op called=%v, mirror touched=%v (%s); expected touched=%v with %s", searchable, gotNode, listCalled, touched, shape, wantTouch, m.mirror)
				}
			}
		}
		r.Check(good, "C09.d", k+"#mirror", p.pos(fi.Decl), "list and array mirror change together ("+m.mirror+")", "the array mirror is out of step with the list: "+detail+"; LastBefore then searches an array that does not describe the list")
	}
}

// ---------------------------------------------------------------------------

func propC17(p *Prog, r *Report) {
	r.Rule("C17.a", "path provenance: the path given to the content store is ContentFile.Path() = path.Join(Parent, Id) with Parent = Dir.Path() = path.Join(Root, Name) of a directory yielded by the directory usecase and Id from the UUID generator; directories created by the usecase take their Name from the generator and their Root from the configured roots / the directory they replace")
	r.Rule("C17.b", "every root offers a directory: in dir.Get a directory is created (error-gated, before the listing) iff the root has none (guard evaluated over counts 0, 1, 5)")
	r.Rule("C17.c", "rotation: a directory is replaced iff its entry count has reached the limit (evaluated at limit-1, limit, limit+1: equality is a care row, a directory at the limit must not receive another file); replacement = Remove(old) -> fresh name, same root, Count = 0 -> Create, each error-gated")
	r.Rule("C17.d", "re-activation: deleteFile re-registers ParseDir(content record's Parent) after the content removal (part of the C04.c chain)")
	r.Rule("C17.e", "who may create files and directories = C04.d")
	r.Rule("C17.f", "the clamp reaches the usecase: in inline db.New cfg.Storage.Valid() (error-gated, pointer receiver on the same variable) precedes di.New(cfg); the usecase receives cfg.Storage.MaxDirCount")
	r.NotDecided = []string{"actual entry counts (they come from ReadDir at run time)", "concurrent Sets exceeding the limit between listing and store"}
	r.Assume = []string{"path.Join / path.Base / path.Dir as documented; uuid names contain no separators"}

	c17Provenance(p, r)
	c17Guards(p, r)
	// C17.d
	if fi := cleanerStepFunc(p); fi != nil {
		info := fi.Pkg.TypesInfo
		ok := false
		visit := func(x ast.Node) bool {
			if c, isC := x.(*ast.CallExpr); isC && p.callIs(fi.Pkg, c, kDirAdd) && len(c.Args) == 2 {
				arg := ast.Unparen(c.Args[1])
				// (the directory may be computed right after the look-up and kept in a local)
				if o := objOf(info, arg); o != nil {
					if def := singleDefIn(info, fi.Decl.Body, o); def != nil {
						arg = ast.Unparen(def)
					}
				}
				if pc, isP := arg.(*ast.CallExpr); isP && p.callIs(fi.Pkg, pc, "internal/model.ParseDir") && len(pc.Args) == 1 {
					if sel, isS := ast.Unparen(pc.Args[0]).(*ast.SelectorExpr); isS && sel.Sel.Name == "Parent" {
						ok = true
					}
				}
			}
			return true
		}
		for _, body := range p.deepBodies(fi) {
			ast.Inspect(body, visit)
		}
		_ = info
		r.Check(ok, "C17.d", kCleanDeleteFile+"#re-activation", p.pos(fi.Decl), "dRepo.Add(ParseDir(cf.Parent))", "after removing a content its directory is not re-registered from the content record's Parent: a rotated-out directory that has room again is never used")
		c04DeleteOrder(p, r, "C17.d")
	} else {
		r.Undecided("C17.d", kCleanDeleteFile, "", "not found")
	}
	c04WhoMay(p, r, "C17.e")
	r.Rule("C17.g", "canonical roots: the directory registry cleans every configured root before it is used as a key, stored, or becomes a directory's Root, so that ParseDir(Dir.Path()) gives the same Root back")
	c17RootsCanonical(p, r, "C17.g")
	r.Rule("C17.j", "only configured roots are candidates: every disk.Usage call of repository/dir.Get takes its root from the loop over the configured roots")
	c17UsageOfConfiguredRoots(p, r, "C17.j")
	r.Rule("C17.k", "a directory that regained room is used again: dir.Add answers 'already active' only after looking the directory up in the registry")
	c17AddConsultsRegistry(p, r, "C17.k")
	r.Rule("C17.i", "free space is measured, not remembered (= C10.j)")
	c10FreshMeasurements(p, r, "C17.i", "free")
	r.Rule("C17.h", "the registry only names directories that exist: dir.Create updates the registry only after MkdirAll succeeded")
	c17RegisterAfterMkdir(p, r, "C17.h")
	c17Clamp(p, r)
}

func c17Provenance(p *Prog, r *Report) {
	fi := p.Func(kStoreSet)
	if fi == nil {
		r.Undecided("C17.a", kStoreSet, "", "store.Set not found")
		return
	}
	info := fi.Pkg.TypesInfo
	f := p.FlatOf(fi)
	sites := f.CallSites(kContentStore)
	var loop *ast.RangeStmt
	for _, rs := range rangeLoops(fi.Decl.Body) {
		if c, ok := ast.Unparen(rs.X).(*ast.CallExpr); ok && p.callIs(fi.Pkg, c, kDirsIterate) {
			loop = rs
		}
	}
	bodies := []*ast.BlockStmt{fi.Decl.Body}
	if len(sites) == 0 || loop == nil {
		// the directory loop and the store in a helper of the use case (place): the helper is spliced in
		bodies = p.deepBodies(fi)
		for _, body := range bodies[1:] {
			for _, rs := range rangeLoops(body) {
				if c, ok := ast.Unparen(rs.X).(*ast.CallExpr); ok && p.callIs(fi.Pkg, c, kDirsIterate) {
					loop = rs
				}
			}
		}
		if loop != nil {
			f = p.FlatInlExcept(fi, kContentStore)
			sites = f.CallSites(kContentStore)
		}
	}
	if len(sites) == 0 || loop == nil {
		if p.funcCallsDeep(fi, p.keysPred(kContentStore)) && p.funcCallsDeep(fi, p.keysPred(kDirsIterate)) {
			r.Undecided("C17.a", kStoreSet+"#path", p.pos(fi.Decl), "the content is stored and the directories are iterated in helpers or closures the rule does not follow")
			return
		}
		r.Viol("C17.a", kStoreSet+"#path", p.pos(fi.Decl), "content store call or directory loop not found")
		return
	}
	dirObj := objOf(info, loop.Key)
	for _, s := range sites {
		okPath := false
		var cfObj types.Object
		if len(s.Call.Args) >= 2 {
			if pc, ok := ast.Unparen(s.Call.Args[1]).(*ast.CallExpr); ok && p.callIs(fi.Pkg, pc, "(*internal/model.ContentFile).Path") {
				if sel, ok := pc.Fun.(*ast.SelectorExpr); ok {
					cfObj = objOf(info, sel.X)
					if cfObj != nil {
						// (the record handed by value to a spliced-in helper: contents.write(ctx, cFile, content))
						cfObj = f.CanonObj(cfObj)
					}
					okPath = cfObj != nil
				}
			}
		}
		r.Check(okPath, "C17.a", kStoreSet+"#path-is-ContentFile.Path", p.pos(s.Call), "stored under ContentFile.Path()", "the content is not stored under ContentFile.Path(): it can land outside the managed directories")
		if cfObj == nil {
			continue
		}
		// Parent assigned from dir.Path() before the store, on every path
		parents := f.Match(func(n *GNode) bool {
			as, ok := n.Ast.(*ast.AssignStmt)
			if !ok || len(as.Lhs) != 1 || len(as.Rhs) != 1 {
				return false
			}
			sel, ok := as.Lhs[0].(*ast.SelectorExpr)
			if !ok || sel.Sel.Name != "Parent" || objOf(info, sel.X) == nil || f.CanonObj(objOf(info, sel.X)) != cfObj {
				return false
			}
			pc, ok := ast.Unparen(as.Rhs[0]).(*ast.CallExpr)
			if !ok || !p.callIs(fi.Pkg, pc, "(*internal/model.Dir).Path") {
				return false
			}
			ps, ok := pc.Fun.(*ast.SelectorExpr)
			// (seen through the parameter binding of a spliced-in helper: place.try(ctx, dir, &cFile))
			return ok && (objOf(info, ps.X) == dirObj || (objOf(info, ps.X) != nil && f.CanonObj(objOf(info, ps.X)) == dirObj))
		})
		okParent := len(parents) > 0
		// within the iteration: from the loop body start to the store, a Parent assignment is passed
		head := f.loopHead(loop)
		var bodyStart []int
		for _, e := range f.Nodes[head].Succs {
			if e.Label == 1 {
				bodyStart = append(bodyStart, e.To)
			}
		}
		if okParent && f.Reach(bodyStart, func(n *GNode) bool { return setOf(parents)[n.ID] }, nil)[s.Node] {
			okParent = false
		}
		r.Check(okParent, "C17.a", kStoreSet+"#parent-is-yielded-dir", p.pos(s.Call), "Parent = Path() of the directory yielded in this iteration", "the content file's Parent is not the Path() of the directory yielded by the iterator in this iteration")
		// Id from the generator
		idOK := false
		idFromVersion, versionIdGenerated := false, false
		for _, body := range bodies {
			ast.Inspect(body, func(x ast.Node) bool {
				if kv, ok := x.(*ast.KeyValueExpr); ok {
					if id, ok := kv.Key.(*ast.Ident); ok && id.Name == "Id" {
						if c, ok := ast.Unparen(kv.Value).(*ast.CallExpr); ok && p.callIs(fi.Pkg, c, kGenerate) {
							idOK = true
						}
						// the id of the version record built before (ContentFile{Id: file.ContentId})
						if sel, ok := ast.Unparen(kv.Value).(*ast.SelectorExpr); ok && sel.Sel.Name == "ContentId" {
							idFromVersion = true
						}
					}
					if id, ok := kv.Key.(*ast.Ident); ok && id.Name == "ContentId" {
						if c, ok := ast.Unparen(kv.Value).(*ast.CallExpr); ok && p.callIs(fi.Pkg, c, kGenerate) {
							versionIdGenerated = true
						}
					}
				}
				return true
			})
		}
		if idFromVersion && versionIdGenerated {
			idOK = true
		}
		r.Check(idOK, "C17.a", kStoreSet+"#id-from-generator", p.pos(s.Call), "content id from the UUID generator", "the content id (file name) does not come from the UUID generator")
	}
	// dirs from the directory usecase
	dirsOK := false
	if c, ok := ast.Unparen(loop.X).(*ast.CallExpr); ok {
		if sel, ok := c.Fun.(*ast.SelectorExpr); ok {
			if o := objOf(info, sel.X); o != nil {
				// (the parameter of a spliced-in helper stands for the argument it was given)
				if co := f.CanonObj(o); co != nil {
					o = co
				}
				if rhs := singleDefIn(info, fi.Decl.Body, o); rhs != nil {
					if dc, ok := ast.Unparen(rhs).(*ast.CallExpr); ok && p.callIs(fi.Pkg, dc, kDirGet) {
						dirsOK = true
					}
				}
			}
		}
	}
	r.Check(dirsOK, "C17.a", kStoreSet+"#dirs-from-usecase", p.pos(loop), "directories come from the directory usecase", "the directories iterated do not come from the directory usecase (which enforces creation and rotation)")
	// path builders
	for _, it := range []struct{ key, a, b string }{{"(*internal/model.ContentFile).Path", "Parent", "Id"}, {"(*internal/model.Dir).Path", "Root", "Name"}} {
		pf := p.Func(it.key)
		if pf == nil {
			r.Undecided("C17.a", it.key, "", "not found")
			continue
		}
		ok := false
		ast.Inspect(pf.Decl.Body, func(x ast.Node) bool {
			if c, isC := x.(*ast.CallExpr); isC && isFunc(pf.Pkg.TypesInfo, c, "path", "Join") && len(c.Args) == 2 {
				a, okA := ast.Unparen(c.Args[0]).(*ast.SelectorExpr)
				b, okB := ast.Unparen(c.Args[1]).(*ast.SelectorExpr)
				if okA && okB && a.Sel.Name == it.a && b.Sel.Name == it.b {
					ok = true
				}
			}
			return true
		})
		r.Check(ok, "C17.a", it.key, p.pos(pf.Decl), "path.Join("+it.a+", "+it.b+")", "path is not path.Join("+it.a+", "+it.b+")")
	}
}

func c17Guards(p *Prog, r *Report) {
	fi := p.Func(kDirGet)
	if fi == nil {
		r.Undecided("C17.b", kDirGet, "", "dir.Get not found")
		return
	}
	info := fi.Pkg.TypesInfo
	// the two loops may sit in Get itself or in a stage helper of the package; they may range over the
	// collection or index it
	type loopRef struct {
		owner *FuncInfo
		body  *ast.BlockStmt
		val   types.Object // range value variable (nil for index loops)
		node  ast.Node
	}
	var all []loopRef
	var gather func(owner *FuncInfo, depth int, seen map[string]bool)
	gather = func(owner *FuncInfo, depth int, seen map[string]bool) {
		walkNoLit(owner.Decl.Body, func(x ast.Node) bool {
			switch l := x.(type) {
			case *ast.RangeStmt:
				lr := loopRef{owner: owner, body: l.Body, node: l}
				if l.Value != nil {
					lr.val = objOf(info, l.Value)
				}
				all = append(all, lr)
			case *ast.ForStmt:
				all = append(all, loopRef{owner: owner, body: l.Body, node: l})
			case *ast.CallExpr:
				if depth > 0 {
					if callee := p.staticCallee(owner.Pkg, l); callee != nil && callee.Pkg == owner.Pkg && !seen[callee.Key] {
						seen[callee.Key] = true
						gather(callee, depth-1, seen)
					}
				}
			}
			return true
		})
	}
	gather(fi, 2, map[string]bool{fi.Key: true})
	var rootLoop, dirLoop *loopRef
	for i := range all {
		l := &all[i]
		calls := map[string]bool{}
		ast.Inspect(l.body, func(x ast.Node) bool {
			if c, ok := x.(*ast.CallExpr); ok {
				if p.callIs(fi.Pkg, c, kDirRepoRemove) {
					calls["remove"] = true
				}
				if p.callIs(fi.Pkg, c, kDirRepoCreate) {
					calls["create"] = true
				}
				// through a helper of the package (create / createFresh)
				if callee := p.staticCallee(fi.Pkg, c); callee != nil && callee.Pkg == fi.Pkg {
					if p.funcCallsDeep(callee, p.keysPred(kDirRepoRemove)) {
						calls["remove"] = true
					}
					if p.funcCallsDeep(callee, p.keysPred(kDirRepoCreate)) {
						calls["create"] = true
					}
				}
			}
			return true
		})
		if calls["remove"] {
			dirLoop = l
		} else if calls["create"] {
			rootLoop = l
		}
	}
	if rootLoop == nil || dirLoop == nil {
		if p.funcCallsDeep(fi, p.keysPred(kDirRepoCreate)) && p.funcCallsDeep(fi, p.keysPred(kDirRepoRemove)) {
			r.Undecided("C17.b", kDirGet+"#loops", p.pos(fi.Decl), "the per-root creation loop or the rotation loop was not recognised (create and remove are still called)")
		} else {
			r.Viol("C17.b", kDirGet+"#loops", p.pos(fi.Decl), "the per-root creation loop or the rotation loop is missing")
		}
		return
	}
	const limit = 100
	// mapWorld: the answer of every "_, ok := localMap[key]" in the evaluated body (the rule runs both worlds)
	mapWorld := false
	// keptFree: after a rotation the element offered to the caller still carries the free space measured for its
	// root (store.Set skips a directory that reports none)
	keptFree := true
	var lastCreated *Val // the directory handed to the repository's Create in the last evaluated body
	evalBody := func(loop *loopRef, count int64) (creates, removes bool, resetCount, newName, sameRoot bool, err error) {
		body := p.NewFlat(fi.Pkg, loop.body)
		body.WalkExprStmts = true
		valObj := loop.val
		var created *Val
		env := &Env{P: p, Pkg: fi.Pkg, Vars: map[types.Object]*Val{}}
		if recv := paramObjs(loop.owner)[-1]; recv != nil {
			// the limit is the use case's integer field, whatever it is called
			flds := map[string]*Val{"maxCount": intVal(limit)}
			rt := recv.Type()
			if pt, ok := rt.(*types.Pointer); ok {
				rt = pt.Elem()
			}
			if st, ok := rt.Underlying().(*types.Struct); ok {
				for i := 0; i < st.NumFields(); i++ {
					if bt, ok := st.Field(i).Type().Underlying().(*types.Basic); ok && bt.Info()&types.IsInteger != 0 {
						flds[st.Field(i).Name()] = intVal(limit)
					}
				}
			}
			env.Vars[recv] = &Val{Ptr: &Val{Fields: flds}}
		}
		item := &Val{Fields: map[string]*Val{"Count": intVal(count), "Path": strVal("/r"), "Root": strVal("/r"), "Name": strVal("old"), "Free": intVal(1)}}
		// decide-then-act: the loop ranges over what a pure planner of the package selected
		// (for _, p := range emptyRoots(roots) / for _, pos := range overfull(dirs, u.maxCount)): the planner's own
		// loop body is run on the element first; an element it does not select is not acted on
		var planned *Val
		if rs, isRange := loop.node.(*ast.RangeStmt); isRange {
			if call, isCall := ast.Unparen(rs.X).(*ast.CallExpr); isCall {
				if h := p.staticCallee(fi.Pkg, call); h != nil && h.Pkg == fi.Pkg && h.Decl.Body != nil {
					sel, val, perr := c17RunPlanner(p, h, call, env, item)
					if perr != nil {
						return false, false, false, false, false, perr
					}
					if !sel {
						return false, false, false, false, true, nil
					}
					planned = val
				}
			}
		}
		env.Hook = func(env *Env, e ast.Expr) (*Val, bool) {
			if env.Pkg != fi.Pkg {
				return nil, false
			}
			if id, ok := e.(*ast.Ident); ok && valObj != nil && objOf(info, id) == valObj {
				if planned != nil {
					return planned, true
				}
				return item, true
			}
			if id, ok := e.(*ast.Ident); ok {
				if o := objOf(info, id); o != nil && isErrorType(o.Type()) {
					return &Val{Nil: true}, true // repository calls succeed on the evaluated path
				}
			}
			if ix, ok := e.(*ast.IndexExpr); ok {
				_ = ix
				return item, true
			}
			// the repository calls and the name generator, wherever they sit (the loop body or a helper of the
			// package the body calls): recorded, and they succeed
			if c, ok := e.(*ast.CallExpr); ok {
				switch {
				case p.callIs(env.Pkg, c, kDirRepoCreate):
					creates = true
					if len(c.Args) == 2 {
						if v, err := env.Eval(c.Args[1]); err == nil && v != nil {
							for v.Ptr != nil {
								v = v.Ptr
							}
							cp := *v
							cp.Fields = map[string]*Val{}
							for k, fv := range v.Fields {
								cp.Fields[k] = fv
							}
							created = &cp
						}
					}
					return &Val{Nil: true}, true
				case p.callIs(env.Pkg, c, kDirRepoRemove):
					removes = true
					return &Val{Nil: true}, true
				case p.callIs(env.Pkg, c, kGenerate):
					return &Val{Tag: "generated"}, true
				}
			}
			return nil, false
		}
		// locals computed before the loop (limit := u.maxCount) are evaluated first, best effort
		if loop.owner != nil && loop.owner.Decl != nil && loop.owner.Decl.Body != nil {
			for _, st := range loop.owner.Decl.Body.List {
				if st.End() > loop.body.Pos() {
					break
				}
				if as, ok := st.(*ast.AssignStmt); ok && len(as.Lhs) == 1 && len(as.Rhs) == 1 {
					if o := objOf(info, as.Lhs[0]); o != nil {
						if v, err := env.Eval(as.Rhs[0]); err == nil && v != nil && v.C != nil {
							env.Vars[o] = v
						}
					}
				}
			}
		}
		env.MapOk = func(_ *Env, _ *ast.IndexExpr) (*Val, bool, bool) { return nil, mapWorld, true }
		visited, _, werr := body.WalkPath(env)
		if werr != nil {
			return false, false, false, false, false, werr
		}
		sameRoot = true
		for _, id := range visited {
			a := body.Nodes[id].Ast
			for _, c := range callsIn(a, false) {
				if p.callIs(fi.Pkg, c, kDirRepoCreate) {
					creates = true
				}
				if p.callIs(fi.Pkg, c, kDirRepoRemove) {
					removes = true
				}
			}
			if as, ok := a.(*ast.AssignStmt); ok && len(as.Lhs) == len(as.Rhs) {
				for i := range as.Lhs {
					sel, ok := as.Lhs[i].(*ast.SelectorExpr)
					if !ok {
						continue
					}
					switch sel.Sel.Name {
					case "Count":
						if v, ok := constInt(info, as.Rhs[i]); ok && v == 0 {
							resetCount = true
						}
					case "Name":
						if c, ok := ast.Unparen(as.Rhs[i]).(*ast.CallExpr); ok && p.callIs(fi.Pkg, c, kGenerate) {
							newName = true
						}
					case "Root":
						sameRoot = false
					}
				}
			}
		}
		// what the evaluation itself saw: the directory handed to Create and the element left in the list
		if created != nil && created.Fields != nil {
			if c := created.Fields["Count"]; (c != nil && c.C != nil && c.C.ExactString() == "0") || (c == nil && created.Complete) {
				resetCount = true
			}
			lastCreated = created
			if nm := created.Fields["Name"]; nm != nil && nm.Tag == "generated" {
				newName = true
			}
			if rt := created.Fields["Root"]; rt == nil || rt.C == nil || rt.C.ExactString() != `"/r"` {
				sameRoot = false
			}
		}
		if removes && creates {
			if fr := item.Fields["Free"]; fr == nil || fr.C == nil || fr.C.ExactString() != "1" {
				keptFree = false
			}
		}
		return
	}
	// C17.b
	good := true
	detail := ""
	for _, cnt := range []int64{0, 1, 5} {
		creates, _, _, _, _, err := evalBody(rootLoop, cnt)
		if err != nil {
			r.Undecided("C17.b", kDirGet+"#create-guard", p.pos(rootLoop.node), err.Error())
			good = false
			break
		}
		if creates != (cnt == 0) {
			good = false
			detail = fmt.Sprintf("a root with %d sub-directories: create=%v", cnt, creates)
		}
	}
	r.Check(good, "C17.b", kDirGet+"#create-guard", p.pos(rootLoop.node), "a sub-directory is created iff the root has none", "the per-root creation guard is wrong ("+detail+"): a configured root without sub-directory is never used, or every Set creates a new directory")
	// created directory: Name from generator, Root from the root's path
	nameOK, rootOK := false, false
	ast.Inspect(rootLoop.body, func(x ast.Node) bool {
		if kv, ok := x.(*ast.KeyValueExpr); ok {
			if id, ok := kv.Key.(*ast.Ident); ok {
				if id.Name == "Name" {
					if c, ok := ast.Unparen(kv.Value).(*ast.CallExpr); ok && p.callIs(fi.Pkg, c, kGenerate) {
						nameOK = true
					}
				}
				if id.Name == "Root" {
					if sel, ok := ast.Unparen(kv.Value).(*ast.SelectorExpr); ok && sel.Sel.Name == "Path" {
						// the element of the loop: its range variable, or an index into the collection
						if rootLoop.val != nil && objOf(info, sel.X) == rootLoop.val {
							rootOK = true
						}
						if _, isIx := ast.Unparen(sel.X).(*ast.IndexExpr); isIx && rootLoop.val == nil {
							rootOK = true
						}
					}
				}
			}
		}
		return true
	})
	// the same, as the evaluation saw it (the literal may sit in a helper of the package)
	lastCreated = nil
	if _, _, _, _, _, err := evalBody(rootLoop, 0); err == nil && lastCreated != nil {
		if nm := lastCreated.Fields["Name"]; nm != nil && nm.Tag == "generated" {
			nameOK = true
		}
		if rt := lastCreated.Fields["Root"]; rt != nil && rt.C != nil && rt.C.ExactString() == `"/r"` {
			rootOK = true
		}
	}
	r.Check(nameOK && rootOK, "C17.b", kDirGet+"#created-dir", p.pos(rootLoop.node), "new directory: generated name under the configured root", "a created directory does not take a generated name under the configured root's path")
	// creation precedes the listing and is error-gated
	f := p.FlatOf(fi)
	f.CheckChain(r, "C17.b", fi, []step{
		{Name: "roots listed", Keys: []string{kDirRepoRoots}},
		{Name: "directories listed", Keys: []string{kDirRepoGet}},
	})
	fe := p.FlatInl(fi)
	for _, s := range fe.CallSites(kDirRepoCreate, kDirRepoRemove) {
		fe.SiteConsumed(r, "C17.c", kDirGet+"#"+types.ExprString(s.Call.Fun)+"-error", fi, s, flowOpts{Class: true})
	}
	// C17.c
	good = true
	detail = ""
	for _, wc := range []struct {
		cnt int64
		m   bool
	}{{limit - 1, false}, {limit, false}, {limit + 1, false}, {limit - 1, true}, {limit, true}, {limit + 1, true}} {
		cnt := wc.cnt
		mapWorld = wc.m
		creates, removes, reset, newName, sameRoot, err := evalBody(dirLoop, cnt)
		mapWorld = false
		if err != nil {
			r.Undecided("C17.c", kDirGet+"#rotation-guard", p.pos(dirLoop.node), err.Error())
			good = false
			break
		}
		want := cnt >= limit
		if creates != want || removes != want {
			good = false
			detail = fmt.Sprintf("a directory with %d of %d entries: removed=%v recreated=%v", cnt, limit, removes, creates)
		}
		if want && !(reset && newName && sameRoot) {
			good = false
			detail = fmt.Sprintf("rotation at %d entries: count reset=%v, fresh name=%v, same root=%v", cnt, reset, newName, sameRoot)
		}
	}
	if !good && detail == "" {
		return // not evaluable: reported as undecided above
	}
	r.Check(good, "C17.c", kDirGet+"#rotation-guard", p.pos(dirLoop.node), "rotate iff count >= limit; fresh name, same root, count 0", "the rotation guard is wrong ("+detail+"): a directory at its limit receives another file, or directories are rotated early")
	r.Check(keptFree, "C17.c", kDirGet+"#replacement-keeps-the-measured-free-space", p.pos(dirLoop.node), "the replacement offered in place of a full directory reports the free space measured for its root",
		"the replacement offered in place of a full directory does not carry the free space measured for its root (it reports 0): store.Set skips a directory without free space, so the write that meets a full directory finds no directory to write to although the root has room")
	// order Remove -> Create within the rotation body
	body := p.NewFlatInl(dirLoop.owner, dirLoop.body)
	rem := body.CallNodes(kDirRepoRemove)
	cre := body.CallNodes(kDirRepoCreate)
	ok := len(rem) > 0 && len(cre) > 0
	for _, c := range cre {
		if !body.MustPrecede(setOf(rem), c) {
			ok = false
		}
	}
	r.Check(ok, "C17.c", kDirGet+"#remove-before-create", p.pos(dirLoop.node), "the full directory is unregistered before its replacement is created", "the replacement directory is created before the full one is unregistered")
}

func c17Clamp(p *Prog, r *Report) {
	fi := p.Func("pkg/inline/db.New")
	if fi == nil {
		r.Undecided("C17.f", "pkg/inline/db.New", "", "not found")
		return
	}
	info := fi.Pkg.TypesInfo
	f := p.FlatOf(fi)
	valids := f.CallSites(kValid)
	news := f.CallNodes("internal/di.New")
	if len(valids) == 0 || len(news) == 0 {
		r.Viol("C17.f", "pkg/inline/db.New#valid-before-di", p.pos(fi.Decl), "the inline constructor does not validate the storage options before building the container: a directory limit below 100 reaches the usecase unclamped")
	} else {
		ok := true
		for _, n := range news {
			if !f.MustPrecede(setOf([]int{valids[0].Node}), n) {
				ok = false
			}
		}
		g, _, st := f.GatedBy(valids[0], news)
		// same variable: cfg.Storage.Valid() and di.New(cfg)
		same := false
		if sel, isSel := valids[0].Call.Fun.(*ast.SelectorExpr); isSel {
			if inner, isInner := ast.Unparen(sel.X).(*ast.SelectorExpr); isInner {
				cfgObj := objOf(info, inner.X)
				for _, n := range news {
					for _, c := range callsIn(f.Nodes[n].Ast, false) {
						if len(c.Args) == 1 && objOf(info, c.Args[0]) == cfgObj && cfgObj != nil {
							same = true
						}
					}
				}
			}
		}
		r.Check(ok && g && same, "C17.f", "pkg/inline/db.New#valid-before-di", p.pos(valids[0].Call), "cfg.Storage.Valid() precedes and gates di.New(cfg) on the same value",
			"the validated (clamped) configuration is not the one handed to the container ("+strings.Join(st, ",")+")")
	}
	// the usecase receives cfg.Storage.MaxDirCount
	if d := p.Func("(*internal/di.Container).Dir"); d != nil {
		ok := false
		ast.Inspect(d.Decl.Body, func(x ast.Node) bool {
			if c, isC := x.(*ast.CallExpr); isC && p.callIs(d.Pkg, c, "internal/usecase/dir.New") && len(c.Args) >= 1 {
				// the MaxDirCount field of config.Storage, reached from the container (directly or through a local)
				arg := ast.Unparen(c.Args[0])
				if o := objOf(d.Pkg.TypesInfo, arg); o != nil {
					if def := singleDefIn(d.Pkg.TypesInfo, d.Decl.Body, o); def != nil {
						arg = ast.Unparen(def)
					} else {
						ast.Inspect(d.Decl.Body, func(y ast.Node) bool {
							if vs, isVS := y.(*ast.ValueSpec); isVS {
								for i, nm := range vs.Names {
									if d.Pkg.TypesInfo.Defs[nm] == o && i < len(vs.Values) {
										arg = ast.Unparen(vs.Values[i])
									}
								}
							}
							return true
						})
					}
				}
				isCfgLimit := func(e ast.Expr) bool {
					sel, isSel := ast.Unparen(e).(*ast.SelectorExpr)
					if !isSel {
						return false
					}
					fv, isF := d.Pkg.TypesInfo.Uses[sel.Sel].(*types.Var)
					return isF && fv.IsField() && fv.Name() == "MaxDirCount" && fv.Pkg() != nil && shortPath(fv.Pkg().Path()) == "config"
				}
				if isCfgLimit(arg) {
					ok = true
				} else if sel, isSel := arg.(*ast.SelectorExpr); isSel {
					// a field of the container's own settings, filled from the configuration where the container is
					// built: settings{maxDirCount: cfg.Storage.MaxDirCount}
					if fv, isF := d.Pkg.TypesInfo.Uses[sel.Sel].(*types.Var); isF && fv.IsField() {
						filled, other := false, false
						for _, file := range d.Pkg.Syntax {
							ast.Inspect(file, func(y ast.Node) bool {
								switch z := y.(type) {
								case *ast.KeyValueExpr:
									if id, isId := z.Key.(*ast.Ident); isId && d.Pkg.TypesInfo.Uses[id] == fv {
										if isCfgLimit(z.Value) {
											filled = true
										} else {
											other = true
										}
									}
								case *ast.AssignStmt:
									for i, l := range z.Lhs {
										if ls, isLS := ast.Unparen(l).(*ast.SelectorExpr); isLS && d.Pkg.TypesInfo.Uses[ls.Sel] == fv {
											if len(z.Rhs) == len(z.Lhs) && isCfgLimit(z.Rhs[i]) {
												filled = true
											} else {
												other = true
											}
										}
									}
								}
								return true
							})
						}
						if filled && !other {
							ok = true
						}
					}
				}
			}
			return true
		})
		r.Check(ok, "C17.f", "(*internal/di.Container).Dir#limit", p.pos(d.Decl), "dir usecase built with cfg.Storage.MaxDirCount", "the directory usecase is not built with the configured (clamped) MaxDirCount")
	}
	if a := p.Func("internal/app.New"); a != nil {
		fa := p.FlatOf(a)
		if len(fa.CallSites(kValid)) == 0 {
			r.Note("internal/app.New does not call Storage.Valid(): the server path relies on the caller for the clamp (the statement is conditional on the clamp; reported as a note, not a violation)")
		}
	}
	_ = token.ADD
}

// arrShape classifies the new value of the array mirror: append / drop-last / reslice-from-1 / other.
func arrShape(info *types.Info, e ast.Expr) string {
	return arrShapeWith(info, e, func(x ast.Expr) bool {
		sel, ok := ast.Unparen(x).(*ast.SelectorExpr)
		return ok && sel.Sel.Name == fileFields.Arr
	})
}

// arrShapeWith classifies an expression that rebuilds the search array; isArr tells which expressions denote it.
func arrShapeWith(info *types.Info, e ast.Expr, isArr func(ast.Expr) bool) string {
	e = ast.Unparen(e)
	switch x := e.(type) {
	case *ast.CallExpr:
		if id, ok := x.Fun.(*ast.Ident); ok && id.Name == "append" && len(x.Args) == 2 && isArr(x.Args[0]) {
			return "append"
		}
		// slices.Delete(arr, 0, 1): the library form of "everything but the first element, moved to the front"
		if fn, _ := info.Uses[selOf(x.Fun)].(*types.Func); fn != nil && fn.Pkg() != nil && fn.Pkg().Path() == "slices" && fn.Name() == "Delete" && len(x.Args) == 3 && isArr(x.Args[0]) {
			if lo, ok := constInt(info, x.Args[1]); ok && lo == 0 {
				if hi, ok := constInt(info, x.Args[2]); ok && hi == 1 {
					return "reslice-from-1"
				}
			}
		}
		// append(arr[:0], arr[1:]...): everything but the first element, moved to the front in place
		if id, ok := x.Fun.(*ast.Ident); ok && id.Name == "append" && len(x.Args) == 2 && x.Ellipsis.IsValid() {
			if d, ok := ast.Unparen(x.Args[0]).(*ast.SliceExpr); ok && isArr(d.X) && d.Low == nil && d.High != nil {
				if v, ok := constInt(info, d.High); ok && v == 0 && arrShapeWith(info, x.Args[1], isArr) == "reslice-from-1" {
					return "reslice-from-1"
				}
			}
		}
	case *ast.SliceExpr:
		if !isArr(x.X) {
			break
		}
		if x.Low == nil && x.High != nil {
			if be, ok := ast.Unparen(x.High).(*ast.BinaryExpr); ok && be.Op == token.SUB {
				if v, ok := constInt(info, be.Y); ok && v == 1 {
					if c, ok := ast.Unparen(be.X).(*ast.CallExpr); ok && len(c.Args) == 1 && isArr(c.Args[0]) {
						if id, ok := c.Fun.(*ast.Ident); ok && id.Name == "len" {
							return "drop-last"
						}
					}
				}
			}
		}
		if x.High == nil && x.Low != nil {
			if v, ok := constInt(info, x.Low); ok && v == 1 {
				return "reslice-from-1"
			}
		}
	}
	return "other(" + types.ExprString(e) + ")"
}

// countThenPopLoop: when the walk loop only increments one integer counter, the loop that runs that many times
// (for range n / for i := 0; i < n; i++ / for ; n > 0; n--) in the same scope; nil otherwise.
func countThenPopLoop(info *types.Info, scopes []*ast.BlockStmt, walk *ast.RangeStmt) ast.Stmt {
	var counter types.Object
	for _, st := range walk.Body.List {
		inc, ok := st.(*ast.IncDecStmt)
		if !ok || inc.Tok != token.INC {
			return nil
		}
		counter = objOf(info, inc.X)
	}
	if counter == nil {
		return nil
	}
	var res ast.Stmt
	for _, sc := range scopes {
		ast.Inspect(sc, func(x ast.Node) bool {
			switch l := x.(type) {
			case *ast.RangeStmt:
				if l != walk && objOf(info, l.X) == counter && l.Pos() > walk.End() {
					res = l
				}
			case *ast.ForStmt:
				if l.Cond != nil && l.Pos() > walk.End() {
					if be, ok := ast.Unparen(l.Cond).(*ast.BinaryExpr); ok && (objOf(info, be.Y) == counter || objOf(info, be.X) == counter) {
						res = l
					}
				}
			}
			return true
		})
	}
	return res
}

// c17RunPlanner runs the selection loop of a planner function (one loop over its first parameter that appends what
// it selects to its result) on one abstract element: was the element selected, and what was recorded for it.
func c17RunPlanner(p *Prog, h *FuncInfo, call *ast.CallExpr, outer *Env, item *Val) (selected bool, val *Val, err error) {
	info := h.Pkg.TypesInfo
	params := paramObjs(h)
	if params[0] == nil {
		return false, nil, fmt.Errorf("planner %s without a collection parameter", h.Key)
	}
	var body *ast.BlockStmt
	var valObj, keyObj types.Object
	walkNoLit(h.Decl.Body, func(x ast.Node) bool {
		switch l := x.(type) {
		case *ast.RangeStmt:
			if objOf(info, l.X) == params[0] && body == nil {
				body = l.Body
				if l.Value != nil {
					valObj = objOf(info, l.Value)
				}
				if l.Key != nil {
					keyObj = objOf(info, l.Key)
				}
			}
		case *ast.ForStmt:
			if body == nil {
				body = l.Body
				if as, ok := l.Init.(*ast.AssignStmt); ok && len(as.Lhs) == 1 {
					keyObj = objOf(info, as.Lhs[0])
				}
			}
		}
		return true
	})
	if body == nil {
		return false, nil, fmt.Errorf("planner %s: no loop over its collection", h.Key)
	}
	env := &Env{P: p, Pkg: h.Pkg, Vars: map[types.Object]*Val{}}
	args := argExprs(call, h)
	for i, po := range params {
		if po == nil || i <= 0 || args[i] == nil {
			continue
		}
		if v, verr := outer.Eval(args[i]); verr == nil && v != nil {
			env.Vars[po] = v
		}
	}
	env.Hook = func(e2 *Env, e ast.Expr) (*Val, bool) {
		if e2.Pkg != h.Pkg {
			return nil, false
		}
		if id, ok := e.(*ast.Ident); ok {
			switch objOf(info, id) {
			case valObj:
				if valObj != nil {
					return item, true
				}
			case keyObj:
				if keyObj != nil {
					return &Val{Tag: "index"}, true
				}
			}
		}
		if ix, ok := e.(*ast.IndexExpr); ok && objOf(info, ix.X) == params[0] {
			return item, true
		}
		if c, ok := e.(*ast.CallExpr); ok {
			if id, isId := c.Fun.(*ast.Ident); isId && id.Name == "append" && len(c.Args) == 2 {
				selected = true
				if v, verr := e2.Eval(c.Args[1]); verr == nil {
					val = v
				}
				return &Val{Tag: "list"}, true
			}
		}
		return nil, false
	}
	f := p.NewFlat(h.Pkg, body)
	if _, _, werr := f.WalkPath(env); werr != nil {
		return false, nil, werr
	}
	return selected, val, nil
}

// selOf: the selected identifier of pkg.Name / x.Name, or the identifier itself.
func selOf(e ast.Expr) *ast.Ident {
	switch x := ast.Unparen(e).(type) {
	case *ast.SelectorExpr:
		return x.Sel
	case *ast.Ident:
		return x
	case *ast.IndexExpr:
		return selOf(x.X)
	}
	return nil
}
