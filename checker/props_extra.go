package main

// Additional structural rules added after the first complete pass (round 1b):
// C02.f default level plumbing, C13.d Begin, C04.g constructor order, C11.g chunk discipline.

import (
	"fmt"
	"go/ast"
	"go/constant"
	"go/types"
	"golang.org/x/tools/go/packages"
	"strings"
)

// c02Defaults: autocommit reads behave as ReadCommitted; Begin passes the requested level on; default level is ReadCommitted.
func c02Defaults(p *Prog, r *Report, rule string) {
	rc, okRC := constValOfKey(p, "fs_db.IsoLevelReadCommitted")
	// (a) registry answer for the main id
	if fi := p.Func(kTxRepoGet); fi != nil && okRC {
		info := fi.Pkg.TypesInfo
		f := p.FlatInl(fi)
		var idObj types.Object
		for _, fld := range fi.Decl.Type.Params.List {
			for _, nm := range fld.Names {
				if o := info.Defs[nm]; o != nil {
					if bt, ok := o.Type().(*types.Basic); ok && bt.Kind() == types.String {
						idObj = o
					}
				}
			}
		}
		main, _ := constValOfKeyStr(p, "internal/model.MainTxId")
		env := &Env{P: p, Pkg: fi.Pkg, Vars: map[types.Object]*Val{idObj: strVal(main)}}
		// named results start as zero values (tx.Id = id; tx.IsoLevel = ... ; return tx, nil)
		if fi.Decl.Type.Results != nil {
			for _, fld := range fi.Decl.Type.Results.List {
				for _, nm := range fld.Names {
					if o := info.Defs[nm]; o != nil {
						if z := zeroVal(o.Type()); z != nil {
							env.Vars[o] = z
						}
					}
				}
			}
		}
		_, exit, err := f.WalkPath(env)
		good := false
		detail := "the main-id path is not evaluable"
		if err == nil {
			if rs := f.returnStmt(exit); rs != nil && len(rs.Results) == 2 && isNilIdent(info, rs.Results[1]) {
				if cl, ok := ast.Unparen(rs.Results[0]).(*ast.CompositeLit); ok {
					lvl, id := "", false
					for _, el := range cl.Elts {
						if kv, ok := el.(*ast.KeyValueExpr); ok {
							if k, ok := kv.Key.(*ast.Ident); ok {
								if k.Name == "IsoLevel" {
									if tv, ok := info.Types[kv.Value]; ok && tv.Value != nil {
										lvl = tv.Value.ExactString()
									}
								}
								if k.Name == "Id" && f.CanonObj(objOf(info, kv.Value)) == idObj {
									id = true
								}
								// on this path the id is the main id: naming the constant is the same value
								if k.Name == "Id" {
									if v, err := env.Eval(kv.Value); err == nil && v != nil && v.C != nil && v.C.Kind() == constant.String && constant.StringVal(v.C) == main {
										id = true
									}
								}
							}
						}
					}
					good = lvl == rc && id
					detail = fmt.Sprintf("for the main id the registry answers level %s (ReadCommitted is %s), id passed=%v", lvl, rc, id)
				} else if v, verr := env.Eval(rs.Results[0]); verr == nil && v != nil && v.Fields != nil {
					// the answer built by a helper (mainTransaction()): the evaluated value decides
					lvl, id := "", false
					if l := v.Fields["IsoLevel"]; l != nil && l.C != nil {
						lvl = l.C.ExactString()
					}
					if i := v.Fields["Id"]; i != nil && i.C != nil && i.C.Kind() == constant.String && constant.StringVal(i.C) == main {
						id = true
					}
					good = lvl == rc && id
					detail = fmt.Sprintf("for the main id the registry answers level %s (ReadCommitted is %s), id passed=%v", lvl, rc, id)
				}
			}
		}
		r.Check(good, rule, kTxRepoGet+"#autocommit-level", p.pos(fi.Decl), "no transaction = ReadCommitted view of the main store", "reads outside a transaction do not behave as ReadCommitted: "+detail)
	} else {
		r.Undecided(rule, kTxRepoGet+"#autocommit-level", "", "registry Get / ReadCommitted constant not found")
	}
	// (b) default level of both clients
	for _, k := range []string{"(*pkg/inline/db.db).Begin", "(*" + pkgExtDB + ".db).Begin"} {
		fi := p.Func(k)
		if fi == nil {
			r.Undecided(rule, k, "", "not found")
			continue
		}
		_ = fi.Pkg.TypesInfo
		// the level handed on (to the transaction usecase / into the request) is evaluated for the two cases "no level
		// given" and "one level given", whatever control structure or helper picks it
		var levelParam types.Object
		for _, o := range paramObjs(fi) {
			if o != nil {
				if sl, ok := o.Type().Underlying().(*types.Slice); ok && strings.HasSuffix(sl.Elem().String(), "TxIsoLevel") {
					levelParam = o
				}
			}
		}
		var levelExpr ast.Expr
		ast.Inspect(fi.Decl.Body, func(x ast.Node) bool {
			c, ok := x.(*ast.CallExpr)
			if !ok {
				return true
			}
			if p.callIs(fi.Pkg, c, kTxBegin) && len(c.Args) == 2 {
				levelExpr = c.Args[1]
			}
			if p.callIs(fi.Pkg, c, "internal/adapter/iso_level.ConvertToGrpc") && len(c.Args) == 1 {
				levelExpr = c.Args[0]
			}
			return true
		})
		okDefault, okGiven := false, false
		if levelParam != nil && levelExpr != nil {
			f := p.FlatOf(fi)
			for _, given := range []int64{0, 1} {
				g := given
				env := &Env{P: p, Pkg: fi.Pkg, Vars: map[types.Object]*Val{}}
				env.Hook = func(env *Env, e ast.Expr) (*Val, bool) {
					switch x := e.(type) {
					case *ast.CallExpr:
						if id, ok := x.Fun.(*ast.Ident); ok && id.Name == "len" && len(x.Args) == 1 {
							if tv, ok := env.Pkg.TypesInfo.Types[x.Args[0]]; ok {
								if sl, ok := tv.Type.(*types.Slice); ok && strings.HasSuffix(sl.Elem().String(), "TxIsoLevel") {
									return intVal(g), true
								}
							}
						}
					case *ast.IndexExpr:
						if tv, ok := env.Pkg.TypesInfo.Types[x.X]; ok {
							if sl, ok := tv.Type.(*types.Slice); ok && strings.HasSuffix(sl.Elem().String(), "TxIsoLevel") {
								if v, ok := constInt(env.Pkg.TypesInfo, x.Index); ok && v == 0 {
									return &Val{Tag: "given-level"}, true
								}
							}
						}
					case *ast.Ident:
						if o := objOf(env.Pkg.TypesInfo, x); o != nil && env.Vars[o] == nil {
							if sl, ok := o.Type().Underlying().(*types.Slice); ok && strings.HasSuffix(sl.Elem().String(), "TxIsoLevel") {
								return &Val{Tag: "levels"}, true
							}
						}
					}
					return nil, false
				}
				f.WalkPath(env) //nolint:errcheck // the walk may stop at the first undecidable guard after the call
				v, err := env.Eval(levelExpr)
				if err != nil {
					continue
				}
				if g == 0 && v.C != nil && v.C.ExactString() == rc {
					okDefault = true
				}
				if g == 1 && v.Tag == "given-level" {
					okGiven = true
				}
			}
		}
		r.Check(okDefault && okGiven, rule, k+"#level", p.pos(fi.Decl), "given level used, default ReadCommitted", "Begin does not use the level given by the caller or its default is not ReadCommitted")
	}
	// (c) Begin usecase stores the requested level and a generated id
	if fi := p.Func(kTxBegin); fi != nil {
		info := fi.Pkg.TypesInfo
		var lvlParam types.Object
		for _, fld := range fi.Decl.Type.Params.List {
			for _, nm := range fld.Names {
				if o := info.Defs[nm]; o != nil && strings.HasSuffix(o.Type().String(), "TxIsoLevel") {
					lvlParam = o
				}
			}
		}
		okLvl, okId, okSeq := false, false, false
		// the transaction record handed to the registry, wherever it is built (helpers and closures run by a
		// locking helper are spliced in); its fields are followed back to where their values come from
		f := p.FlatInl(fi)
		allAre := func(node int, e ast.Expr, pred func(ast.Expr) bool) bool {
			os := f.Origins(node, e)
			if len(os) == 0 {
				return false
			}
			for _, o := range os {
				if !pred(o) {
					return false
				}
			}
			return true
		}
		for _, gn := range f.Nodes {
			if gn.Ast == nil {
				continue
			}
			ast.Inspect(gn.Ast, func(x ast.Node) bool {
				if _, isLit := x.(*ast.FuncLit); isLit {
					return false
				}
				cl, ok := x.(*ast.CompositeLit)
				if !ok {
					return true
				}
				if tv, ok := info.Types[cl]; !ok || !strings.HasSuffix(tv.Type.String(), "internal/model.Transaction") {
					return true
				}
				for _, el := range cl.Elts {
					kv, ok := el.(*ast.KeyValueExpr)
					if !ok {
						continue
					}
					k, ok := kv.Key.(*ast.Ident)
					if !ok {
						continue
					}
					switch k.Name {
					case "IsoLevel":
						okLvl = lvlParam != nil && allAre(gn.ID, kv.Value, func(o ast.Expr) bool { return f.CanonObj(objOf(info, o)) == lvlParam })
					case "Id":
						okId = allAre(gn.ID, kv.Value, func(o ast.Expr) bool {
							c, ok := o.(*ast.CallExpr)
							return ok && p.callIs(fi.Pkg, c, kGenerate)
						})
					case "Seq":
						okSeq = allAre(gn.ID, kv.Value, func(o ast.Expr) bool {
							c, ok := o.(*ast.CallExpr)
							return ok && p.callIs(fi.Pkg, c, kSeqNext)
						})
					}
				}
				return true
			})
		}
		// fields of the record set by assignment after the literal: newTx.Seq = sequence.Next()
		for _, gn := range f.Nodes {
			as, ok := gn.Ast.(*ast.AssignStmt)
			if !ok || gn.Synth != "" || len(as.Lhs) != len(as.Rhs) {
				continue
			}
			for i, l := range as.Lhs {
				sel, ok := ast.Unparen(l).(*ast.SelectorExpr)
				if !ok {
					continue
				}
				if tv, ok := info.Types[sel.X]; !ok || !strings.HasSuffix(strings.TrimPrefix(tv.Type.String(), "*"), "internal/model.Transaction") {
					continue
				}
				rhs := as.Rhs[i]
				switch sel.Sel.Name {
				case "IsoLevel":
					okLvl = lvlParam != nil && allAre(gn.ID, rhs, func(o ast.Expr) bool { return f.CanonObj(objOf(info, o)) == lvlParam })
				case "Id":
					okId = allAre(gn.ID, rhs, func(o ast.Expr) bool {
						c, ok := o.(*ast.CallExpr)
						return ok && p.callIs(fi.Pkg, c, kGenerate)
					})
				case "Seq":
					okSeq = allAre(gn.ID, rhs, func(o ast.Expr) bool {
						c, ok := o.(*ast.CallExpr)
						return ok && p.callIs(fi.Pkg, c, kSeqNext)
					})
				}
			}
		}
		r.Check(okLvl && okId && okSeq, rule, kTxBegin+"#registers", p.pos(fi.Decl), "registers (generated id, requested level, fresh snapshot point)",
			fmt.Sprintf("Begin does not register the transaction with a generated id (%v), the requested level (%v) and a fresh sequence number (%v)", okId, okLvl, okSeq))
		f = p.FlatInl(fi)
		for _, s := range f.CallSites(kTxRepoStore) {
			f.SiteConsumed(r, rule, kTxBegin+"#store-error", fi, s, flowOpts{Class: true})
		}
	}
}

// c04CtorOrder: in both constructors recovery (Load, error-gated) precedes the scheduling of the collector
// and the hand-over of Load's delete list; the handle is returned only after Load succeeded.
func c04CtorOrder(p *Prog, r *Report, rule string) {
	for _, k := range []string{"pkg/inline/db.New", "internal/app.New"} {
		fi := p.Func(k)
		if fi == nil {
			r.Undecided(rule, k, "", "constructor not found")
			continue
		}
		f := p.FlatOf(fi)
		f.CheckChain(r, rule, fi, []step{
			{Name: "recovery (Load)", Keys: []string{kCoreLoad}},
			{Name: "collector scheduled", Keys: []string{kPoolSched}},
		})
		// Load's list is what is handed to the cleaner
		info := fi.Pkg.TypesInfo
		for _, s := range f.CallSites(kCoreLoad) {
			var listObj types.Object
			if as, ok := f.Nodes[s.Node].Ast.(*ast.AssignStmt); ok && len(as.Lhs) == 2 {
				listObj = objOf(info, as.Lhs[0])
			}
			ok := false
			for _, n := range f.CallNodes(kDeleteFilesAsync, kDeleteFiles) {
				for _, c := range callsIn(f.Nodes[n].Ast, false) {
					for _, a := range c.Args {
						if listObj != nil && objOf(info, a) == listObj {
							ok = true
						}
					}
				}
			}
			r.Check(ok, rule, k+"#recovery-list-to-cleaner", p.pos(s.Call), "the records dropped by recovery are handed to the cleaner", "the records dropped by recovery are not handed to the cleaner: uncommitted and superseded contents stay on disk")
		}
	}
}

// c11Chunks: the server sends exactly the bytes read (chunk[:n]); the stream writer flushes its remainder before CloseAndRecv.
func c11Chunks(p *Prog, r *Report, rule string) {
	if fi := p.Func("(*" + pkgDelivery + ".Service).GetFile"); fi != nil {
		info := fi.Pkg.TypesInfo
		// n, err = content.Read(chunk), in the handler or in a helper spliced into it
		var bufObj, nObj types.Object
		fl := p.FlatInl(fi)
		for _, gn := range fl.Nodes {
			if as, ok := gn.Ast.(*ast.AssignStmt); ok && len(as.Lhs) == 2 && len(as.Rhs) == 1 {
				if c, ok := ast.Unparen(as.Rhs[0]).(*ast.CallExpr); ok && len(c.Args) == 1 {
					if sel, ok := c.Fun.(*ast.SelectorExpr); ok && sel.Sel.Name == "Read" {
						bufObj, nObj = objOf(info, c.Args[0]), objOf(info, as.Lhs[0])
					}
				}
			}
		}
		good := false
		var at ast.Node = fi.Decl
		isReadPrefix := func(e ast.Expr) bool {
			se, ok := ast.Unparen(e).(*ast.SliceExpr)
			return ok && objOf(info, se.X) == bufObj && se.Low == nil && se.High != nil && objOf(info, se.High) == nObj && nObj != nil
		}
		for _, gn := range fl.Nodes {
			if gn.Ast == nil {
				continue
			}
			ast.Inspect(gn.Ast, func(x ast.Node) bool {
				if kv, ok := x.(*ast.KeyValueExpr); ok {
					if k, ok := kv.Key.(*ast.Ident); ok && k.Name == "Chunk" {
						at = kv
						if isReadPrefix(kv.Value) {
							good = true
						}
					}
				}
				// the message built by a helper of the package: chunkResponse(buf[:n]) with `Chunk: p` inside
				if c, ok := x.(*ast.CallExpr); ok {
					if h := p.staticCallee(fi.Pkg, c); h != nil && h.Pkg == fi.Pkg {
						args := argExprs(c, h)
						for i, po := range paramObjs(h) {
							if po == nil || i < 0 || args[i] == nil || !isReadPrefix(args[i]) {
								continue
							}
							ast.Inspect(h.Decl.Body, func(y ast.Node) bool {
								if kv, ok := y.(*ast.KeyValueExpr); ok {
									if k, ok := kv.Key.(*ast.Ident); ok && k.Name == "Chunk" && objOf(info, kv.Value) == po {
										at = c
										good = true
									}
								}
								return true
							})
						}
					}
				}
				return true
			})
		}
		r.Check(good, rule, "(*"+pkgDelivery+".Service).GetFile#chunk-bounds", p.pos(at), "the chunk sent is buf[:n] of the Read that filled it", "the server does not send exactly the n bytes the Read returned: the last chunk carries stale bytes of the previous one (or is cut)")
	}
	// ---- the stream writer (helpers of the writer type are followed) ----
	const swPkg = "internal/utils/grpc/streamwriter"
	selPred := func(name string) callPred {
		return callPred{name: "sel:" + name, fn: func(pkg *packages.Package, c *ast.CallExpr) bool {
			sel, ok := ast.Unparen(c.Fun).(*ast.SelectorExpr)
			if !ok || sel.Sel.Name != name {
				return false
			}
			// a method of the stream interface, not a helper of the writer itself
			return p.staticCallee(pkg, c) == nil
		}}
	}
	sendP, closeP := selPred("Send"), selPred("CloseAndRecv")
	statusP := callPred{name: "stream-status", fn: func(pkg *packages.Package, c *ast.CallExpr) bool {
		sel, ok := ast.Unparen(c.Fun).(*ast.SelectorExpr)
		return ok && (sel.Sel.Name == "CloseAndRecv" || sel.Sel.Name == "RecvMsg") && p.staticCallee(pkg, c) == nil
	}}
	scope := p.methodsOf(swPkg, "writer")
	// helpers of the writer may be package-level functions (a generic send(stream, msg))
	for _, k := range sortedFuncKeys(p) {
		if h := p.Funcs[k]; h.Decl != nil && h.Decl.Body != nil && h.Decl.Recv == nil && shortPath(h.Pkg.PkgPath) == swPkg && !h.Obj.Exported() {
			scope = append(scope, k)
		}
	}
	inScope := map[string]bool{}
	for _, k := range scope {
		inScope[k] = true
	}
	nSend := 0
	for _, k := range scope {
		fi := p.Func(k)
		info := fi.Pkg.TypesInfo
		f := p.FlatOf(fi)
		for _, n := range f.Nodes {
			if n.Ast == nil {
				continue
			}
			for _, c := range callsIn(n.Ast, false) {
				isSend, isClose := sendP.fn(fi.Pkg, c), closeP.fn(fi.Pkg, c)
				derived := false
				if callee := p.staticCallee(fi.Pkg, c); callee != nil && inScope[callee.Key] {
					res := callee.Sig().Results()
					if res.Len() > 0 && isErrorType(res.At(res.Len()-1).Type()) && (p.funcCalls(callee, sendP, false) || p.funcCalls(callee, closeP, false)) {
						derived = true
					}
				}
				if !isSend && !isClose && !derived {
					continue
				}
				what := "send"
				if isClose {
					what = "verdict"
				} else if derived {
					what = "helper"
				}
				site := f.bindOf(n, c)
				opts := flowOpts{Class: true}
				if isSend {
					nSend++
					// an io.EOF from Send only says that the stream has ended: it may be replaced by the stream status (checked below)
					opts.Tolerated = []string{"is:io.EOF"}
				}
				f.SiteConsumed(r, rule, fmt.Sprintf("%s#%s-error/%s", k, what, types.ExprString(c.Fun)), fi, site, opts)
				if !isSend {
					continue
				}
				// Send reports io.EOF when the receiving side has ended the stream; the reason is the stream status
				cons := fmt.Sprintf("%s#send-eof-status/%s", k, types.ExprString(c.Fun))
				if site.Kind != "assigned" || site.ErrVar == nil {
					r.Viol(rule, cons, p.pos(c), "the error of Send is returned or used without testing it for io.EOF: when the server ends the stream early (empty key, no free space) the caller receives a bare io.EOF, which the client maps to ErrUnknown instead of the class the server reported")
					continue
				}
				st := f.ErrStatesFrom(site.Node, site.ErrVar)
				var tests []int
				eofEdge := map[int]int{}
				for _, cn := range f.Nodes {
					if !cn.IsCond || len(st[cn.ID]) == 0 {
						continue
					}
					ci := classifyCond(info, cn.Ast.(ast.Expr))
					if ci.obj == site.ErrVar && (ci.kind == "is" || ci.kind == "isnot") && ci.arg == "io.EOF" {
						lbl := 1
						if (ci.kind == "isnot") != ci.neg {
							lbl = 2
						}
						tests = append(tests, cn.ID)
						eofEdge[cn.ID] = lbl
					}
				}
				bad := ""
				if len(tests) == 0 {
					bad = "the error of Send is never tested for io.EOF"
				} else {
					ts := setOf(tests)
					reach := f.Reach(f.succsOf(site.Node), func(x *GNode) bool { return ts[x.ID] }, func(from *GNode, e Edge) bool {
						return len(st.along(from.ID, e.To)) > 0
					})
					for _, e := range f.Exits() {
						if reach[e] && !f.isNoReturnExit(f.Nodes[e]) {
							bad = "the error of Send can be returned at " + p.pos(f.Nodes[e].Ast) + " without having been tested for io.EOF"
						}
					}
					status := setOf(f.NodesMust(statusP))
					for _, t := range tests {
						var starts []int
						for _, e := range f.Nodes[t].Succs {
							if e.Label == eofEdge[t] {
								starts = append(starts, e.To)
							}
						}
						rr := f.Reach(starts, func(x *GNode) bool { return status[x.ID] }, nil)
						for _, e := range f.Exits() {
							if rr[e] && !f.isNoReturnExit(f.Nodes[e]) {
								bad = "after Send reported io.EOF the function can return at " + p.pos(f.Nodes[e].Ast) + " without fetching the stream status (CloseAndRecv)"
							}
						}
					}
				}
				r.Check(bad == "", rule, cons, p.pos(c), "an io.EOF from Send is replaced by the stream status", bad+": when the server ends the stream early (empty key, no free space) the caller receives a bare io.EOF, which the client maps to ErrUnknown instead of the class the server reported")
			}
		}
	}
	r.Floor(rule, "stream-writer-Send-sites", nSend, 1)
	wk := "(*" + swPkg + ".writer).Close"
	if fi := p.Func(wk); fi != nil {
		f := p.FlatOf(fi)
		sends := f.NodesMust(sendP)
		ss := setOf(sends)
		var closes []int
		for _, id := range f.NodesMay(closeP) {
			if !ss[id] {
				closes = append(closes, id)
			}
		}
		// the remainder is flushed when non-empty: with len(data) > 0 the Send precedes CloseAndRecv
		g := f.WithoutEdges(func(from *GNode, e Edge) bool {
			if !from.IsCond {
				return false
			}
			env := &Env{P: p, Pkg: fi.Pkg, Vars: map[types.Object]*Val{}}
			env.Hook = func(env *Env, x ast.Expr) (*Val, bool) {
				if c, ok := x.(*ast.CallExpr); ok && len(c.Args) <= 1 {
					if id, ok := c.Fun.(*ast.Ident); ok && id.Name == "len" {
						return intVal(3), true
					}
					if sel, ok := c.Fun.(*ast.SelectorExpr); ok && sel.Sel.Name == "Len" {
						return intVal(3), true
					}
				}
				return nil, false
			}
			v, err := env.Eval(from.Ast.(ast.Expr))
			if err != nil || v.C == nil {
				return false
			}
			taken := 2
			if v.C.ExactString() == "true" {
				taken = 1
			}
			return e.Label != taken
		})
		ok := len(sends) > 0 && len(closes) > 0
		for _, c := range closes {
			if !g.MustPrecede(ss, c) {
				ok = false
			}
		}
		r.Check(ok, rule, wk+"#flush-before-close", p.pos(fi.Decl), "a non-empty remainder is sent before CloseAndRecv", "the stream writer closes the stream without sending its buffered remainder: the tail of the content (less than one chunk) is lost")
	} else {
		r.Undecided(rule, wk, "", "not found")
	}
}
