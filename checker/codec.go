package main

// codec.go: abstract interpretation of the record codec (C19.a). The encoder and the decoder are run on an
// abstract record: byte slices are windows [lo, hi) into the record buffer with offsets that are linear in the
// record length L and the key length K; values carry the File field they come from (encoder) or the window and the
// decoding they were read with (decoder). Every write into a window and every assignment of a File field yields
// a layout row (offset, length, encoding). The interpreter follows the success path (an if whose body ends in a
// return of a non-nil error is not entered), splices in helpers of the package, and knows the byte-level
// vocabulary of the repository: re-slicing, len, copy, append, encoding/binary byte orders (Put/Append/read),
// uuid.Parse / UUID(bytes) / FromBytes / String, string(bytes), []byte(string). Anything else makes it give up
// (ok = false) and the older syntactic extraction decides.

import (
	"fmt"
	"go/ast"
	"go/token"
	"go/types"
	"strings"
)

// sym is c + l*L + k*K.
type sym struct{ c, l, k int64 }

func (a sym) add(b sym) sym { return sym{a.c + b.c, a.l + b.l, a.k + b.k} }
func (a sym) sub(b sym) sym { return sym{a.c - b.c, a.l - b.l, a.k - b.k} }
func (a sym) isConst() bool { return a.l == 0 && a.k == 0 }

type cval struct {
	kind string // "buf", "int", "file", "val", "tuple", "nil", "unknown"
	// buf: a window of the record
	lo, hi sym
	// int
	n sym
	// val: a value that carries a File field (encoder) and/or bytes read from a window (decoder)
	field   string // provenance on the encoder side
	form    string // "uuid" (16-byte id), "u64", "str", "bytes"
	read    bool   // decoder side: read from [rlo, rhi) with encoding enc
	rlo     sym
	rhi     sym
	enc     string
	nbytes  sym              // length in bytes when it is used as a byte source (uuid: 16, key: K)
	elems   []*cval          // tuple results; array elements
	fields  map[string]*cval // struct: a cursor object of the package (record{rest: data})
	pointee *cval
	lit     *ast.FuncLit // closure: a local cursor function (next := func(n int) []byte {...}) and the
	litEnv  *cenv        // environment it closes over (captured variables are shared)
}

type codecInterp struct {
	p      *Prog
	side   string // "writer" / "reader"
	rows   map[string]layoutRow
	dup    []string
	failed string
	depth  int
	// accesses: every read of record bytes with the record length it needs, attributed to the statement of the
	// interpreted function that (directly or through helpers) performs it
	accesses []codecAccess
	cur      ast.Stmt
}

type codecAccess struct {
	Stmt ast.Stmt
	Need int64
	Pos  string
	What string
}

// access notes that the record must be at least need bytes long at this point.
func (ci *codecInterp) access(need sym, n ast.Node) {
	if need.isConst() && need.c > 0 && ci.cur != nil {
		ci.accesses = append(ci.accesses, codecAccess{Stmt: ci.cur, Need: need.c, Pos: ci.p.pos(n), What: types.ExprString(n.(ast.Expr))})
	}
}

type cenv struct {
	vars map[types.Object]*cval
	fi   *FuncInfo
}

func (ci *codecInterp) fail(n ast.Node, why string) {
	if ci.failed == "" {
		ci.failed = fmt.Sprintf("%s: %s", ci.p.pos(n), why)
	}
}

func isFileType(t types.Type) bool {
	if pt, ok := t.(*types.Pointer); ok {
		t = pt.Elem()
	}
	nt, ok := t.(*types.Named)
	return ok && nt.Obj().Name() == "File" && nt.Obj().Pkg() != nil && shortPath(nt.Obj().Pkg().Path()) == "internal/model"
}

func isByteSlice(t types.Type) bool {
	sl, ok := t.Underlying().(*types.Slice)
	return ok && isByte(sl.Elem())
}

// codecTable runs fi (marshalFile / unmarshalFile) abstractly and returns its layout rows.
func codecTable(p *Prog, fi *FuncInfo, side string) (map[string]layoutRow, bool, string) {
	ci, ok, why := codecRun(p, fi, side)
	if !ok {
		return nil, false, why
	}
	return ci.rows, true, ""
}

// codecRun is codecTable that hands back the interpreter (rows and accesses).
func codecRun(p *Prog, fi *FuncInfo, side string) (*codecInterp, bool, string) {
	ci := &codecInterp{p: p, side: side, rows: map[string]layoutRow{}}
	env := &cenv{vars: map[types.Object]*cval{}, fi: fi}
	info := fi.Pkg.TypesInfo
	for _, fld := range fi.Decl.Type.Params.List {
		for _, nm := range fld.Names {
			o := info.Defs[nm]
			if o == nil {
				continue
			}
			switch {
			case isByteSlice(o.Type()):
				env.vars[o] = &cval{kind: "buf", lo: sym{}, hi: sym{l: 1}}
			case isFileType(o.Type()):
				env.vars[o] = &cval{kind: "file"}
			}
		}
	}
	ci.block(env, fi.Decl.Body.List)
	if ci.failed != "" {
		return nil, false, ci.failed
	}
	return ci, true, ""
}

func (ci *codecInterp) row(field string, lo, hi sym, enc string, at ast.Node) {
	r := layoutRow{Field: field, Enc: enc, Pos: ci.p.pos(at)}
	if !lo.isConst() {
		ci.fail(at, "offset of "+field+" depends on the input")
		return
	}
	r.Lo = lo.c
	if hi.isConst() {
		r.Hi = hi.c
	} else {
		r.Hi = -1 // up to the end of the record
	}
	if old, dup := ci.rows[field]; dup && (old.Lo != r.Lo || old.Hi != r.Hi || old.Enc != r.Enc) {
		ci.dup = append(ci.dup, fmt.Sprintf("%s (%s and %s)", field, old.Pos, r.Pos))
	}
	ci.rows[field] = r
}

// returnsError: the block ends in a return whose last result is a non-nil error expression.
func returnsError(info *types.Info, list []ast.Stmt) bool {
	if len(list) == 0 {
		return false
	}
	rs, ok := list[len(list)-1].(*ast.ReturnStmt)
	if !ok || len(rs.Results) == 0 {
		return false
	}
	last := rs.Results[len(rs.Results)-1]
	tv, ok := info.Types[last]
	return ok && isErrorType(tv.Type) && !isNilIdent(info, last)
}

// block interprets statements; it returns the values of a return statement when one is reached.
func (ci *codecInterp) block(env *cenv, list []ast.Stmt) ([]*cval, bool) {
	info := env.fi.Pkg.TypesInfo
	for _, s := range list {
		if ci.failed != "" {
			return nil, true
		}
		if ci.depth == 0 {
			switch s.(type) {
			case *ast.IfStmt, *ast.BlockStmt, *ast.SwitchStmt, *ast.RangeStmt, *ast.ForStmt:
			default:
				ci.cur = s
			}
		}
		switch x := s.(type) {
		case *ast.ReturnStmt:
			var res []*cval
			for _, e := range x.Results {
				res = append(res, ci.eval(env, e))
			}
			if len(res) == 1 && res[0] != nil && res[0].kind == "tuple" {
				res = res[0].elems
			}
			return res, true
		case *ast.IfStmt:
			if x.Init != nil {
				ci.block(env, []ast.Stmt{x.Init})
			}
			if ci.depth == 0 {
				ci.cur = &ast.ExprStmt{X: x.Cond}
			}
			ci.eval(env, x.Cond)
			if returnsError(info, x.Body.List) {
				// the failure path: not part of the layout
			} else if r, done := ci.block(env, x.Body.List); done {
				return r, true
			}
			switch el := x.Else.(type) {
			case *ast.BlockStmt:
				if !returnsError(info, el.List) {
					if r, done := ci.block(env, el.List); done {
						return r, true
					}
				}
			case *ast.IfStmt:
				if r, done := ci.block(env, []ast.Stmt{el}); done {
					return r, true
				}
			}
		case *ast.SwitchStmt:
			// switch { case failure: return err }: clauses that return an error are skipped
			if x.Init != nil {
				ci.block(env, []ast.Stmt{x.Init})
			}
			for _, cl := range x.Body.List {
				cc := cl.(*ast.CaseClause)
				if returnsError(info, cc.Body) {
					continue
				}
				if r, done := ci.block(env, cc.Body); done {
					return r, true
				}
			}
		case *ast.AssignStmt:
			ci.assign(env, x)
		case *ast.DeclStmt:
			gd, ok := x.Decl.(*ast.GenDecl)
			if !ok || gd.Tok != token.VAR {
				continue
			}
			for _, sp := range gd.Specs {
				vs := sp.(*ast.ValueSpec)
				if len(vs.Values) == 1 && len(vs.Names) > 1 {
					v := ci.eval(env, vs.Values[0])
					for i, nm := range vs.Names {
						if v != nil && v.kind == "tuple" && i < len(v.elems) {
							env.vars[info.Defs[nm]] = v.elems[i]
						}
					}
					continue
				}
				for i, nm := range vs.Names {
					o := info.Defs[nm]
					if o == nil {
						continue
					}
					if i < len(vs.Values) {
						env.vars[o] = ci.eval(env, vs.Values[i])
					} else {
						env.vars[o] = ci.zeroOf(o.Type())
					}
				}
			}
		case *ast.ExprStmt:
			ci.eval(env, x.X)
		case *ast.BlockStmt:
			if r, done := ci.block(env, x.List); done {
				return r, true
			}
		case *ast.IncDecStmt:
			if o := objOf(info, x.X); o != nil {
				if v := env.vars[o]; v != nil && v.kind == "int" {
					d := int64(1)
					if x.Tok == token.DEC {
						d = -1
					}
					env.vars[o] = &cval{kind: "int", n: v.n.add(sym{c: d})}
				}
			}
		case *ast.EmptyStmt:
		case *ast.RangeStmt:
			// a loop over a fixed array (the two ids in record order): unrolled
			coll := ci.eval(env, x.X)
			if coll == nil || coll.kind != "array" {
				ci.fail(s, "loop over something that is not a fixed array")
				return nil, true
			}
			for i, el := range coll.elems {
				if x.Key != nil {
					if o := objOf(info, x.Key); o != nil {
						env.vars[o] = &cval{kind: "int", n: sym{c: int64(i)}}
					}
				}
				if x.Value != nil {
					if o := objOf(info, x.Value); o != nil {
						env.vars[o] = el
					}
				}
				if r, done := ci.block(env, x.Body.List); done {
					return r, true
				}
			}
		case *ast.ForStmt:
			// for i := 0; i < N; i++ with constant N: unrolled
			n, iv, ok := ci.countedLoop(env, x)
			if !ok {
				ci.fail(s, "loop that is not a counted loop over a constant")
				return nil, true
			}
			for i := int64(0); i < n; i++ {
				env.vars[iv] = &cval{kind: "int", n: sym{c: i}}
				if r, done := ci.block(env, x.Body.List); done {
					return r, true
				}
			}
		default:
			ci.fail(s, fmt.Sprintf("statement %T is outside the codec vocabulary", s))
			return nil, true
		}
	}
	return nil, false
}

func (ci *codecInterp) assign(env *cenv, as *ast.AssignStmt) {
	info := env.fi.Pkg.TypesInfo
	var vals []*cval
	if len(as.Rhs) == 1 && len(as.Lhs) > 1 {
		v := ci.eval(env, as.Rhs[0])
		if v != nil && v.kind == "tuple" {
			vals = v.elems
		}
		for len(vals) < len(as.Lhs) {
			vals = append(vals, &cval{kind: "unknown"})
		}
	} else {
		for _, rhs := range as.Rhs {
			vals = append(vals, ci.eval(env, rhs))
		}
	}
	for i, l := range as.Lhs {
		v := vals[i]
		if v == nil {
			v = &cval{kind: "unknown"}
		}
		switch lx := ast.Unparen(l).(type) {
		case *ast.Ident:
			if lx.Name == "_" {
				continue
			}
			if as.Tok == token.ADD_ASSIGN {
				if o := objOf(info, lx); o != nil {
					if old := env.vars[o]; old != nil && old.kind == "int" && v.kind == "int" {
						env.vars[o] = &cval{kind: "int", n: old.n.add(v.n)}
						continue
					}
				}
			}
			if o := objOf(info, lx); o != nil {
				env.vars[o] = v
			}
		case *ast.SelectorExpr:
			// decoder: f.Field = value
			base := ci.eval(env, lx.X)
			if base != nil && base.kind == "struct" {
				base.fields[lx.Sel.Name] = v
				continue
			}
			if base != nil && base.kind == "file" && ci.side == "reader" {
				if v.kind == "val" && v.read {
					ci.row(lx.Sel.Name, v.rlo, v.rhi, v.enc, as)
				} else {
					ci.rows[lx.Sel.Name] = layoutRow{Field: lx.Sel.Name, Enc: "unrecognised", Pos: ci.p.pos(as)}
				}
			}
		case *ast.StarExpr:
			base := ci.eval(env, lx.X)
			if base != nil && base.kind == "file" && v.kind == "file" {
				continue
			}
			ci.fail(as, "assignment through a pointer")
		case *ast.IndexExpr:
			base, ix := ci.eval(env, lx.X), ci.eval(env, lx.Index)
			if base != nil && base.kind == "array" && ix != nil && ix.kind == "int" && ix.n.isConst() && ix.n.c >= 0 && ix.n.c < int64(len(base.elems)) {
				base.elems[ix.n.c] = v
				continue
			}
			ci.fail(as, "element-wise write into the record")
		default:
			ci.fail(as, "assignment target")
		}
	}
}

// write records that nb bytes of src were stored at offset at.
func (ci *codecInterp) write(at sym, src *cval, n ast.Node) sym {
	if ci.side != "writer" {
		ci.fail(n, "the decoder writes into the record")
		return sym{}
	}
	if src == nil || src.kind != "val" || src.field == "" {
		ci.fail(n, "bytes of unknown origin are written into the record")
		return sym{}
	}
	nb := src.nbytes
	enc := "raw"
	switch src.form {
	case "uuid":
		enc = "uuid-bytes"
	case "u64":
		enc = src.enc
	}
	hi := at.add(nb)
	ci.row(src.field, at, hi, enc, n)
	return nb
}

func (ci *codecInterp) eval(env *cenv, e ast.Expr) *cval {
	info := env.fi.Pkg.TypesInfo
	if ci.failed != "" {
		return &cval{kind: "unknown"}
	}
	e = ast.Unparen(e)
	if v, ok := constInt(info, e); ok {
		return &cval{kind: "int", n: sym{c: v}}
	}
	switch x := e.(type) {
	case *ast.Ident:
		if isNilIdent(info, x) {
			return &cval{kind: "nil"}
		}
		if o := objOf(info, x); o != nil {
			if v, ok := env.vars[o]; ok {
				return v
			}
		}
		return &cval{kind: "unknown"}
	case *ast.SelectorExpr:
		base := ci.eval(env, x.X)
		if base != nil && base.kind == "file" {
			v := &cval{kind: "val", field: x.Sel.Name}
			if tv, ok := info.Types[x]; ok {
				if bt, ok := tv.Type.Underlying().(*types.Basic); ok {
					switch {
					case bt.Info()&types.IsString != 0:
						v.form = "str"
						if x.Sel.Name == "Key" {
							v.nbytes = sym{k: 1}
						}
					case bt.Info()&types.IsInteger != 0:
						v.form = "u64"
					}
				}
			}
			return v
		}
		if base != nil && base.kind == "struct" {
			if v, ok := base.fields[x.Sel.Name]; ok {
				return v
			}
		}
		return &cval{kind: "unknown"}
	case *ast.StarExpr:
		return ci.eval(env, x.X)
	case *ast.UnaryExpr:
		if x.Op == token.AND {
			return ci.eval(env, x.X)
		}
		ci.eval(env, x.X)
		return &cval{kind: "unknown"}
	case *ast.BinaryExpr:
		a, b := ci.eval(env, x.X), ci.eval(env, x.Y)
		if a != nil && b != nil && a.kind == "int" && b.kind == "int" {
			switch x.Op {
			case token.ADD:
				return &cval{kind: "int", n: a.n.add(b.n)}
			case token.SUB:
				return &cval{kind: "int", n: a.n.sub(b.n)}
			case token.MUL:
				if a.n.isConst() {
					return &cval{kind: "int", n: sym{a.n.c * b.n.c, a.n.c * b.n.l, a.n.c * b.n.k}}
				}
				if b.n.isConst() {
					return &cval{kind: "int", n: sym{a.n.c * b.n.c, b.n.c * a.n.l, b.n.c * a.n.k}}
				}
			}
		}
		return &cval{kind: "unknown"}
	case *ast.SliceExpr:
		base := ci.eval(env, x.X)
		if base == nil {
			return &cval{kind: "unknown"}
		}
		switch base.kind {
		case "buf":
			lo, hi := base.lo, base.hi
			if x.Low != nil {
				v := ci.eval(env, x.Low)
				if v.kind != "int" {
					ci.fail(x, "slice bound that is not an integer expression over constants and lengths")
					return &cval{kind: "unknown"}
				}
				lo = base.lo.add(v.n)
			}
			if x.High != nil {
				v := ci.eval(env, x.High)
				if v.kind != "int" {
					ci.fail(x, "slice bound that is not an integer expression over constants and lengths")
					return &cval{kind: "unknown"}
				}
				hi = base.lo.add(v.n)
			}
			// the record must reach the upper bound (the lower one when the window runs to the end)
			if hi.isConst() {
				ci.access(hi, x)
			} else {
				ci.access(lo, x)
			}
			return &cval{kind: "buf", lo: lo, hi: hi}
		case "val":
			if x.Low == nil && x.High == nil {
				return base // id[:] : the bytes of the id
			}
			ci.fail(x, "part of a value is stored")
		}
		return &cval{kind: "unknown"}
	case *ast.IndexExpr:
		base, ix := ci.eval(env, x.X), ci.eval(env, x.Index)
		if base != nil && base.kind == "array" && ix != nil && ix.kind == "int" && ix.n.isConst() && ix.n.c >= 0 && ix.n.c < int64(len(base.elems)) {
			return base.elems[ix.n.c]
		}
		ci.fail(x, "element-wise access to the record")
		return &cval{kind: "unknown"}
	case *ast.CompositeLit:
		if tv, ok := info.Types[x]; ok {
			if at, ok := tv.Type.Underlying().(*types.Array); ok && !isByte(at.Elem()) && at.Len() <= 8 {
				// a small fixed array of values: [2]string{f.TxId, f.ContentId}
				arr := &cval{kind: "array"}
				for i := int64(0); i < at.Len(); i++ {
					arr.elems = append(arr.elems, ci.zeroOf(at.Elem()))
				}
				for i, el := range x.Elts {
					if kv, isKV := el.(*ast.KeyValueExpr); isKV {
						el = kv.Value
					}
					if i < len(arr.elems) {
						arr.elems[i] = ci.eval(env, el)
					}
				}
				return arr
			}
			if st, ok := tv.Type.Underlying().(*types.Struct); ok && !isFileType(tv.Type) {
				if nt, ok := tv.Type.(*types.Named); ok && nt.Obj().Pkg() == env.fi.Pkg.Types {
					sv := &cval{kind: "struct", fields: map[string]*cval{}}
					for i := 0; i < st.NumFields(); i++ {
						sv.fields[st.Field(i).Name()] = ci.zeroOf(st.Field(i).Type())
					}
					for i, el := range x.Elts {
						if kv, isKV := el.(*ast.KeyValueExpr); isKV {
							if id, ok := kv.Key.(*ast.Ident); ok {
								sv.fields[id.Name] = ci.eval(env, kv.Value)
							}
						} else if i < st.NumFields() {
							sv.fields[st.Field(i).Name()] = ci.eval(env, el)
						}
					}
					return sv
				}
			}
		}
		if tv, ok := info.Types[x]; ok {
			if at, ok := tv.Type.Underlying().(*types.Array); ok && isByte(at.Elem()) {
				return &cval{kind: "val", form: "uuid", nbytes: sym{c: at.Len()}}
			}
			if isFileType(tv.Type) {
				return &cval{kind: "file"}
			}
		}
		return &cval{kind: "unknown"}
	case *ast.CallExpr:
		return ci.call(env, x)
	case *ast.FuncLit:
		return &cval{kind: "closure", lit: x, litEnv: env}
	}
	return &cval{kind: "unknown"}
}

func (ci *codecInterp) call(env *cenv, c *ast.CallExpr) *cval {
	info := env.fi.Pkg.TypesInfo
	unknown := &cval{kind: "unknown"}
	// conversions
	if tv, ok := info.Types[c.Fun]; ok && tv.IsType() && len(c.Args) == 1 {
		a := ci.eval(env, c.Args[0])
		if a == nil {
			return unknown
		}
		t := tv.Type
		switch {
		case a.kind == "buf":
			w := a.hi.sub(a.lo)
			if at, ok := t.Underlying().(*types.Array); ok && isByte(at.Elem()) {
				// uuid.UUID(window): the window's bytes as an id
				ci.access(a.lo.add(sym{c: at.Len()}), c)
				if !w.isConst() || w.c != at.Len() {
					// the conversion takes exactly len(array) bytes (it panics on a shorter slice)
					return &cval{kind: "val", form: "uuid", read: true, rlo: a.lo, rhi: a.lo.add(sym{c: at.Len()}), enc: "uuid-bytes", nbytes: sym{c: at.Len()}}
				}
				return &cval{kind: "val", form: "uuid", read: true, rlo: a.lo, rhi: a.hi, enc: "uuid-bytes", nbytes: sym{c: at.Len()}}
			}
			if bt, ok := t.Underlying().(*types.Basic); ok && bt.Info()&types.IsString != 0 {
				return &cval{kind: "val", form: "str", read: true, rlo: a.lo, rhi: a.hi, enc: "raw"}
			}
			if isByteSlice(t) {
				return a
			}
		case a.kind == "val":
			// uint64(f.Seq), sequence.Seq(x), []byte(f.Key), string(id)
			cp := *a
			if isByteSlice(t) && a.form == "str" {
				cp.form = "bytes"
			}
			return &cp
		case a.kind == "int":
			return a
		}
		return unknown
	}
	// builtins
	if id, ok := c.Fun.(*ast.Ident); ok {
		if _, isB := info.Uses[id].(*types.Builtin); isB {
			switch id.Name {
			case "len", "cap":
				a := ci.eval(env, c.Args[0])
				switch {
				case a != nil && a.kind == "buf":
					return &cval{kind: "int", n: a.hi.sub(a.lo)}
				case a != nil && a.kind == "val" && (a.nbytes != sym{}):
					return &cval{kind: "int", n: a.nbytes}
				case a != nil && a.kind == "array":
					return &cval{kind: "int", n: sym{c: int64(len(a.elems))}}
				}
				return unknown
			case "copy":
				dst, src := ci.eval(env, c.Args[0]), ci.eval(env, c.Args[1])
				switch {
				case dst != nil && dst.kind == "buf" && src != nil && src.kind == "val":
					// copy stores min(len(dst), len(src)) bytes
					cp := *src
					if w := dst.hi.sub(dst.lo); w.isConst() && (!cp.nbytes.isConst() || w.c < cp.nbytes.c) {
						cp.nbytes = w
					}
					n := ci.write(dst.lo, &cp, c)
					return &cval{kind: "int", n: n}
				case dst != nil && dst.kind == "val" && src != nil && src.kind == "buf":
					// decoder: copy(id[:], window): the id now holds the window's bytes
					nb := dst.nbytes
					dst.read, dst.rlo, dst.rhi, dst.enc = true, src.lo, src.lo.add(nb), "uuid-bytes"
					if w := src.hi.sub(src.lo); w.isConst() && w.c < nb.c {
						dst.rhi = src.hi
					}
					return &cval{kind: "int", n: nb}
				}
				ci.fail(c, "copy between values the codec vocabulary does not cover")
				return unknown
			case "append":
				base := ci.eval(env, c.Args[0])
				if base == nil || base.kind != "buf" {
					ci.fail(c, "append to something that is not a window of the record")
					return unknown
				}
				at := base.hi
				for _, a := range c.Args[1:] {
					src := ci.eval(env, a)
					if src == nil || src.kind != "val" || c.Ellipsis == token.NoPos {
						ci.fail(c, "append of single bytes or of bytes of unknown origin")
						return unknown
					}
					at = at.add(ci.write(at, src, c))
				}
				return &cval{kind: "buf", lo: base.lo, hi: at}
			case "make", "new":
				return unknown
			case "min", "max":
				for _, a := range c.Args {
					ci.eval(env, a)
				}
				return unknown
			}
			return unknown
		}
	}
	// encoding/binary
	if order, m := byteOrderOf(info, c); order != "" {
		enc := "uint64-" + order
		switch {
		case order == "pkgfunc":
			ci.otherBinary(env, c, m)
			return unknown
		case m == "PutUint64" && len(c.Args) == 2 && order == "little-endian":
			dst, v := ci.eval(env, c.Args[0]), ci.eval(env, c.Args[1])
			if dst == nil || dst.kind != "buf" || v == nil || v.kind != "val" {
				ci.fail(c, "PutUint64 outside the record or of a value of unknown origin")
				return unknown
			}
			cp := *v
			cp.form, cp.enc, cp.nbytes = "u64", enc, sym{c: 8}
			ci.write(dst.lo, &cp, c)
			return unknown
		case m == "AppendUint64" && len(c.Args) == 2 && order == "little-endian":
			dst, v := ci.eval(env, c.Args[0]), ci.eval(env, c.Args[1])
			if dst == nil || dst.kind != "buf" || v == nil || v.kind != "val" {
				ci.fail(c, "AppendUint64 outside the record or of a value of unknown origin")
				return unknown
			}
			cp := *v
			cp.form, cp.enc, cp.nbytes = "u64", enc, sym{c: 8}
			ci.write(dst.hi, &cp, c)
			return &cval{kind: "buf", lo: dst.lo, hi: dst.hi.add(sym{c: 8})}
		case m == "Uint64" && len(c.Args) == 1 && order == "little-endian":
			src := ci.eval(env, c.Args[0])
			if src == nil || src.kind != "buf" {
				ci.fail(c, "Uint64 of something that is not a window of the record")
				return unknown
			}
			ci.access(src.lo.add(sym{c: 8}), c)
			return &cval{kind: "val", form: "u64", read: true, rlo: src.lo, rhi: src.lo.add(sym{c: 8}), enc: enc}
		case strings.HasPrefix(m, "Uint") && len(c.Args) == 1:
			// another width or byte order on the decoder side: the row says so
			if src := ci.eval(env, c.Args[0]); src != nil && src.kind == "buf" {
				return &cval{kind: "val", form: "u64", read: true, rlo: src.lo, rhi: src.hi, enc: "other-binary:" + order + "." + m}
			}
			ci.otherBinary(env, c, order+"."+m)
			return unknown
		default:
			ci.otherBinary(env, c, order+"."+m)
			return unknown
		}
	}
	// github.com/google/uuid
	if fn, ok := typeutilCallee(info, c); ok && fn.Pkg() != nil && strings.HasSuffix(fn.Pkg().Path(), "google/uuid") {
		sig := fn.Type().(*types.Signature)
		switch {
		case (fn.Name() == "Parse" || fn.Name() == "MustParse" || fn.Name() == "ParseBytes") && len(c.Args) == 1:
			a := ci.eval(env, c.Args[0])
			v := &cval{kind: "val", form: "uuid", nbytes: sym{c: 16}}
			if a != nil && a.kind == "val" {
				v.field = a.field
			}
			if sig.Results().Len() == 2 {
				return &cval{kind: "tuple", elems: []*cval{v, {kind: "nil"}}}
			}
			return v
		case fn.Name() == "FromBytes" && len(c.Args) == 1:
			a := ci.eval(env, c.Args[0])
			if a == nil || a.kind != "buf" {
				ci.fail(c, "uuid.FromBytes of something that is not a window of the record")
				return unknown
			}
			v := &cval{kind: "val", form: "uuid", read: true, rlo: a.lo, rhi: a.hi, enc: "uuid-bytes", nbytes: sym{c: 16}}
			return &cval{kind: "tuple", elems: []*cval{v, {kind: "nil"}}}
		case fn.Name() == "String" && sig.Recv() != nil:
			if sel, ok := ast.Unparen(c.Fun).(*ast.SelectorExpr); ok {
				a := ci.eval(env, sel.X)
				if a != nil && a.kind == "val" {
					cp := *a
					return &cp
				}
			}
			return unknown
		}
		return unknown
	}
	// a local closure (a cursor): its body runs in the environment it was made in
	if id, ok := ast.Unparen(c.Fun).(*ast.Ident); ok {
		if o := objOf(info, id); o != nil {
			if cv := env.vars[o]; cv != nil && cv.kind == "closure" {
				if ci.depth >= 4 {
					ci.fail(c, "closure nesting")
					return unknown
				}
				le := cv.litEnv
				i := 0
				for _, fld := range cv.lit.Type.Params.List {
					for _, nm := range fld.Names {
						if i < len(c.Args) {
							le.vars[le.fi.Pkg.TypesInfo.Defs[nm]] = ci.eval(env, c.Args[i])
						}
						i++
					}
				}
				ci.depth++
				res, _ := ci.block(le, cv.lit.Body.List)
				ci.depth--
				switch len(res) {
				case 0:
					return unknown
				case 1:
					return res[0]
				}
				return &cval{kind: "tuple", elems: res}
			}
		}
	}
	// a helper of the package: spliced in
	if callee := ci.p.staticCallee(env.fi.Pkg, c); callee != nil && callee.Pkg == env.fi.Pkg {
		if ci.depth >= 4 {
			ci.fail(c, "helper nesting")
			return unknown
		}
		cenv2 := &cenv{vars: map[types.Object]*cval{}, fi: callee}
		args := argExprs(c, callee)
		for i, po := range paramObjs(callee) {
			if po != nil && args[i] != nil {
				// (the receiver of a cursor method is the cursor itself: its fields are shared)
				cenv2.vars[po] = ci.eval(env, args[i])
			}
		}
		// named results start unknown
		ci.depth++
		res, done := ci.block(cenv2, callee.Decl.Body.List)
		ci.depth--
		if !done || len(res) == 0 {
			// bare return of named results
			if callee.Decl.Type.Results != nil {
				var named []*cval
				for _, fld := range callee.Decl.Type.Results.List {
					for _, nm := range fld.Names {
						if v := cenv2.vars[callee.Pkg.TypesInfo.Defs[nm]]; v != nil {
							named = append(named, v)
						} else {
							named = append(named, unknown)
						}
					}
				}
				res = named
			}
		}
		switch len(res) {
		case 0:
			return unknown
		case 1:
			return res[0]
		}
		return &cval{kind: "tuple", elems: res}
	}
	// anything else: arguments evaluated for their effects, result unknown
	for _, a := range c.Args {
		ci.eval(env, a)
	}
	return unknown
}

// otherBinary: an encoding/binary routine that is not the fixed little-endian 64-bit form.
func (ci *codecInterp) otherBinary(env *cenv, c *ast.CallExpr, name string) {
	field := ""
	for _, a := range c.Args {
		if v := ci.eval(env, a); v != nil && v.kind == "val" && v.field != "" {
			field = v.field
		}
	}
	if field == "" {
		field = "?"
	}
	ci.rows[field] = layoutRow{Field: field, Enc: "other-binary:" + name, Pos: ci.p.pos(c)}
}

// zeroOf: the abstract zero value of a local of type t.
func (ci *codecInterp) zeroOf(t types.Type) *cval {
	switch u := t.Underlying().(type) {
	case *types.Array:
		if isByte(u.Elem()) {
			return &cval{kind: "val", form: "uuid", nbytes: sym{c: u.Len()}}
		}
		if u.Len() <= 8 {
			arr := &cval{kind: "array"}
			for i := int64(0); i < u.Len(); i++ {
				arr.elems = append(arr.elems, ci.zeroOf(u.Elem()))
			}
			return arr
		}
	case *types.Basic:
		if u.Info()&types.IsInteger != 0 {
			return &cval{kind: "int"}
		}
	}
	return &cval{kind: "unknown"}
}

// countedLoop recognises `for i := 0; i < N; i++` with a constant N (a constant, or the length of a fixed array).
func (ci *codecInterp) countedLoop(env *cenv, fs *ast.ForStmt) (int64, types.Object, bool) {
	info := env.fi.Pkg.TypesInfo
	init, ok := fs.Init.(*ast.AssignStmt)
	if !ok || len(init.Lhs) != 1 || len(init.Rhs) != 1 {
		return 0, nil, false
	}
	iv := objOf(info, init.Lhs[0])
	if z, ok := constInt(info, init.Rhs[0]); !ok || z != 0 || iv == nil {
		return 0, nil, false
	}
	cond, ok := ast.Unparen(fs.Cond).(*ast.BinaryExpr)
	if !ok || cond.Op != token.LSS || objOf(info, cond.X) != iv {
		return 0, nil, false
	}
	inc, ok := fs.Post.(*ast.IncDecStmt)
	if !ok || inc.Tok != token.INC || objOf(info, inc.X) != iv {
		return 0, nil, false
	}
	n := ci.eval(env, cond.Y)
	if n == nil || n.kind != "int" || !n.n.isConst() || n.n.c < 0 || n.n.c > 8 {
		return 0, nil, false
	}
	return n.n.c, iv, true
}
