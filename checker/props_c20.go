package main

// C20 Configuration: defaults < file < environment, with validation.

import (
	"fmt"
	"go/ast"
	"go/constant"
	"go/token"
	"go/types"
	"golang.org/x/tools/go/types/typeutil"
	"reflect"
	"regexp"
	"sort"
	"strings"
	"time"
)

func init() { register("C20", propC20) }

const (
	kParseConfig = "config.ParseConfig"
	kCfgParseEnv = "(*config.Config).ParseEnv"
	kValid       = "(*config.Storage).Valid"
)

type cfgLeaf struct {
	Path    string `json:"path"` // Storage.DbPath
	Type    string `json:"type"`
	Yaml    string `json:"yaml"`
	DocEnv  string `json:"doc_env"`
	DocDef  string `json:"doc_default"`
	Env     string `json:"env"`
	Default string `json:"default"`
	Parser  string `json:"parser,omitempty"`
	field   *types.Var
	owner   *types.Named
}

func propC20(p *Prog, r *Report) {
	r.Rule("C20.a", "precedence order in ParseConfig: the returned value starts as a copy of defaultConfig; the YAML Decode targets that value and its error is returned unless io.EOF; ParseEnv is applied to the same value after Decode on every success path and its error is returned")
	r.Rule("C20.b", "per-setting table: every leaf field of Config (enumerated from the types) has a yaml tag, a default in the defaultConfig literal, and an environment clause os.LookupEnv(<const>) (or os.Getenv) whose guard is true exactly when the variable is present and non-empty (truth table over present x empty), that assigns this field from the looked-up text; parse errors are bound and returned (an error is reported, never replaced silently); names and defaults agree with the Env:/Default: lines of the field's doc comment; every ParseEnv method with clauses is reached from Config.ParseEnv with its error propagated")
	r.Rule("C20.c", "validation table: Valid evaluated over DbPath in {\"\",x} x len(RootDirs) in {0,1} x MaxDirCount in {0,99,100,101}: ErrEmptyDbPath iff DbPath empty, ErrEmptyRootDirs iff roots empty, nil otherwise with MaxDirCount = max(old,100); nothing else is assigned")
	r.NotDecided = []string{"yaml.v2 decoding semantics (absent keys keep the pre-filled value) are trusted", "strconv/time parsing behaviour is trusted"}
	r.Assume = []string{"gopkg.in/yaml.v2 Decoder.Decode only overwrites keys present in the document", "os.LookupEnv as documented"}

	cfgPkg := p.Pkg("config")
	if cfgPkg == nil {
		r.Undecided("C20.a", "config", "", "package config not found")
		return
	}
	c20Precedence(p, r)
	c20Table(p, r)
	c20Valid(p, r)
	r.Rule("C20.d", "the defaults are never written through: no slice or map setting is modified in place (ParseConfig works on a copy that shares their storage)")
	c20DefaultsNotWrittenThrough(p, r, "C20.d")
}

func c20Precedence(p *Prog, r *Report) {
	fi := p.Func(kParseConfig)
	if fi == nil {
		r.Undecided("C20.a", kParseConfig, "", "ParseConfig not found")
		return
	}
	info := fi.Pkg.TypesInfo
	f := p.FlatInlExcept(fi, kCfgParseEnv, kValid) // the decode may sit in a helper that owns the file
	sig := fi.Obj.Type().(*types.Signature)
	// success returns and the variable they return
	var succ []int
	var conf types.Object
	for _, id := range f.ReturnNodes() {
		if isRet, nilErr := f.returnsNilError(id, sig); isRet && nilErr {
			succ = append(succ, id)
			if rs := f.returnStmt(id); rs != nil && len(rs.Results) == 2 {
				if o := objOf(info, rs.Results[0]); o != nil {
					if conf != nil && conf != o {
						r.Undecided("C20.a", kParseConfig, p.pos(rs), "success returns yield different variables")
						return
					}
					conf = o
				}
			}
		}
	}
	if conf == nil || len(succ) == 0 {
		r.Undecided("C20.a", kParseConfig, p.pos(fi.Decl), "no success return of a configuration variable found")
		return
	}
	// (1) initialised from defaultConfig
	defObj, _ := c20DefaultVar(p)
	// the lineage of the returned value: variables whose whole value is copied into it (fromFile -> base through
	// the parameter of a helper, conf := fromFile): the configuration travels by value through them
	lineage := map[types.Object]bool{conf: true}
	type copyEdge struct {
		node     int
		dst, src types.Object
	}
	var copies []copyEdge
	for changed := true; changed; {
		changed = false
		for _, n := range f.Nodes {
			as, ok := n.Ast.(*ast.AssignStmt)
			if !ok || len(as.Lhs) != len(as.Rhs) {
				continue
			}
			for i, l := range as.Lhs {
				lo, ro := objOf(info, l), objOf(info, as.Rhs[i])
				if lo == nil || ro == nil || !lineage[lo] || ro == defObj || lo == ro {
					continue
				}
				if rv, isVar := ro.(*types.Var); !isVar || rv.IsField() || !types.Identical(rv.Type(), lo.Type()) {
					continue
				}
				if !lineage[ro] {
					lineage[ro] = true
					changed = true
				}
			}
		}
	}
	for _, n := range f.Nodes {
		if as, ok := n.Ast.(*ast.AssignStmt); ok && len(as.Lhs) == len(as.Rhs) {
			for i, l := range as.Lhs {
				lo, ro := objOf(info, l), objOf(info, as.Rhs[i])
				if lo != nil && ro != nil && lo != ro && lineage[lo] && lineage[ro] {
					copies = append(copies, copyEdge{n.ID, lo, ro})
				}
			}
		}
	}
	var inits []int
	for _, n := range f.Nodes {
		if n.Ast == nil {
			continue
		}
		for _, o := range assignedObjs(info, n.Ast) {
			if !lineage[o] {
				continue
			}
			ok := false
			switch s := n.Ast.(type) {
			case *ast.AssignStmt:
				if len(s.Rhs) == 1 && objOf(info, s.Rhs[0]) == defObj && defObj != nil {
					ok = true
				}
				// a copy inside the lineage, or a parallel binding that hands defaultConfig to a helper
				if len(s.Lhs) == len(s.Rhs) {
					for i, l := range s.Lhs {
						if objOf(info, l) != o {
							continue
						}
						if ro := objOf(info, s.Rhs[i]); ro != nil && (ro == defObj || lineage[ro]) {
							ok = true
							if ro != defObj {
								ok = true
								goto copied
							}
						}
					}
				}
			case *ast.DeclStmt:
				ast.Inspect(s, func(x ast.Node) bool {
					if vs, isVS := x.(*ast.ValueSpec); isVS && len(vs.Values) == 1 && objOf(info, vs.Values[0]) == defObj && defObj != nil {
						ok = true
					}
					return true
				})
			case *ast.ValueSpec:
				// (one spec of a grouped declaration: var ( conf = defaultConfig; none Config ))
				for i, nm := range s.Names {
					if info.Defs[nm] == o && i < len(s.Values) && len(s.Values) == len(s.Names) && objOf(info, s.Values[i]) == defObj && defObj != nil {
						ok = true
					}
				}
			}
			if ok {
				inits = append(inits, n.ID)
			} else {
				r.Viol("C20.a", kParseConfig+"#defaults", p.pos(n.Ast), "the returned configuration is (re)assigned from something other than defaultConfig: settings absent from file and environment lose their documented default")
			}
			continue
		copied:
			// a copy of another member of the lineage is not an initialisation: the source carries the defaults
		}
	}
	c20CustomUnmarshallers(p, r, fi)
	decodeKeys := []string{"(*gopkg.in/yaml.v2.Decoder).Decode", "gopkg.in/yaml.v2.Unmarshal", "gopkg.in/yaml.v2.UnmarshalStrict"}
	dec := f.CallSites(decodeKeys...)
	env := f.CallSites(kCfgParseEnv)
	if len(dec) == 0 || len(env) == 0 {
		r.Viol("C20.a", kParseConfig+"#stages", p.pos(fi.Decl), fmt.Sprintf("ParseConfig has %d YAML decode and %d ParseEnv stages; both are required", len(dec), len(env)))
		return
	}
	initSet := setOf(inits)
	okInit := len(inits) > 0
	for _, d := range dec {
		if !f.MustPrecede(initSet, d.Node) {
			okInit = false
		}
	}
	for _, e := range env {
		if !f.MustPrecede(initSet, e.Node) {
			okInit = false
		}
	}
	r.Check(okInit, "C20.a", kParseConfig+"#defaults", p.pos(fi.Decl), "copy of defaultConfig precedes Decode and ParseEnv", "Decode or ParseEnv can run before the value is initialised from defaultConfig")
	// (2) targets
	for _, d := range dec {
		ok := false
		for _, a := range d.Call.Args {
			if u, isU := ast.Unparen(a).(*ast.UnaryExpr); isU && u.Op == token.AND && lineage[objOf(info, u.X)] {
				ok = true
				// decoded before the value is copied on: a Decode after the copy would be lost
				for _, ce := range copies {
					if ce.src == objOf(info, u.X) && f.ReachableAfter(ce.node, map[int]bool{d.Node: true}, nil) {
						ok = false
					}
				}
			}
			// inside a helper that was handed &conf: the pointer parameter names the same storage
			if conf != nil && f.CanonPath(a) == objID(conf) {
				if tv, isT := info.Types[a]; isT {
					if _, isPtr := tv.Type.Underlying().(*types.Pointer); isPtr {
						ok = true
					}
				}
			}
		}
		r.Check(ok, "C20.a", kParseConfig+"#decode-target", p.pos(d.Call), "Decode(&conf) targets the returned value", "the YAML document is decoded into a different value than the one returned")
	}
	for _, e := range env {
		ok := false
		if sel, isSel := e.Call.Fun.(*ast.SelectorExpr); isSel && lineage[objOf(info, sel.X)] {
			ok = true
			// applied before the value is copied on
			for _, ce := range copies {
				if ce.src == objOf(info, sel.X) && f.ReachableAfter(ce.node, map[int]bool{e.Node: true}, nil) {
					ok = false
				}
			}
		}
		r.Check(ok, "C20.a", kParseConfig+"#env-target", p.pos(e.Call), "ParseEnv applied to the returned value", "ParseEnv is applied to a different value than the one returned")
	}
	// (3) order: ParseEnv after Decode, on every success path
	envSet := map[int]bool{}
	for _, e := range env {
		envSet[e.Node] = true
	}
	decSet := map[int]bool{}
	for _, d := range dec {
		decSet[d.Node] = true
	}
	order := true
	for _, e := range env {
		if f.ReachableAfter(e.Node, decSet, nil) {
			order = false
		}
	}
	r.Check(order, "C20.a", kParseConfig+"#order", p.pos(env[0].Call), "no Decode is reachable after ParseEnv", "the file is decoded after the environment was applied: file values override environment values")
	all := true
	for _, s := range succ {
		if !f.MustPrecede(envSet, s) {
			all = false
		}
	}
	r.Check(all, "C20.a", kParseConfig+"#env-on-every-path", p.pos(fi.Decl), "every success return passes ParseEnv", "a success return is reachable without ParseEnv: environment variables are ignored on that path")
	// a Decode must be reachable when a file is given: it must not be dominated by a constant-false guard; we require it to be live
	// (4) errors
	for _, d := range dec {
		f.SiteConsumed(r, "C20.a", kParseConfig+"#decode-error", fi, d, flowOpts{Tolerated: []string{"is:io.EOF"}})
	}
	for _, e := range env {
		f.SiteConsumed(r, "C20.a", kParseConfig+"#env-error", fi, e, flowOpts{})
	}
}

var reDocEnv = regexp.MustCompile(`(?m)^\s*Env:\s*(\S+)`)
var reDocDef = regexp.MustCompile(`(?m)^\s*Default:\s*(.+?)\s*$`)

func c20Leaves(p *Prog, r *Report) []*cfgLeaf {
	pkg := p.Pkg("config")
	cfgT, _ := pkg.Types.Scope().Lookup("Config").(*types.TypeName)
	if cfgT == nil {
		return nil
	}
	// doc comments by field object
	docs := map[types.Object]string{}
	for _, file := range pkg.Syntax {
		ast.Inspect(file, func(x ast.Node) bool {
			if st, ok := x.(*ast.StructType); ok {
				for _, fld := range st.Fields.List {
					for _, nm := range fld.Names {
						if fld.Doc != nil {
							docs[pkg.TypesInfo.Defs[nm]] = fld.Doc.Text()
						}
					}
				}
			}
			return true
		})
	}
	var leaves []*cfgLeaf
	var walk func(t *types.Named, prefix string)
	walk = func(t *types.Named, prefix string) {
		st, ok := t.Underlying().(*types.Struct)
		if !ok {
			return
		}
		for i := 0; i < st.NumFields(); i++ {
			fv := st.Field(i)
			if nt, ok := fv.Type().(*types.Named); ok && nt.Obj().Pkg() == pkg.Types {
				if _, isStruct := nt.Underlying().(*types.Struct); isStruct {
					walk(nt, prefix+fv.Name()+".")
					continue
				}
			}
			l := &cfgLeaf{Path: prefix + fv.Name(), Type: shorten(fv.Type().String()), field: fv, owner: t}
			l.Yaml = reflect.StructTag(st.Tag(i)).Get("yaml")
			doc := docs[fv]
			if m := reDocEnv.FindStringSubmatch(doc); m != nil {
				l.DocEnv = m[1]
			}
			if m := reDocDef.FindStringSubmatch(doc); m != nil {
				l.DocDef = m[1]
			}
			leaves = append(leaves, l)
		}
	}
	walk(cfgT.Type().(*types.Named), "")
	return leaves
}

// normDefault renders a default expression for comparison with the doc comment.
func normDefault(info *types.Info, e ast.Expr, t types.Type) string {
	if tv, ok := info.Types[e]; ok && tv.Value != nil {
		if strings.HasSuffix(t.String(), "time.Duration") {
			if v, ok := constant.Int64Val(tv.Value); ok {
				return "dur:" + time.Duration(v).String()
			}
		}
		if tv.Value.Kind() == constant.String {
			return constant.StringVal(tv.Value)
		}
		return tv.Value.ExactString()
	}
	if cl, ok := e.(*ast.CompositeLit); ok {
		var parts []string
		for _, el := range cl.Elts {
			if s, ok := constStr(info, el); ok {
				parts = append(parts, s)
			} else {
				parts = append(parts, types.ExprString(el))
			}
		}
		return "[" + strings.Join(parts, ",") + "]"
	}
	return types.ExprString(e)
}

func normDocDefault(s string, t types.Type) string {
	s = strings.TrimSpace(s)
	if strings.HasSuffix(t.String(), "time.Duration") {
		if d, err := time.ParseDuration(s); err == nil {
			return "dur:" + d.String()
		}
	}
	if strings.HasPrefix(s, "[") {
		s = strings.Trim(s, "[]")
		var parts []string
		for _, x := range strings.Split(s, ",") {
			parts = append(parts, strings.Trim(strings.TrimSpace(x), `"`))
		}
		return "[" + strings.Join(parts, ",") + "]"
	}
	if regexp.MustCompile(`^[0-9_]+$`).MatchString(s) {
		return strings.ReplaceAll(s, "_", "")
	}
	return strings.Trim(s, `"`)
}

type envClause struct {
	fn     *FuncInfo
	ifs    *ast.IfStmt
	envVar string // value of the constant
	envObj types.Object
	okObj  types.Object
	fields map[*types.Var]ast.Node // fields assigned in the body
	helper *FuncInfo               // package helper wrapping the lookup (nil: os.LookupEnv / os.Getenv directly)
	errObj types.Object            // helper that also parses: (value, ok, err) -- the error variable of the clause
	setter *ast.CallExpr           // h(NAME, &recv.Field): the helper looks the variable up, parses it and stores through the pointer
	stmt   ast.Stmt                // the statement holding the setter call
	pre    *ast.AssignStmt         // v, ok := os.LookupEnv(NAME) as a statement of its own, right before the if that tests it
}

// at is the syntax the clause is reported at.
func (cl *envClause) at() ast.Node {
	if cl.setter != nil {
		return cl.setter
	}
	return cl.ifs
}

func c20Table(p *Prog, r *Report) {
	pkg := p.Pkg("config")
	info := pkg.TypesInfo
	leaves := c20Leaves(p, r)
	r.Floor("C20.b", "config-leaf-settings", len(leaves), 7)
	// defaults from the defaultConfig literal
	_, defLit := c20DefaultVar(p)
	defaults := map[string]ast.Expr{}
	var collect func(cl *ast.CompositeLit, prefix string)
	collect = func(cl *ast.CompositeLit, prefix string) {
		for _, el := range cl.Elts {
			kv, ok := el.(*ast.KeyValueExpr)
			if !ok {
				continue
			}
			id, ok := kv.Key.(*ast.Ident)
			if !ok {
				continue
			}
			if sub, ok := kv.Value.(*ast.CompositeLit); ok {
				if tv, ok := info.Types[sub]; ok {
					if _, isStruct := tv.Type.Underlying().(*types.Struct); isStruct {
						collect(sub, prefix+id.Name+".")
						continue
					}
				}
			}
			// a section given by a package variable of its own: Storage: baseStorage
			if vid, ok := ast.Unparen(kv.Value).(*ast.Ident); ok {
				if v, ok := info.Uses[vid].(*types.Var); ok && v.Pkg() != nil && v.Parent() == v.Pkg().Scope() {
					if init, _ := p.pkgVarInit(v); init != nil {
						if sub, ok := ast.Unparen(init).(*ast.CompositeLit); ok {
							if _, isStruct := v.Type().Underlying().(*types.Struct); isStruct {
								collect(sub, prefix+id.Name+".")
								continue
							}
						}
					}
				}
			}
			defaults[prefix+id.Name] = kv.Value
		}
	}
	if defLit != nil {
		collect(defLit, "")
	} else {
		r.Undecided("C20.b", "defaultConfig", "", "defaultConfig literal not found")
	}
	// environment clauses
	var clauses []*envClause
	var pendingLookups []func()
	var envFuncs []*FuncInfo
	for _, fi := range p.Funcs {
		if fi.Pkg != pkg || fi.Decl.Body == nil {
			continue
		}
		envFuncs = append(envFuncs, fi)
	}
	sort.Slice(envFuncs, func(i, j int) bool { return envFuncs[i].Key < envFuncs[j].Key })
	clauseFns := map[string]bool{}
	for _, fi := range envFuncs {
		ast.Inspect(fi.Decl.Body, func(x ast.Node) bool {
			ifs, ok := x.(*ast.IfStmt)
			if !ok || ifs.Init == nil {
				return true
			}
			as, ok := ifs.Init.(*ast.AssignStmt)
			if !ok || len(as.Rhs) != 1 {
				return true
			}
			c, ok := as.Rhs[0].(*ast.CallExpr)
			if !ok || len(c.Args) != 1 {
				return true
			}
			var cl *envClause
			name, okc := constStr(info, c.Args[0])
			switch {
			case isFunc(info, c, "os", "LookupEnv") && len(as.Lhs) == 2:
				cl = &envClause{fn: fi, ifs: ifs, envVar: name, envObj: objOf(info, as.Lhs[0]), okObj: objOf(info, as.Lhs[1]), fields: map[*types.Var]ast.Node{}}
			case isFunc(info, c, "os", "Getenv") && len(as.Lhs) == 1:
				cl = &envClause{fn: fi, ifs: ifs, envVar: name, envObj: objOf(info, as.Lhs[0]), fields: map[*types.Var]ast.Node{}}
			default:
				// a lookup helper of the package: func(name string) (string, bool) (or string) around os.LookupEnv / os.Getenv
				h := p.staticCallee(fi.Pkg, c)
				if h == nil || h.Pkg != fi.Pkg || !isEnvLookupHelper(p, h) {
					return true
				}
				cl = &envClause{fn: fi, ifs: ifs, envVar: name, envObj: objOf(info, as.Lhs[0]), fields: map[*types.Var]ast.Node{}, helper: h}
				if len(as.Lhs) >= 2 {
					cl.okObj = objOf(info, as.Lhs[1])
				}
				if len(as.Lhs) == 3 {
					cl.errObj = objOf(info, as.Lhs[2])
				}
			}
			if !okc {
				r.Undecided("C20.b", fi.Key+"#lookup", p.pos(c), "the name of the environment variable is not a constant at this lookup (a table of options driven by one loop): not a form the per-setting rule follows")
				return true
			}
			var scope ast.Node = ifs.Body
			if cl.errObj != nil {
				scope = ifs // if v, ok, err := h(NAME); err != nil {...} else if ok { field = v }
			}
			ast.Inspect(scope, func(y ast.Node) bool {
				if a, ok := y.(*ast.AssignStmt); ok {
					for _, l := range a.Lhs {
						if sel, ok := l.(*ast.SelectorExpr); ok {
							if fv, ok := info.Uses[sel.Sel].(*types.Var); ok && fv.IsField() {
								cl.fields[fv] = a
							}
						}
					}
				}
				return true
			})
			clauses = append(clauses, cl)
			clauseFns[fi.Key] = true
			return true
		})
	}
	// the lookup as a statement of its own, tested by the if that follows: v, ok := os.LookupEnv(NAME); if ok && v != "" {..}
	for _, fi := range envFuncs {
		ast.Inspect(fi.Decl.Body, func(x ast.Node) bool {
			blk, ok := x.(*ast.BlockStmt)
			if !ok {
				return true
			}
			for i, st := range blk.List {
				as, ok := st.(*ast.AssignStmt)
				if !ok || len(as.Rhs) != 1 || i+1 >= len(blk.List) {
					continue
				}
				c, ok := as.Rhs[0].(*ast.CallExpr)
				if !ok || len(c.Args) != 1 {
					continue
				}
				var cl *envClause
				name, okc := constStr(info, c.Args[0])
				switch {
				case isFunc(info, c, "os", "LookupEnv") && len(as.Lhs) == 2:
					cl = &envClause{fn: fi, envVar: name, envObj: objOf(info, as.Lhs[0]), okObj: objOf(info, as.Lhs[1]), fields: map[*types.Var]ast.Node{}, pre: as}
				case isFunc(info, c, "os", "Getenv") && len(as.Lhs) == 1:
					cl = &envClause{fn: fi, envVar: name, envObj: objOf(info, as.Lhs[0]), fields: map[*types.Var]ast.Node{}, pre: as}
				default:
					continue
				}
				ifs, ok := blk.List[i+1].(*ast.IfStmt)
				if !ok || ifs.Init != nil || !(usesObj(info, ifs.Cond, cl.envObj) || (cl.okObj != nil && usesObj(info, ifs.Cond, cl.okObj))) {
					continue
				}
				if !okc {
					// the lookup of a helper that is given the name (nonEmptyEnv(name)): judged where it is called
					isParam := false
					for _, po := range paramObjs(fi) {
						if po != nil && objOf(info, c.Args[0]) == po {
							isParam = true
						}
					}
					if isParam {
						continue
					}
				}
				if !okc {
					key, at := fi.Key+"#lookup", p.pos(c)
					pendingLookups = append(pendingLookups, func() {
						r.Undecided("C20.b", key, at, "the name of the environment variable is not a constant at this lookup (a table of options driven by one loop): not a form the per-setting rule follows")
					})
					continue
				}
				cl.ifs = ifs
				ast.Inspect(ifs.Body, func(y ast.Node) bool {
					if a, ok := y.(*ast.AssignStmt); ok {
						for _, l := range a.Lhs {
							if sel, ok := l.(*ast.SelectorExpr); ok {
								if fv, ok := info.Uses[sel.Sel].(*types.Var); ok && fv.IsField() {
									cl.fields[fv] = a
								}
							}
						}
					}
					return true
				})
				clauses = append(clauses, cl)
				clauseFns[fi.Key] = true
			}
			return true
		})
	}
	// setter helpers: err = durationFromEnv(NAME, &s.Field)
	for _, fi := range envFuncs {
		var stack []ast.Node
		ast.Inspect(fi.Decl.Body, func(x ast.Node) bool {
			if x == nil {
				stack = stack[:len(stack)-1]
				return true
			}
			stack = append(stack, x)
			c, ok := x.(*ast.CallExpr)
			if !ok || len(c.Args) != 2 {
				return true
			}
			ua, ok := ast.Unparen(c.Args[1]).(*ast.UnaryExpr)
			if !ok || ua.Op != token.AND {
				return true
			}
			sel, ok := ast.Unparen(ua.X).(*ast.SelectorExpr)
			if !ok {
				return true
			}
			fv, ok := info.Uses[sel.Sel].(*types.Var)
			if !ok || !fv.IsField() {
				return true
			}
			h := p.staticCallee(fi.Pkg, c)
			if h == nil || h.Pkg != fi.Pkg || !isEnvSetterHelper(p, h) {
				return true
			}
			name, okc := constStr(info, c.Args[0])
			if !okc {
				r.Undecided("C20.b", fi.Key+"#lookup", p.pos(c), "the name of the environment variable is not a constant at this lookup (a table of options driven by one loop): not a form the per-setting rule follows")
				return true
			}
			// the statement of the enclosing block that holds the call
			var stmt ast.Stmt
			for i := len(stack) - 1; i > 0; i-- {
				if _, isBlock := stack[i-1].(*ast.BlockStmt); isBlock {
					stmt, _ = stack[i].(ast.Stmt)
					break
				}
			}
			if stmt == nil {
				return true
			}
			cl := &envClause{fn: fi, envVar: name, fields: map[*types.Var]ast.Node{fv: c}, helper: h, setter: c, stmt: stmt}
			clauses = append(clauses, cl)
			clauseFns[fi.Key] = true
			return true
		})
	}
	byField := map[*types.Var][]*envClause{}
	for _, cl := range clauses {
		for fv := range cl.fields {
			byField[fv] = append(byField[fv], cl)
		}
	}
	table := []*cfgLeaf{}
	nSemantic := 0
	semantic := false // some setting was decided by running its ParseEnv method: helper functions with lookups are not "dead clauses"
	for _, l := range leaves {
		cons := "config.Config#" + l.Path
		// yaml tag
		r.Check(l.Yaml != "" && l.Yaml != "-", "C20.b", cons+"/yaml", "", "yaml:\""+l.Yaml+"\"", "field has no yaml tag: the file cannot set it under its documented name")
		// default
		if d, ok := defaults[l.Path]; ok {
			l.Default = normDefault(info, d, l.field.Type())
			if l.DocDef != "" {
				want := normDocDefault(l.DocDef, l.field.Type())
				r.Check(want == l.Default, "C20.b", cons+"/default", p.pos(d), "default "+l.Default+" = documented "+l.DocDef,
					fmt.Sprintf("default in defaultConfig is %s, the documentation says %s", l.Default, l.DocDef))
			} else {
				r.Hold("C20.b", cons+"/default", p.pos(d), "default "+l.Default+" (no Default: line in the doc comment)")
			}
		} else {
			r.Viol("C20.b", cons+"/default", "", "defaultConfig has no value for this setting")
		}
		// env clause
		cls := byField[l.field]
		if len(cls) == 0 {
			// assigned somewhere in the package from a value that is not a recognised clause (a table of options
			// with setter closures driven by one lookup loop): not decided; never assigned: no override exists
			assignedAt := ""
			for _, fi := range envFuncs {
				ast.Inspect(fi.Decl.Body, func(x ast.Node) bool {
					if a, ok := x.(*ast.AssignStmt); ok {
						for _, lh := range a.Lhs {
							if sel, ok := lh.(*ast.SelectorExpr); ok && info.Uses[sel.Sel] == l.field {
								assignedAt = p.pos(a)
							}
						}
					}
					// handed to a setter by address: stored(&s.DbPath, asIs)
					if u, ok := x.(*ast.UnaryExpr); ok && u.Op == token.AND {
						if sel, ok := ast.Unparen(u.X).(*ast.SelectorExpr); ok && info.Uses[sel.Sel] == l.field {
							assignedAt = p.pos(u)
						}
					}
					return true
				})
			}
			if assignedAt != "" {
				// no clause of a known shape: the ParseEnv method of the section is run as a whole on an abstract
				// environment that holds (or not) the variable the documentation names
				if c20SemanticSetting(p, r, cons, l) {
					semantic = true
					nSemantic++
					table = append(table, l)
					continue
				}
				r.Undecided("C20.b", cons+"/env", assignedAt, "the setting is assigned outside an `if v, ok := os.LookupEnv(NAME); ...` clause: this form of environment handling is not one the rule follows")
			} else {
				r.Viol("C20.b", cons+"/env", "", "no os.LookupEnv clause assigns this setting: the environment cannot override it")
			}
			table = append(table, l)
			continue
		}
		if len(cls) > 1 {
			r.Viol("C20.b", cons+"/env", p.pos(cls[1].at()), fmt.Sprintf("setting assigned by %d environment clauses (%s and %s)", len(cls), cls[0].envVar, cls[1].envVar))
		}
		cl := cls[0]
		l.Env = cl.envVar
		if l.DocEnv != "" {
			r.Check(l.DocEnv == cl.envVar, "C20.b", cons+"/env-name", p.pos(cl.at()), "Env: "+l.DocEnv,
				fmt.Sprintf("setting is read from %s, the documentation says %s", cl.envVar, l.DocEnv))
		}
		c20Clause(p, r, cons, l, cl)
		table = append(table, l)
	}
	// lookups whose name is not a constant (one loop over a table of options) are judged through the settings: when
	// every documented setting was decided - by a clause or by running its ParseEnv method, which runs that loop -
	// nothing is left to say about the lookup itself
	allDecided := true
	for _, l := range leaves {
		if l.DocEnv != "" && l.Env == "" {
			allDecided = false
		}
	}
	if !(allDecided && nSemantic > 0) {
		for _, f := range pendingLookups {
			f()
		}
	}
	r.Floor("C20.b", "environment-clauses", len(clauses)+nSemantic, 7)
	r.Tables["settings"] = table
	// every function holding clauses is reached from Config.ParseEnv with its error propagated
	root := p.Func(kCfgParseEnv)
	if root == nil {
		r.Undecided("C20.b", kCfgParseEnv, "", "Config.ParseEnv not found")
		return
	}
	f := p.FlatOf(root)
	sig := root.Obj.Type().(*types.Signature)
	var succ []int
	for _, id := range f.ReturnNodes() {
		if isRet, nilErr := f.returnsNilError(id, sig); isRet && nilErr {
			succ = append(succ, id)
		}
	}
	var fns []string
	for k := range clauseFns {
		fns = append(fns, k)
	}
	sort.Strings(fns)
	for _, k := range fns {
		if k == kCfgParseEnv {
			continue
		}
		sites := f.CallSites(k)
		if len(sites) == 0 {
			// reached through a ParseEnv method of a section (readStorageEnv from Storage.ParseEnv): the section's
			// method is checked in its own right, the settings were decided by running it
			if semantic && p.funcCallsDeep(root, p.keysPred(k)) {
				continue
			}
			r.Viol("C20.b", kCfgParseEnv+"#calls "+k, p.pos(root.Decl), "Config.ParseEnv never calls "+k+": its environment clauses are dead")
			continue
		}
		set := map[int]bool{}
		for _, s := range sites {
			set[s.Node] = true
			f.SiteConsumed(r, "C20.b", kCfgParseEnv+"#error-of "+k, root, s, flowOpts{})
		}
		all := true
		for _, s := range succ {
			if !f.MustPrecede(set, s) {
				all = false
			}
		}
		r.Check(all, "C20.b", kCfgParseEnv+"#calls "+k, p.pos(sites[0].Call), "called on every success path", "a success return of Config.ParseEnv bypasses "+k)
	}
	// clauses of a function lie on every success path of that function (no early return before later clauses)
	for _, fk := range fns {
		fi := p.Func(fk)
		ff := p.FlatOf(fi)
		fsig := fi.Obj.Type().(*types.Signature)
		for _, cl := range clauses {
			if cl.fn != fi {
				continue
			}
			// node of the LookupEnv init
			var initNode []int
			if cl.setter != nil {
				if at := ff.NodeContaining(cl.setter); at >= 0 {
					initNode = append(initNode, at)
				}
			}
			for _, n := range ff.Nodes {
				if cl.ifs != nil && cl.ifs.Init != nil && n.Ast == cl.ifs.Init {
					initNode = append(initNode, n.ID)
				}
				if cl.pre != nil && n.Ast == ast.Node(cl.pre) {
					initNode = append(initNode, n.ID)
				}
			}
			ok := len(initNode) > 0
			for _, id := range ff.ReturnNodes() {
				if isRet, nilErr := ff.returnsNilError(id, fsig); isRet && nilErr {
					if !ff.MustPrecede(setOf(initNode), id) {
						ok = false
					}
				}
			}
			r.Check(ok, "C20.b", fk+"#clause "+cl.envVar+" on every success path", p.pos(cl.at()), "lookup precedes every success return", "a success return skips the lookup of "+cl.envVar)
		}
	}
}

// isEnvLookupHelper: func(name string) (string[, bool]) whose body looks its parameter up in the environment.
func isEnvLookupHelper(p *Prog, h *FuncInfo) bool {
	sig := h.Sig()
	if sig.Params().Len() != 1 || sig.Results().Len() < 1 || sig.Results().Len() > 3 {
		return false
	}
	if sig.Results().Len() == 3 && !isErrorType(sig.Results().At(2).Type()) {
		return false
	}
	info := h.Pkg.TypesInfo
	po := paramObjs(h)[0]
	found := false
	ast.Inspect(h.Decl.Body, func(x ast.Node) bool {
		if c, ok := x.(*ast.CallExpr); ok && len(c.Args) == 1 && (isFunc(info, c, "os", "LookupEnv") || isFunc(info, c, "os", "Getenv")) {
			if objOf(info, c.Args[0]) == po && po != nil {
				found = true
			}
		}
		return true
	})
	return found
}

// c20ExecClause runs one environment clause (its if statement, helpers of the package included) on the abstract
// environment state (present, empty): external parsers succeed with an opaque value. It reports whether the
// setting was assigned.
func c20ExecClause(p *Prog, cl *envClause, field string, present, empty bool) (assigned bool, err error) {
	text := strVal("x")
	if empty {
		text = strVal("")
	}
	old := &Val{Tag: "old"}
	st := &Val{Fields: map[string]*Val{field: old}}
	env := &Env{P: p, Pkg: cl.fn.Pkg, Vars: map[types.Object]*Val{}}
	if cl.fn.Decl.Recv != nil && len(cl.fn.Decl.Recv.List) == 1 && len(cl.fn.Decl.Recv.List[0].Names) == 1 {
		env.Vars[cl.fn.Pkg.TypesInfo.Defs[cl.fn.Decl.Recv.List[0].Names[0]]] = &Val{Ptr: st}
	}
	var multi func(e *Env, c *ast.CallExpr) ([]*Val, bool)
	hook := func(e *Env, x ast.Expr) (*Val, bool) {
		c, ok := x.(*ast.CallExpr)
		if !ok {
			return nil, false
		}
		ci := e.Pkg.TypesInfo
		if isFunc(ci, c, "os", "Getenv") {
			return text, true
		}
		if tv, ok := ci.Types[c.Fun]; ok && tv.IsType() && len(c.Args) == 1 {
			return e.eval(c.Args[0]), true // a conversion keeps the abstract value
		}
		if h := p.staticCallee(e.Pkg, c); h == nil || h.Pkg != cl.fn.Pkg {
			if t, ok := ci.Types[c]; ok {
				if _, isTuple := t.Type.(*types.Tuple); !isTuple {
					return &Val{Tag: "derived"}, true
				}
			}
		}
		return nil, false
	}
	multi = func(e *Env, c *ast.CallExpr) ([]*Val, bool) {
		ci := e.Pkg.TypesInfo
		if isFunc(ci, c, "os", "LookupEnv") {
			return []*Val{text, boolVal(present)}, true
		}
		if h := p.staticCallee(e.Pkg, c); h != nil && h.Pkg == cl.fn.Pkg && h.Decl != nil && h.Decl.Body != nil {
			he := e.child(h.Pkg)
			args := argExprs(c, h)
			for i, po := range paramObjs(h) {
				if po != nil && args[i] != nil {
					he.Vars[po] = e.eval(args[i])
				}
			}
			ret, _ := he.execBlock(h.Decl.Body.List)
			return ret, ret != nil
		}
		if t, ok := ci.Types[c].Type.(*types.Tuple); ok && t.Len() == 2 && isErrorType(t.At(1).Type()) {
			return []*Val{{Tag: "parsed"}, {Nil: true}}, true
		}
		return nil, false
	}
	env.Hook, env.Multi = hook, multi
	func() {
		defer func() {
			if rec := recover(); rec != nil {
				if ee, ok := rec.(evalErr); ok {
					err = ee
					return
				}
				panic(rec)
			}
		}()
		switch {
		case cl.setter != nil:
			env.execBlock([]ast.Stmt{cl.stmt})
		case cl.pre != nil:
			env.execBlock([]ast.Stmt{cl.pre, cl.ifs})
		default:
			env.execBlock([]ast.Stmt{cl.ifs})
		}
	}()
	return st.Fields[field] != old || old.Tag != "old", err
}

// signChangingConversion: an integer conversion that changes signedness or narrows (a parsed -1 becomes 2^64-1).
func signChangingConversion(info *types.Info, e ast.Expr) string {
	c, ok := ast.Unparen(e).(*ast.CallExpr)
	if !ok || len(c.Args) != 1 {
		return ""
	}
	tv, ok := info.Types[c.Fun]
	if !ok || !tv.IsType() {
		return ""
	}
	to, ok1 := tv.Type.Underlying().(*types.Basic)
	at, ok2 := info.Types[c.Args[0]]
	if !ok1 || !ok2 || at.Value != nil {
		return ""
	}
	from, ok3 := at.Type.Underlying().(*types.Basic)
	if !ok3 || to.Info()&types.IsInteger == 0 || from.Info()&types.IsInteger == 0 {
		return ""
	}
	size := func(b *types.Basic) int64 { return types.SizesFor("gc", "amd64").Sizeof(b) }
	if (to.Info()&types.IsUnsigned != 0) != (from.Info()&types.IsUnsigned != 0) || size(to) < size(from) {
		return from.Name() + " -> " + to.Name()
	}
	return ""
}

func c20Clause(p *Prog, r *Report, cons string, l *cfgLeaf, cl *envClause) {
	info := cl.fn.Pkg.TypesInfo
	if cl.setter != nil {
		c20SetterClause(p, r, cons, l, cl)
		return
	}
	if cl.errObj != nil {
		c20ParsingHelperClause(p, r, cons, l, cl)
		return
	}
	// guard truth table over (present, empty)
	good := true
	detail := ""
	for _, present := range []bool{true, false} {
		for _, empty := range []bool{true, false} {
			env := &Env{P: p, Pkg: cl.fn.Pkg, Vars: map[types.Object]*Val{}}
			text := strVal("x")
			if empty {
				text = strVal("")
			}
			if cl.helper != nil {
				// what the helper returns for this state of the environment
				he := env.child(cl.helper.Pkg)
				he.Multi = func(_ *Env, c *ast.CallExpr) ([]*Val, bool) {
					if isFunc(info, c, "os", "LookupEnv") {
						return []*Val{text, boolVal(present)}, true
					}
					return nil, false
				}
				he.Hook = func(_ *Env, e ast.Expr) (*Val, bool) {
					if c, ok := e.(*ast.CallExpr); ok && isFunc(info, c, "os", "Getenv") {
						return text, true
					}
					// strings.TrimSpace of the looked-up text: "" stays "", the representative non-empty text stays itself
					if c, ok := e.(*ast.CallExpr); ok && isFunc(info, c, "strings", "TrimSpace") && len(c.Args) == 1 {
						if v, verr := he.Eval(c.Args[0]); verr == nil && v != nil && v.C != nil && v.C.Kind() == constant.String {
							return strVal(strings.TrimSpace(constant.StringVal(v.C))), true
						}
					}
					return nil, false
				}
				for _, po := range paramObjs(cl.helper) {
					if po != nil {
						he.Vars[po] = strVal(cl.envVar)
					}
				}
				var ret []*Val
				var herr error
				func() {
					defer func() {
						if rec := recover(); rec != nil {
							if ee, ok := rec.(evalErr); ok {
								herr = ee
								return
							}
							panic(rec)
						}
					}()
					ret, _ = he.execBlock(cl.helper.Decl.Body.List)
				}()
				if herr != nil || len(ret) == 0 {
					r.Undecided("C20.b", cons+"/guard", p.pos(cl.ifs.Cond), fmt.Sprintf("lookup helper %s not evaluable: %v", cl.helper.Key, herr))
					return
				}
				env.Vars[cl.envObj] = ret[0]
				if cl.okObj != nil && len(ret) > 1 {
					env.Vars[cl.okObj] = ret[1]
				}
			} else {
				if cl.okObj != nil {
					env.Vars[cl.okObj] = boolVal(present)
				}
				env.Vars[cl.envObj] = text
			}
			v, err := env.Eval(cl.ifs.Cond)
			if err != nil || v.C == nil {
				r.Undecided("C20.b", cons+"/guard", p.pos(cl.ifs.Cond), fmt.Sprintf("guard not evaluable: %v", err))
				return
			}
			got := constant.BoolVal(v.C)
			want := present && !empty
			if !present && !empty {
				continue // LookupEnv returns "" when absent: this row cannot occur
			}
			if got != want {
				good = false
				detail = fmt.Sprintf("guard is %v for present=%v empty=%v; the setting must be taken from the environment iff the variable is set and non-empty", got, present, empty)
			}
		}
	}
	r.Check(good, "C20.b", cons+"/guard", p.pos(cl.ifs.Cond), "guard = present && non-empty", detail)
	// the assigned value derives from the looked-up text
	as := cl.fields[l.field].(*ast.AssignStmt)
	derives := false
	var visit func(e ast.Node, depth int) bool
	visit = func(e ast.Node, depth int) bool {
		if usesObj(info, e, cl.envObj) {
			return true
		}
		if depth > 3 {
			return false
		}
		found := false
		ast.Inspect(e, func(x ast.Node) bool {
			if id, ok := x.(*ast.Ident); ok {
				if o, ok := info.Uses[id].(*types.Var); ok && !o.IsField() && o != cl.envObj {
					if rhs := singleDefIn(info, cl.ifs.Body, o); rhs != nil && visit(rhs, depth+1) {
						found = true
					}
				}
			}
			return !found
		})
		return found
	}
	for _, rhs := range as.Rhs {
		if visit(rhs, 0) {
			derives = true
		}
	}
	r.Check(derives, "C20.b", cons+"/value", p.pos(as), "assigned from the looked-up text", "the value stored into the setting does not depend on the environment variable's text")
	// parse errors
	f := p.FlatOf(cl.fn)
	for _, n := range f.Nodes {
		if n.Ast == nil || n.Ast.Pos() < cl.ifs.Body.Pos() || n.Ast.End() > cl.ifs.Body.End() {
			continue
		}
		for _, c := range callsIn(n.Ast, false) {
			bs := f.bindOf(n, c)
			if bs.Kind == "none" {
				continue
			}
			if isFunc(info, c, "fmt", "Errorf") {
				continue
			}
			fn := types.ExprString(c.Fun)
			l.Parser = fn
			f.SiteConsumed(r, "C20.b", cons+"/parse-error "+fn, cl.fn, bs, flowOpts{})
		}
	}
}

// singleDefIn: like singleDef but also accepts a multi-value definition (port, err := Atoi(env)) and returns its call.
func singleDefIn(info *types.Info, body ast.Node, o types.Object) ast.Expr {
	var rhs ast.Expr
	ast.Inspect(body, func(x ast.Node) bool {
		if as, ok := x.(*ast.AssignStmt); ok {
			for i, l := range as.Lhs {
				if objOf(info, l) == o {
					if len(as.Rhs) == len(as.Lhs) {
						rhs = as.Rhs[i]
					} else if len(as.Rhs) == 1 {
						rhs = as.Rhs[0]
					}
				}
			}
		}
		// var ( freedDir = model.ParseDir(cf.Parent) )
		if vs, ok := x.(*ast.ValueSpec); ok {
			for i, nm := range vs.Names {
				if info.Defs[nm] == o {
					if len(vs.Values) == len(vs.Names) {
						rhs = vs.Values[i]
					} else if len(vs.Values) == 1 {
						rhs = vs.Values[0]
					}
				}
			}
		}
		return true
	})
	return rhs
}

func c20Valid(p *Prog, r *Report) {
	fi := p.Func(kValid)
	if fi == nil {
		r.Undecided("C20.c", kValid, "", "Storage.Valid not found")
		return
	}
	info := fi.Pkg.TypesInfo
	// (a step of the validation may be a method of its own: s.raiseDirCount())
	f := p.FlatInl(fi)
	var recv types.Object
	if fi.Decl.Recv != nil && len(fi.Decl.Recv.List) == 1 && len(fi.Decl.Recv.List[0].Names) == 1 {
		recv = info.Defs[fi.Decl.Recv.List[0].Names[0]]
	}
	if recv == nil {
		r.Undecided("C20.c", kValid, p.pos(fi.Decl), "no named receiver")
		return
	}
	if _, isPtr := recv.Type().(*types.Pointer); !isPtr {
		r.Viol("C20.c", kValid+"#receiver", p.pos(fi.Decl), "Valid has a value receiver: the raised directory limit is lost")
	}
	type row struct {
		Db    string `json:"db_path"`
		Roots int64  `json:"roots"`
		Max   int64  `json:"max_dir_count"`
		Ret   string `json:"returns"`
		After string `json:"max_after"`
	}
	var rows []row
	good := true
	detail := ""
	for _, db := range []string{"", "x"} {
		for _, roots := range []int64{0, 1} {
			for _, mx := range []int64{0, 99, 100, 101} {
				st := &Val{Fields: map[string]*Val{
					"DbPath": strVal(db), "MaxDirCount": intVal(mx),
					"RootDirs": &Val{Tag: "roots"}, "GCPeriod": intVal(1),
				}}
				env := &Env{P: p, Pkg: fi.Pkg, Vars: map[types.Object]*Val{recv: {Ptr: st}}, Body: fi.Decl.Body}
				env.Hook = func(env *Env, e ast.Expr) (*Val, bool) {
					if c, ok := e.(*ast.CallExpr); ok && len(c.Args) == 1 {
						if id, ok := c.Fun.(*ast.Ident); ok && id.Name == "len" {
							if sel, ok := ast.Unparen(c.Args[0]).(*ast.SelectorExpr); ok && sel.Sel.Name == "RootDirs" {
								return intVal(roots), true
							}
						}
					}
					if isNilCompare(info, e) != nil {
						if sel, ok := isNilCompare(info, e).(*ast.SelectorExpr); ok && sel.Sel.Name == "RootDirs" {
							be := ast.Unparen(e).(*ast.BinaryExpr)
							isNil := roots == 0
							if be.Op == token.NEQ {
								return boolVal(!isNil), true
							}
							return boolVal(isNil), true
						}
					}
					return nil, false
				}
				visited, exit, err := f.WalkPath(env)
				ret := "?"
				if err != nil {
					// a loop over the roots (every entry is checked): the body is interpreted as a whole with a
					// list of that many (named) roots; what is assigned is then judged over the whole body
					elems := []*Val{}
					for i := int64(0); i < roots; i++ {
						elems = append(elems, strVal("r"))
					}
					st.Fields["RootDirs"] = &Val{IsSlice: true, Elems: elems}
					prev := env.Hook
					env.Hook = func(env *Env, e ast.Expr) (*Val, bool) {
						if v, ok := prev(env, e); ok {
							return v, true
						}
						if sel, ok := ast.Unparen(e).(*ast.SelectorExpr); ok {
							if id, isId := ast.Unparen(sel.X).(*ast.Ident); isId {
								if _, isPkg := info.Uses[id].(*types.PkgName); isPkg {
									if _, isVar := info.Uses[sel.Sel].(*types.Var); isVar {
										return &Val{Tag: exprObjKey(info, sel)}, true
									}
								}
							}
						}
						if c, ok := e.(*ast.CallExpr); ok && isFunc(info, c, "strings", "TrimSpace") && len(c.Args) == 1 {
							if v, verr := env.Eval(c.Args[0]); verr == nil && v != nil && v.C != nil && v.C.Kind() == constant.String {
								return strVal(strings.TrimSpace(constant.StringVal(v.C))), true
							}
						}
						return nil, false
					}
					var rv []*Val
					var xerr error
					func() {
						defer func() {
							if rec := recover(); rec != nil {
								if ee, ok := rec.(evalErr); ok {
									xerr = ee
									return
								}
								panic(rec)
							}
						}()
						rv, _ = env.execBlock(fi.Decl.Body.List)
					}()
					if xerr != nil || len(rv) != 1 || rv[0] == nil {
						r.Undecided("C20.c", kValid, p.pos(fi.Decl), fmt.Sprintf("%v; as a whole: %v", err, xerr))
						return
					}
					ret = rv[0].String()
					visited = nil
					for _, n := range f.Nodes {
						if n.Ast != nil {
							visited = append(visited, n.ID)
						}
					}
				} else if rs := f.returnStmt(exit); rs != nil && len(rs.Results) == 1 {
					if isNilIdent(info, rs.Results[0]) {
						ret = "nil"
					} else {
						ret = exprObjKey(info, rs.Results[0])
					}
				}
				// only MaxDirCount may be assigned
				for _, id := range visited {
					if as, ok := f.Nodes[id].Ast.(*ast.AssignStmt); ok {
						for _, lhs := range as.Lhs {
							if sel, ok := lhs.(*ast.SelectorExpr); ok && sel.Sel.Name != "MaxDirCount" {
								good = false
								detail = "Valid assigns " + types.ExprString(lhs)
							}
						}
					}
				}
				after := st.Fields["MaxDirCount"].String()
				rows = append(rows, row{db, roots, mx, ret, after})
				want := "nil"
				if db == "" && roots == 0 {
					want = "either"
				} else if db == "" {
					want = "fs_db.ErrEmptyDbPath"
				} else if roots == 0 {
					want = "fs_db.ErrEmptyRootDirs"
				}
				if want == "either" {
					if ret != "fs_db.ErrEmptyDbPath" && ret != "fs_db.ErrEmptyRootDirs" {
						good = false
						detail = fmt.Sprintf("DbPath=%q roots=%d: returns %s", db, roots, ret)
					}
				} else if ret != want {
					good = false
					detail = fmt.Sprintf("DbPath=%q roots=%d max=%d: returns %s, the documented result is %s", db, roots, mx, ret, want)
				}
				if ret == "nil" {
					wantMax := mx
					if wantMax < 100 {
						wantMax = 100
					}
					if after != fmt.Sprint(wantMax) {
						good = false
						detail = fmt.Sprintf("MaxDirCount %d becomes %s after Valid, expected %d", mx, after, wantMax)
					}
				}
			}
		}
	}
	r.Tables["valid_table"] = rows
	r.Check(good, "C20.c", kValid+"#table", p.pos(fi.Decl), fmt.Sprintf("%d rows agree with the documented validation", len(rows)), detail)
}

// isNilCompare returns the non-nil operand of `x == nil` / `x != nil`, or nil.
func isNilCompare(info *types.Info, e ast.Expr) ast.Expr {
	be, ok := ast.Unparen(e).(*ast.BinaryExpr)
	if !ok || (be.Op != token.EQL && be.Op != token.NEQ) {
		return nil
	}
	if isNilIdent(info, be.Y) {
		return ast.Unparen(be.X)
	}
	if isNilIdent(info, be.X) {
		return ast.Unparen(be.Y)
	}
	return nil
}

// c20ParsingHelperClause: the clause form "if v, ok, err := envX(NAME); err != nil { return wrap } else if ok
// { setting = v }" with a package helper that looks the variable up and parses it.
func c20ParsingHelperClause(p *Prog, r *Report, cons string, l *cfgLeaf, cl *envClause) {
	info := cl.fn.Pkg.TypesInfo
	good, detail := true, ""
	for _, present := range []bool{true, false} {
		for _, empty := range []bool{true, false} {
			if !present && !empty {
				continue
			}
			got, err := c20ExecClause(p, cl, l.field.Name(), present, empty)
			if err != nil {
				r.Undecided("C20.b", cons+"/guard", p.pos(cl.ifs), fmt.Sprintf("clause not evaluable: %v", err))
				return
			}
			if want := present && !empty; got != want {
				good = false
				detail = fmt.Sprintf("the setting is assigned=%v for present=%v empty=%v; it must be taken from the environment iff the variable is set and non-empty", got, present, empty)
			}
		}
	}
	r.Check(good, "C20.b", cons+"/guard", p.pos(cl.ifs), "assigned iff present && non-empty (clause and helper evaluated)", detail)
	as := cl.fields[l.field].(*ast.AssignStmt)
	derives := false
	for _, rhs := range as.Rhs {
		if usesObj(info, rhs, cl.envObj) {
			derives = true
		}
		if conv := signChangingConversion(info, rhs); conv != "" {
			r.Viol("C20.b", cons+"/conversion", p.pos(rhs), "the parsed value is converted "+conv+" on its way into the setting: a negative or too large value is not reported as a parse error but silently becomes another number")
		}
	}
	r.Check(derives, "C20.b", cons+"/value", p.pos(as), "assigned from the parsed value of the variable", "the value stored into the setting does not depend on the environment variable")
	// the value the helper returns is the parse of the looked-up text, and parse errors come back
	hinfo := cl.helper.Pkg.TypesInfo
	hf := p.FlatOf(cl.helper)
	parsers := 0
	for _, n := range hf.Nodes {
		if n.Ast == nil {
			continue
		}
		for _, c := range callsIn(n.Ast, false) {
			bs := hf.bindOf(n, c)
			if bs.Kind == "none" || isFunc(hinfo, c, "fmt", "Errorf") {
				continue
			}
			parsers++
			l.Parser = types.ExprString(c.Fun)
			hf.SiteConsumed(r, "C20.b", cons+"/parse-error "+l.Parser, cl.helper, bs, flowOpts{})
		}
	}
	if parsers == 0 {
		r.Undecided("C20.b", cons+"/parse-error", p.pos(cl.helper.Decl), "no parsing call found in "+cl.helper.Key)
	}
	f := p.FlatOf(cl.fn)
	for _, n := range f.Nodes {
		if n.Ast != cl.ifs.Init {
			continue
		}
		for _, c := range callsIn(n.Ast, false) {
			if bs := f.bindOf(n, c); bs.Kind != "none" {
				f.SiteConsumed(r, "C20.b", cons+"/parse-error "+types.ExprString(c.Fun), cl.fn, bs, flowOpts{})
			}
		}
	}
}

// isEnvSetterHelper: func(name string, dst *T) [error] that looks its first parameter up in the environment (itself
// or through a lookup helper of the package) and stores through its second.
func isEnvSetterHelper(p *Prog, h *FuncInfo) bool {
	sig := h.Sig()
	if sig == nil || sig.Params().Len() != 2 || sig.Results().Len() > 1 || h.Decl.Body == nil {
		return false
	}
	if _, isPtr := sig.Params().At(1).Type().Underlying().(*types.Pointer); !isPtr {
		return false
	}
	info := h.Pkg.TypesInfo
	po := paramObjs(h)
	if po[0] == nil || po[1] == nil {
		return false
	}
	looks, stores := false, false
	ast.Inspect(h.Decl.Body, func(x ast.Node) bool {
		switch n := x.(type) {
		case *ast.CallExpr:
			if len(n.Args) == 1 && objOf(info, n.Args[0]) == po[0] {
				if isFunc(info, n, "os", "LookupEnv") || isFunc(info, n, "os", "Getenv") {
					looks = true
				} else if g := p.staticCallee(h.Pkg, n); g != nil && g.Pkg == h.Pkg && isEnvLookupHelper(p, g) {
					looks = true
				}
			}
		case *ast.AssignStmt:
			for _, l := range n.Lhs {
				if st, ok := ast.Unparen(l).(*ast.StarExpr); ok && objOf(info, st.X) == po[1] {
					stores = true
				}
			}
		}
		return true
	})
	return looks && stores
}

// c20SetterClause decides a clause of the form h(NAME, &recv.Field): the statement is evaluated (helpers included)
// over present x empty; inside the helper the stored value derives from the looked-up text and parse errors are
// bound and come back; the caller consumes the helper's error.
func c20SetterClause(p *Prog, r *Report, cons string, l *cfgLeaf, cl *envClause) {
	good, detail := true, ""
	for _, present := range []bool{true, false} {
		for _, empty := range []bool{true, false} {
			if !present && !empty {
				continue
			}
			got, err := c20ExecClause(p, cl, l.field.Name(), present, empty)
			if err != nil {
				r.Undecided("C20.b", cons+"/guard", p.pos(cl.setter), fmt.Sprintf("clause not evaluable: %v", err))
				return
			}
			if want := present && !empty; got != want {
				good = false
				detail = fmt.Sprintf("the setting is assigned=%v for present=%v empty=%v; it must be taken from the environment iff the variable is set and non-empty", got, present, empty)
			}
		}
	}
	r.Check(good, "C20.b", cons+"/guard", p.pos(cl.setter), "assigned iff present && non-empty (statement and helpers evaluated)", detail)
	h := cl.helper
	hinfo := h.Pkg.TypesInfo
	po := paramObjs(h)
	// the looked-up text inside the helper
	var textObj types.Object
	ast.Inspect(h.Decl.Body, func(x ast.Node) bool {
		as, ok := x.(*ast.AssignStmt)
		if !ok || len(as.Rhs) != 1 {
			return true
		}
		if c, ok := as.Rhs[0].(*ast.CallExpr); ok && len(c.Args) == 1 && objOf(hinfo, c.Args[0]) == po[0] && len(as.Lhs) >= 1 {
			textObj = objOf(hinfo, as.Lhs[0])
		}
		return true
	})
	derives := false
	ast.Inspect(h.Decl.Body, func(x ast.Node) bool {
		as, ok := x.(*ast.AssignStmt)
		if !ok {
			return true
		}
		for _, lh := range as.Lhs {
			if st, ok := ast.Unparen(lh).(*ast.StarExpr); ok && objOf(hinfo, st.X) == po[1] {
				for _, rhs := range as.Rhs {
					if textObj != nil && usesObj(hinfo, rhs, textObj) {
						derives = true
					}
					if conv := signChangingConversion(hinfo, rhs); conv != "" {
						r.Viol("C20.b", cons+"/conversion", p.pos(rhs), "the parsed value is converted "+conv+" on its way into the setting: a negative or too large value is not reported as a parse error but silently becomes another number")
					}
				}
			}
		}
		return true
	})
	r.Check(derives, "C20.b", cons+"/value", p.pos(cl.setter), "stored through the pointer from the looked-up text", "the value stored into the setting does not depend on the environment variable's text")
	hf := p.FlatOf(h)
	parsers := 0
	for _, n := range hf.Nodes {
		if n.Ast == nil {
			continue
		}
		for _, c := range callsIn(n.Ast, false) {
			bs := hf.bindOf(n, c)
			if bs.Kind == "none" || isFunc(hinfo, c, "fmt", "Errorf") {
				continue
			}
			if g := p.staticCallee(h.Pkg, c); g != nil && g.Pkg == h.Pkg && isEnvLookupHelper(p, g) && g.Sig().Results().Len() < 3 {
				continue
			}
			parsers++
			l.Parser = types.ExprString(c.Fun)
			hf.SiteConsumed(r, "C20.b", cons+"/parse-error "+l.Parser, h, bs, flowOpts{})
		}
	}
	if parsers == 0 && h.Sig().Results().Len() == 1 {
		r.Undecided("C20.b", cons+"/parse-error", p.pos(h.Decl), "no parsing call found in "+h.Key)
	}
	f := p.FlatOf(cl.fn)
	if at := f.NodeContaining(cl.setter); at >= 0 {
		if bs := f.bindOf(f.Nodes[at], cl.setter); bs.Kind != "none" {
			f.SiteConsumed(r, "C20.b", cons+"/parse-error "+types.ExprString(cl.setter.Fun), cl.fn, bs, flowOpts{})
		} else if h.Sig().Results().Len() == 1 {
			r.Viol("C20.b", cons+"/parse-error "+types.ExprString(cl.setter.Fun), p.pos(cl.setter), "the error of the environment helper is dropped: a malformed value is not reported")
		}
	}
}

// c20SemanticSetting decides one setting by running the ParseEnv method of its section (helpers, two-phase
// read-then-overlay designs and all) on an abstract environment: only the variable the documentation names is
// present / present but empty / absent; every parser succeeds, or (second run) every parser fails. The setting must be
// assigned exactly when the variable is present and non-empty, from a value derived from its text, and a failing
// parser must make the method return an error.
func c20SemanticSetting(p *Prog, r *Report, cons string, l *cfgLeaf) bool {
	if l.DocEnv == "" || l.owner == nil {
		return false
	}
	mk := "(*config." + l.owner.Obj().Name() + ").ParseEnv"
	fi := p.Func(mk)
	if fi == nil || fi.Decl.Body == nil || fi.Decl.Recv == nil || len(fi.Decl.Recv.List[0].Names) != 1 {
		return false
	}
	info := fi.Pkg.TypesInfo
	recv := info.Defs[fi.Decl.Recv.List[0].Names[0]]
	type outcome struct {
		assigned bool
		val      *Val
		ret      []*Val
		parsers  int
	}
	run := func(present, empty, failParse bool) (out outcome, err error) {
		text := strVal("x")
		if empty {
			text = strVal("")
		}
		old := &Val{Tag: "old"}
		st := &Val{Fields: map[string]*Val{}}
		if sct, ok := l.owner.Underlying().(*types.Struct); ok {
			for i := 0; i < sct.NumFields(); i++ {
				st.Fields[sct.Field(i).Name()] = &Val{Tag: "other"}
			}
		}
		st.Fields[l.field.Name()] = old
		env := &Env{P: p, Pkg: fi.Pkg, Vars: map[types.Object]*Val{recv: {Ptr: st}}}
		nameOf := func(e *Env, a ast.Expr) string {
			if v, verr := e.Eval(a); verr == nil && v != nil && v.C != nil && v.C.Kind() == constant.String {
				return constant.StringVal(v.C)
			}
			return ""
		}
		env.Hook = func(e *Env, x ast.Expr) (*Val, bool) {
			c, ok := x.(*ast.CallExpr)
			if !ok {
				return nil, false
			}
			ci := e.Pkg.TypesInfo
			if isFunc(ci, c, "os", "Getenv") && len(c.Args) == 1 {
				if nameOf(e, c.Args[0]) == l.DocEnv && present {
					return text, true
				}
				return strVal(""), true
			}
			if isFunc(ci, c, "fmt", "Errorf") || isFunc(ci, c, "errors", "Join") || isFunc(ci, c, "errors", "New") {
				return &Val{Tag: "error"}, true
			}
			if tv, ok := ci.Types[c.Fun]; ok && tv.IsType() && len(c.Args) == 1 {
				return e.eval(c.Args[0]), true
			}
			if h := p.staticCallee(e.Pkg, c); h == nil && isResolvedFunc(ci, c) {
				if t, ok := ci.Types[c]; ok {
					if _, isTuple := t.Type.(*types.Tuple); !isTuple && !t.IsVoid() {
						// an external single-valued function of the text (strings.Split, strings.TrimSpace)
						for _, a := range c.Args {
							if v, verr := e.Eval(a); verr == nil && v != nil && (v == text || v.Tag == "derived") {
								return &Val{Tag: "derived"}, true
							}
						}
						return &Val{Tag: "external"}, true
					}
				}
			}
			return nil, false
		}
		env.Multi = func(e *Env, c *ast.CallExpr) ([]*Val, bool) {
			ci := e.Pkg.TypesInfo
			if isFunc(ci, c, "os", "LookupEnv") && len(c.Args) == 1 {
				if nameOf(e, c.Args[0]) == l.DocEnv {
					if present {
						return []*Val{text, boolVal(true)}, true
					}
				}
				return []*Val{strVal(""), boolVal(false)}, true
			}
			if h := p.staticCallee(e.Pkg, c); h == nil && isResolvedFunc(ci, c) {
				if t, ok := ci.Types[c].Type.(*types.Tuple); ok && t.Len() == 2 && isErrorType(t.At(1).Type()) {
					out.parsers++
					derived := false
					for _, a := range c.Args {
						if v, verr := e.Eval(a); verr == nil && v != nil && (v == text || v.Tag == "derived") {
							derived = true
						}
					}
					tag := "external"
					if derived {
						tag = "derived"
					}
					if failParse {
						return []*Val{{Tag: tag}, {Tag: "parse-error"}}, true
					}
					return []*Val{{Tag: tag}, {Nil: true}}, true
				}
			}
			return nil, false
		}
		// a parser or a converter of the standard library reached through a function value
		// (parsed(&s.GCPeriod, time.ParseDuration) with "*dst, err = parse(raw)" inside)
		env.ExtCall = func(e *Env, c *ast.CallExpr, fn *types.Func) ([]*Val, bool) {
			sig, ok := fn.Type().(*types.Signature)
			if !ok {
				return nil, false
			}
			derived := false
			for _, a := range c.Args {
				if v, verr := e.Eval(a); verr == nil && v != nil && (v == text || v.Tag == "derived") {
					derived = true
				}
			}
			tag := "external"
			if derived {
				tag = "derived"
			}
			switch {
			case sig.Results().Len() == 2 && isErrorType(sig.Results().At(1).Type()):
				out.parsers++
				if failParse {
					return []*Val{{Tag: tag}, {Tag: "parse-error"}}, true
				}
				return []*Val{{Tag: tag}, {Nil: true}}, true
			case sig.Results().Len() == 1:
				return []*Val{{Tag: tag}}, true
			}
			return nil, false
		}
		func() {
			defer func() {
				if rec := recover(); rec != nil {
					if ee, ok := rec.(evalErr); ok {
						err = ee
						return
					}
					panic(rec)
				}
			}()
			out.ret, _ = env.execBlock(fi.Decl.Body.List)
		}()
		cur := st.Fields[l.field.Name()]
		out.assigned = cur != old || old.Tag != "old"
		out.val = cur
		return out, err
	}
	good, detail := true, ""
	var valueAt *Val
	for _, w := range []struct{ present, empty bool }{{true, false}, {true, true}, {false, true}} {
		o, err := run(w.present, w.empty, false)
		if err != nil {
			return false // not evaluable: the caller reports undecided
		}
		want := w.present && !w.empty
		if o.assigned != want {
			good = false
			detail = fmt.Sprintf("the setting is assigned=%v for present=%v empty=%v; it must be taken from the environment iff the variable %s is set and non-empty", o.assigned, w.present, w.empty, l.DocEnv)
		}
		if want {
			valueAt = o.val
		}
	}
	l.Env = l.DocEnv
	r.Check(good, "C20.b", cons+"/guard", p.pos(fi.Decl), "assigned iff "+l.DocEnv+" is present and non-empty ("+mk+" evaluated as a whole)", detail)
	derives := false
	for v := valueAt; v != nil; v = v.Ptr {
		if (v.C != nil && v.C.Kind() == constant.String && constant.StringVal(v.C) == "x") || v.Tag == "derived" {
			derives = true
		}
	}
	r.Check(derives, "C20.b", cons+"/value", p.pos(fi.Decl), "the stored value derives from the text of "+l.DocEnv, "the value stored into the setting does not depend on the text of "+l.DocEnv)
	// a parser that fails makes the method fail
	o, err := run(true, false, true)
	if err != nil {
		r.Undecided("C20.b", cons+"/parse-error", p.pos(fi.Decl), fmt.Sprintf("%s not evaluable with a failing parser: %v", mk, err))
		return true
	}
	if o.parsers > 0 {
		failed := len(o.ret) > 0 && o.ret[len(o.ret)-1] != nil && !o.ret[len(o.ret)-1].Nil
		r.Check(failed, "C20.b", cons+"/parse-error", p.pos(fi.Decl), "a malformed value of "+l.DocEnv+" makes "+mk+" return an error", "a malformed value of "+l.DocEnv+" is not reported: "+mk+" returns nil although the parser failed")
	}
	return true
}

// isResolvedFunc: the call names a declared function or method (not a closure held in a variable, field or element).
func isResolvedFunc(info *types.Info, c *ast.CallExpr) bool {
	fn, _ := typeutil.Callee(info, c).(*types.Func)
	return fn != nil
}

// c20CustomUnmarshallers (seeded C20-A, round 6): "decode the file over a copy of the defaults" only works while
// the decoder fills the value it is given. A section type with its own UnmarshalYAML decides itself what absent keys
// become: the value it decodes into must start as the receiver's current value (raw := plain(*s)), not as a zero
// value that is then assigned over the receiver - otherwise every setting the file does not mention loses its
// default.
func c20CustomUnmarshallers(p *Prog, r *Report, parse *FuncInfo) {
	for _, k := range sortedFuncKeys(p) {
		fi := p.Funcs[k]
		if fi.Pkg != parse.Pkg || fi.Decl == nil || fi.Decl.Body == nil || fi.Decl.Recv == nil || fi.Decl.Name.Name != "UnmarshalYAML" {
			continue
		}
		if len(fi.Decl.Recv.List) != 1 || len(fi.Decl.Recv.List[0].Names) != 1 {
			continue
		}
		info := fi.Pkg.TypesInfo
		recv := info.Defs[fi.Decl.Recv.List[0].Names[0]]
		f := p.FlatOf(fi)
		cons := k + "#decodes-over-the-current-value"
		// the decode calls: unmarshal(&x) through the function parameter, or node.Decode(&x)
		n := 0
		for _, gn := range f.Nodes {
			if gn.Ast == nil {
				continue
			}
			for _, c := range callsIn(gn.Ast, false) {
				if len(c.Args) != 1 {
					continue
				}
				isDecode := false
				if o := objOf(info, c.Fun); o != nil {
					if _, isSig := o.Type().Underlying().(*types.Signature); isSig {
						if v, isVar := o.(*types.Var); isVar && !v.IsField() {
							isDecode = true // the unmarshal callback
						}
					}
				}
				if sel, ok := ast.Unparen(c.Fun).(*ast.SelectorExpr); ok && sel.Sel.Name == "Decode" {
					isDecode = true
				}
				if !isDecode {
					continue
				}
				n++
				arg := ast.Unparen(c.Args[0])
				good := false
				detail := ""
				if usesObj(info, arg, recv) {
					good = true // decoded straight into (a view of) the receiver
				} else if u, isAddr := arg.(*ast.UnaryExpr); isAddr && u.Op == token.AND {
					if o := objOf(info, u.X); o != nil {
						defs := f.ReachingDefs(gn.ID, o)
						good = len(defs) > 0
						for _, d := range defs {
							if d.Rhs == nil || !usesObj(info, d.Rhs, recv) {
								good = false
								detail = "the value handed to the decoder (" + o.Name() + ") does not start as the receiver's current value"
							}
						}
						if len(defs) == 0 {
							detail = "the value handed to the decoder (" + o.Name() + ") is a zero value"
						}
					}
				}
				r.Check(good, "C20.a", cons, p.pos(c), "the custom unmarshaller decodes over the receiver's current value",
					detail+": settings the file does not mention are reset instead of keeping the default they were pre-filled with")
			}
		}
		if n == 0 {
			r.Undecided("C20.a", cons, p.pos(fi.Decl), "a custom UnmarshalYAML without a decode call the rule recognises")
		}
	}
}

// c20DefaultVar: the package-level variable of type config.Config that is initialised with a composite literal (the
// defaults ParseConfig starts from), whatever it is called; when there are several, the one ParseConfig mentions.
func c20DefaultVar(p *Prog) (types.Object, *ast.CompositeLit) {
	pkg := p.Pkg("config")
	if pkg == nil {
		return nil, nil
	}
	var cands []types.Object
	lits := map[types.Object]*ast.CompositeLit{}
	sc := pkg.Types.Scope()
	names := sc.Names()
	sort.Strings(names)
	for _, nm := range names {
		v, ok := sc.Lookup(nm).(*types.Var)
		if !ok {
			continue
		}
		nt, ok := v.Type().(*types.Named)
		if !ok || nt.Obj().Name() != "Config" || nt.Obj().Pkg() != pkg.Types {
			continue
		}
		if init, _ := p.pkgVarInit(v); init != nil {
			if cl, ok := ast.Unparen(init).(*ast.CompositeLit); ok {
				cands = append(cands, v)
				lits[v] = cl
			}
		}
	}
	if len(cands) == 0 {
		return nil, nil
	}
	best := cands[0]
	if fi := p.Func(kParseConfig); fi != nil && fi.Decl.Body != nil && len(cands) > 1 {
		for _, c := range cands {
			used := false
			for _, body := range p.deepBodies(fi) {
				ast.Inspect(body, func(x ast.Node) bool {
					if id, ok := x.(*ast.Ident); ok && fi.Pkg.TypesInfo.Uses[id] == c {
						used = true
					}
					return !used
				})
			}
			if used {
				best = c
			}
		}
	}
	return best, lits[best]
}
