package main

// Error-state dataflow (E3/E5 at the go/cfg level): for an error value assigned to a
// variable at node A, compute at every later node the abstract state of that value:
//   any      - may hold any (non-nil) error produced at A
//   is:<obj> - known to match sentinel <obj> (errors.Is true edge)
//   as:<T>   - known to match type <T> (errors.As true edge)
// Edges on which the value is known to be nil, and nodes after a re-assignment,
// carry no state. "B is error-gated by A" = B carries no state of A's error.

import (
	"fmt"
	"go/ast"
	"go/constant"
	"go/token"
	"go/types"
	"sort"
)

func objKey(o types.Object) string {
	if o == nil {
		return ""
	}
	if o.Pkg() == nil {
		return o.Name()
	}
	sp := shortPath(o.Pkg().Path())
	if sp == "." {
		sp = "fs_db"
	}
	return sp + "." + o.Name()
}

// exprObjKey resolves an identifier or selector (pkg.Name, x.Field) to an object key.
func exprObjKey(info *types.Info, e ast.Expr) string {
	switch x := ast.Unparen(e).(type) {
	case *ast.Ident:
		return objKey(objOf(info, x))
	case *ast.SelectorExpr:
		if o := info.Uses[x.Sel]; o != nil {
			return objKey(o)
		}
	case *ast.UnaryExpr:
		if x.Op == token.AND {
			return "&" + exprObjKey(info, x.X)
		}
	}
	return ""
}

// errVarOf: the variable an error test is about -- a plain variable, or an error-typed field of a struct value
// (x.err), which stands for "the field err of that struct type" (one instance per function is assumed; the flow
// only ever tracks a field after an error was stored into it, see consumes).
func errVarOf(info *types.Info, e ast.Expr) types.Object {
	switch x := ast.Unparen(e).(type) {
	case *ast.Ident:
		return objOf(info, x)
	case *ast.StarExpr:
		// *err of a decorator's pointer parameter (func annotate(err *error, op string)): the parameter stands for it
		if o := objOf(info, x.X); o != nil {
			if pt, ok := o.Type().Underlying().(*types.Pointer); ok && isErrorType(pt.Elem()) {
				return o
			}
		}
	case *ast.SelectorExpr:
		if sel := info.Selections[x]; sel != nil && sel.Kind() == types.FieldVal && isErrorType(sel.Obj().Type()) {
			return sel.Obj()
		}
	}
	return nil
}

type condInfo struct {
	kind string // "nonnil", "isnil", "is", "as", ""
	obj  types.Object
	arg  string // sentinel key or type
	neg  bool   // the condition is the negation of the classified test
}

// errPredicates: local closures and one-line functions of the module that test an error
// (gone := func(err error) bool { return errors.Is(err, fs_db.ErrNotFound) }): object -> (parameter, returned expression).
// Filled once per load by registerErrPredicates.
var errPredicates = map[types.Object]errPredicate{}

type errPredicate struct {
	param types.Object
	ret   ast.Expr
}

func registerErrPredicates(p *Prog) {
	errPredicates = map[types.Object]errPredicate{}
	add := func(info *types.Info, o types.Object, ft *ast.FuncType, body *ast.BlockStmt) {
		if o == nil || body == nil || len(body.List) != 1 || ft.Params == nil || ft.Results == nil || len(ft.Results.List) != 1 {
			return
		}
		rs, ok := body.List[0].(*ast.ReturnStmt)
		if !ok || len(rs.Results) != 1 {
			return
		}
		if tv, ok := info.Types[rs.Results[0]]; !ok || tv.Type == nil {
			return
		} else if bt, isB := tv.Type.Underlying().(*types.Basic); !isB || bt.Info()&types.IsBoolean == 0 {
			return
		}
		var params []types.Object
		for _, fld := range ft.Params.List {
			for _, nm := range fld.Names {
				params = append(params, info.Defs[nm])
			}
		}
		if len(params) != 1 || params[0] == nil || !isErrorType(params[0].Type()) {
			return
		}
		errPredicates[o] = errPredicate{params[0], rs.Results[0]}
	}
	for _, pkg := range p.PkgList {
		info := pkg.TypesInfo
		for _, file := range pkg.Syntax {
			ast.Inspect(file, func(x ast.Node) bool {
				switch d := x.(type) {
				case *ast.FuncDecl:
					if d.Recv == nil && d.Body != nil {
						add(info, info.Defs[d.Name], d.Type, d.Body)
					}
				case *ast.AssignStmt:
					if d.Tok == token.DEFINE && len(d.Lhs) == 1 && len(d.Rhs) == 1 {
						if lit, ok := d.Rhs[0].(*ast.FuncLit); ok {
							if id, ok := d.Lhs[0].(*ast.Ident); ok {
								add(info, info.Defs[id], lit.Type, lit.Body)
							}
						}
					}
				}
				return true
			})
		}
	}
}

// classifyCond recognises error tests on a variable.
func classifyCond(info *types.Info, e ast.Expr) condInfo {
	e = ast.Unparen(e)
	// a named test: gone(err)
	if c, ok := e.(*ast.CallExpr); ok && len(c.Args) == 1 {
		if id, isId := ast.Unparen(c.Fun).(*ast.Ident); isId {
			if pr, known := errPredicates[info.Uses[id]]; known {
				ci := classifyCond(info, pr.ret)
				if ci.obj == pr.param {
					if o := errVarOf(info, c.Args[0]); o != nil {
						ci.obj = o
						return ci
					}
				}
			}
		}
	}
	if u, ok := e.(*ast.UnaryExpr); ok && u.Op == token.NOT {
		ci := classifyCond(info, u.X)
		ci.neg = !ci.neg
		return ci
	}
	switch x := e.(type) {
	case *ast.BinaryExpr:
		// a list of collected errors: len(errs) > 0 / != 0 / == 0 stands for "some error was collected"
		if lc, ok := ast.Unparen(x.X).(*ast.CallExpr); ok && isBuiltinCall(info, lc, "len") && len(lc.Args) == 1 {
			if o := objOf(info, lc.Args[0]); o != nil && isErrListType(o.Type()) {
				if n, isC := constInt(info, x.Y); isC {
					switch {
					case n == 0 && (x.Op == token.GTR || x.Op == token.NEQ), n == 1 && x.Op == token.GEQ:
						return condInfo{kind: "nonnil", obj: o}
					case n == 0 && (x.Op == token.EQL || x.Op == token.LEQ), n == 1 && x.Op == token.LSS:
						return condInfo{kind: "isnil", obj: o}
					}
				}
			}
		}
		if x.Op == token.NEQ || x.Op == token.EQL {
			var v ast.Expr
			if isNilIdent(info, x.Y) {
				v = x.X
			} else if isNilIdent(info, x.X) {
				v = x.Y
			}
			if v != nil {
				if o := errVarOf(info, v); o != nil && (isErrorType(o.Type()) || isErrListType(o.Type())) {
					if x.Op == token.NEQ {
						return condInfo{kind: "nonnil", obj: o}
					}
					return condInfo{kind: "isnil", obj: o}
				}
			}
			// err == io.EOF style comparison with a sentinel
			for _, pair := range [][2]ast.Expr{{x.X, x.Y}, {x.Y, x.X}} {
				if o := errVarOf(info, pair[0]); o != nil && isErrorType(o.Type()) {
					if k := exprObjKey(info, pair[1]); k != "" && !isNilIdent(info, pair[1]) {
						if x.Op == token.EQL {
							return condInfo{kind: "is", obj: o, arg: k}
						}
						return condInfo{kind: "isnot", obj: o, arg: k}
					}
				}
			}
		}
	case *ast.CallExpr:
		if sel, ok := x.Fun.(*ast.SelectorExpr); ok && len(x.Args) == 2 {
			if fn, ok := info.Uses[sel.Sel].(*types.Func); ok && fn.Pkg() != nil && fn.Pkg().Path() == "errors" {
				o := errVarOf(info, x.Args[0])
				if o == nil {
					return condInfo{}
				}
				switch fn.Name() {
				case "Is":
					return condInfo{kind: "is", obj: o, arg: exprObjKey(info, x.Args[1])}
				case "As":
					t := ""
					if tv, ok := info.Types[x.Args[1]]; ok {
						t = shorten(tv.Type.String())
					}
					return condInfo{kind: "as", obj: o, arg: t}
				}
			}
		}
	}
	return condInfo{}
}

type ErrStates map[int]map[string]bool

// edgeKey encodes a CFG edge as a negative map key (states that flowed along the edge).
func edgeKey(from, to int) int { return -(from*1000000 + to) - 1 }

// along returns the states that flowed along the edge from->to.
func (s ErrStates) along(from, to int) map[string]bool { return s[edgeKey(from, to)] }

func (s ErrStates) at(id int) []string {
	var r []string
	for k := range s[id] {
		r = append(r, k)
	}
	sort.Strings(r)
	return r
}

// ErrStatesFrom runs the dataflow for error variable E assigned at node A.
func (f *Flat) ErrStatesFrom(A int, E types.Object) ErrStates { return f.errStatesFrom(A, E, false) }

// ErrStatesFromTwins also follows the error into other error variables it is copied or wrapped (%w) into by plain
// assignments (resErr = fmt.Errorf("...: %w", err)): for questions of the kind "is this node reachable while the
// failure is pending", where a later test of the twin decides the branch.
func (f *Flat) ErrStatesFromTwins(A int, E types.Object) ErrStates {
	return f.errStatesFrom(A, E, true)
}

func (f *Flat) errStatesFrom(A int, E types.Object, twins bool) ErrStates {
	info := f.Pkg.TypesInfo
	st := ErrStates{}
	// carriers: the variables that currently hold the error. It starts as {E}; when a spliced-in helper returns the
	// error (unchanged or wrapped) the caller's variable takes over, when the error is handed to a spliced-in
	// helper as an argument the helper's parameter joins, and when it is copied or wrapped (%w) into another
	// error variable (resErr = fmt.Errorf("...: %w", err)) that variable joins: a later test of any of them
	// decides the branch.
	type item struct {
		id    int
		state string
		cs    []types.Object
	}
	keyOf := func(id int, s string, cs []types.Object) string {
		k := fmt.Sprintf("%d|%s", id, s)
		for _, c := range cs {
			k += fmt.Sprintf("|%p", c)
		}
		return k
	}
	norm := func(cs []types.Object) []types.Object {
		out := append([]types.Object{}, cs...)
		sort.Slice(out, func(i, j int) bool { return out[i].Pos() < out[j].Pos() })
		var res []types.Object
		for i, c := range out {
			if i == 0 || out[i-1] != c {
				res = append(res, c)
			}
		}
		return res
	}
	has := func(cs []types.Object, o types.Object) bool {
		for _, c := range cs {
			if c == o {
				return true
			}
		}
		return false
	}
	seen := map[string]bool{}
	var work []item
	cur := A
	// the distinct source ranges of what was spliced in
	var inlRanges []InlInfo
	{
		have := map[[2]token.Pos]bool{}
		for _, ii := range f.Inl {
			k := [2]token.Pos{ii.Lo, ii.Hi}
			if !have[k] {
				have[k] = true
				inlRanges = append(inlRanges, ii)
			}
		}
	}
	push := func(id int, s string, cs []types.Object) {
		ek := edgeKey(cur, id)
		if st[ek] == nil {
			st[ek] = map[string]bool{}
		}
		st[ek][s] = true
		if st[id] == nil {
			st[id] = map[string]bool{}
		}
		st[id][s] = true
		cs = norm(cs)
		k := keyOf(id, s, cs)
		if !seen[k] {
			seen[k] = true
			work = append(work, item{id, s, cs})
		}
	}
	for _, e := range f.Nodes[A].Succs {
		push(e.To, "any", []types.Object{E})
	}
	for len(work) > 0 {
		it := work[len(work)-1]
		work = work[:len(work)-1]
		n := f.Nodes[it.id]
		cur = it.id
		cs := it.cs
		// back in the function's own statements, what was declared inside a spliced-in helper or closure is gone:
		// the parameter of skip(step, err) does not carry the error into the next iteration of the caller's loop
		if _, inHelper := f.Inl[it.id]; !inHelper && len(f.Inl) > 0 && n.Ast != nil {
			var keep []types.Object
			for _, c := range cs {
				local := false
				for _, ii := range inlRanges {
					if ii.Lo.IsValid() && c.Pos() >= ii.Lo && c.Pos() <= ii.Hi {
						local = true
					}
				}
				if !local || c == E {
					keep = append(keep, c)
				}
			}
			if len(keep) == 0 {
				continue
			}
			cs = keep
		}
		if n.Ast != nil {
			var joined []types.Object
			if as, ok := n.Ast.(*ast.AssignStmt); ok && len(as.Lhs) == len(as.Rhs) {
				for i, rhs := range as.Rhs {
					y := objOf(info, as.Lhs[i])
					if y == nil || !isErrorType(y.Type()) {
						continue
					}
					if n.Synth == "" && !twins {
						continue
					}
					for _, c := range cs {
						if !usesObj(info, rhs, c) {
							continue
						}
						// an accumulator (failed = errors.Join(failed, err)) is not a twin: it stays non-nil over the
						// following iterations, which run by design
						if n.Synth == "" && c != y && usesObj(info, rhs, y) {
							continue
						}
						if k, _, _ := keepsClass(info, rhs, c); k {
							joined = append(joined, y)
						}
					}
				}
				if n.Synth != "" {
					if len(joined) > 0 {
						next := joined
						if n.Synth != "result" {
							next = append(append([]types.Object{}, cs...), joined...) // an argument: the caller's variable lives on
						}
						for _, e := range n.Succs {
							push(e.To, it.state, next)
						}
						continue
					}
					// the helper returns while its own error variable is non-nil, and gives its caller another,
					// certainly non-nil error in its place (return ErrNoFreeSpace after the retries): the failure is
					// reported under another name, the helper's variable does not live on in the caller
					if ii, ok := f.Inl[n.ID]; ok && n.Synth == "result" {
						if callee := f.P.Funcs[ii.Callee]; callee != nil && callee.Decl != nil {
							local := true
							for _, c := range cs {
								if c.Pos() < callee.Decl.Pos() || c.Pos() > callee.Decl.End() {
									local = false
								}
							}
							replaced := false
							for i, rhs := range as.Rhs {
								if y := objOf(info, as.Lhs[i]); y != nil && isErrorType(y.Type()) {
									if certainlyNonNilError(info, rhs) {
										replaced = true
									}
									// a local the split graph knows to be non-nil here (resErr after resErr = ErrNoFreeSpace)
									if ro := objOf(info, rhs); ro != nil && f.Facts != nil && f.Facts[n.ID][ro] == 1 {
										replaced = true
									}
								}
							}
							if local && replaced {
								continue
							}
						}
					}
				}
			}
			// reassigned carriers drop out (unless this statement makes them carry the error again)
			var kept []types.Object
			for _, c := range cs {
				killed := false
				for _, o := range assignedObjs(info, n.Ast) {
					if o == c && !has(joined, c) {
						killed = true
					}
				}
				// errs = append(errs, x): the list stays non-empty
				if killed && isErrListType(c.Type()) {
					if as, ok := n.Ast.(*ast.AssignStmt); ok && len(as.Lhs) == 1 && len(as.Rhs) == 1 && objOf(info, as.Lhs[0]) == c {
						if ac, ok := ast.Unparen(as.Rhs[0]).(*ast.CallExpr); ok && isBuiltinCall(info, ac, "append") && len(ac.Args) >= 1 && objOf(info, ac.Args[0]) == c {
							killed = false
						}
					}
				}
				if !killed {
					kept = append(kept, c)
				}
			}
			cs = append(kept, joined...)
			if len(cs) == 0 {
				continue
			}
		}
		if n.IsCond {
			cond := n.Ast.(ast.Expr)
			var mentioned []types.Object
			for _, c := range cs {
				if condMentions(info, cond, c) {
					mentioned = append(mentioned, c)
				}
			}
			if len(mentioned) > 0 {
				for _, w := range worldsFor(info, cond, mentioned[0], it.state) {
					mt, mf := true, true
					for _, c := range mentioned {
						t, fl := eval3(info, cond, c, w)
						mt, mf = mt && t, mf && fl
					}
					for _, e := range n.Succs {
						if (e.Label == 1 && mt) || (e.Label == 2 && mf) {
							push(e.To, w, cs)
						}
					}
				}
				continue
			}
		}
		for _, e := range n.Succs {
			push(e.To, it.state, cs)
		}
	}
	return st
}

// callSite describes how the error result of a call is bound.
type callSite struct {
	Node   int
	Call   *ast.CallExpr
	ErrVar types.Object // variable receiving the error result (nil if none)
	Kind   string       // "assigned", "returned", "dropped", "blank", "deferred", "go", "arg", "none"
}

// bindOf finds how the error (last) result of call c inside node n is bound.
func (f *Flat) bindOf(n *GNode, c *ast.CallExpr) callSite {
	info := f.Pkg.TypesInfo
	cs := callSite{Node: n.ID, Call: c, Kind: "arg"}
	tv, ok := info.Types[c]
	if !ok {
		cs.Kind = "none"
		return cs
	}
	nres, errIdx := 0, -1
	switch t := tv.Type.(type) {
	case *types.Tuple:
		nres = t.Len()
		if nres > 0 && isErrorType(t.At(nres-1).Type()) {
			errIdx = nres - 1
		}
	default:
		if tv.IsVoid() {
			cs.Kind = "none"
			return cs
		}
		nres = 1
		if isErrorType(tv.Type) {
			errIdx = 0
		}
	}
	if errIdx < 0 {
		cs.Kind = "none"
		return cs
	}
	switch s := n.Ast.(type) {
	case *ast.ExprStmt:
		if ast.Unparen(s.X) == c {
			cs.Kind = "dropped"
		}
	case *ast.DeferStmt:
		if s.Call == c {
			cs.Kind = "deferred"
		}
	case *ast.GoStmt:
		if s.Call == c {
			cs.Kind = "go"
		}
	case *ast.ReturnStmt:
		for _, r := range s.Results {
			if ast.Unparen(r) == c {
				cs.Kind = "returned"
			}
		}
	case *ast.AssignStmt:
		if len(s.Rhs) == 1 && ast.Unparen(s.Rhs[0]) == c && len(s.Lhs) == nres {
			l := s.Lhs[errIdx]
			if id, ok := l.(*ast.Ident); ok && id.Name == "_" {
				cs.Kind = "blank"
			} else if o := objOf(info, l); o != nil {
				cs.Kind, cs.ErrVar = "assigned", o
			} else if ix, ok := ast.Unparen(l).(*ast.IndexExpr); ok {
				// one slot of a list of errors that is joined afterwards: errs[i] = u.deleteFile(ctx, file)
				if lo := objOf(info, ix.X); lo != nil && isErrListType(lo.Type()) {
					cs.Kind, cs.ErrVar = "assigned", lo
				}
			}
		} else if len(s.Rhs) == len(s.Lhs) {
			for i, r := range s.Rhs {
				if ast.Unparen(r) == c && nres == 1 {
					l := s.Lhs[i]
					if id, ok := l.(*ast.Ident); ok && id.Name == "_" {
						cs.Kind = "blank"
					} else if o := objOf(info, l); o != nil {
						cs.Kind, cs.ErrVar = "assigned", o
					} else if ix, ok := ast.Unparen(l).(*ast.IndexExpr); ok {
						// one slot of a list of errors that is joined afterwards: errs[i] = u.deleteFile(ctx, file)
						if lo := objOf(info, ix.X); lo != nil && isErrListType(lo.Type()) {
							cs.Kind, cs.ErrVar = "assigned", lo
						}
					}
				}
			}
		}
	case *ast.DeclStmt:
		if gd, ok := s.Decl.(*ast.GenDecl); ok {
			for _, sp := range gd.Specs {
				vs, ok := sp.(*ast.ValueSpec)
				if !ok {
					continue
				}
				if len(vs.Values) == 1 && ast.Unparen(vs.Values[0]) == c && len(vs.Names) == nres {
					if vs.Names[errIdx].Name == "_" {
						cs.Kind = "blank"
					} else {
						cs.Kind, cs.ErrVar = "assigned", info.Defs[vs.Names[errIdx]]
					}
				}
			}
		}
	}
	return cs
}

// CallSites returns the bound call sites of calls to keys in the function body (literals excluded).
func (f *Flat) CallSites(keys ...string) []callSite {
	var res []callSite
	for _, n := range f.Nodes {
		if n.Ast == nil {
			continue
		}
		for _, c := range callsIn(n.Ast, false) {
			if f.callIs(c, keys...) {
				res = append(res, f.bindOf(n, c))
			}
		}
	}
	return res
}

// GatedBy reports whether every node in targets is unreachable while the error assigned at
// site may be non-nil; states listed in tolerated (e.g. "is:fs_db.ErrNotFound") are accepted.
// It returns the offending target and its states when not gated.
func (f *Flat) GatedBy(site callSite, targets []int, tolerated ...string) (bool, int, []string) {
	if site.Kind != "assigned" || site.ErrVar == nil {
		return false, -1, []string{"error result is " + site.Kind}
	}
	st := f.ErrStatesFromTwins(site.Node, site.ErrVar)
	tol := map[string]bool{}
	for _, t := range tolerated {
		tol[t] = true
	}
	for _, t := range targets {
		var bad []string
		for _, s := range st.at(t) {
			if !tol[s] {
				bad = append(bad, s)
			}
		}
		if len(bad) > 0 {
			return false, t, bad
		}
	}
	return true, -1, nil
}

// condMentions reports whether the condition contains an error test on E.
func condMentions(info *types.Info, cond ast.Expr, E types.Object) bool {
	found := false
	ast.Inspect(cond, func(x ast.Node) bool {
		if e, ok := x.(ast.Expr); ok {
			if ci := classifyCond(info, e); ci.kind != "" && ci.obj == E {
				found = true
			}
		}
		return !found
	})
	return found
}

// worldsFor enumerates the abstract values E may have in the given state, refined by the
// sentinels / types the condition mentions: "any" (none of the mentioned classes), "is:S", "as:T".
func worldsFor(info *types.Info, cond ast.Expr, E types.Object, state string) []string {
	if state != "any" {
		return []string{state}
	}
	ws := []string{"any"}
	seen := map[string]bool{}
	ast.Inspect(cond, func(x ast.Node) bool {
		if e, ok := x.(ast.Expr); ok {
			ci := classifyCond(info, e)
			if ci.obj == E && (ci.kind == "is" || ci.kind == "isnot" || ci.kind == "as") && ci.arg != "" {
				k := "is:" + ci.arg
				if ci.kind == "as" {
					k = "as:" + ci.arg
				}
				if !seen[k] {
					seen[k] = true
					ws = append(ws, k)
				}
			}
		}
		return true
	})
	return ws
}

// eval3 evaluates a boolean condition in world w of E: may it be true, may it be false.
// In every world E is non-nil (the nil case carries no obligation). Atoms not about E are unknown.
func eval3(info *types.Info, e ast.Expr, E types.Object, w string) (mayTrue, mayFalse bool) {
	e = ast.Unparen(e)
	// a constant (the flag of a row of an unrolled table: true && errors.Is(err, X))
	if tv, ok := info.Types[e]; ok && tv.Value != nil && tv.Value.Kind() == constant.Bool {
		b := constant.BoolVal(tv.Value)
		return b, !b
	}
	switch x := e.(type) {
	case *ast.UnaryExpr:
		if x.Op == token.NOT {
			t, f := eval3(info, x.X, E, w)
			return f, t
		}
	case *ast.BinaryExpr:
		switch x.Op {
		case token.LAND:
			at, af := eval3(info, x.X, E, w)
			bt, bf := eval3(info, x.Y, E, w)
			return at && bt, af || (at && bf)
		case token.LOR:
			at, af := eval3(info, x.X, E, w)
			bt, bf := eval3(info, x.Y, E, w)
			return at || (af && bt), af && bf
		}
	}
	ci := classifyCond(info, e)
	if ci.kind == "" || ci.obj != E {
		return true, true
	}
	var t, f bool
	switch ci.kind {
	case "nonnil":
		t, f = true, false
	case "isnil":
		t, f = false, true
	case "is", "isnot":
		switch {
		case w == "is:"+ci.arg:
			t, f = true, false
		case w == "any":
			t, f = false, true
		default:
			t, f = true, true
		}
		if ci.kind == "isnot" {
			t, f = f, t
		}
	case "as":
		switch {
		case w == "as:"+ci.arg:
			t, f = true, false
		case w == "any":
			t, f = false, true
		default:
			t, f = true, true
		}
	}
	if ci.neg {
		t, f = f, t
	}
	return t, f
}

// certainlyNonNilError: a sentinel (package-level error variable), a freshly built error, a literal or an address.
func certainlyNonNilError(info *types.Info, e ast.Expr) bool {
	switch x := ast.Unparen(e).(type) {
	case *ast.Ident, *ast.SelectorExpr:
		var id *ast.Ident
		if i, ok := x.(*ast.Ident); ok {
			id = i
		} else {
			id = x.(*ast.SelectorExpr).Sel
		}
		if v, ok := info.Uses[id].(*types.Var); ok && !v.IsField() && v.Pkg() != nil && v.Parent() == v.Pkg().Scope() && isErrorType(v.Type()) {
			return true
		}
	case *ast.CallExpr:
		return isFunc(info, x, "fmt", "Errorf") || isFunc(info, x, "errors", "New") || isFunc(info, x, "errors", "Join")
	case *ast.CompositeLit:
		return true
	case *ast.UnaryExpr:
		return x.Op == token.AND
	}
	return false
}

// isErrListType: []error
func isErrListType(t types.Type) bool {
	sl, ok := t.Underlying().(*types.Slice)
	return ok && isErrorType(sl.Elem())
}

func isBuiltinCall(info *types.Info, c *ast.CallExpr, name string) bool {
	id, ok := ast.Unparen(c.Fun).(*ast.Ident)
	if !ok || id.Name != name {
		return false
	}
	_, isB := info.Uses[id].(*types.Builtin)
	return isB
}
