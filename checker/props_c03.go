package main

// C03 Commit is all-or-nothing and fails exactly on a write-write conflict.

import (
	"fmt"
	"go/ast"
	"go/constant"
	"go/token"
	"go/types"
	"golang.org/x/tools/go/packages"
	"strings"
)

func init() { register("C03", propC03) }

const (
	kUpdateTx      = "(*internal/usecase/core.UseCase).UpdateTx"
	kRepoRunTx     = "(*internal/repository/file.Repo).RunTransaction"
	kMgrRunTx      = "(*internal/db/badger.Manager).RunTransaction"
	kMgrDB         = "(*internal/db/badger.Manager).DB"
	kFileLatest    = "(*internal/model/core.file).Latest"
	kTxCommit      = "(*internal/usecase/transaction.UseCase).Commit"
	kTxRollback    = "(*internal/usecase/transaction.UseCase).Rollback"
	kTxBegin       = "(*internal/usecase/transaction.UseCase).Begin"
	kTxRepoDelete  = "(*internal/repository/transaction.Repo).Delete"
	kTxRepoStore   = "(*internal/repository/transaction.Repo).Store"
	kTxRepoOldest  = "(*internal/repository/transaction.Repo).Oldest"
	kCoreDeleteTx  = "(*internal/usecase/core.UseCase).DeleteTx"
	kCoreDeleteOld = "(*internal/usecase/core.UseCase).DeleteOld"
)

func propC03(p *Prog, r *Report) {
	r.Rule("C03.a", "one Badger transaction per commit: in UpdateTx every version write lies inside the function literal passed to the unique, loop-free RunTransaction call, and every repository call inside the literal receives the literal's own context parameter (the one carrying the Badger transaction), never the captured outer context")
	r.Rule("C03.b", "transaction-in-context agreement: the dynamic type stored by Manager.RunTransaction under the context key equals the type Manager.DB asserts under the same key, the callback runs synchronously inside db.Update, and the repositories reach the query manager only through Provider.DB(ctx) with their own ctx")
	r.Rule("C03.c", "conflict guard (order-type table): the assignment of ErrTxSerialization is controlled by a condition that is true iff the filter carries a snapshot point and the committed latest version of the key is newer than it (tie is don't-care; no committed version = no conflict); the isolation level -> filter table of Commit is C02.a")
	r.Rule("C03.d", "no publication after a conflict: while the serialization error may be pending neither RunTransaction nor storeToTx is reachable")
	r.Rule("C03.e", "publish only after durable: the in-memory publication is reachable only on the err == nil edge of RunTransaction")
	r.Rule("C03.f", "a failed commit discards everything: the deferred hand-over of the transaction's versions to the delete list is registered before the first version is popped, and it is disarmed (files = nil) only after RunTransaction succeeded")
	r.NotDecided = []string{"the iff over whole histories", "visibility to concurrent readers beyond C07/C08"}
	r.Assume = []string{"Badger Update commits atomically or not at all"}

	c03Batch(p, r, "C03.a")
	c03Guard(p, r)
	c03AfterConflict(p, r)
	r.Rule("C03.g", "the commit stamp reaches what is published: inside the RunTransaction literal the stamp is stored into elements of the very slice that is written to Badger and then published in memory (an assignment to a loop copy is reported)")
	c03StampReachesPublished(p, r, "C03.g")
}

// litParamCtx returns the context parameter object of a function literal.
func litParamCtx(info *types.Info, lit *ast.FuncLit) types.Object {
	for _, fld := range lit.Type.Params.List {
		for _, nm := range fld.Names {
			if o := info.Defs[nm]; o != nil && strings.HasSuffix(o.Type().String(), "context.Context") {
				return o
			}
		}
	}
	return nil
}

func insideLoop(body ast.Node, n ast.Node) bool {
	in := false
	ast.Inspect(body, func(x ast.Node) bool {
		switch l := x.(type) {
		case *ast.ForStmt:
			if n.Pos() >= l.Body.Pos() && n.End() <= l.Body.End() {
				in = true
			}
		case *ast.RangeStmt:
			if n.Pos() >= l.Body.Pos() && n.End() <= l.Body.End() {
				in = true
			}
		}
		return true
	})
	return in
}

func c03Batch(p *Prog, r *Report, rule string) {
	fi := p.Func(kUpdateTx)
	if fi == nil {
		r.Undecided(rule, kUpdateTx, "", "core.UpdateTx not found")
		return
	}
	info := fi.Pkg.TypesInfo
	// the commit is analysed with its same-package helpers spliced in: the rule is about what runs inside the
	// callback of RunTransaction, wherever the statements are written
	f := p.FlatInl(fi)
	var runs []*ast.CallExpr
	runNode := -1
	for _, n := range f.Nodes {
		if n.Ast == nil {
			continue
		}
		for _, c := range callsIn(n.Ast, false) {
			if p.callIs(fi.Pkg, c, kRepoRunTx) {
				runs = append(runs, c)
				runNode = n.ID
			}
		}
	}
	if len(runs) != 1 {
		r.Viol(rule, kUpdateTx+"#single-transaction", p.pos(fi.Decl), fmt.Sprintf("UpdateTx has %d RunTransaction calls: the commit is not one Badger transaction", len(runs)))
		return
	}
	run := runs[0]
	r.Check(!f.ReachableAfter(runNode, setOf([]int{runNode}), nil), rule, kUpdateTx+"#single-transaction", p.pos(run), "unique RunTransaction outside every loop", "RunTransaction sits inside a loop: one Badger transaction per key, a crash leaves part of the commit")
	cb := p.callbackOf(fi, run)
	if cb == nil {
		r.Undecided(rule, kUpdateTx+"#literal", p.pos(run), "RunTransaction's callback is neither a function literal nor a function of the module")
		return
	}
	cf := p.FlatInl(cb)
	setPred := p.keysPred(kFileRepoSet)
	// every version write inside the callback
	n := 0
	for _, id := range f.NodesMay(setPred) {
		n++
		r.Viol(rule, fmt.Sprintf("%s#write-in-batch/outside%d", kUpdateTx, n), p.pos(f.Nodes[id].Ast), "a version record is written outside the commit's Badger transaction: a crash can leave a partial commit")
	}
	inside := cf.NodesMay(setPred)
	for i, id := range inside {
		r.Hold(rule, fmt.Sprintf("%s#write-in-batch/%d", kUpdateTx, i+1), p.pos(cf.Nodes[id].Ast), "version write inside the RunTransaction callback")
	}
	if len(inside) == 0 {
		r.Viol(rule, kUpdateTx+"#write-in-batch", p.pos(run), "the commit writes no version record at all")
	}
	var ctxParam types.Object
	for _, o := range paramObjs(cb) {
		if o != nil && strings.HasSuffix(o.Type().String(), "context.Context") {
			ctxParam = o
		}
	}
	if ctxParam == nil {
		r.Viol(rule, kUpdateTx+"#literal-ctx", p.pos(run), "the callback has no context parameter: the Badger transaction cannot reach the repository")
	} else {
		m := 0
		for _, gn := range cf.Nodes {
			if gn.Ast == nil {
				continue
			}
			for _, c := range callsIn(gn.Ast, false) {
				if len(c.Args) == 0 {
					continue
				}
				tv, ok := info.Types[c.Args[0]]
				if !ok || !strings.HasSuffix(tv.Type.String(), "context.Context") {
					continue
				}
				product := false
				for _, k := range p.calleeKeys(fi.Pkg, c) {
					if p.Funcs[k] != nil {
						product = true
					}
				}
				if !product {
					continue
				}
				m++
				r.Check(cf.CanonObj(objOf(info, c.Args[0])) == ctxParam, rule, fmt.Sprintf("%s#literal-ctx/%d", kUpdateTx, m), p.pos(c), "receives the callback's ctx",
					"a repository call inside the commit batch receives the outer context: it bypasses the Badger transaction and is applied on its own")
			}
		}
	}
	// C03.b
	c03CtxAgreement(p, r, strings.Replace(rule, ".a", ".b", 1))
}

func c03CtxAgreement(p *Prog, r *Report, rule string) {
	run, db := p.Func(kMgrRunTx), p.Func(kMgrDB)
	if run == nil || db == nil {
		r.Undecided(rule, "badger.Manager", "", "RunTransaction/DB not found")
		return
	}
	info := run.Pkg.TypesInfo
	// stored: context.WithValue(ctx, K{}, v)
	var storedKey, storedVal types.Type
	var storePos ast.Node
	var fnParam types.Object
	for _, fld := range run.Decl.Type.Params.List {
		for _, nm := range fld.Names {
			if o := info.Defs[nm]; o != nil {
				if _, isSig := o.Type().Underlying().(*types.Signature); isSig {
					fnParam = o
				}
			}
		}
	}
	syncCall, asyncCall := false, false
	// (the context helpers may be functions of the package: withTxn / txnFrom)
	deepBodies := func(fi *FuncInfo) []*ast.BlockStmt { return p.deepBodies(fi) }
	_ = func(fi *FuncInfo) []*ast.BlockStmt {
		res := []*ast.BlockStmt{fi.Decl.Body}
		seen := map[string]bool{fi.Key: true}
		for depth, frontier := 0, []*FuncInfo{fi}; depth < 2; depth++ {
			var next []*FuncInfo
			for _, g := range frontier {
				ast.Inspect(g.Decl.Body, func(x ast.Node) bool {
					if c, ok := x.(*ast.CallExpr); ok {
						if h := p.staticCallee(g.Pkg, c); h != nil && h.Pkg == fi.Pkg && !seen[h.Key] && h.Decl != nil && h.Decl.Body != nil {
							seen[h.Key] = true
							res = append(res, h.Decl.Body)
							next = append(next, h)
						}
					}
					return true
				})
			}
			frontier = next
		}
		return res
	}
	for _, body := range deepBodies(run) {
		ast.Inspect(body, func(x ast.Node) bool {
			switch s := x.(type) {
			case *ast.GoStmt:
				if objOf(info, s.Call.Fun) == fnParam {
					asyncCall = true
				}
			case *ast.CallExpr:
				if isFunc(info, s, "context", "WithValue") && len(s.Args) == 3 {
					storedKey, storedVal, storePos = info.Types[s.Args[1]].Type, info.Types[s.Args[2]].Type, s
				}
				if objOf(info, s.Fun) == fnParam && fnParam != nil {
					syncCall = true
				}
			}
			return true
		})
	}
	var askedKey, askedVal types.Type
	var askPos ast.Node
	dinfo := db.Pkg.TypesInfo
	for _, body := range deepBodies(db) {
		ast.Inspect(body, func(x ast.Node) bool {
			if ta, ok := x.(*ast.TypeAssertExpr); ok && ta.Type != nil {
				if c, ok := ast.Unparen(ta.X).(*ast.CallExpr); ok {
					if sel, ok := c.Fun.(*ast.SelectorExpr); ok && sel.Sel.Name == "Value" && len(c.Args) == 1 {
						askedKey, askedVal, askPos = dinfo.Types[c.Args[0]].Type, dinfo.Types[ta.Type].Type, ta
					}
				}
			}
			return true
		})
	}
	// the assertion may sit in a generic helper (txnValue[T](ctx)): the type DB asks for is the type argument of
	// its call
	if tp, isTP := askedVal.(*types.TypeParam); isTP {
		ast.Inspect(db.Decl.Body, func(x ast.Node) bool {
			c, ok := x.(*ast.CallExpr)
			if !ok {
				return true
			}
			var id *ast.Ident
			switch f := ast.Unparen(c.Fun).(type) {
			case *ast.Ident:
				id = f
			case *ast.IndexExpr:
				id, _ = ast.Unparen(f.X).(*ast.Ident)
			case *ast.IndexListExpr:
				id, _ = ast.Unparen(f.X).(*ast.Ident)
			}
			if id == nil {
				return true
			}
			if inst, ok := dinfo.Instances[id]; ok && inst.TypeArgs != nil && tp.Index() < inst.TypeArgs.Len() {
				askedVal = inst.TypeArgs.At(tp.Index())
			}
			return true
		})
	}
	if storedKey == nil || askedKey == nil {
		r.Undecided(rule, "badger.Manager#ctx-txn", p.pos(run.Decl), "context.WithValue / ctx.Value(...).(T) not found")
		return
	}
	r.Check(types.Identical(storedKey, askedKey), rule, "badger.Manager#ctx-key", p.pos(storePos), "RunTransaction and DB use key type "+shorten(storedKey.String()),
		"RunTransaction stores the Badger transaction under "+shorten(storedKey.String())+" but DB looks it up under "+shorten(askedKey.String())+": DB silently falls back to the non-transactional manager")
	r.Check(types.Identical(storedVal, askedVal), rule, "badger.Manager#ctx-type", p.pos(askPos), "stored and asserted type "+shorten(storedVal.String()),
		"RunTransaction stores a "+shorten(storedVal.String())+" but DB asserts "+shorten(askedVal.String())+": the assertion fails and every write of a commit is applied on its own")
	r.Check(syncCall && !asyncCall, rule, kMgrRunTx+"#synchronous", p.pos(run.Decl), "the callback is called synchronously inside db.Update", "the callback is not called synchronously inside the Badger transaction")
	// repositories use p.DB(ctx) with their own ctx
	n := 0
	for _, pk := range []string{"internal/repository/file", "internal/repository/content_file"} {
		for k, fi := range p.Funcs {
			if shortPath(fi.Pkg.PkgPath) != pk || fi.Decl.Body == nil {
				continue
			}
			finfo := fi.Pkg.TypesInfo
			var ctxParam types.Object
			for _, fld := range fi.Decl.Type.Params.List {
				for _, nm := range fld.Names {
					if o := finfo.Defs[nm]; o != nil && strings.HasSuffix(o.Type().String(), "context.Context") {
						ctxParam = o
					}
				}
			}
			ast.Inspect(fi.Decl.Body, func(x ast.Node) bool {
				c, ok := x.(*ast.CallExpr)
				if !ok {
					return true
				}
				isQM := false
				for _, ck := range p.calleeKeys(fi.Pkg, c) {
					if strings.HasPrefix(ck, "(internal/db/badger.QueryManager).") || strings.HasPrefix(ck, "(*internal/db/badger.Manager).Set") ||
						strings.HasPrefix(ck, "(*internal/db/badger.Manager).Get") || strings.HasPrefix(ck, "(*internal/db/badger.Manager).Delete") {
						isQM = true
					}
				}
				if !isQM {
					return true
				}
				n++
				sel, _ := c.Fun.(*ast.SelectorExpr)
				good := false
				if sel != nil {
					isDB := func(e ast.Expr) bool {
						dc, ok := ast.Unparen(e).(*ast.CallExpr)
						return ok && p.callIs(fi.Pkg, dc, kMgrDB, "(internal/db/badger.Provider).DB") && len(dc.Args) == 1 && objOf(finfo, dc.Args[0]) == ctxParam && ctxParam != nil
					}
					if isDB(sel.X) {
						good = true
					}
					// ... or a local that holds it: db := r.p.DB(ctx)
					if o := objOf(finfo, sel.X); o != nil {
						if d := singleDef(finfo, fi.Decl.Body, o); d != nil && isDB(d) {
							good = true
						}
					}
					// ... or a field of a per-call value that is built from DB(ctx) with the caller's context and used
					// at once: r.records(ctx).drop(id) with records(ctx) = parentRecords{r.p.DB(ctx)}
					if fsel, isSel := ast.Unparen(sel.X).(*ast.SelectorExpr); isSel && !good {
						if fv, isF := finfo.Uses[fsel.Sel].(*types.Var); isF && fv.IsField() {
							good = p.perCallQueryField(fi.Pkg, fv)
						}
					}
				}
				r.Check(good, rule, k+"#via-DB(ctx)", p.pos(c), "query manager obtained from DB(ctx)", "the repository does not obtain the query manager from DB(ctx) with its own context: the write escapes the commit's Badger transaction")
				return true
			})
		}
	}
	r.Floor(rule, "repository-query-sites", n, 6)
}

func c03Guard(p *Prog, r *Report) {
	fi := p.Func(kUpdateTx)
	if fi == nil {
		return
	}
	info := fi.Pkg.TypesInfo
	// the assignment / return of ErrTxSerialization and its controlling if (or the if that raises the flag
	// under which it is returned)
	ifs := conflictIf(info, fi.Decl.Body)
	cons := kUpdateTx + "#conflict-guard"
	if ifs == nil {
		// the guard may have been extracted into a package-local helper: evaluate the helper as a whole
		if c03GuardInHelper(p, r, fi, cons) {
			return
		}
		r.Viol("C03.c", cons, p.pos(fi.Decl), "UpdateTx never produces ErrTxSerialization: a write-write conflict commits silently")
		return
	}
	// filter parameter
	var filterObj types.Object
	for _, fld := range fi.Decl.Type.Params.List {
		for _, nm := range fld.Names {
			if o := info.Defs[nm]; o != nil && strings.HasSuffix(o.Type().String(), "model.FileFilter") {
				filterObj = o
			}
		}
	}
	type row struct {
		Snapshot string `json:"snapshot_point"`
		Latest   int64  `json:"committed_latest_seq"`
		Conflict bool   `json:"conflict"`
	}
	var rows []row
	good := true
	detail := ""
	for _, snap := range []int64{-1, 5} {
		for _, latest0 := range []int64{0, 3, 5, 7, 100 + 0, 100 + 3, 100 + 5, 100 + 7} {
			// (second half: the transaction's own write of the key is newer than everything, 8, instead of older, 4 -
			// the answer must not depend on it)
			latest, own := latest0%100, int64(4)
			if latest0 >= 100 {
				own = 8
			}
			env := &Env{P: p, Pkg: fi.Pkg, Vars: map[types.Object]*Val{}, Body: fi.Decl.Body, RangeOnce: true}
			fv := &Val{Fields: map[string]*Val{"TxId": {Nil: true}, "BeforeSeq": {Nil: true}}}
			if snap >= 0 {
				fv.Fields["BeforeSeq"] = &Val{Ptr: intVal(snap)}
			}
			if filterObj != nil {
				env.Vars[filterObj] = fv
			}
			env.Hook = func(env *Env, e ast.Expr) (*Val, bool) {
				if c, ok := e.(*ast.CallExpr); ok && env.Pkg == fi.Pkg && p.callIs(fi.Pkg, c, kFileLatest) {
					return &Val{Fields: map[string]*Val{"Seq": intVal(latest)}}, true
				}
				// a local declared without a value and assigned once (var bound Seq; if bounded { bound = *filter.BeforeSeq })
				if id, ok := e.(*ast.Ident); ok && env.Pkg == fi.Pkg {
					if o, isVar := objOf(info, id).(*types.Var); isVar && !o.IsField() && env.Vars[o] == nil && o.Pos() > fi.Decl.Pos() && o.Pos() < fi.Decl.End() {
						if rhs := singleAssignedIn(info, fi.Decl.Body, o); rhs != nil {
							if _, bad := rhs.(*ast.BadExpr); !bad {
								if _, isLit := ast.Unparen(rhs).(*ast.FuncLit); !isLit {
									return env.eval(rhs), true
								}
							}
						}
					}
				}
				// the version the transaction itself wrote (n.V() of the popped node)
				if c, ok := e.(*ast.CallExpr); ok && env.Pkg == fi.Pkg && p.callIs(fi.Pkg, c, "(*internal/model/core.Node).V") {
					return &Val{Fields: map[string]*Val{"Seq": intVal(own), "Key": strVal("k")}}, true
				}
				return nil, false
			}
			v, err := env.Eval(ifs.Cond)
			if err != nil || v.C == nil {
				r.Undecided("C03.c", cons, p.pos(ifs.Cond), fmt.Sprintf("guard not evaluable: %v", err))
				return
			}
			got := constant.BoolVal(v.C)
			s := "none"
			if snap >= 0 {
				s = fmt.Sprint(snap)
			}
			rows = append(rows, row{s, latest, got})
			if snap >= 0 && latest == snap {
				continue // tie: a commit stamp never equals a begin stamp
			}
			want := snap >= 0 && latest > snap
			if got != want {
				good = false
				detail = fmt.Sprintf("snapshot point %s, committed latest %d, own write %d: conflict=%v, required %v", s, latest, own, got, want)
			}
		}
	}
	r.Tables["conflict_guard"] = rows
	r.Check(good, "C03.c", cons, p.pos(ifs.Cond), "conflict iff snapshot point set and committed latest is newer", detail)
	// the latest consulted is that of the destination (main) store for the key of the iteration
	usesDest := false
	// readsLatestOf: the subtree calls <store>.File(key).Latest() on the given store variable
	readsLatestOf := func(pkg *packages.Package, root ast.Node, skip func(ast.Node) bool, store types.Object) bool {
		found := false
		ast.Inspect(root, func(x ast.Node) bool {
			if skip != nil && skip(x) {
				return false
			}
			if c, ok := x.(*ast.CallExpr); ok && p.callIs(pkg, c, kFileLatest) {
				if sel, ok := c.Fun.(*ast.SelectorExpr); ok {
					if fc, ok := ast.Unparen(sel.X).(*ast.CallExpr); ok && p.callIs(pkg, fc, "(*internal/model/core.Transaction).File") {
						if s2, ok := fc.Fun.(*ast.SelectorExpr); ok {
							if o := objOf(pkg.TypesInfo, s2.X); o != nil && o == store {
								found = true
							}
						}
					}
				}
			}
			return true
		})
		return found
	}
	dest := c03DestStore(p, fi)
	usesDest = dest != nil && readsLatestOf(fi.Pkg, ifs, func(x ast.Node) bool { return x == ifs.Body || (ifs.Else != nil && x == ifs.Else) }, dest)
	if !usesDest && dest != nil {
		// the test was computed before the loop by a helper that is handed the destination store:
		//   conflict := hasNewerVersion(newTx, tx, snapshot); ... if conflict { err = ErrTxSerialization }
		ast.Inspect(ifs.Cond, func(x ast.Node) bool {
			id, ok := x.(*ast.Ident)
			if !ok {
				return true
			}
			o := objOf(info, id)
			if o == nil {
				return true
			}
			if rhs := singleDefIn(info, fi.Decl.Body, o); rhs != nil {
				if c, ok := ast.Unparen(rhs).(*ast.CallExpr); ok {
					if h := p.staticCallee(fi.Pkg, c); h != nil && h.Pkg == fi.Pkg {
						args := argExprs(c, h)
						for i, po := range paramObjs(h) {
							if po != nil && i >= 0 && args[i] != nil && objOf(info, args[i]) == dest && readsLatestOf(h.Pkg, h.Decl.Body, nil, po) {
								usesDest = true
							}
						}
					}
				}
			}
			return true
		})
	}
	r.Check(usesDest, "C03.c", cons+"/destination", p.pos(ifs.Cond), "the guard reads the destination store's latest version of the key", "the conflict guard does not read the latest committed version of the destination store")
}

// c03DestStore returns the variable holding the destination (new) transaction store in UpdateTx: the one
// obtained from txStore.Get(newTxId) where newTxId is the second id parameter.
func c03DestStore(p *Prog, fi *FuncInfo) types.Object {
	info := fi.Pkg.TypesInfo
	var res types.Object
	var ids []types.Object
	for _, fld := range fi.Decl.Type.Params.List {
		for _, nm := range fld.Names {
			if o := info.Defs[nm]; o != nil {
				if bt, ok := o.Type().(*types.Basic); ok && bt.Kind() == types.String {
					ids = append(ids, o)
				}
			}
		}
	}
	if len(ids) < 2 {
		return nil
	}
	ast.Inspect(fi.Decl.Body, func(x ast.Node) bool {
		if as, ok := x.(*ast.AssignStmt); ok && len(as.Rhs) == 1 {
			if c, ok := ast.Unparen(as.Rhs[0]).(*ast.CallExpr); ok && p.callIs(fi.Pkg, c, "(*internal/model/core.Transactions).Get") && len(c.Args) == 1 && objOf(info, c.Args[0]) == ids[1] {
				res = objOf(info, as.Lhs[0])
			} else if ok {
				// a get-or-create helper of the package called with the destination id
				if h := p.staticCallee(fi.Pkg, c); h != nil && h.Pkg == fi.Pkg && h.Decl != nil && h.Decl.Body != nil {
					args := argExprs(c, h)
					ast.Inspect(h.Decl.Body, func(y ast.Node) bool {
						hc, ok := y.(*ast.CallExpr)
						if !ok || len(hc.Args) != 1 || !p.callIs(h.Pkg, hc, "(*internal/model/core.Transactions).Get") {
							return true
						}
						for i, po := range paramObjs(h) {
							if po != nil && objOf(h.Pkg.TypesInfo, hc.Args[0]) == po && args[i] != nil && objOf(info, args[i]) == ids[1] {
								res = objOf(info, as.Lhs[0])
							}
						}
						return true
					})
				}
			}
		}
		return true
	})
	return res
}

func c03AfterConflict(p *Prog, r *Report) {
	fi := p.Func(kUpdateTx)
	if fi == nil {
		return
	}
	// (the draining, the deferred hand-over and the named results may live one layer down: commitLocked)
	fi = p.drainRoot(fi)
	info := fi.Pkg.TypesInfo
	f := p.FlatInlExcept(fi, kStoreToTx)
	// conflict assignment nodes
	var conflicts []callSite
	for _, n := range f.Nodes {
		if as, ok := n.Ast.(*ast.AssignStmt); ok && len(as.Rhs) == 1 && len(as.Lhs) == 1 && exprObjKey(info, as.Rhs[0]) == "fs_db.ErrTxSerialization" {
			conflicts = append(conflicts, callSite{Node: n.ID, ErrVar: objOf(info, as.Lhs[0]), Kind: "assigned"})
		}
	}
	// a conflict verdict obtained from a helper call
	for call := range conflictHelpers(p, fi) {
		for _, n := range f.Nodes {
			if n.Ast != nil && n.Ast.Pos() <= call.Pos() && call.End() <= n.Ast.End() {
				bs := f.bindOf(n, call)
				if bs.Kind == "assigned" {
					conflicts = append(conflicts, bs)
				}
			}
		}
	}
	for _, c := range conflicts {
		res := f.errorConsumed(fi, c.Node, c.ErrVar, flowOpts{Class: true})
		r.Check(res.OK, "C03.d", kUpdateTx+"#conflict-verdict-kept", p.pos(f.Nodes[c.Node].Ast), "a conflict verdict is never overwritten or dropped before it is returned",
			"the conflict verdict of one key can be lost ("+res.Detail+" at "+res.Pos+"): a commit that must fail with ErrTxSerialization succeeds when a later key does not conflict")
	}
	runs := f.CallSites(kRepoRunTx)
	pubs := f.CallNodes(kStoreToTx)
	var targets []int
	for _, s := range runs {
		targets = append(targets, s.Node)
	}
	targets = append(targets, pubs...)
	// a verdict held in a local and then transferred (err = cErr) is gated through the variable it was transferred to
	var gateSites []callSite
	for _, c := range conflicts {
		st := f.ErrStatesFrom(c.Node, c.ErrVar)
		transferred := false
		for _, n := range f.Nodes {
			as, ok := n.Ast.(*ast.AssignStmt)
			if !ok || len(as.Lhs) != 1 || len(as.Rhs) != 1 || len(st.at(n.ID)) == 0 || n.ID == c.Node {
				continue
			}
			if keeps, mentions, _ := keepsClass(info, as.Rhs[0], c.ErrVar); keeps && mentions {
				if w := objOf(info, as.Lhs[0]); w != nil && w != c.ErrVar {
					gateSites = append(gateSites, callSite{Node: n.ID, ErrVar: w, Kind: "assigned"})
					transferred = true
				}
			}
		}
		if !transferred {
			gateSites = append(gateSites, c)
		}
	}
	for _, c := range gateSites {
		ok, t, st := f.GatedBy(c, targets)
		pos := p.pos(f.Nodes[c.Node].Ast)
		via := ""
		if t >= 0 {
			via = p.pos(f.Nodes[t].Ast)
		}
		r.Check(ok, "C03.d", kUpdateTx+"#no-publication-after-conflict", pos, "neither the Badger batch nor the publication is reachable with the conflict pending",
			"after a detected conflict the commit can still be written/published ("+strings.Join(st, ",")+")", via)
	}
	if len(conflicts) == 0 {
		// conflict reported by a direct return: nothing can follow
		r.Hold("C03.d", kUpdateTx+"#no-publication-after-conflict", p.pos(fi.Decl), "no pending-conflict state (direct return)")
	}
	// C03.e
	if len(runs) == 1 && len(pubs) > 0 {
		ok, _, st := f.GatedBy(runs[0], pubs)
		pre := true
		for _, pn := range pubs {
			if !f.MustPrecede(setOf([]int{runs[0].Node}), pn) {
				pre = false
			}
		}
		r.Check(ok && pre, "C03.e", kUpdateTx+"#publish-after-durable", p.pos(runs[0].Call), "publication only on the err == nil edge of RunTransaction",
			"the in-memory publication is reachable although the Badger transaction failed or has not run ("+strings.Join(st, ",")+")")
	} else {
		r.Viol("C03.e", kUpdateTx+"#publish-after-durable", p.pos(fi.Decl), fmt.Sprintf("%d RunTransaction, %d publication sites", len(runs), len(pubs)))
	}
	// C03.f: deferred hand-over registered before the first pop; disarmed only after success
	var deferNode []int
	var filesObj types.Object
	for _, n := range f.Nodes {
		ds, ok := n.Ast.(*ast.DeferStmt)
		if !ok {
			continue
		}
		lit, ok := ds.Call.Fun.(*ast.FuncLit)
		if !ok {
			continue
		}
		ast.Inspect(lit.Body, func(x ast.Node) bool {
			if as, ok := x.(*ast.AssignStmt); ok && len(as.Rhs) == 1 {
				if c, ok := ast.Unparen(as.Rhs[0]).(*ast.CallExpr); ok {
					if id, ok := c.Fun.(*ast.Ident); ok && id.Name == "append" && c.Ellipsis.IsValid() && len(c.Args) == 2 {
						// appended to a named result of the function
						if lo := objOf(info, as.Lhs[0]); lo != nil && isNamedResult(fi, lo) {
							deferNode = append(deferNode, n.ID)
							filesObj = objOf(info, c.Args[1])
						}
					}
				}
			}
			return true
		})
	}
	pops := f.CallNodes("(*internal/model/core.file).PopBack", "(*internal/model/core.file).PopFront")
	if (len(deferNode) == 0 || filesObj == nil) && len(pops) > 0 && len(pubs) > 0 {
		// no deferred hand-over: the function may say at each return what it hands to the cleaner. With A the lists
		// that receive popped versions and P the published slice: a return after the publication hands over
		// A without P (the committed contents stay), every other return after a pop hands over all of A.
		if pubSlice := publishedSlicePath(p, fi, f); pubSlice != "" {
			A := map[string]bool{}
			for _, n := range f.Nodes {
				as, ok := n.Ast.(*ast.AssignStmt)
				if !ok || n.Synth != "" || len(as.Lhs) != 1 || len(as.Rhs) != 1 {
					continue
				}
				c, ok := ast.Unparen(as.Rhs[0]).(*ast.CallExpr)
				if !ok {
					continue
				}
				if id, ok := c.Fun.(*ast.Ident); !ok || id.Name != "append" {
					continue
				}
				lp := f.rawPath(as.Lhs[0])
				if lp == "" || len(c.Args) < 2 || f.rawPath(c.Args[0]) != lp {
					continue
				}
				// lists of versions only (not the list of nodes to unlink)
				if tv, ok := info.Types[as.Lhs[0]]; !ok || !strings.HasSuffix(tv.Type.String(), "model.File") {
					continue
				}
				after := false
				for _, pn := range pops {
					if f.ReachableAfter(pn, setOf([]int{n.ID}), nil) {
						after = true
					}
				}
				if after {
					A[lp] = true
				}
			}
			explicit := len(A) > 0 && A[pubSlice]
			okFail, okSucc := true, true
			badFail, badSucc := "", ""
			nRet := 0
			for _, id := range f.ReturnNodes() {
				rs := f.returnStmt(id)
				if rs == nil || len(rs.Results) < 1 {
					explicit = false
					continue
				}
				C := listPaths(p, fi, f, rs.Results[0])
				afterPub, afterPop := false, false
				for _, pn := range pubs {
					// (nil-facts: the failure return of a publishing helper is not reachable from its loop)
					if f.ReachNil(f.succsOf(pn), nil)[id] {
						afterPub = true
					}
				}
				for _, pn := range pops {
					if f.ReachableAfter(pn, setOf([]int{id}), nil) {
						afterPop = true
					}
				}
				if !afterPop {
					continue
				}
				nRet++
				// a return that can follow the publication is judged as a success return only when it cannot
				// also be reached without it (the failure returns of the publishing helper come before its loop)
				for lp := range A {
					if afterPub && lp == pubSlice {
						if C[lp] {
							okSucc, badSucc = false, p.pos(rs)
						}
						continue
					}
					if !C[lp] {
						name := lp[:strings.Index(lp+"@", "@")]
						if i := strings.LastIndex(lp, "."); i >= 0 {
							name += lp[i:]
						}
						okFail, badFail = false, p.pos(rs)+" (without "+name+")"
					}
				}
			}
			if explicit && nRet > 0 {
				r.Check(okFail, "C03.f", kUpdateTx+"#discard-on-failure", p.pos(fi.Decl), "every return after a pop hands all popped versions (the published ones excepted after a successful publication) to the delete list",
					"a return hands over only part of the versions taken out of the transaction: "+badFail+"; after a failed commit their contents are never removed")
				r.Check(okSucc, "C03.f", kUpdateTx+"#disarm-after-success", p.pos(fi.Decl), "the published versions are not handed to the cleaner after a successful commit",
					"the return after the publication ("+badSucc+") hands the versions just committed to the cleaner: their contents are removed")
				return
			}
		}
		r.Undecided("C03.f", kUpdateTx+"#discard-on-failure", p.pos(fi.Decl), "the transaction's versions are handed to the delete list in a form the rule does not follow")
		return
	}
	if len(deferNode) == 0 || filesObj == nil {
		r.Viol("C03.f", kUpdateTx+"#discard-on-failure", p.pos(fi.Decl), "no deferred hand-over of the transaction's versions to the returned delete list: after a failed commit their contents are never removed")
		return
	}
	okPre := len(pops) > 0
	for _, pn := range pops {
		if !f.MustPrecede(setOf(deferNode), pn) {
			okPre = false
		}
	}
	r.Check(okPre, "C03.f", kUpdateTx+"#discard-on-failure", p.pos(f.Nodes[deferNode[0]].Ast), "hand-over registered before the first pop", "versions can be popped before the deferred hand-over is registered: an early return loses them")
	// disarm: files = nil, or a boolean flag that the deferred hand-over tests (if !published { append })
	var disarm []int
	for _, n := range f.Nodes {
		if as, ok := n.Ast.(*ast.AssignStmt); ok && len(as.Lhs) == 1 && len(as.Rhs) == 1 && objOf(info, as.Lhs[0]) == filesObj && isNilIdent(info, as.Rhs[0]) {
			disarm = append(disarm, n.ID)
		}
	}
	if len(disarm) == 0 {
		var flag types.Object
		negated := false
		for _, dn := range deferNode {
			ds, _ := f.Nodes[dn].Ast.(*ast.DeferStmt)
			if ds == nil {
				continue
			}
			ast.Inspect(ds, func(x ast.Node) bool {
				ifs, ok := x.(*ast.IfStmt)
				if !ok {
					return true
				}
				appends := false
				ast.Inspect(ifs.Body, func(y ast.Node) bool {
					if c, ok := y.(*ast.CallExpr); ok {
						if id, ok := c.Fun.(*ast.Ident); ok && id.Name == "append" && c.Ellipsis.IsValid() {
							appends = true
						}
					}
					return true
				})
				if !appends {
					return true
				}
				cond := ast.Unparen(ifs.Cond)
				if u, ok := cond.(*ast.UnaryExpr); ok && u.Op == token.NOT {
					cond, negated = ast.Unparen(u.X), true
				}
				if o := objOf(info, cond); o != nil {
					if bt, ok := o.Type().Underlying().(*types.Basic); ok && bt.Kind() == types.Bool {
						flag = o
					}
				}
				return true
			})
		}
		if flag != nil {
			for _, n := range f.Nodes {
				as, ok := n.Ast.(*ast.AssignStmt)
				if !ok || len(as.Lhs) != 1 || len(as.Rhs) != 1 || objOf(info, as.Lhs[0]) != flag {
					continue
				}
				// the assignment that switches the hand-over off: flag = true for "if !flag", false for "if flag"
				if tv, ok := info.Types[as.Rhs[0]]; ok && tv.Value != nil && (tv.Value.ExactString() == "true") == negated {
					disarm = append(disarm, n.ID)
				}
			}
		}
	}
	if len(disarm) == 0 {
		r.Viol("C03.f", kUpdateTx+"#disarm-after-success", p.pos(fi.Decl), "the hand-over is never disarmed: the versions just committed are handed to the cleaner and their contents removed")
	} else if len(runs) == 1 {
		ok, _, st := f.GatedBy(runs[0], disarm)
		pre := true
		for _, d := range disarm {
			if !f.MustPrecede(setOf([]int{runs[0].Node}), d) {
				pre = false
			}
		}
		r.Check(ok && pre, "C03.f", kUpdateTx+"#disarm-after-success", p.pos(f.Nodes[disarm[0]].Ast), "files = nil only after RunTransaction succeeded",
			"the hand-over is disarmed although the commit may have failed ("+strings.Join(st, ",")+"): the contents of a failed commit are never reclaimed")
	}
}

func isNamedResult(fi *FuncInfo, o types.Object) bool {
	res := fi.Obj.Type().(*types.Signature).Results()
	for i := 0; i < res.Len(); i++ {
		if res.At(i) == o {
			return true
		}
	}
	return false
}

// conflictHelpers: package-local functions called by UpdateTx that can produce ErrTxSerialization directly.
func conflictHelpers(p *Prog, fi *FuncInfo) map[*ast.CallExpr]*FuncInfo {
	res := map[*ast.CallExpr]*FuncInfo{}
	ast.Inspect(fi.Decl.Body, func(x ast.Node) bool {
		c, ok := x.(*ast.CallExpr)
		if !ok {
			return true
		}
		for _, k := range p.calleeKeys(fi.Pkg, c) {
			h := p.Funcs[k]
			if h == nil || h.Pkg != fi.Pkg || h == fi || h.Decl.Body == nil {
				continue
			}
			direct := false
			ast.Inspect(h.Decl.Body, func(y ast.Node) bool {
				if e, ok := y.(ast.Expr); ok && exprObjKey(h.Pkg.TypesInfo, e) == "fs_db.ErrTxSerialization" {
					direct = true
				}
				return true
			})
			if direct {
				res[c] = h
			}
		}
		return true
	})
	return res
}

// c03GuardInHelper evaluates a conflict predicate that lives in a helper function (seeded C03-A / C07-B shape).
func c03GuardInHelper(p *Prog, r *Report, fi *FuncInfo, cons string) bool {
	helpers := conflictHelpers(p, fi)
	if len(helpers) == 0 {
		return false
	}
	dest := c03DestStore(p, fi)
	for call, h := range helpers {
		info := h.Pkg.TypesInfo
		f := p.FlatOf(h)
		var filterObj types.Object
		destParam := -1
		i := 0
		var params []types.Object
		for _, fld := range h.Decl.Type.Params.List {
			for _, nm := range fld.Names {
				o := info.Defs[nm]
				params = append(params, o)
				if o != nil && strings.HasSuffix(o.Type().String(), "model.FileFilter") {
					filterObj = o
				}
				if i < len(call.Args) && dest != nil && objOf(fi.Pkg.TypesInfo, call.Args[i]) == dest {
					destParam = i
				}
				i++
			}
		}
		good := true
		detail := ""
		for _, snap := range []int64{-1, 5} {
			for _, latest := range []int64{0, 3, 7} {
				env := &Env{P: p, Pkg: h.Pkg, Vars: map[types.Object]*Val{}}
				fv := &Val{Fields: map[string]*Val{"TxId": {Nil: true}, "BeforeSeq": {Nil: true}}}
				if snap >= 0 {
					fv.Fields["BeforeSeq"] = &Val{Ptr: intVal(snap)}
				}
				if filterObj != nil {
					env.Vars[filterObj] = fv
				}
				for _, o := range params {
					if o != nil && o != filterObj {
						if _, isSeq := env.Vars[o]; !isSeq && strings.HasSuffix(o.Type().String(), "sequence.Seq") {
							if snap >= 0 {
								env.Vars[o] = &Val{Ptr: intVal(snap)}
							} else {
								env.Vars[o] = &Val{Nil: true}
							}
						}
					}
				}
				env.Hook = func(env *Env, e ast.Expr) (*Val, bool) {
					if c, ok := e.(*ast.CallExpr); ok && env.Pkg == h.Pkg && p.callIs(h.Pkg, c, kFileLatest) {
						return &Val{Fields: map[string]*Val{"Seq": intVal(latest)}}, true
					}
					return nil, false
				}
				_, exit, err := f.WalkPath(env)
				if err != nil {
					// the helper is more than the predicate (it loops over the keys): the guard is the condition
					// of the if statement under which the verdict is produced
					if hifs := conflictIf(info, h.Decl.Body); hifs != nil {
						// the verdict is produced under one if statement of the helper (inside its loop over the
						// keys): its condition is the guard
						v, err := env.Eval(hifs.Cond)
						if err != nil || v.C == nil {
							r.Undecided("C03.c", cons, p.pos(hifs.Cond), fmt.Sprintf("guard of %s not evaluable: %v", h.Key, err))
							return true
						}
						got := constant.BoolVal(v.C)
						want := snap >= 0 && latest > snap
						if got != want {
							good = false
							detail = fmt.Sprintf("snapshot point %d, committed latest %d: conflict=%v, required %v", snap, latest, got, want)
						}
						continue
					}
					r.Undecided("C03.c", cons, p.pos(h.Decl), "conflict helper "+h.Key+" not evaluable: "+err.Error())
					return true
				}
				got := false
				if rs := f.returnStmt(exit); rs != nil && len(rs.Results) > 0 {
					got = strings.Contains(valueKey(info, rs.Results[len(rs.Results)-1]), "fs_db.ErrTxSerialization")
				}
				want := snap >= 0 && latest > snap
				if got != want {
					good = false
					detail = fmt.Sprintf("snapshot point %d, committed latest %d: conflict=%v, required %v", snap, latest, got, want)
				}
			}
		}
		r.Check(good, "C03.c", cons, p.pos(h.Decl), "conflict helper "+h.Key+": conflict iff snapshot point set and committed latest is newer", detail)
		r.Check(destParam >= 0, "C03.c", cons+"/destination", p.pos(call), "the helper is given the destination store", "the conflict helper is not given the destination store")
	}
	return true
}

// conflictIf finds the if statement whose body assigns or returns ErrTxSerialization.
func conflictIf(info *types.Info, body *ast.BlockStmt) *ast.IfStmt {
	ifs := conflictIf0(info, body)
	if ifs == nil {
		return nil
	}
	// the verdict may be kept in a boolean flag: if <guard> { conflict = true } ... if conflict { return Err }
	if o := objOf(info, ast.Unparen(ifs.Cond)); o != nil {
		if bt, ok := o.Type().Underlying().(*types.Basic); ok && bt.Kind() == types.Bool {
			var setter *ast.IfStmt
			ast.Inspect(body, func(x ast.Node) bool {
				s, ok := x.(*ast.IfStmt)
				if !ok || s == ifs {
					return true
				}
				for _, b := range s.Body.List {
					if as, ok := b.(*ast.AssignStmt); ok && len(as.Lhs) == 1 && len(as.Rhs) == 1 && objOf(info, as.Lhs[0]) == o {
						if tv, ok := info.Types[as.Rhs[0]]; ok && tv.Value != nil && tv.Value.ExactString() == "true" {
							setter = s
						}
					}
				}
				return true
			})
			if setter != nil {
				return setter
			}
		}
	}
	return ifs
}

func conflictIf0(info *types.Info, body *ast.BlockStmt) *ast.IfStmt {
	var ifs *ast.IfStmt
	ast.Inspect(body, func(x ast.Node) bool {
		// a clause of a tagless switch is an if: switch { case conflict: return ..., ErrTxSerialization }
		if sw, ok := x.(*ast.SwitchStmt); ok && sw.Tag == nil && sw.Init == nil {
			for _, cl := range sw.Body.List {
				cc, ok := cl.(*ast.CaseClause)
				if !ok || len(cc.List) != 1 {
					continue
				}
				x = &ast.IfStmt{If: cc.Pos(), Cond: cc.List[0], Body: &ast.BlockStmt{Lbrace: cc.Colon, List: cc.Body, Rbrace: cc.End()}}
				if s := x.(*ast.IfStmt); true {
					for _, b := range s.Body.List {
						if as, ok := b.(*ast.AssignStmt); ok && len(as.Rhs) == 1 && exprObjKey(info, as.Rhs[0]) == "fs_db.ErrTxSerialization" {
							ifs = s
						}
						if rs, ok := b.(*ast.ReturnStmt); ok {
							for _, e := range rs.Results {
								if strings.Contains(valueKey(info, e), "fs_db.ErrTxSerialization") {
									ifs = s
								}
							}
						}
					}
				}
			}
			return true
		}
		if s, ok := x.(*ast.IfStmt); ok {
			for _, b := range s.Body.List {
				if as, ok := b.(*ast.AssignStmt); ok && len(as.Rhs) == 1 && exprObjKey(info, as.Rhs[0]) == "fs_db.ErrTxSerialization" {
					ifs = s
				}
				if rs, ok := b.(*ast.ReturnStmt); ok {
					for _, e := range rs.Results {
						if strings.Contains(valueKey(info, e), "fs_db.ErrTxSerialization") {
							ifs = s
						}
					}
				}
			}
		}
		return true
	})
	return ifs
}

// deepBodies: the body of fi and of the functions of its package it calls statically (two levels).
func (p *Prog) deepBodies(fi *FuncInfo) []*ast.BlockStmt {
	res := []*ast.BlockStmt{fi.Decl.Body}
	seen := map[string]bool{fi.Key: true}
	for depth, frontier := 0, []*FuncInfo{fi}; depth < 2; depth++ {
		var next []*FuncInfo
		for _, g := range frontier {
			ast.Inspect(g.Decl.Body, func(x ast.Node) bool {
				if c, ok := x.(*ast.CallExpr); ok {
					if h := p.staticCallee(g.Pkg, c); h != nil && h.Pkg == fi.Pkg && !seen[h.Key] && h.Decl != nil && h.Decl.Body != nil {
						seen[h.Key] = true
						res = append(res, h.Decl.Body)
						next = append(next, h)
					}
				}
				return true
			})
		}
		frontier = next
	}
	return res
}

// drainRoot: the function that takes the versions out of the per-key lists. Usually fi itself; when fi only
// prepares (registry, locks) and hands over to a helper of the package that holds the pop loops, that helper.
func (p *Prog) drainRoot(fi *FuncInfo) *FuncInfo {
	pops := func(g *FuncInfo) bool {
		found := false
		walkNoLit(g.Decl.Body, func(x ast.Node) bool {
			if c, ok := x.(*ast.CallExpr); ok && p.callIs(g.Pkg, c, "(*internal/model/core.file).PopBack", "(*internal/model/core.file).PopFront") {
				found = true
			}
			return !found
		})
		return found
	}
	if pops(fi) {
		return fi
	}
	seen := map[string]bool{fi.Key: true}
	frontier := []*FuncInfo{fi}
	for depth := 0; depth < 2; depth++ {
		var next []*FuncInfo
		for _, g := range frontier {
			var hit *FuncInfo
			walkNoLit(g.Decl.Body, func(x ast.Node) bool {
				if c, ok := x.(*ast.CallExpr); ok && hit == nil {
					if h := p.staticCallee(g.Pkg, c); h != nil && h.Pkg == fi.Pkg && !seen[h.Key] && h.Decl.Body != nil {
						seen[h.Key] = true
						// (a helper that only empties the lists into a collection, while unlinking and publishing
						// happen in its siblings, is a stage: the rules then read the function that runs the stages)
						if pops(h) && p.funcCallsDeep(h, p.keysPred(kNodeDeleteLink)) {
							hit = h
						} else {
							next = append(next, h)
						}
					}
				}
				return true
			})
			if hit != nil {
				return hit
			}
		}
		frontier = next
	}
	return fi
}

// perCallQueryField: the field holds a query manager obtained per call: every value of the field's struct type is
// built (in the package) by a function that takes a context and sets the field from DB(that context); every call of
// such a builder hands on the calling function's own context parameter, and its result is used at once (as the
// receiver of a call, or kept in a local) - never stored in a field or a package-level variable.
func (p *Prog) perCallQueryField(pkg *packages.Package, fv *types.Var) bool {
	info := pkg.TypesInfo
	// the struct type that declares the field
	var owner *types.Named
	for _, n := range pkg.Types.Scope().Names() {
		if tn, ok := pkg.Types.Scope().Lookup(n).(*types.TypeName); ok {
			if st, ok := tn.Type().Underlying().(*types.Struct); ok {
				for i := 0; i < st.NumFields(); i++ {
					if st.Field(i) == fv {
						owner, _ = tn.Type().(*types.Named)
					}
				}
			}
		}
	}
	if owner == nil {
		return false
	}
	builders := map[*FuncInfo]bool{}
	okAll, built := true, 0
	for _, k := range sortedFuncKeys(p) {
		fi := p.Funcs[k]
		if fi.Pkg != pkg || fi.Decl == nil || fi.Decl.Body == nil {
			continue
		}
		var ctxParam types.Object
		for _, o := range paramObjs(fi) {
			if o != nil && strings.HasSuffix(o.Type().String(), "context.Context") {
				ctxParam = o
			}
		}
		ast.Inspect(fi.Decl.Body, func(x ast.Node) bool {
			cl, ok := x.(*ast.CompositeLit)
			if !ok {
				return true
			}
			tv, ok := info.Types[cl]
			if !ok || !types.Identical(tv.Type, owner) {
				return true
			}
			built++
			// the value given to the field
			var val ast.Expr
			st := owner.Underlying().(*types.Struct)
			for i, el := range cl.Elts {
				if kv, isKV := el.(*ast.KeyValueExpr); isKV {
					if id, isId := kv.Key.(*ast.Ident); isId && info.Uses[id] == fv {
						val = kv.Value
					}
				} else if i < st.NumFields() && st.Field(i) == fv {
					val = el
				}
			}
			dc, isCall := ast.Unparen(val).(*ast.CallExpr)
			if val == nil || !isCall || !p.callIs(pkg, dc, kMgrDB, "(internal/db/badger.Provider).DB") || len(dc.Args) != 1 || ctxParam == nil || objOf(info, dc.Args[0]) != ctxParam {
				okAll = false
				return true
			}
			builders[fi] = true
			return true
		})
		// the field assigned outside a literal: not a per-call value
		ast.Inspect(fi.Decl.Body, func(x ast.Node) bool {
			if as, ok := x.(*ast.AssignStmt); ok {
				for _, l := range as.Lhs {
					if sel, ok := l.(*ast.SelectorExpr); ok && info.Uses[sel.Sel] == fv {
						okAll = false
					}
				}
			}
			return true
		})
	}
	if !okAll || built == 0 {
		return false
	}
	// every call of a builder: own context, used at once
	for _, k := range sortedFuncKeys(p) {
		fi := p.Funcs[k]
		if fi.Pkg != pkg || fi.Decl == nil || fi.Decl.Body == nil {
			continue
		}
		var ctxParam types.Object
		for _, o := range paramObjs(fi) {
			if o != nil && strings.HasSuffix(o.Type().String(), "context.Context") {
				ctxParam = o
			}
		}
		var stack []ast.Node
		ast.Inspect(fi.Decl.Body, func(x ast.Node) bool {
			if x == nil {
				stack = stack[:len(stack)-1]
				return true
			}
			stack = append(stack, x)
			c, ok := x.(*ast.CallExpr)
			if !ok {
				return true
			}
			callee := p.staticCallee(pkg, c)
			if callee == nil || !builders[callee] {
				return true
			}
			ownCtx := false
			for _, a := range c.Args {
				if ctxParam != nil && objOf(info, a) == ctxParam {
					ownCtx = true
				}
			}
			if !ownCtx {
				okAll = false
			}
			// the parent: a selector (method call on the result) or a define of a local
			if len(stack) >= 2 {
				switch par := stack[len(stack)-2].(type) {
				case *ast.SelectorExpr:
				case *ast.AssignStmt:
					for _, l := range par.Lhs {
						if _, isId := l.(*ast.Ident); !isId {
							okAll = false
						}
					}
				case *ast.ReturnStmt:
					if !builders[fi] {
						okAll = false
					}
				default:
					okAll = false
				}
			}
			return true
		})
	}
	return okAll
}
