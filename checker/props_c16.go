package main

// C16 Worker pool: every accepted job exactly once, clean stop.

import (
	"fmt"
	"go/ast"
	"go/token"
	"go/types"
	"sort"
	"strings"
)

func init() { register("C16", propC16) }

const (
	pkgWpool      = "internal/utils/wpool"
	kPoolNew      = "internal/utils/wpool.New"
	kPoolRun      = "(*internal/utils/wpool.Pool).Run"
	kPoolStop     = "(*internal/utils/wpool.Pool).Stop"
	kPoolSend     = "(*internal/utils/wpool.Pool).Send"
	kPoolSched    = "(*internal/utils/wpool.Pool).Sched"
	kPoolLazySend = "(*internal/utils/wpool.Pool).lazySend"
	kPoolResend   = "(*internal/utils/wpool.Pool).lazyResend"
	kPoolrun      = "(*internal/utils/wpool.Pool).run"
	kPoolExec     = "(*internal/utils/wpool.Pool).exec"
	clsListM      = "internal/utils/wpool.Pool.listM"
	clsFlusher    = "internal/utils/wpool.Pool.lazySendM"
	clsRunM       = "internal/utils/wpool.Pool.runM"
)

func propC16(p *Prog, r *Report) {
	r.Rule("C16.a", "single-flusher hand-off: the producer pushes the deferred job and try-locks the flusher flag inside one region of the queue lock; on the flusher's 'queue empty' path the flag is released while the queue lock is still held since the pop (or the queue is re-examined after the release); otherwise a producer can push and fail the try-lock between the flusher's last pop and its unlock, and the job is stranded")
	r.Rule("C16.b", "usable before Run: every interface- or func-typed field of Pool that an exported method (or a goroutine it spawns) calls through is assigned by the constructor, or the use is dominated by evidence that Run happened (a failed try-lock of the running flag)")
	r.Rule("C16.c", "stop order: cancel -> sendWg.Wait -> runWg.Wait -> close(ch) on the running path of Stop; Stop never returns holding the running flag")
	r.Rule("C16.d", "registration ordered with Stop: Send tests the pool context and then registers in sendWg inside a region of a lock that Stop holds in write mode while it cancels (and does not hold while it waits), so a positive Add can never meet a Wait that found the counter at zero; Done is deferred before any blocking step; the flusher's Add(1) precedes its go statement; runWg.Add(1) precedes each go p.run(), which defers Done")
	r.Rule("C16.e", "bounded blocking: every send on the job channel is a select case next to <-ctx.Done(); no channel operation, WaitGroup.Wait or Cond.Wait happens while the queue lock is held")
	r.Rule("C16.f", "exactly-once structure: jobs enter the channel from exactly two sites (Send and the flusher); a deferred job is popped from the queue before it is sent; each receive is followed by exactly one exec")
	r.Rule("C16.g", "in both constructors (inline db.New, app.New) Pool().Run precedes every other use of the pool")
	r.NotDecided = []string{"execution counts under concrete schedules", "promptness in wall-clock terms"}
	r.Assume = []string{"sync.Mutex.TryLock, context and channel semantics"}

	c16Handoff(p, r)
	c16FlagReleasedOnEveryExit(p, r, "C16.a")
	c16BeforeRun(p, r)
	c16StopOrder(p, r)
	c16Registration(p, r)
	c16Blocking(p, r)
	c16Structure(p, r)
	c15RunFirst(p, r, "C16.g")
	r.Rule("C16.h", "an accepted job is never given up by Send: the only Done channel its select waits on is the pool's own context")
	c16SendKeepsAcceptedJobs(p, r, "C16.h")
}

// goBody is the body of a goroutine a function starts: a function literal, or a function / method of the
// module started by name.
type goBody struct {
	FI   *FuncInfo
	Body *ast.BlockStmt
	Pos  ast.Node
}

func (p *Prog) goBodies(fi *FuncInfo) []goBody {
	res := p.goBodiesIn(fi)
	if len(res) == 0 {
		// the goroutine is started by a helper of the package that fi calls (startFlusher)
		seen := map[string]bool{fi.Key: true}
		frontier := []*FuncInfo{fi}
		for depth := 0; depth < 2 && len(res) == 0; depth++ {
			var next []*FuncInfo
			for _, g := range frontier {
				ast.Inspect(g.Decl.Body, func(x ast.Node) bool {
					if c, ok := x.(*ast.CallExpr); ok {
						if h := p.staticCallee(g.Pkg, c); h != nil && h.Pkg == fi.Pkg && !seen[h.Key] && h.Decl.Body != nil {
							seen[h.Key] = true
							next = append(next, h)
							res = append(res, p.goBodiesIn(h)...)
						}
					}
					return true
				})
			}
			frontier = next
		}
	}
	return res
}

func (p *Prog) goBodiesIn(fi *FuncInfo) []goBody {
	var res []goBody
	n := 0
	ast.Inspect(fi.Decl.Body, func(x ast.Node) bool {
		if g, ok := x.(*ast.GoStmt); ok {
			if l, ok := g.Call.Fun.(*ast.FuncLit); ok {
				n++
				res = append(res, goBody{FI: fi.LitInfo(l, n), Body: l.Body, Pos: l})
			} else if callee := p.staticCallee(fi.Pkg, g.Call); callee != nil {
				res = append(res, goBody{FI: callee, Body: callee.Decl.Body, Pos: callee.Decl})
			}
		}
		return true
	})
	return res
}

func c16Handoff(p *Prog, r *Report) {
	ls, rs := p.Func(kPoolLazySend), p.Func(kPoolResend)
	if ls == nil || rs == nil {
		r.Undecided("C16.a", "wpool", "", "lazySend / lazyResend not found")
		return
	}
	// producer side: push and try-lock in one listM region
	lr := p.LockFlow(ls, nil)
	var pushHeld, tryHeld []Held
	pushN, tryN := 0, 0
	var pushCall, tryCall *ast.CallExpr
	for _, ev := range lr.Events {
		if ev.Kind == "call" {
			for _, k := range ev.Keys {
				if k == "(*internal/model/core.List).PushBack" {
					pushHeld, pushCall = ev.Held, ev.Call
					pushN++
				}
				if k == kPoolResend {
					tryHeld, tryCall = ev.Held, ev.Call
					tryN++
				}
			}
		}
		if ev.Kind == "acquire" && ev.Op.Class == clsFlusher {
			tryHeld, tryCall = ev.Held, ev.Call
			tryN++
		}
	}
	ok := pushN > 0 && tryN > 0 && holdsClass(pushHeld, clsListM, "W") && holdsClass(tryHeld, clsListM, "W")
	if ok {
		// no release of listM between push and try
		f := p.FlatOf(ls)
		var pn, tn []int
		for _, n := range f.Nodes {
			if n.Ast == nil {
				continue
			}
			if pushCall != nil && n.Ast.Pos() <= pushCall.Pos() && pushCall.End() <= n.Ast.End() {
				pn = append(pn, n.ID)
			}
			if tryCall != nil && n.Ast.Pos() <= tryCall.Pos() && tryCall.End() <= n.Ast.End() {
				tn = append(tn, n.ID)
			}
		}
		rel := f.Match(func(n *GNode) bool {
			if _, d := n.Ast.(*ast.DeferStmt); d {
				return false
			}
			for _, c := range callsIn(n.Ast, false) {
				if op := p.lockOpOf(ls.Pkg, c); op != nil && !op.Acquire && op.Class == clsListM {
					return true
				}
			}
			return false
		})
		for _, a := range pn {
			for _, x := range rel {
				if f.ReachableAfter(a, setOf([]int{x}), nil) && f.ReachableAfter(x, setOf(tn), nil) {
					ok = false
				}
			}
		}
	}
	r.Check(ok, "C16.a", kPoolLazySend+"#producer", p.pos(ls.Decl), "push and try-lock of the flusher flag in one queue-lock region",
		"the producer does not push the job and try-lock the flusher flag inside one region of the queue lock")
	// the try-lock itself must be taken under listM in lazyResend when called from lazySend: lazyResend has no listM ops itself
	// flusher side
	lits := p.goBodies(rs)
	if len(lits) != 1 {
		r.Undecided("C16.a", kPoolResend+"#flusher", p.pos(rs.Decl), fmt.Sprintf("%d goroutines started in lazyResend", len(lits)))
		return
	}
	lit := lits[0].Pos
	info := rs.Pkg.TypesInfo
	f := p.FlatInl(lits[0].FI)
	// pop node and its result variable
	var popNode = -1
	var popVar types.Object
	for _, n := range f.Nodes {
		as, ok := n.Ast.(*ast.AssignStmt)
		if !ok || len(as.Rhs) != 1 {
			continue
		}
		if c, ok := ast.Unparen(as.Rhs[0]).(*ast.CallExpr); ok && p.callIs(rs.Pkg, c, "(*internal/model/core.List).PopBack", "(*internal/model/core.List).PopFront") {
			popNode, popVar = n.ID, objOf(info, as.Lhs[0])
		}
	}
	if popNode < 0 {
		r.Undecided("C16.a", kPoolResend+"#flusher", p.pos(lit), "queue pop not found in the flusher")
		return
	}
	// nil edge successors
	var nilStart []int
	for _, n := range f.Nodes {
		if !n.IsCond {
			continue
		}
		e := isNilCompare(info, n.Ast.(ast.Expr))
		if e == nil || objOf(info, e) != popVar {
			continue
		}
		be := ast.Unparen(n.Ast.(ast.Expr)).(*ast.BinaryExpr)
		want := 1
		if be.Op == token.NEQ {
			want = 2
		}
		for _, ed := range n.Succs {
			if ed.Label == want {
				nilStart = append(nilStart, ed.To)
			}
		}
	}
	if len(nilStart) == 0 {
		r.Undecided("C16.a", kPoolResend+"#flusher", p.pos(lit), "no 'queue empty' test on the pop result")
		return
	}
	isRel := func(n *GNode, class string) bool {
		if n.Ast == nil {
			return false
		}
		if _, d := n.Ast.(*ast.DeferStmt); d {
			return false
		}
		for _, c := range callsIn(n.Ast, false) {
			if op := p.lockOpOf(rs.Pkg, c); op != nil && !op.Acquire && op.Class == class {
				return true
			}
		}
		return false
	}
	relF := f.Match(func(n *GNode) bool { return isRel(n, clsFlusher) })
	relQ := f.Match(func(n *GNode) bool { return isRel(n, clsListM) })
	// is listM held at the nil test? (released before it -> the observation is already outside the region)
	qReleasedBeforeTest := false
	for _, q := range relQ {
		if f.ReachableAfter(popNode, setOf([]int{q}), nil) {
			// q lies after the pop; does it lie before the nil test on every path? if it precedes any nilStart node
			for _, s := range nilStart {
				if f.MustPrecede(setOf([]int{q}), s) {
					qReleasedBeforeTest = true
				}
			}
		}
	}
	// idiom A: on the nil path the flag release precedes every queue-lock release and every exit
	nilReach := f.Reach(nilStart, nil, nil)
	idiomA := !qReleasedBeforeTest && len(relF) > 0
	if idiomA {
		sub := f.Reach(nilStart, func(n *GNode) bool { return setOf(relF)[n.ID] }, nil)
		for _, s := range nilStart {
			if setOf(relF)[s] {
				delete(sub, s)
			}
		}
		for id := range sub {
			n := f.Nodes[id]
			if n.Exit || isRel(n, clsListM) {
				idiomA = false
			}
		}
	}
	// idiom B: after the flag release on the nil path the queue is popped again
	idiomB := false
	for _, x := range relF {
		if nilReach[x] && f.ReachableAfter(x, setOf([]int{popNode}), nil) {
			idiomB = true
		}
	}
	r.Check(idiomA || idiomB, "C16.a", kPoolResend+"#flusher", p.pos(f.Nodes[popNode].Ast), "on the 'queue empty' path the flusher flag is released inside the queue-lock region of the pop (or the queue is re-examined)",
		"the flusher observes an empty queue, leaves the queue lock and releases its flag afterwards: a producer that pushes and fails the try-lock in between strands its job until some later deferred Send")
}

// assignedInCtor: fields of Pool assigned in New (composite literal keys or assignments).
func poolCtorFields(p *Prog) map[string]bool {
	res := map[string]bool{}
	fi := p.Func(kPoolNew)
	if fi == nil {
		return res
	}
	info := fi.Pkg.TypesInfo
	ast.Inspect(fi.Decl.Body, func(x ast.Node) bool {
		switch s := x.(type) {
		case *ast.CompositeLit:
			if tv, ok := info.Types[s]; ok && strings.HasSuffix(tv.Type.String(), "wpool.Pool") {
				for _, el := range s.Elts {
					if kv, ok := el.(*ast.KeyValueExpr); ok {
						if id, ok := kv.Key.(*ast.Ident); ok {
							res[id.Name] = true
						}
					}
				}
			}
		case *ast.AssignStmt:
			for _, l := range s.Lhs {
				if sel, ok := l.(*ast.SelectorExpr); ok {
					if fv, ok := info.Uses[sel.Sel].(*types.Var); ok && fv.IsField() {
						res[sel.Sel.Name] = true
					}
				}
			}
		}
		return true
	})
	return res
}

func c16BeforeRun(p *Prog, r *Report) {
	ctor := poolCtorFields(p)
	n := 0
	for _, k := range []string{kPoolSend, kPoolSched, kPoolStop, kPoolRun} {
		fi := p.Func(k)
		if fi == nil {
			r.Undecided("C16.b", k, "", "not found")
			continue
		}
		info := fi.Pkg.TypesInfo
		f := p.FlatInl(fi)
		// calls through interface- or func-typed fields of Pool: p.F.M(...) or p.F(...)
		fieldOf := func(c *ast.CallExpr) *ast.SelectorExpr {
			var fieldSel *ast.SelectorExpr
			if sel, ok := c.Fun.(*ast.SelectorExpr); ok {
				if inner, ok := ast.Unparen(sel.X).(*ast.SelectorExpr); ok {
					fieldSel = inner
				}
				if fv, ok := info.Uses[sel.Sel].(*types.Var); ok && fv.IsField() {
					fieldSel = sel
				}
			}
			if fieldSel == nil {
				return nil
			}
			fv, ok := info.Uses[fieldSel.Sel].(*types.Var)
			if !ok || !fv.IsField() {
				return nil
			}
			switch fv.Type().Underlying().(type) {
			case *types.Interface, *types.Signature:
			default:
				return nil
			}
			if tv, ok := info.Types[fieldSel.X]; !ok || !strings.HasSuffix(tv.Type.String(), "wpool.Pool") {
				return nil
			}
			return fieldSel
		}
		type use struct {
			sel  *ast.SelectorExpr
			call *ast.CallExpr
			node int // node of the exported method's (inlined) graph at which the use happens or is started
		}
		var uses []use
		// uses inside helpers that are not inlined (started as goroutines, deferred, nested in expressions) count at their call site
		var deep func(callee *FuncInfo, node int, open map[string]bool)
		scan := func(root ast.Node, node int, open map[string]bool) {
			ast.Inspect(root, func(x ast.Node) bool {
				c, ok := x.(*ast.CallExpr)
				if !ok {
					return true
				}
				if fs := fieldOf(c); fs != nil {
					uses = append(uses, use{fs, c, node})
				}
				if callee := p.staticCallee(fi.Pkg, c); callee != nil && callee.Pkg == fi.Pkg && !open[callee.Key] {
					deep(callee, node, open)
				}
				return true
			})
		}
		deep = func(callee *FuncInfo, node int, open map[string]bool) {
			open[callee.Key] = true
			scan(callee.Decl.Body, node, open)
			delete(open, callee.Key)
		}
		for _, gn := range f.Nodes {
			if gn.Ast != nil {
				scan(gn.Ast, gn.ID, map[string]bool{fi.Key: true})
			}
		}
		verdict := map[string]bool{}
		first := map[string]*ast.CallExpr{}
		var names []string
		for _, u := range uses {
			fv := info.Uses[u.sel.Sel].(*types.Var)
			name := fv.Name()
			if _, ok := verdict[name]; !ok {
				verdict[name] = true
				first[name] = u.call
				names = append(names, name)
				n++
			}
			if ctor[name] {
				continue
			}
			// dominated by a failed try-lock of the running flag (Stop) or assigned earlier in this function (Run)
			useNode := u.node
			dominated := false
			{
				// assigned earlier on every path
				as := f.Match(func(gn *GNode) bool {
					if a, ok := gn.Ast.(*ast.AssignStmt); ok {
						for _, l := range a.Lhs {
							if s, ok := l.(*ast.SelectorExpr); ok && info.Uses[s.Sel] == fv {
								return true
							}
						}
					}
					return false
				})
				if len(as) > 0 && f.MustPrecede(setOf(as), useNode) {
					dominated = true
				}
				// failed try-lock: remove the true edges of TryLock(runM) conditions; use must stay reachable only through them
				g := f.WithoutEdges(func(from *GNode, e Edge) bool {
					if !from.IsCond {
						return false
					}
					cond := ast.Unparen(from.Ast.(ast.Expr))
					neg := false
					if u, ok := cond.(*ast.UnaryExpr); ok && u.Op == token.NOT {
						neg, cond = true, ast.Unparen(u.X)
					}
					if cc, ok := cond.(*ast.CallExpr); ok {
						if op := p.lockOpOf(fi.Pkg, cc); op != nil && op.Try && op.Class == clsRunM {
							failed := 2
							if neg {
								failed = 1
							}
							return e.Label == failed
						}
					}
					return false
				})
				hasTry := false
				for _, gn := range f.Nodes {
					if gn.IsCond {
						for _, cc := range callsIn(gn.Ast, false) {
							if op := p.lockOpOf(fi.Pkg, cc); op != nil && op.Try && op.Class == clsRunM {
								hasTry = true
							}
						}
					}
				}
				if hasTry && !g.Reach([]int{g.Entry}, nil, nil)[useNode] {
					dominated = true
				}
			}
			if !dominated {
				verdict[name] = false
				first[name] = u.call
			}
		}
		for _, name := range names {
			cons := k + "#uses p." + name
			if ctor[name] {
				r.Hold("C16.b", cons, p.pos(first[name]), "assigned by the constructor")
				continue
			}
			r.Check(verdict[name], "C16.b", cons, p.pos(first[name]), "use dominated by an assignment or by evidence that Run happened",
				fmt.Sprintf("%s calls through p.%s, which only Run assigns: before the first Run the field is nil and the call panics", k, name))
		}
	}
	r.Floor("C16.b", "uses-of-lifecycle-fields", n, 3)
}

func c16StopOrder(p *Prog, r *Report) {
	fi := p.Func(kPoolStop)
	if fi == nil {
		r.Undecided("C16.c", kPoolStop, "", "Stop not found")
		return
	}
	info := fi.Pkg.TypesInfo
	// helpers of Stop and closures run by a locking helper are spliced in
	f := p.FlatInl(fi)
	find := func(pred func(c *ast.CallExpr) bool) []int {
		return f.Match(func(n *GNode) bool {
			if _, d := n.Ast.(*ast.DeferStmt); d {
				return false
			}
			for _, c := range callsIn(n.Ast, false) {
				if pred(c) {
					return true
				}
			}
			return false
		})
	}
	fieldCall := func(field, method string) func(c *ast.CallExpr) bool {
		return func(c *ast.CallExpr) bool {
			sel, ok := c.Fun.(*ast.SelectorExpr)
			if !ok {
				return false
			}
			if method == "" {
				return sel.Sel.Name == field
			}
			if sel.Sel.Name != method {
				return false
			}
			inner, ok := ast.Unparen(sel.X).(*ast.SelectorExpr)
			return ok && inner.Sel.Name == field
		}
	}
	cancel := find(fieldCall(poolFields.Cancel, ""))
	sendW := find(fieldCall(poolFields.SendWg, "Wait"))
	runW := find(fieldCall(poolFields.RunWg, "Wait"))
	closeCh := find(func(c *ast.CallExpr) bool {
		id, ok := c.Fun.(*ast.Ident)
		if !ok || id.Name != "close" {
			return false
		}
		_, isB := info.Uses[id].(*types.Builtin)
		return isB
	})
	steps := []struct {
		name string
		ids  []int
	}{{"cancel()", cancel}, {"sendWg.Wait()", sendW}, {"runWg.Wait()", runW}, {"close(ch)", closeCh}}
	for i := 0; i+1 < len(steps); i++ {
		a, b := steps[i], steps[i+1]
		cons := fmt.Sprintf("%s#%s before %s", kPoolStop, a.name, b.name)
		if len(a.ids) == 0 || len(b.ids) == 0 {
			r.Viol("C16.c", cons, p.pos(fi.Decl), "step missing in Stop")
			continue
		}
		ok := true
		for _, t := range b.ids {
			if !f.MustPrecede(setOf(a.ids), t) {
				ok = false
			}
		}
		r.Check(ok, "C16.c", cons, p.pos(f.Nodes[b.ids[0]].Ast), "ordered on every path", b.name+" can happen before "+a.name+": workers or senders may still use the channel / context")
	}
	// once the context is cancelled, Stop returns only after both waits: a return between the cancel and a wait
	// lets Stop return while jobs are still running (and leaves the channel open for jobs that start later)
	for _, w := range []struct {
		name string
		ids  []int
	}{{"sendWg.Wait()", sendW}, {"runWg.Wait()", runW}} {
		if len(cancel) == 0 || len(w.ids) == 0 {
			continue
		}
		ws := setOf(w.ids)
		reach := f.Reach(f.succsOf(cancel...), func(x *GNode) bool { return ws[x.ID] }, nil)
		bad := ""
		for _, e := range f.Exits() {
			if reach[e] && !f.isNoReturnExit(f.Nodes[e]) {
				bad = p.pos(f.Nodes[e].Ast)
			}
		}
		r.Check(bad == "", "C16.c", kPoolStop+"#no-return-between-cancel-and-"+w.name, p.pos(fi.Decl), "every return after the cancel passes "+w.name,
			"Stop can return at "+bad+" after cancelling the pool context without "+w.name+": it returns while accepted jobs are still running, and jobs still buffered can start after it has returned")
	}
	lr := p.LockFlow(fi, nil)
	held := false
	for _, hs := range lr.Exits {
		if holdsClass(hs, clsRunM, "W") {
			held = true
		}
	}
	r.Check(!held, "C16.c", kPoolStop+"#flag-released", p.pos(fi.Decl), "Stop never returns holding the running flag", "Stop can return with the running flag held: the pool can never be run again and the next Stop deadlocks")
}

func c16Registration(p *Prog, r *Report) {
	isWGf := func(info *types.Info, c *ast.CallExpr, field, method string) bool {
		sel, ok := c.Fun.(*ast.SelectorExpr)
		if !ok || sel.Sel.Name != method {
			return false
		}
		fn, ok := info.Uses[sel.Sel].(*types.Func)
		if !ok || fkey(fn) != "(*sync.WaitGroup)."+method {
			return false
		}
		inner, ok := ast.Unparen(sel.X).(*ast.SelectorExpr)
		return ok && inner.Sel.Name == field
	}
	// Send
	if fi := p.Func(kPoolSend); fi != nil {
		info := fi.Pkg.TypesInfo
		f := p.FlatInl(fi)
		var addEv, errEv *LockEvent
		for _, ev := range p.DeepLockEvents(fi, nil, 2) {
			if ev.Kind != "call" || ev.Call == nil {
				continue
			}
			if isWGf(info, ev.Call, poolFields.SendWg, "Add") && addEv == nil {
				addEv = ev
			}
			if sel, ok := ev.Call.Fun.(*ast.SelectorExpr); ok && sel.Sel.Name == "Err" && errEv == nil {
				if inner, ok := ast.Unparen(sel.X).(*ast.SelectorExpr); ok && inner.Sel.Name == poolFields.Ctx {
					errEv = ev
				}
			}
		}
		stop := p.Func(kPoolStop)
		var cancelHeld, waitHeld []Held
		cancelN, waitN := 0, 0
		if stop != nil {
			sinfo := stop.Pkg.TypesInfo
			for _, ev := range p.DeepLockEvents(stop, nil, 2) {
				if ev.Kind != "call" || ev.Call == nil {
					continue
				}
				if sel, ok := ev.Call.Fun.(*ast.SelectorExpr); ok && sel.Sel.Name == poolFields.Cancel {
					cancelHeld, cancelN = ev.Held, cancelN+1
				}
				if isWGf(sinfo, ev.Call, poolFields.SendWg, "Wait") {
					waitHeld, waitN = ev.Held, waitN+1
				}
			}
		}
		cons := kPoolSend + "#registration-ordered-with-stop"
		if addEv == nil || errEv == nil || cancelN == 0 || waitN == 0 {
			r.Viol("C16.d", cons, p.pos(fi.Decl), "Send's sendWg.Add / pool-context test or Stop's cancel / sendWg.Wait not found")
		} else {
			// a lock class L: Add and the context test under L (any mode) in Send, cancel under W(L) in Stop, Wait without L
			common := ""
			for _, h := range addEv.Held {
				inErr, inCancelW, inWait := false, false, false
				for _, g := range errEv.Held {
					if g.Class == h.Class {
						inErr = true
					}
				}
				for _, g := range cancelHeld {
					if g.Class == h.Class && g.Mode == "W" {
						inCancelW = true
					}
				}
				for _, g := range waitHeld {
					if g.Class == h.Class {
						inWait = true
					}
				}
				if inErr && inCancelW && !inWait {
					common = h.Class
				}
			}
			// the test precedes the Add in the same region
			addNode, errNode := f.NodeContaining(addEv.Call), f.NodeContaining(errEv.Call)
			testFirst := addNode >= 0 && errNode >= 0 && f.MustPrecede(setOf([]int{errNode}), addNode)
			r.Check(common != "" && testFirst, "C16.d", cons, p.pos(addEv.Call), "Send tests the pool context and registers in sendWg under "+common+", Stop cancels under its write lock and waits outside it",
				fmt.Sprintf("Send's sendWg.Add(1) is not ordered against Stop's sendWg.Wait(): Add holds %s, the context test holds %s, Stop cancels under %s. A Send that registers after Stop found the counter at zero misuses the WaitGroup and panics (\"WaitGroup is reused before previous Wait has returned\"), or registers after Stop has passed the wait", heldString(addEv.Held), heldString(errEv.Held), heldString(cancelHeld)))
		}
		// Done deferred before any blocking step
		var blocking []int
		for _, n := range f.Nodes {
			if n.Ast == nil {
				continue
			}
			if _, isSend := n.Ast.(*ast.SendStmt); isSend {
				blocking = append(blocking, n.ID)
			}
			for _, c := range callsIn(n.Ast, false) {
				if p.callIs(fi.Pkg, c, kPoolLazySend) {
					blocking = append(blocking, n.ID)
				}
			}
		}
		deferred := false
		for _, n := range f.Nodes {
			if ds, ok := n.Ast.(*ast.DeferStmt); ok && isWGf(info, ds.Call, poolFields.SendWg, "Done") {
				deferred = true
				for _, t := range blocking {
					if !f.MustPrecede(setOf([]int{n.ID}), t) {
						deferred = false
					}
				}
			}
		}
		// every path that registered passes the deferred Done
		r.Check(deferred, "C16.d", kPoolSend+"#done-deferred", p.pos(fi.Decl), "sendWg.Done is deferred before any blocking step", "Send can block or return without a deferred sendWg.Done: Stop blocks forever")
	} else {
		r.Undecided("C16.d", kPoolSend, "", "not found")
	}
	// flusher
	if fi := p.Func(kPoolResend); fi != nil {
		info := fi.Pkg.TypesInfo
		// (the goroutine may be started by a helper the function calls: spliced in)
		f := p.FlatInl(fi)
		adds := f.Match(func(n *GNode) bool {
			for _, c := range callsIn(n.Ast, false) {
				if isWGf(info, c, poolFields.SendWg, "Add") {
					return true
				}
			}
			return false
		})
		var gos []int
		for _, n := range f.Nodes {
			if _, ok := n.Ast.(*ast.GoStmt); ok {
				gos = append(gos, n.ID)
			}
		}
		ok := len(adds) > 0 && len(gos) > 0
		for _, g := range gos {
			if !f.MustPrecede(setOf(adds), g) {
				ok = false
			}
		}
		r.Check(ok, "C16.d", kPoolResend+"#add-before-go", p.pos(fi.Decl), "the flusher registers in sendWg before it is started", "the flusher goroutine is started before sendWg.Add(1): Stop can close the channel under it")
		// flusher Done on all paths
		for _, gb := range p.goBodies(fi) {
			lit := gb.Pos
			lf := p.FlatInl(gb.FI)
			done := false
			ast.Inspect(gb.Body, func(x ast.Node) bool {
				if ds, ok := x.(*ast.DeferStmt); ok {
					ast.Inspect(ds, func(y ast.Node) bool {
						if c, ok := y.(*ast.CallExpr); ok && isWGf(info, c, poolFields.SendWg, "Done") {
							done = true
						}
						return true
					})
				}
				return true
			})
			if !done {
				dones := lf.Match(func(n *GNode) bool {
					for _, c := range callsIn(n.Ast, false) {
						if isWGf(info, c, poolFields.SendWg, "Done") {
							return true
						}
					}
					return false
				})
				done = len(dones) > 0
				for _, e := range lf.Exits() {
					if !lf.MustPrecede(setOf(dones), e) {
						done = false
					}
				}
			}
			r.Check(done, "C16.d", kPoolResend+"#flusher-done", p.pos(lit), "the flusher calls sendWg.Done on every exit", "the flusher can end without sendWg.Done: Stop blocks forever")
		}
	}
	// workers
	if fi := p.Func(kPoolRun); fi != nil {
		info := fi.Pkg.TypesInfo
		f := p.FlatOf(fi)
		adds := f.Match(func(n *GNode) bool {
			for _, c := range callsIn(n.Ast, false) {
				if isWGf(info, c, poolFields.RunWg, "Add") {
					return true
				}
			}
			return false
		})
		var gos []int
		for _, n := range f.Nodes {
			if _, ok := n.Ast.(*ast.GoStmt); ok {
				gos = append(gos, n.ID)
			}
		}
		ok := len(adds) > 0 && len(gos) > 0
		for _, g := range gos {
			// within the loop: the Add of the same iteration precedes: Add must lie between loop head and go; approximate by must-precede
			if !f.MustPrecede(setOf(adds), g) {
				ok = false
			}
		}
		r.Check(ok, "C16.d", kPoolRun+"#add-before-go", p.pos(fi.Decl), "runWg.Add(1) precedes go p.run()", "a worker is started before runWg.Add(1)")
	}
	if fi := p.Func(kPoolrun); fi != nil {
		info := fi.Pkg.TypesInfo
		f := p.FlatOf(fi)
		first := -1
		for _, e := range f.Nodes[f.Entry].Succs {
			first = e.To
		}
		ok := false
		if first >= 0 {
			if ds, isD := f.Nodes[first].Ast.(*ast.DeferStmt); isD && isWGf(info, ds.Call, poolFields.RunWg, "Done") {
				ok = true
			}
		}
		if !ok {
			// ... or the spawn site does it for the worker: go func() { defer p.runWg.Done(); p.run() }()
			if starter := p.Func(kPoolRun); starter != nil {
				bodies := p.goBodiesIn(starter)
				all := len(bodies) > 0
				for _, gb := range bodies {
					good := false
					if gb.FI != nil && gb.FI.Lit != nil && len(gb.Body.List) > 0 {
						if ds, isD := gb.Body.List[0].(*ast.DeferStmt); isD && isWGf(info, ds.Call, poolFields.RunWg, "Done") {
							ast.Inspect(gb.Body, func(x ast.Node) bool {
								if c, isC := x.(*ast.CallExpr); isC && p.callIs(starter.Pkg, c, kPoolrun) {
									good = true
								}
								return true
							})
						}
					}
					if !good {
						all = false
					}
				}
				ok = all
			}
		}
		r.Check(ok, "C16.d", kPoolrun+"#done-deferred", p.pos(fi.Decl), "the worker defers runWg.Done first", "a worker can end without runWg.Done: Stop blocks forever")
	}
}

// enclosingSelect returns the select statement whose comm clause is the given statement.
func enclosingSelect(body ast.Node, comm ast.Stmt) *ast.SelectStmt {
	var res *ast.SelectStmt
	ast.Inspect(body, func(x ast.Node) bool {
		if s, ok := x.(*ast.SelectStmt); ok {
			for _, cl := range s.Body.List {
				if cc, ok := cl.(*ast.CommClause); ok && cc.Comm == comm {
					res = s
				}
			}
		}
		return true
	})
	return res
}

// enclosingBody is set by the callers of hasDoneCase to the function body in which locals are looked up.
var enclosingBody ast.Node

func hasDoneCase(info *types.Info, s *ast.SelectStmt) bool {
	for _, cl := range s.Body.List {
		cc, ok := cl.(*ast.CommClause)
		if !ok || cc.Comm == nil {
			continue
		}
		found := false
		ast.Inspect(cc.Comm, func(x ast.Node) bool {
			if u, ok := x.(*ast.UnaryExpr); ok && u.Op == token.ARROW {
				if c, ok := ast.Unparen(u.X).(*ast.CallExpr); ok {
					if sel, ok := c.Fun.(*ast.SelectorExpr); ok && sel.Sel.Name == "Done" {
						found = true
					}
				}
				// a local that holds ctx.Done(): done := p.ctx.Done(); case <-done
				if o := objOf(info, u.X); o != nil && enclosingBody != nil {
					if d := singleDef(info, enclosingBody, o); d != nil {
						if c, ok := ast.Unparen(d).(*ast.CallExpr); ok {
							if sel, ok := c.Fun.(*ast.SelectorExpr); ok && sel.Sel.Name == "Done" {
								found = true
							}
						}
					}
				}
			}
			return true
		})
		if found {
			return true
		}
	}
	return false
}

func c16Blocking(p *Prog, r *Report) {
	n := 0
	// every send on the pool's job channel, wherever in the package it sits (Send, the flusher, their helpers)
	var keys []string
	for k, fi := range p.Funcs {
		if shortPath(fi.Pkg.PkgPath) == pkgWpool && fi.Decl.Body != nil {
			keys = append(keys, k)
		}
	}
	sort.Strings(keys)
	for _, k := range keys {
		fi := p.Func(k)
		info := fi.Pkg.TypesInfo
		i := 0
		ast.Inspect(fi.Decl.Body, func(x ast.Node) bool {
			ss, ok := x.(*ast.SendStmt)
			if !ok {
				return true
			}
			if !isJobChan(fi.Pkg.TypesInfo, ss.Chan) {
				return true
			}
			n++
			i++
			sel := enclosingSelect(fi.Decl.Body, ss)
			enclosingBody = fi.Decl.Body
			cons := fmt.Sprintf("%s#channel-send/%d", k, i)
			r.Check(sel != nil && hasDoneCase(info, sel), "C16.e", cons, p.pos(ss), "send is a select case next to <-ctx.Done()",
				"a send on the job channel is not guarded by <-ctx.Done(): after Stop cancelled the pool the sender blocks forever and Stop never returns")
			return true
		})
	}
	r.Floor("C16.e", "job-channel-sends", n, 2)
	// nothing blocking under listM
	for _, k := range []string{kPoolLazySend, kPoolResend} {
		fi := p.Func(k)
		if fi == nil {
			continue
		}
		lr := p.LockFlow(fi, nil)
		info := fi.Pkg.TypesInfo
		bad := ""
		for _, ev := range lr.Events {
			if ev.Kind != "call" || ev.Ctx == "go" || !holdsClass(ev.Held, clsListM, "W") {
				continue
			}
			if sel, ok := ev.Call.Fun.(*ast.SelectorExpr); ok && sel.Sel.Name == "Wait" {
				if fn, ok := info.Uses[sel.Sel].(*types.Func); ok && (fkey(fn) == "(*sync.WaitGroup).Wait" || fkey(fn) == "(*sync.Cond).Wait") {
					bad = p.pos(ev.Call) + " waits while holding the queue lock"
				}
			}
		}
		// channel operations in the part of the body that runs under listM (not inside go literals)
		f := p.FlatOf(fi)
		for _, gn := range f.Nodes {
			if gn.Ast == nil {
				continue
			}
			isChan := false
			if _, ok := gn.Ast.(*ast.SendStmt); ok {
				isChan = true
			}
			walkNoLit(gn.Ast, func(x ast.Node) bool {
				if u, ok := x.(*ast.UnaryExpr); ok && u.Op == token.ARROW {
					isChan = true
				}
				return true
			})
			if isChan {
				// held at that node?
				for _, ev := range lr.Events {
					if ev.Node != nil && ev.Ctx != "go" && ev.Node.Pos() >= gn.Ast.Pos() && ev.Node.End() <= gn.Ast.End() && holdsClass(ev.Held, clsListM, "W") {
						bad = p.pos(gn.Ast) + " channel operation while holding the queue lock"
					}
				}
			}
		}
		r.Check(bad == "", "C16.e", k+"#no-blocking-under-queue-lock", p.pos(fi.Decl), "no wait or channel operation under the queue lock", bad)
	}
}

func c16Structure(p *Prog, r *Report) {
	// sites sending into p.ch
	var sites []string
	for k, fi := range p.Funcs {
		if shortPath(fi.Pkg.PkgPath) != pkgWpool || fi.Decl.Body == nil || k != fi.Key {
			continue // (a function registered under a second, pinned name counts once)
		}
		ast.Inspect(fi.Decl.Body, func(x ast.Node) bool {
			if ss, ok := x.(*ast.SendStmt); ok {
				if isJobChan(fi.Pkg.TypesInfo, ss.Chan) {
					sites = append(sites, k)
				}
			}
			return true
		})
	}
	r.Check(len(sites) == 2, "C16.f", "job-channel-producers", "", fmt.Sprintf("jobs enter the channel from %v", sites), fmt.Sprintf("jobs enter the channel from %d sites %v; the design has exactly two (Send, flusher)", len(sites), sites))
	// flusher: pop precedes send
	if fi := p.Func(kPoolResend); fi != nil {
		for _, gb := range p.goBodies(fi) {
			lit := gb.Pos
			f := p.FlatInl(gb.FI)
			pops := f.CallNodes("(*internal/model/core.List).PopBack", "(*internal/model/core.List).PopFront")
			var sends []int
			for _, n := range f.Nodes {
				if _, ok := n.Ast.(*ast.SendStmt); ok {
					sends = append(sends, n.ID)
				}
			}
			ok := len(pops) > 0 && len(sends) > 0
			for _, s := range sends {
				if !f.MustPrecede(setOf(pops), s) {
					ok = false
				}
			}
			r.Check(ok, "C16.f", kPoolResend+"#pop-before-send", p.pos(lit), "a deferred job is popped before it is sent", "the flusher sends a job it has not popped from the queue: it can be sent twice")
		}
	}
	// worker: each receive followed by exactly one exec
	if fi := p.Func(kPoolrun); fi != nil {
		n := 0
		ast.Inspect(fi.Decl.Body, func(x ast.Node) bool {
			if cc, ok := x.(*ast.CommClause); ok && cc.Comm != nil {
				recv := false
				ast.Inspect(cc.Comm, func(y ast.Node) bool {
					if u, ok := y.(*ast.UnaryExpr); ok && u.Op == token.ARROW {
						// a receive from the job channel: the pool's field, or a local copy of it (a channel of jobs)
						if sel, ok := ast.Unparen(u.X).(*ast.SelectorExpr); ok && sel.Sel.Name == poolFields.Ch {
							recv = true
						} else if tv, ok := fi.Pkg.TypesInfo.Types[u.X]; ok {
							if ch, isChan := tv.Type.Underlying().(*types.Chan); isChan && strings.HasSuffix(ch.Elem().String(), "wpool.Event") {
								recv = true
							}
						}
					}
					return true
				})
				if recv {
					execs := 0
					for _, s := range cc.Body {
						ast.Inspect(s, func(y ast.Node) bool {
							if c, ok := y.(*ast.CallExpr); ok && p.callIs(fi.Pkg, c, kPoolExec) {
								execs++
							}
							return true
						})
					}
					n++
					r.Check(execs == 1, "C16.f", kPoolrun+"#one-exec-per-receive", p.pos(cc), "one exec per received job", fmt.Sprintf("a received job is executed %d times", execs))
				}
			}
			return true
		})
		if n == 0 {
			r.Viol("C16.f", kPoolrun+"#one-exec-per-receive", p.pos(fi.Decl), "the worker no longer receives from the job channel")
		}
	}
}

// c15RunFirst: in both constructors Pool().Run precedes every other use of the pool (C15.d / C16.g).
func c15RunFirst(p *Prog, r *Report, rule string) {
	for _, k := range []string{"pkg/inline/db.New", "internal/app.New"} {
		fi := p.Func(k)
		if fi == nil {
			r.Undecided(rule, k, "", "constructor not found")
			continue
		}
		// the constructor with its stage helpers spliced in
		f := p.FlatInl(fi)
		runs := f.CallNodes(kPoolRun)
		uses := f.CallNodes(kPoolSched, kPoolSend, kPoolStop, "(*internal/usecase/cleaner.UseCase).DeleteFilesAsync", "(*internal/usecase/cleaner.UseCase).DeleteOld")
		if len(runs) == 0 {
			if p.funcCallsDeep(fi, p.keysPred(kPoolRun)) {
				r.Undecided(rule, k+"#run-first", p.pos(fi.Decl), "Pool().Run is called somewhere the rule cannot order against the other uses of the pool")
				continue
			}
		}
		ok := len(runs) > 0
		for _, u := range uses {
			if !f.MustPrecede(setOf(runs), u) {
				ok = false
			}
		}
		r.Check(ok, rule, k+"#run-first", p.pos(fi.Decl), fmt.Sprintf("Pool().Run precedes the %d other pool uses", len(uses)), "the pool is used (jobs sent / scheduled) before Pool().Run: its context and channel are not set up yet")
	}
}

// isJobChan: the pool's job channel - its field, or a local copy of it (any channel of jobs).
func isJobChan(info *types.Info, e ast.Expr) bool {
	if sel, ok := ast.Unparen(e).(*ast.SelectorExpr); ok && sel.Sel.Name == poolFields.Ch {
		return true
	}
	if tv, ok := info.Types[e]; ok {
		if ch, isChan := tv.Type.Underlying().(*types.Chan); isChan && strings.HasSuffix(ch.Elem().String(), "wpool.Event") {
			return true
		}
	}
	return false
}
