package main

// C07 First committer wins among snapshot transactions.

import (
	"fmt"
	"go/ast"
	"go/types"
	"strings"
)

func init() { register("C07", propC07) }

const (
	kTxFile = "(*internal/model/core.Transaction).File"
)

// mustHeld intersects the locksets of all events recorded for the call.
func mustHeld(lr *LockResult, c *ast.CallExpr) ([]Held, int) {
	var inter []Held
	n := 0
	for _, e := range lr.Events {
		if e.Call != c || (e.Kind != "call" && e.Kind != "go") {
			continue
		}
		if n == 0 {
			inter = append([]Held{}, e.Held...)
		} else {
			var keep []Held
			for _, h := range inter {
				for _, g := range e.Held {
					if g.Path == h.Path {
						if g.Mode == "R" {
							h.Mode = "R"
						}
						keep = append(keep, h)
					}
				}
			}
			inter = keep
		}
		n++
	}
	return inter, n
}

func propC07(p *Prog, r *Report) {
	r.Rule("C07.a", "check and publication in one critical section: in UpdateTx, with X the destination store whose latest version the conflict guard reads, there is no CFG path guard-read -> release of X's lock -> publication into X that does not re-evaluate the guard, X's lock is write-held at every publication, and (read or write) held at the guard read")
	r.Rule("C07.b", "the registry removal (txRepo.Delete, error-gated) precedes UpdateTx in Commit: a second Commit on the same handle cannot race the first into UpdateTx")
	r.NotDecided = []string{"the outcome of concrete schedules"}
	r.Assume = []string{"sync.RWMutex semantics"}

	fi := p.Func(kUpdateTx)
	if fi == nil {
		r.Undecided("C07.a", kUpdateTx, "", "core.UpdateTx not found")
		return
	}
	info := fi.Pkg.TypesInfo
	dest := c03DestStore(p, fi)
	if dest == nil {
		r.Undecided("C07.a", kUpdateTx+"#dest", p.pos(fi.Decl), "destination store variable not identified")
		return
	}
	X := dest.Name()
	lockPath := X + ".m"
	f := p.FlatInlExcept(fi, kStoreToTx)
	// the destination store, under whatever name a spliced-in helper knows it
	isDest := func(e ast.Expr) bool {
		o := objOf(info, e)
		return o != nil && f.CanonObj(o) == dest
	}
	// guard reads: nodes reading X.File(..).Latest() in the condition that controls ErrTxSerialization
	checks := f.Match(func(n *GNode) bool {
		if !n.IsCond {
			return false
		}
		found := false
		ast.Inspect(n.Ast, func(x ast.Node) bool {
			if c, ok := x.(*ast.CallExpr); ok && p.callIs(fi.Pkg, c, kTxFile) {
				if sel, ok := c.Fun.(*ast.SelectorExpr); ok && isDest(sel.X) {
					found = true
				}
			}
			return true
		})
		return found
	})
	if len(checks) == 0 {
		// guard may sit in an if-init
		checks = f.Match(func(n *GNode) bool {
			found := false
			ast.Inspect(n.Ast, func(x ast.Node) bool {
				if c, ok := x.(*ast.CallExpr); ok && p.callIs(fi.Pkg, c, kFileLatest) {
					if sel, ok := c.Fun.(*ast.SelectorExpr); ok {
						if fc, ok := ast.Unparen(sel.X).(*ast.CallExpr); ok && p.callIs(fi.Pkg, fc, kTxFile) {
							if s2, ok := fc.Fun.(*ast.SelectorExpr); ok && isDest(s2.X) {
								found = true
							}
						}
					}
				}
				return true
			})
			return found
		})
	}
	if len(checks) == 0 {
		// the guard may live in a package-local helper that is given the destination store
		helpers := conflictHelpers(p, fi)
		checks = f.Match(func(n *GNode) bool {
			for c := range helpers {
				if n.Ast.Pos() <= c.Pos() && c.End() <= n.Ast.End() {
					for _, a := range c.Args {
						if isDest(a) {
							return true
						}
					}
				}
			}
			return false
		})
	}
	pubs := f.Match(func(n *GNode) bool {
		for _, c := range callsIn(n.Ast, false) {
			if p.callIs(fi.Pkg, c, kStoreToTx) && len(c.Args) >= 1 && isDest(c.Args[0]) {
				return true
			}
			if p.callIs(fi.Pkg, c, "(*internal/model/core.Transaction).PushBack") {
				if sel, ok := c.Fun.(*ast.SelectorExpr); ok && isDest(sel.X) {
					return true
				}
			}
		}
		return false
	})
	cons := kUpdateTx + "#" + "dest-store"
	if (len(checks) == 0 || len(pubs) == 0) && p.funcCallsDeep(fi, p.keysPred(kStoreToTx, "(*internal/model/core.Transaction).PushBack")) && p.funcCallsDeep(fi, p.keysPred(kTxFile)) {
		r.Undecided("C07.a", cons+"/anchors", p.pos(fi.Decl), fmt.Sprintf("%d guard reads and %d publications into the destination store found in the function and its spliced-in helpers; further ones happen in helpers the rule cannot follow", len(checks), len(pubs)))
		return
	}
	if len(checks) == 0 || len(pubs) == 0 {
		r.Viol("C07.a", cons+"/anchors", p.pos(fi.Decl), fmt.Sprintf("%d guard reads and %d publications into the destination store found", len(checks), len(pubs)))
		return
	}
	releases := f.Match(func(n *GNode) bool {
		if _, isDefer := n.Ast.(*ast.DeferStmt); isDefer {
			return false
		}
		for _, c := range callsIn(n.Ast, false) {
			if op := p.lockOpOf(fi.Pkg, c); op != nil && !op.Acquire && op.Path == lockPath {
				return true
			}
		}
		return false
	})
	checkSet := setOf(checks)
	split := false
	var witness []string
	for _, rel := range releases {
		// reachable from a check?
		fromCheck := false
		for _, c := range checks {
			if f.ReachableAfter(c, setOf([]int{rel}), nil) || c == rel {
				fromCheck = true
			}
		}
		if !fromCheck {
			continue
		}
		if f.ReachableAfter(rel, setOf(pubs), checkSet) {
			split = true
			witness = []string{"guard read " + p.pos(f.Nodes[checks[0]].Ast), "release " + p.pos(f.Nodes[rel].Ast), "publication " + p.pos(f.Nodes[pubs[0]].Ast)}
		}
	}
	r.Check(!split, "C07.a", cons+"/split-region", p.pos(f.Nodes[checks[0]].Ast), "no release of "+lockPath+" between the conflict check and the publication",
		"the lock of the destination store is released between the conflict check and the publication: two committers can both pass the check before either publishes, and both succeed", witness...)
	// lock modes from the dataflow
	evs := p.DeepLockEvents(fi, nil, 3)
	for _, id := range pubs {
		for _, c := range callsIn(f.Nodes[id].Ast, false) {
			if !p.callIs(fi.Pkg, c, kStoreToTx, "(*internal/model/core.Transaction).PushBack") {
				continue
			}
			hs, n := heldAtAllN(evs, c)
			r.Check(n > 0 && holdsMode(hs, lockPath, "W"), "C07.a", cons+"/write-held-at-publication", p.pos(c), "W("+lockPath+") held: "+heldString(hs),
				"the publication into the destination store does not hold its write lock: held "+heldString(hs))
		}
	}
	for _, id := range checks {
		for _, c := range callsIn(f.Nodes[id].Ast, false) {
			isHelper := false
			for hc := range conflictHelpers(p, fi) {
				if hc == c {
					isHelper = true
				}
			}
			if !p.callIs(fi.Pkg, c, kTxFile) && !isHelper {
				continue
			}
			hs, n := heldAtAllN(evs, c)
			r.Check(n > 0 && holdsMode(hs, lockPath, "R"), "C07.a", cons+"/held-at-check", p.pos(c), "lock held at the guard read: "+heldString(hs),
				"the conflict guard reads the destination store without its lock: held "+heldString(hs))
		}
	}
	c07CommitOrder(p, r, "C07.b")
}

// c07CommitOrder: Commit removes the transaction from the registry (error-gated) before UpdateTx.
func c07CommitOrder(p *Prog, r *Report, rule string) {
	fi := p.Func(kTxCommit)
	if fi == nil {
		r.Undecided(rule, kTxCommit, "", "transaction.Commit not found")
		return
	}
	f := p.FlatOf(fi)
	f.CheckChain(r, rule, fi, []step{
		{Name: "transaction removed from the registry", Keys: []string{kTxRepoDelete}},
		{Name: "versions moved to the main store", Keys: []string{kUpdateTx}},
	})
	_ = strings.Join
	_ = types.Typ
}

// heldAtAllN: the locks held at every event of the call (root-function terms) and the number of such events.
func heldAtAllN(evs []*LockEvent, c *ast.CallExpr) ([]Held, int) {
	n := 0
	for _, e := range evs {
		if e.Call == c && e.Kind == "call" {
			n++
		}
	}
	return heldAtAll(evs, c), n
}
