package main

// E6: evaluation of guards over a finite abstract domain. Operands that stand for
// runtime quantities (sequence numbers, lengths, counts) are touched by the code
// only through comparisons, so a guard is a boolean function over the finite set
// of orderings of its operands. The evaluator below computes that function from
// the AST for one assignment of small representative integers to the operand
// roles; rules enumerate all assignments and compare with the table the property
// dictates. Pure helper methods of the repository (Seq.After, File.Latest, ...)
// are followed through their source (abstract interpretation, depth-bounded);
// nothing is compiled or run.

import (
	"fmt"
	"go/ast"
	"go/constant"
	"go/token"
	"go/types"
	"strings"

	"golang.org/x/tools/go/packages"
	"golang.org/x/tools/go/types/typeutil"
)

type Val struct {
	C      constant.Value  // scalar
	Fields map[string]*Val // struct value
	Nil    bool            // nil pointer / nil interface
	Ptr    *Val            // pointer to value
	Tag    string          // opaque identity (for "which operand was returned")
	// Complete: a struct value built from a composite literal (fields not listed are zero)
	Complete bool
	// MapLit / MapPkg: a map built from a composite literal with constant keys (a lookup table)
	MapLit *ast.CompositeLit
	MapPkg *packages.Package
	// Lit / LitEnv: a function literal and the environment it closes over (conflicts := func(key string) bool {..})
	Lit    *ast.FuncLit
	LitEnv *Env
	// Type: the dynamic type of a value built from a composite literal (for calls through an interface)
	Type types.Type
	// Unknown: fields of a struct literal whose value is outside the domain (reading one fails)
	Unknown map[string]bool
	// Fn: a declared function used as a value (conv := asIs; parse := strconv.Atoi)
	Fn *types.Func
	// Elems: a slice or array built from a composite literal (a table of options)
	Elems   []*Val
	IsSlice bool
}

func (v *Val) String() string {
	if v == nil {
		return "?"
	}
	if v.Tag != "" {
		return v.Tag
	}
	if v.Nil {
		return "nil"
	}
	if v.C != nil {
		return v.C.ExactString()
	}
	if v.Ptr != nil {
		return "&" + v.Ptr.String()
	}
	return "{struct}"
}

func intVal(i int64) *Val  { return &Val{C: constant.MakeInt64(i)} }
func boolVal(b bool) *Val  { return &Val{C: constant.MakeBool(b)} }
func strVal(s string) *Val { return &Val{C: constant.MakeString(s)} }

type Env struct {
	P    *Prog
	Pkg  *packages.Package
	Vars map[types.Object]*Val
	Hook func(env *Env, e ast.Expr) (*Val, bool) // consulted first for every expression
	Body ast.Node                                // when set, locals with a single definition in Body are evaluated through it
	// Multi gives the results of a multi-value call on the right of "a, b := f(x)" (nil, false = unsupported)
	Multi func(env *Env, c *ast.CallExpr) ([]*Val, bool)
	// MapOk answers "v, ok := m[k]" for maps whose content the rule chooses (nil = unsupported)
	MapOk func(env *Env, ix *ast.IndexExpr) (val *Val, ok bool, handled bool)
	// MapStore is told about "m[k] = v" (true = handled; nil = unsupported)
	MapStore func(env *Env, ix *ast.IndexExpr, v *Val) bool
	// RangeOnce: a range statement is evaluated for one representative element (its variables stay unbound): for
	// search loops whose body does not depend on the element under the rule's hooks - "some element satisfies P"
	RangeOnce bool
	// ExtCall answers a call, through a function value, of a function outside the module (nil, false = unsupported)
	ExtCall func(env *Env, c *ast.CallExpr, fn *types.Func) ([]*Val, bool)
	// AssertOK: "v, ok := x.(T)" succeeds with the value of x (for values the rule builds with the asserted type)
	AssertOK bool
	depth    int
	// branch: a pending "continue" / "break" of the innermost loop being interpreted
	branch string
}

func (env *Env) child(pkg *packages.Package) *Env {
	return &Env{P: env.P, Pkg: pkg, Vars: map[types.Object]*Val{}, Hook: env.Hook, Multi: env.Multi, MapOk: env.MapOk, MapStore: env.MapStore, RangeOnce: env.RangeOnce, AssertOK: env.AssertOK, ExtCall: env.ExtCall, depth: env.depth + 1}
}

type evalErr struct{ msg string }

func (e evalErr) Error() string { return e.msg }

func (env *Env) fail(n ast.Node, why string) {
	panic(evalErr{fmt.Sprintf("%s: cannot evaluate %s", env.P.pos(n), why)})
}

// Eval evaluates e; ok=false (with reason) when the expression is outside the supported fragment.
func (env *Env) Eval(e ast.Expr) (v *Val, err error) {
	defer func() {
		if r := recover(); r != nil {
			if ee, ok := r.(evalErr); ok {
				err = ee
				return
			}
			panic(r)
		}
	}()
	return env.eval(e), nil
}

func (env *Env) eval(e ast.Expr) *Val {
	info := env.Pkg.TypesInfo
	if env.Hook != nil {
		if v, ok := env.Hook(env, e); ok {
			return v
		}
	}
	if tv, ok := info.Types[e]; ok && tv.Value != nil {
		return &Val{C: tv.Value}
	}
	switch x := e.(type) {
	case *ast.ParenExpr:
		return env.eval(x.X)
	case *ast.Ident:
		if isNilIdent(info, x) {
			return &Val{Nil: true}
		}
		o := objOf(info, x)
		if v, ok := env.Vars[o]; ok {
			return v
		}
		if env.Body != nil && o != nil {
			if rhs := singleDef(info, env.Body, o); rhs != nil {
				return env.eval(rhs)
			}
		}
		if fn, ok := o.(*types.Func); ok {
			return &Val{Fn: fn}
		}
		// a package-level variable of the module with an initialiser that is never reassigned (a lookup table)
		if v, ok := o.(*types.Var); ok && v.Pkg() != nil && v.Parent() == v.Pkg().Scope() {
			if init, ipkg := env.P.pkgVarInit(v); init != nil {
				ce := env.child(ipkg)
				return ce.eval(init)
			}
		}
		// a named result that nothing has been assigned to yet: its zero value (kept, so that field writes stay)
		if v, ok := o.(*types.Var); ok && env.P.isNamedResult(v) {
			if z := zeroVal(v.Type()); z != nil {
				if env.Vars != nil {
					env.Vars[o] = z
				}
				return z
			}
		}
		env.fail(e, "identifier "+x.Name)
	case *ast.SelectorExpr:
		// pkg.Func used as a value
		if fn, ok := info.Uses[x.Sel].(*types.Func); ok {
			if id, isId := ast.Unparen(x.X).(*ast.Ident); isId {
				if _, isPkg := info.Uses[id].(*types.PkgName); isPkg {
					return &Val{Fn: fn}
				}
			}
		}
		base := env.eval(x.X)
		for base != nil && base.Ptr != nil {
			base = base.Ptr
		}
		if base != nil && base.Fields != nil {
			if f, ok := base.Fields[x.Sel.Name]; ok {
				return f
			}
			if base.Complete && !base.Unknown[x.Sel.Name] {
				if tv, ok := info.Types[e]; ok {
					if z := zeroVal(tv.Type); z != nil {
						// (kept in the struct: s.filter.BeforeSeq = x updates the field of s, not a temporary)
						if _, isFn := tv.Type.Underlying().(*types.Signature); !isFn {
							base.Fields[x.Sel.Name] = z
						}
						return z
					}
				}
			}
		}
		env.fail(e, "selector "+types.ExprString(e))
	case *ast.StarExpr:
		v := env.eval(x.X)
		if v.Ptr != nil {
			return v.Ptr
		}
		if v.Nil {
			env.fail(e, "nil dereference")
		}
		return v
	case *ast.UnaryExpr:
		switch x.Op {
		case token.NOT:
			v := env.eval(x.X)
			return boolVal(!constant.BoolVal(v.C))
		case token.AND:
			return &Val{Ptr: env.eval(x.X)}
		case token.SUB:
			v := env.eval(x.X)
			return &Val{C: constant.UnaryOp(token.SUB, v.C, 0)}
		}
	case *ast.BinaryExpr:
		switch x.Op {
		case token.LAND:
			l := env.eval(x.X)
			if !constant.BoolVal(l.C) {
				return boolVal(false)
			}
			return env.eval(x.Y)
		case token.LOR:
			l := env.eval(x.X)
			if constant.BoolVal(l.C) {
				return boolVal(true)
			}
			return env.eval(x.Y)
		}
		l, r := env.eval(x.X), env.eval(x.Y)
		switch x.Op {
		case token.EQL, token.NEQ:
			if l.Nil || r.Nil || l.Ptr != nil || r.Ptr != nil {
				eq := (l.Nil && r.Nil)
				if x.Op == token.NEQ {
					eq = !eq
				}
				return boolVal(eq)
			}
			fallthrough
		case token.LSS, token.LEQ, token.GTR, token.GEQ:
			if l.C == nil || r.C == nil {
				env.fail(e, "comparison of non-scalars")
			}
			return boolVal(constant.Compare(l.C, x.Op, r.C))
		case token.ADD, token.SUB, token.MUL:
			if l.C == nil || r.C == nil {
				env.fail(e, "arithmetic on non-scalars")
			}
			return &Val{C: constant.BinaryOp(l.C, x.Op, r.C)}
		case token.QUO:
			if l.C == nil || r.C == nil || l.C.Kind() != constant.Int || r.C.Kind() != constant.Int || constant.Sign(r.C) == 0 {
				env.fail(e, "division")
			}
			return &Val{C: constant.BinaryOp(l.C, token.QUO_ASSIGN, r.C)}
		}
	case *ast.CallExpr:
		return env.evalCall(x)
	case *ast.IndexExpr:
		base := env.eval(x.X)
		if base != nil && base.MapLit != nil {
			key := env.eval(x.Index)
			if key.C == nil {
				env.fail(e, "table lookup with a non-constant key")
			}
			me := env.child(base.MapPkg)
			for _, el := range base.MapLit.Elts {
				kv, ok := el.(*ast.KeyValueExpr)
				if !ok {
					continue
				}
				k := me.eval(kv.Key)
				if k.C != nil && constant.Compare(k.C, token.EQL, key.C) {
					return me.eval(kv.Value)
				}
			}
			if tv, ok := info.Types[e]; ok {
				if z := zeroVal(tv.Type); z != nil {
					return z
				}
			}
		}
		if base != nil && base.IsSlice {
			if ix := env.eval(x.Index); ix != nil && ix.C != nil && ix.C.Kind() == constant.Int {
				if n, exact := constant.Int64Val(ix.C); exact && n >= 0 && int(n) < len(base.Elems) {
					return base.Elems[n]
				}
				env.fail(e, "index out of range")
			}
		}
		env.fail(e, "index "+types.ExprString(e))
	case *ast.SliceExpr:
		// levels[:] - the whole of an evaluated table; arr[:n] / arr[n+1:] - a window of it
		if base := env.eval(x.X); base != nil && base.IsSlice && x.Max == nil {
			lo, hi := 0, len(base.Elems)
			bound := func(b ast.Expr) int {
				v := env.eval(b)
				if v == nil || v.C == nil || v.C.Kind() != constant.Int {
					env.fail(e, "slice bound that is not a number")
				}
				n, _ := constant.Int64Val(v.C)
				return int(n)
			}
			if x.Low != nil {
				lo = bound(x.Low)
			}
			if x.High != nil {
				hi = bound(x.High)
			}
			if lo == 0 && hi == len(base.Elems) {
				return base
			}
			if lo < 0 || hi > len(base.Elems) || lo > hi {
				env.fail(e, "slice bounds out of range")
			}
			return &Val{IsSlice: true, Elems: base.Elems[lo:hi]}
		}
		env.fail(e, "slice expression")
	case *ast.FuncLit:
		return &Val{Lit: x, LitEnv: env}
	case *ast.CompositeLit:
		if tv, ok := info.Types[x]; ok {
			if _, isMap := tv.Type.Underlying().(*types.Map); isMap {
				return &Val{MapLit: x, MapPkg: env.Pkg}
			}
		}
		if tv, ok := info.Types[x]; ok {
			switch ut := tv.Type.Underlying().(type) {
			case *types.Slice, *types.Array:
				sv := &Val{IsSlice: true}
				next := 0
				for _, el := range x.Elts {
					if kv, keyed := el.(*ast.KeyValueExpr); keyed {
						// levels = [...]pair{a, fallback: b, c}: the index continues after the key
						k := env.eval(kv.Key)
						n, exact := int64(-1), false
						if k != nil && k.C != nil && k.C.Kind() == constant.Int {
							n, exact = constant.Int64Val(k.C)
						}
						if !exact || n < 0 || n > 4096 {
							env.fail(e, "slice literal with a key that is not a small constant")
						}
						next = int(n)
						el = kv.Value
					}
					for len(sv.Elems) <= next {
						sv.Elems = append(sv.Elems, nil)
					}
					sv.Elems[next] = env.eval(el)
					next++
				}
				var elemT types.Type
				switch st := ut.(type) {
				case *types.Slice:
					elemT = st.Elem()
				case *types.Array:
					elemT = st.Elem()
				}
				for i, ev := range sv.Elems {
					if ev == nil {
						if z := zeroVal(elemT); z != nil {
							sv.Elems[i] = z
						} else {
							env.fail(e, "slice literal with a gap")
						}
					}
				}
				return sv
			case *types.Struct:
				// positional fields: pair{grpcLevel, modelLevel}
				if len(x.Elts) > 0 {
					if _, keyed := x.Elts[0].(*ast.KeyValueExpr); !keyed && len(x.Elts) == ut.NumFields() {
						v := &Val{Fields: map[string]*Val{}, Complete: true, Type: tv.Type}
						for i, el := range x.Elts {
							v.Fields[ut.Field(i).Name()] = env.eval(el)
						}
						return v
					}
				}
			}
		}
		v := &Val{Fields: map[string]*Val{}, Complete: true}
		for _, el := range x.Elts {
			if kv, ok := el.(*ast.KeyValueExpr); ok {
				if id, ok := kv.Key.(*ast.Ident); ok {
					// a field outside the domain (a repository, a context) stays unknown: the value fails only if
					// that field is read
					if fv, ferr := env.Eval(kv.Value); ferr == nil && fv != nil {
						v.Fields[id.Name] = fv
					} else {
						v.Complete = false
						if v.Unknown == nil {
							v.Unknown = map[string]bool{}
						}
						v.Unknown[id.Name] = true
					}
				}
			}
		}
		if len(v.Unknown) > 0 {
			// the fields not listed are still zero
			v.Complete = true
		}
		if tv, ok := info.Types[x]; ok {
			v.Type = tv.Type
		}
		return v
	}
	env.fail(e, types.ExprString(e))
	return nil
}

// zeroVal is the zero value of a type in the abstract domain (nil for types the domain does not model).
func zeroVal(t types.Type) *Val {
	switch u := t.Underlying().(type) {
	case *types.Basic:
		switch {
		case u.Info()&types.IsBoolean != 0:
			return boolVal(false)
		case u.Info()&types.IsInteger != 0:
			return intVal(0)
		case u.Info()&types.IsString != 0:
			return strVal("")
		}
	case *types.Pointer, *types.Interface, *types.Slice, *types.Map, *types.Signature:
		return &Val{Nil: true}
	case *types.Struct:
		return &Val{Fields: map[string]*Val{}, Complete: true}
	}
	return nil
}

// pkgVarInit returns the initialiser of a package-level variable of the module that is assigned nowhere else.
func (p *Prog) pkgVarInit(v *types.Var) (ast.Expr, *packages.Package) {
	for _, pkg := range p.PkgList {
		if pkg.Types != v.Pkg() {
			continue
		}
		var init ast.Expr
		assigned := false
		for _, file := range pkg.Syntax {
			ast.Inspect(file, func(x ast.Node) bool {
				switch st := x.(type) {
				case *ast.ValueSpec:
					for i, nm := range st.Names {
						if pkg.TypesInfo.Defs[nm] == v && i < len(st.Values) {
							init = st.Values[i]
						}
					}
				case *ast.AssignStmt:
					for _, l := range st.Lhs {
						if objOf(pkg.TypesInfo, l) == v {
							assigned = true
						}
						if ix, ok := ast.Unparen(l).(*ast.IndexExpr); ok && objOf(pkg.TypesInfo, ix.X) == v {
							assigned = true
						}
					}
				}
				return true
			})
		}
		if assigned {
			return nil, nil
		}
		return init, pkg
	}
	return nil, nil
}

func (env *Env) evalCall(c *ast.CallExpr) *Val {
	info := env.Pkg.TypesInfo
	// conversion
	if tv, ok := info.Types[c.Fun]; ok && tv.IsType() && len(c.Args) == 1 {
		return env.eval(c.Args[0])
	}
	if id, ok := c.Fun.(*ast.Ident); ok {
		if b, ok := info.Uses[id].(*types.Builtin); ok {
			switch b.Name() {
			case "len":
				v := env.eval(c.Args[0])
				if v.C != nil && v.C.Kind() == constant.String {
					return intVal(int64(len(constant.StringVal(v.C))))
				}
				if v.IsSlice {
					return intVal(int64(len(v.Elems)))
				}
				env.fail(c, "len of non-constant")
			case "new":
				// new(T): a pointer to the zero value (of a type parameter: an empty struct-like zero)
				if tv, ok := info.Types[c.Args[0]]; ok {
					if z := zeroVal(tv.Type); z != nil {
						return &Val{Ptr: z}
					}
				}
				return &Val{Ptr: &Val{Fields: map[string]*Val{}, Complete: true}}
			case "max", "min":
				best := env.eval(c.Args[0])
				for _, a := range c.Args[1:] {
					v := env.eval(a)
					op := token.GTR
					if b.Name() == "min" {
						op = token.LSS
					}
					if constant.Compare(v.C, op, best.C) {
						best = v
					}
				}
				return best
			}
			env.fail(c, "builtin "+b.Name())
		}
	}
	// cmp.Compare on constants
	if isFunc(info, c, "cmp", "Compare") && len(c.Args) == 2 {
		a, b := env.eval(c.Args[0]), env.eval(c.Args[1])
		if a == nil || b == nil || a.C == nil || b.C == nil {
			env.fail(c, "cmp.Compare of non-constants")
		}
		switch {
		case constant.Compare(a.C, token.LSS, b.C):
			return intVal(-1)
		case constant.Compare(a.C, token.GTR, b.C):
			return intVal(1)
		}
		return intVal(0)
	}
	// slices.IndexFunc(table, pred) / slices.ContainsFunc(table, pred) over an evaluated table and a closure
	if (isFunc(info, c, "slices", "IndexFunc") || isFunc(info, c, "slices", "ContainsFunc")) && len(c.Args) == 2 {
		tab, tErr := env.Eval(c.Args[0])
		pred, pErr := env.Eval(c.Args[1])
		if tErr == nil && pErr == nil && tab != nil && tab.IsSlice && pred != nil && pred.Lit != nil {
			at := -1
			for i, el := range tab.Elems {
				ret := env.callClosure(c, pred, []*Val{el})
				if len(ret) != 1 || ret[0] == nil || ret[0].C == nil || ret[0].C.Kind() != constant.Bool {
					env.fail(c, "predicate without a boolean value")
				}
				if constant.BoolVal(ret[0].C) {
					at = i
					break
				}
			}
			if isFunc(info, c, "slices", "ContainsFunc") {
				return boolVal(at >= 0)
			}
			return intVal(int64(at))
		}
	}
	// slices.Contains(TABLE, x) over a slice literal (a local one or the initialiser of a package-level variable
	// that is assigned nowhere else): membership in a finite set of constants
	if isFunc(info, c, "slices", "Contains") && len(c.Args) == 2 {
		var lit *ast.CompositeLit
		lpkg := env.Pkg
		switch a := ast.Unparen(c.Args[0]).(type) {
		case *ast.CompositeLit:
			lit = a
		case *ast.Ident, *ast.SelectorExpr:
			var id *ast.Ident
			if i, ok := a.(*ast.Ident); ok {
				id = i
			} else {
				id = a.(*ast.SelectorExpr).Sel
			}
			if v, ok := info.Uses[id].(*types.Var); ok {
				if init, ipkg := env.P.pkgVarInit(v); init != nil {
					if cl, ok := ast.Unparen(init).(*ast.CompositeLit); ok {
						lit, lpkg = cl, ipkg
					}
				}
			}
		}
		if lit != nil {
			want := env.eval(c.Args[1])
			if want == nil || want.C == nil {
				env.fail(c, "membership test of a non-constant")
			}
			le := env.child(lpkg)
			for _, el := range lit.Elts {
				if v := le.eval(el); v != nil && v.C != nil && constant.Compare(v.C, token.EQL, want.C) {
					return boolVal(true)
				}
			}
			return boolVal(false)
		}
	}
	ret := env.evalCallN(c)
	if len(ret) != 1 {
		env.fail(c, "callee does not return a single value on this path")
	}
	return ret[0]
}

// evalCallEffects runs a call of a function of the module for its effects (a function without results included).
func (env *Env) evalCallEffects(c *ast.CallExpr) {
	defer func() {
		if r := recover(); r != nil {
			if ee, ok := r.(evalErr); ok && strings.Contains(ee.msg, "does not return a value on this path") {
				return
			}
			panic(r)
		}
	}()
	env.evalCallN(c)
}

// evalCallN evaluates a call of a function of the module by running its body; it returns all results.
func (env *Env) evalCallN(c *ast.CallExpr) []*Val {
	info := env.Pkg.TypesInfo
	fn, _ := typeutil.Callee(info, c).(*types.Func)
	if fn != nil {
		fn = fn.Origin()
	}
	// a call through an interface of the module on a value whose dynamic type is known (built from a composite
	// literal on this path): the method of that type runs
	if fn != nil {
		if sig, ok := fn.Type().(*types.Signature); ok && sig.Recv() != nil {
			if _, isIface := sig.Recv().Type().Underlying().(*types.Interface); isIface {
				if sel, ok := ast.Unparen(c.Fun).(*ast.SelectorExpr); ok {
					if rv, rerr := env.Eval(sel.X); rerr == nil && rv != nil {
						dv := rv
						dt := dv.Type
						if dt == nil && dv.Ptr != nil && dv.Ptr.Type != nil {
							dt = types.NewPointer(dv.Ptr.Type)
						}
						if dt != nil {
							if obj, _, _ := types.LookupFieldOrMethod(dt, true, fn.Pkg(), fn.Name()); obj != nil {
								if m, ok := obj.(*types.Func); ok && env.P.Funcs[fkey(m.Origin())] != nil {
									return env.evalDeclCallN(c, m.Origin())
								}
							}
						}
					}
				}
			}
		}
	}
	if fn == nil {
		// a local closure: its body runs in the environment it was made in (captured variables are shared)
		var cv *Val
		if o := objOf(info, c.Fun); o != nil {
			cv = env.Vars[o]
			if cv == nil && env.Body != nil {
				if def := singleDef(info, env.Body, o); def != nil {
					if l, isLit := ast.Unparen(def).(*ast.FuncLit); isLit {
						cv = &Val{Lit: l, LitEnv: env}
					}
				}
			}
		}
		if cv == nil {
			// a function held in a field or an element of an evaluated value (opts[i].apply)
			switch ast.Unparen(c.Fun).(type) {
			case *ast.SelectorExpr, *ast.IndexExpr:
				if fv, ferr := env.Eval(c.Fun); ferr == nil && fv != nil && fv.Lit != nil {
					cv = fv
				}
			}
		}
		if cv != nil && cv.Fn != nil && env.depth <= 6 {
			// a declared function held in a variable or a parameter
			if env.P.Funcs[fkey(cv.Fn.Origin())] != nil {
				return env.evalDeclCallN(c, cv.Fn.Origin())
			}
			if env.ExtCall != nil {
				if vals, ok := env.ExtCall(env, c, cv.Fn); ok {
					return vals
				}
			}
			env.fail(c, "call of "+cv.Fn.FullName()+" through a value")
		}
		if cv == nil || cv.Lit == nil || env.depth > 6 {
			env.fail(c, "dynamic call")
		}
		var argv []*Val
		for _, a := range c.Args {
			if v, err := env.Eval(a); err == nil && v != nil {
				argv = append(argv, v)
			} else {
				argv = append(argv, nil)
			}
		}
		return env.callClosure(c, cv, argv)
	}
	return env.evalDeclCallN(c, fn)
}

// callClosure runs a function literal in the environment it was made in (captured variables are shared) with the
// given argument values (nil = outside the domain: the parameter stays unbound).
func (env *Env) callClosure(c *ast.CallExpr, cv *Val, argv []*Val) []*Val {
	{
		le := cv.LitEnv
		ce := &Env{P: le.P, Pkg: le.Pkg, Vars: le.Vars, Hook: le.Hook, Body: le.Body, Multi: le.Multi, MapOk: le.MapOk, MapStore: le.MapStore, RangeOnce: le.RangeOnce, AssertOK: le.AssertOK, ExtCall: le.ExtCall, depth: env.depth + 1}
		i := 0
		for _, fld := range cv.Lit.Type.Params.List {
			for _, nm := range fld.Names {
				if i < len(argv) {
					if argv[i] != nil {
						ce.Vars[le.Pkg.TypesInfo.Defs[nm]] = argv[i]
					} else {
						delete(ce.Vars, le.Pkg.TypesInfo.Defs[nm])
					}
				}
				i++
			}
		}
		var lnamed []types.Object
		if cv.Lit.Type.Results != nil {
			for _, fld := range cv.Lit.Type.Results.List {
				for _, nm := range fld.Names {
					if o := le.Pkg.TypesInfo.Defs[nm]; o != nil {
						lnamed = append(lnamed, o)
						if z := zeroVal(o.Type()); z != nil {
							ce.Vars[o] = z
						}
					}
				}
			}
		}
		ret, done := ce.execBlock(cv.Lit.Body.List)
		if done && len(ret) == 0 && len(lnamed) > 0 {
			for _, o := range lnamed {
				v, ok := ce.Vars[o]
				if !ok {
					env.fail(c, "closure: named result without a value")
				}
				ret = append(ret, v)
			}
			return ret
		}
		if !done || len(ret) == 0 {
			env.fail(c, "closure does not return a value on this path")
		}
		return ret
	}
}

// evalDeclCallN runs the body of a declared function of the module.
func (env *Env) evalDeclCallN(c *ast.CallExpr, fn *types.Func) []*Val {
	fi := env.P.Funcs[fkey(fn)]
	if fi == nil || fi.Decl.Body == nil {
		env.fail(c, "call to non-product function "+fkey(fn))
	}
	if env.depth > 6 {
		env.fail(c, "inlining depth")
	}
	ce := env.child(fi.Pkg)
	// receiver
	if fi.Decl.Recv != nil && len(fi.Decl.Recv.List) == 1 {
		sel, ok := ast.Unparen(c.Fun).(*ast.SelectorExpr)
		if !ok {
			env.fail(c, "method value")
		}
		// (a receiver outside the domain stays unbound: the call fails only if the callee's path uses it)
		rv, rerr := env.Eval(sel.X)
		if rerr != nil {
			rv = nil
		}
		// automatic dereference / address-of at a method call: a value receiver called on a pointer gets the
		// pointee, a pointer receiver called on an addressable value gets its address
		if sig := fi.Sig(); sig != nil && sig.Recv() != nil && rv != nil {
			_, wantPtr := sig.Recv().Type().(*types.Pointer)
			if tv, ok := env.Pkg.TypesInfo.Types[sel.X]; ok {
				_, havePtr := tv.Type.Underlying().(*types.Pointer)
				switch {
				case havePtr && !wantPtr && rv.Ptr != nil:
					rv = rv.Ptr
				case !havePtr && wantPtr && rv.Ptr == nil && !rv.Nil:
					rv = &Val{Ptr: rv}
				}
			}
		}
		if len(fi.Decl.Recv.List[0].Names) == 1 && rv != nil {
			ce.Vars[fi.Pkg.TypesInfo.Defs[fi.Decl.Recv.List[0].Names[0]]] = rv
		}
	}
	// found(r.storage.Load(id)): the results of the inner call are the parameters, in order
	var spread []*Val
	if len(c.Args) == 1 && fi.Decl.Type.Params.NumFields() > 1 {
		if ic, ok := ast.Unparen(c.Args[0]).(*ast.CallExpr); ok {
			if env.Multi != nil {
				if vals, ok := env.Multi(env, ic); ok {
					spread = vals
				}
			}
			if spread == nil {
				spread = env.evalCallN(ic)
			}
			if len(spread) != fi.Decl.Type.Params.NumFields() {
				env.fail(c, "argument list from a call")
			}
		}
	}
	i := 0
	for _, fld := range fi.Decl.Type.Params.List {
		for _, nm := range fld.Names {
			if spread != nil {
				if spread[i] != nil {
					ce.Vars[fi.Pkg.TypesInfo.Defs[nm]] = spread[i]
				}
			} else if i < len(c.Args) {
				// an argument outside the domain (a context, a reader) stays unbound: the call fails only if
				// the callee's path uses it
				if v, err := env.Eval(c.Args[i]); err == nil && v != nil {
					ce.Vars[fi.Pkg.TypesInfo.Defs[nm]] = v
				}
			}
			i++
		}
	}
	// named results start as zero values; a bare return yields them
	var named []types.Object
	if fi.Decl.Type.Results != nil {
		for _, fld := range fi.Decl.Type.Results.List {
			for _, nm := range fld.Names {
				if o := fi.Pkg.TypesInfo.Defs[nm]; o != nil {
					named = append(named, o)
					if z := zeroVal(o.Type()); z != nil {
						ce.Vars[o] = z
					}
				}
			}
		}
	}
	ret, done := ce.execBlock(fi.Decl.Body.List)
	if done && len(ret) == 0 && len(named) > 0 {
		var vals []*Val
		for _, o := range named {
			v, ok := ce.Vars[o]
			if !ok {
				env.fail(c, "callee "+fi.Key+": named result without a value")
			}
			vals = append(vals, v)
		}
		return vals
	}
	if !done || len(ret) == 0 {
		env.fail(c, "callee "+fi.Key+" does not return a value on this path")
	}
	return ret
}

// execBlock interprets a statement list of the supported fragment (if / return / simple assignment).
func (env *Env) execBlock(list []ast.Stmt) ([]*Val, bool) {
	info := env.Pkg.TypesInfo
	for _, s := range list {
		switch x := s.(type) {
		case *ast.ReturnStmt:
			var r []*Val
			if len(x.Results) == 1 {
				// return f(x) with f returning several values
				if c, ok := ast.Unparen(x.Results[0]).(*ast.CallExpr); ok {
					if tup, isTup := info.Types[c].Type.(*types.Tuple); isTup && tup.Len() > 1 {
						if env.Multi != nil {
							if vals, ok := env.Multi(env, c); ok && len(vals) == tup.Len() {
								return vals, true
							}
						}
						return env.evalCallN(c), true
					}
				}
			}
			for _, e := range x.Results {
				r = append(r, env.eval(e))
			}
			return r, true
		case *ast.IfStmt:
			if x.Init != nil {
				if _, d := env.execBlock([]ast.Stmt{x.Init}); d {
					env.fail(x, "return in if-init")
				}
			}
			c := env.eval(x.Cond)
			if constant.BoolVal(c.C) {
				if r, d := env.execBlock(x.Body.List); d {
					return r, true
				}
			} else if x.Else != nil {
				switch el := x.Else.(type) {
				case *ast.BlockStmt:
					if r, d := env.execBlock(el.List); d {
						return r, true
					}
				case *ast.IfStmt:
					if r, d := env.execBlock([]ast.Stmt{el}); d {
						return r, true
					}
				}
			}
		case *ast.AssignStmt:
			if len(x.Lhs) != len(x.Rhs) {
				if c, ok := ast.Unparen(x.Rhs[0]).(*ast.CallExpr); ok && len(x.Rhs) == 1 && env.Multi != nil {
					if vals, ok := env.Multi(env, c); ok && len(vals) == len(x.Lhs) {
						for i, l := range x.Lhs {
							env.assignTo(l, vals[i])
						}
						continue
					}
				}
				if ix, ok := ast.Unparen(x.Rhs[0]).(*ast.IndexExpr); ok && len(x.Rhs) == 1 && len(x.Lhs) == 2 && env.MapOk != nil {
					if v, present, handled := env.MapOk(env, ix); handled {
						if v == nil && !present {
							// a missing key yields the zero value of the element type
							if tv, ok := info.Types[ix.X]; ok {
								if mt, isMap := tv.Type.Underlying().(*types.Map); isMap {
									v = zeroVal(mt.Elem())
								}
							}
						}
						if v == nil {
							v = &Val{Tag: "map-element"}
						}
						env.assignTo(x.Lhs[0], v)
						env.assignTo(x.Lhs[1], boolVal(present))
						continue
					}
				}
				if ta, ok := ast.Unparen(x.Rhs[0]).(*ast.TypeAssertExpr); ok && len(x.Rhs) == 1 && len(x.Lhs) == 2 && env.AssertOK && ta.Type != nil {
					env.assignTo(x.Lhs[0], env.eval(ta.X))
					env.assignTo(x.Lhs[1], boolVal(true))
					continue
				}
				if c, ok := ast.Unparen(x.Rhs[0]).(*ast.CallExpr); ok && len(x.Rhs) == 1 {
					// a function of the module with several results: run its body
					if vals := env.evalCallN(c); len(vals) == len(x.Lhs) {
						for i, l := range x.Lhs {
							env.assignTo(l, vals[i])
						}
						continue
					}
				}
				env.fail(x, "multi-value assignment")
			}
			for i, l := range x.Lhs {
				v := env.eval(x.Rhs[i])
				if !env.assignTo(l, v) {
					env.fail(x, "assignment target")
				}
			}
		case *ast.SwitchStmt:
			if x.Init != nil {
				if _, d := env.execBlock([]ast.Stmt{x.Init}); d {
					env.fail(x, "return in switch-init")
				}
			}
			var tag *Val
			if x.Tag != nil {
				tag = env.eval(x.Tag)
				if tag == nil || tag.C == nil {
					env.fail(x, "switch on a value that is not a constant")
				}
			}
			start, def := -1, -1
			for i, cl := range x.Body.List {
				cc, ok := cl.(*ast.CaseClause)
				if !ok {
					continue
				}
				if cc.List == nil {
					def = i
					continue
				}
				for _, ce := range cc.List {
					v := env.eval(ce)
					if v == nil || v.C == nil {
						env.fail(ce, "case expression that is not a constant")
					}
					if (tag == nil && v.C.Kind() == constant.Bool && constant.BoolVal(v.C)) || (tag != nil && constant.Compare(v.C, token.EQL, tag.C)) {
						start = i
						break
					}
				}
				if start >= 0 {
					break
				}
			}
			if start < 0 {
				start = def
			}
			for i := start; i >= 0 && i < len(x.Body.List); i++ {
				cc := x.Body.List[i].(*ast.CaseClause)
				body := cc.Body
				through := false
				for j, st := range body {
					if br, ok := st.(*ast.BranchStmt); ok {
						if br.Tok == token.FALLTHROUGH {
							through = true
						}
						if br.Tok == token.FALLTHROUGH || (br.Tok == token.BREAK && br.Label == nil) {
							body = body[:j]
							break
						}
					}
				}
				if r, d := env.execBlock(body); d {
					return r, true
				}
				if !through {
					break
				}
			}
		case *ast.BlockStmt:
			if r, d := env.execBlock(x.List); d {
				return r, true
			}
		case *ast.DeclStmt:
			gd, ok := x.Decl.(*ast.GenDecl)
			if !ok || gd.Tok != token.VAR {
				env.fail(x, "declaration")
			}
			for _, sp := range gd.Specs {
				vs := sp.(*ast.ValueSpec)
				for i, nm := range vs.Names {
					if i < len(vs.Values) {
						env.Vars[info.Defs[nm]] = env.eval(vs.Values[i])
					} else if o := info.Defs[nm]; o != nil {
						if z := zeroVal(o.Type()); z != nil {
							env.Vars[o] = z
						} else {
							env.Vars[o] = &Val{C: constant.MakeInt64(0), Fields: map[string]*Val{}}
						}
					}
				}
			}
		case *ast.ExprStmt:
			// a call for its effects on the values it is handed (env.overlay(s))
			if c, ok := ast.Unparen(x.X).(*ast.CallExpr); ok {
				if env.Hook != nil {
					if _, handled := env.Hook(env, c); handled {
						continue
					}
				}
				env.evalCallEffects(c)
				continue
			}
			env.fail(s, "expression statement")
		case *ast.BranchStmt:
			if x.Label == nil && (x.Tok == token.CONTINUE || x.Tok == token.BREAK) {
				env.branch = x.Tok.String()
				return nil, false
			}
			env.fail(s, "branch statement")
		case *ast.IncDecStmt:
			v := env.eval(x.X)
			if v == nil || v.C == nil || v.C.Kind() != constant.Int {
				env.fail(s, "increment of a non-integer")
			}
			op := token.ADD
			if x.Tok == token.DEC {
				op = token.SUB
			}
			if !env.assignTo(x.X, &Val{C: constant.BinaryOp(v.C, op, constant.MakeInt64(1))}) {
				env.fail(s, "increment target")
			}
		case *ast.ForStmt:
			// a counting loop over an evaluated table: interpreted concretely, bounded
			if x.Init != nil {
				env.execBlock([]ast.Stmt{x.Init})
			}
			for n := 0; ; n++ {
				if n > 256 {
					env.fail(s, "loop bound")
				}
				if x.Cond != nil {
					c := env.eval(x.Cond)
					if c == nil || c.C == nil || c.C.Kind() != constant.Bool {
						env.fail(s, "loop condition")
					}
					if !constant.BoolVal(c.C) {
						break
					}
				}
				r, d := env.execBlock(x.Body.List)
				if d {
					return r, true
				}
				if env.branch == "break" {
					env.branch = ""
					break
				}
				env.branch = ""
				if x.Post != nil {
					env.execBlock([]ast.Stmt{x.Post})
				}
			}
		case *ast.RangeStmt:
			if rv, rerr := env.Eval(x.X); rerr == nil && rv != nil && (rv.IsSlice || (rv.C != nil && rv.C.Kind() == constant.Int)) {
				// a table built from a literal (or a constant count): every element in order
				n := len(rv.Elems)
				if !rv.IsSlice {
					n64, _ := constant.Int64Val(rv.C)
					n = int(n64)
				}
				if n > 256 {
					env.fail(s, "loop bound")
				}
				for i := 0; i < n; i++ {
					if x.Key != nil {
						env.assignTo(x.Key, intVal(int64(i)))
					}
					if x.Value != nil && rv.IsSlice {
						env.assignTo(x.Value, rv.Elems[i])
					}
					r, d := env.execBlock(x.Body.List)
					if d {
						return r, true
					}
					if env.branch == "break" {
						env.branch = ""
						break
					}
					env.branch = ""
				}
				continue
			}
			if !env.RangeOnce {
				env.fail(s, fmt.Sprintf("statement %T", s))
			}
			// one representative iteration; a body that assigns to variables living outside the loop is not a
			// pure search: not evaluated
			for _, o := range assignedObjs(info, x.Body) {
				if v, ok := o.(*types.Var); ok && (v.Pos() < x.Pos() || v.Pos() > x.End()) {
					env.fail(s, "range loop that updates "+v.Name())
				}
			}
			if r, d := env.execBlock(x.Body.List); d {
				return r, true
			}
		default:
			env.fail(s, fmt.Sprintf("statement %T", s))
		}
		if env.branch != "" {
			if _, isSwitch := s.(*ast.SwitchStmt); isSwitch && env.branch == "break" {
				env.branch = ""
				continue
			}
			return nil, false
		}
	}
	return nil, false
}

// assignTo stores v into a variable or a field of an evaluated struct value.
func (env *Env) assignTo(l ast.Expr, v *Val) (ok bool) {
	defer func() {
		if r := recover(); r != nil {
			if _, isEE := r.(evalErr); !isEE {
				panic(r)
			}
			ok = false
		}
	}()
	switch lx := ast.Unparen(l).(type) {
	case *ast.Ident:
		if lx.Name == "_" {
			return true
		}
		if o := objOf(env.Pkg.TypesInfo, lx); o != nil {
			env.Vars[o] = v
			return true
		}
	case *ast.SelectorExpr:
		base := env.eval(lx.X)
		for base.Ptr != nil {
			base = base.Ptr
		}
		if base.Fields != nil {
			base.Fields[lx.Sel.Name] = v
			return true
		}
	case *ast.IndexExpr:
		if env.MapStore != nil && env.MapStore(env, lx, v) {
			return true
		}
		// an element the hooks model as one value (dirs[i]): the element takes the value
		if ev := env.eval(lx); ev != nil && v != nil && ev.Fields != nil {
			*ev = *v
			return true
		}
	case *ast.StarExpr:
		// *dst = v: the pointee takes the value (every holder of the pointer sees it)
		if pv := env.eval(lx.X); pv != nil && pv.Ptr != nil && v != nil {
			*pv.Ptr = *v
			return true
		}
	}
	return false
}

// constInt returns the constant integer value of e if the type checker folded it.
func constInt(info *types.Info, e ast.Expr) (int64, bool) {
	if e == nil {
		return 0, false
	}
	if tv, ok := info.Types[e]; ok && tv.Value != nil && tv.Value.Kind() == constant.Int {
		v, exact := constant.Int64Val(tv.Value)
		return v, exact
	}
	return 0, false
}

func constStr(info *types.Info, e ast.Expr) (string, bool) {
	if tv, ok := info.Types[e]; ok && tv.Value != nil && tv.Value.Kind() == constant.String {
		return constant.StringVal(tv.Value), true
	}
	return "", false
}

// singleDef returns the right-hand side of the only assignment to o inside body (1:1 assignments
// and var declarations), or nil when there is none or more than one.
func singleDef(info *types.Info, body ast.Node, o types.Object) ast.Expr {
	var rhs ast.Expr
	n := 0
	ast.Inspect(body, func(x ast.Node) bool {
		switch s := x.(type) {
		case *ast.AssignStmt:
			for i, l := range s.Lhs {
				if objOf(info, l) == o {
					n++
					if len(s.Lhs) == len(s.Rhs) {
						rhs = s.Rhs[i]
					} else {
						n++ // multi-value: not evaluable
					}
				}
			}
		case *ast.ValueSpec:
			for i, nm := range s.Names {
				if info.Defs[nm] == o {
					n++
					if i < len(s.Values) && len(s.Values) == len(s.Names) {
						rhs = s.Values[i]
					} else {
						n++
					}
				}
			}
		case *ast.IncDecStmt:
			if objOf(info, s.X) == o {
				n += 2
			}
		case *ast.RangeStmt:
			if (s.Key != nil && objOf(info, s.Key) == o) || (s.Value != nil && objOf(info, s.Value) == o) {
				n += 2
			}
		}
		return true
	})
	if n == 1 {
		return rhs
	}
	return nil
}

// WalkPath follows the flat CFG from the entry, deciding every branch with the evaluator under env.
// The function must be loop-free on the followed path (a node visited twice is an error). It
// returns the visited node ids in order and the exit node. Assignments on the path are applied
// to env (simple 1:1 assignments to locals and fields), so later guards see them.
func (f *Flat) WalkPath(env *Env) (visited []int, exit int, err error) {
	cur := f.Entry
	defer func() {
		if r := recover(); r != nil {
			if ee, ok := r.(evalErr); ok {
				err = ee
				f.WalkStop = cur
				return
			}
			panic(r)
		}
	}()
	seen := map[int]int{}
	var lastTag *Val
	maxVisits := 1
	if f.WalkMaxVisits > 0 {
		maxVisits = f.WalkMaxVisits
	}
	for {
		if seen[cur] >= maxVisits {
			return visited, -1, fmt.Errorf("loop on evaluated path at %s", f.P.pos(f.Nodes[cur].Ast))
		}
		seen[cur]++
		n := f.Nodes[cur]
		if n.Ast != nil {
			visited = append(visited, cur)
		}
		if n.Exit {
			return visited, cur, nil
		}
		if n.Ast != nil && !n.IsCond {
			// the tag of a switch statement is a node of its own; the case expressions that follow are compared
			// with its value
			if te, isExpr := n.Ast.(ast.Expr); isExpr {
				if v, err := env.Eval(te); err == nil {
					lastTag = v
				} else {
					lastTag = nil
				}
			}
			switch s := n.Ast.(type) {
			case *ast.ValueSpec:
				// go/cfg adds each var spec of a declaration as its own node
				func() {
					defer func() {
						if r := recover(); r != nil {
							if _, ok := r.(evalErr); !ok {
								panic(r)
							}
						}
					}()
					env.execBlock([]ast.Stmt{&ast.DeclStmt{Decl: &ast.GenDecl{Tok: token.VAR, Specs: []ast.Spec{s}}}})
				}()
			case *ast.ExprStmt:
				// a call for its effect: evaluated for the sake of the hooks (a yield, a recorded call); failures are ignored
				if f.WalkExprStmts {
					func() {
						defer func() {
							if r := recover(); r != nil {
								if _, ok := r.(evalErr); !ok {
									panic(r)
								}
							}
						}()
						env.eval(s.X)
					}()
				}
			case *ast.AssignStmt, *ast.DeclStmt:
				if as, isAs := s.(*ast.AssignStmt); isAs && len(as.Lhs) == len(as.Rhs) && len(as.Lhs) > 1 {
					// a parallel assignment (the parameter binding of a spliced-in helper): each value on its
					// own, so that one value outside the fragment (a function literal) does not lose the others
					vals := make([]*Val, len(as.Rhs))
					for i, rh := range as.Rhs {
						if v, err := env.Eval(rh); err == nil {
							vals[i] = v
						}
					}
					for i, l := range as.Lhs {
						if vals[i] == nil || !env.assignTo(l, vals[i]) {
							if o := objOf(f.Pkg.TypesInfo, l); o != nil {
								delete(env.Vars, o)
							}
						}
					}
					break
				}
				func() {
					defer func() {
						if r := recover(); r != nil {
							if _, ok := r.(evalErr); !ok {
								panic(r)
							}
							// value not evaluable: forget the targets
							for _, o := range assignedObjs(f.Pkg.TypesInfo, n.Ast) {
								delete(env.Vars, o)
							}
						}
					}()
					env.execBlock([]ast.Stmt{s.(ast.Stmt)})
				}()
			}
		}
		if len(n.Succs) == 1 {
			cur = n.Succs[0].To
			continue
		}
		if !n.IsCond {
			return visited, -1, fmt.Errorf("multi-way branch without condition at %s", f.P.pos(n.Ast))
		}
		v := env.eval(n.Ast.(ast.Expr))
		if v != nil && v.C != nil && v.C.Kind() != constant.Bool && lastTag != nil && lastTag.C != nil {
			// a case expression of a tagged switch
			v = boolVal(constant.Compare(v.C, token.EQL, lastTag.C))
		}
		if v == nil || v.C == nil || v.C.Kind() != constant.Bool {
			return visited, -1, fmt.Errorf("condition at %s is not decidable", f.P.pos(n.Ast))
		}
		want := 2
		if constant.BoolVal(v.C) {
			want = 1
		}
		next := -1
		for _, e := range n.Succs {
			if e.Label == want {
				next = e.To
			}
		}
		if next < 0 {
			return visited, -1, fmt.Errorf("no %d-edge at %s", want, f.P.pos(n.Ast))
		}
		cur = next
	}
}

// isNamedResult: v is declared in the result list of a function of the program.
func (p *Prog) isNamedResult(v *types.Var) bool {
	if p.namedResults == nil {
		p.namedResults = map[*types.Var]bool{}
		for _, fi := range p.Funcs {
			if fi.Decl == nil || fi.Decl.Type.Results == nil {
				continue
			}
			for _, fld := range fi.Decl.Type.Results.List {
				for _, nm := range fld.Names {
					if o, ok := fi.Pkg.TypesInfo.Defs[nm].(*types.Var); ok {
						p.namedResults[o] = true
					}
				}
			}
		}
	}
	return p.namedResults[v]
}
