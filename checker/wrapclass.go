package main

// Generic rule wrap-class: on every call-graph path from an origin of a sentinel of package
// fs_db to the API entry points, each frame keeps the class of the error (returned unchanged,
// %w at the matching verb, errors.Join, accepted adapter). Only call sites whose callee may
// (transitively) produce one of the sentinels of interest are obligations: an error whose
// class nobody relies on may be re-worded freely.

import (
	"fmt"
	"go/ast"
	"go/types"
	"sort"
	"strings"
)

// mayProduce computes, per function, the sentinels of the root package it may return:
// those it mentions outside errors.Is/As comparisons, plus those of its callees.
func (p *Prog) mayProduce() map[string]map[string]bool {
	if p.produce != nil {
		return p.produce
	}
	sent := rootSentinels(p)
	direct := map[string]map[string]bool{}
	for k, fi := range p.Funcs {
		if fi.Decl.Body == nil {
			continue
		}
		info := fi.Pkg.TypesInfo
		inCompare := map[ast.Node]bool{}
		ast.Inspect(fi.Decl.Body, func(x ast.Node) bool {
			if c, ok := x.(*ast.CallExpr); ok && (isFunc(info, c, "errors", "Is") || isFunc(info, c, "errors", "As")) {
				for _, a := range c.Args[1:] {
					inCompare[a] = true
				}
			}
			return true
		})
		var visit func(n ast.Node)
		visit = func(n ast.Node) {
			ast.Inspect(n, func(x ast.Node) bool {
				if x == nil {
					return false
				}
				if inCompare[x] {
					return false
				}
				var id *ast.Ident
				switch e := x.(type) {
				case *ast.SelectorExpr:
					id = e.Sel
				case *ast.Ident:
					id = e
				}
				if id != nil {
					if o := info.Uses[id]; o != nil {
						if s, ok := sent[o]; ok {
							if direct[k] == nil {
								direct[k] = map[string]bool{}
							}
							direct[k][s] = true
						}
					}
				}
				return true
			})
		}
		visit(fi.Decl.Body)
	}
	cg := p.CallGraph()
	res := map[string]map[string]bool{}
	for k, d := range direct {
		res[k] = map[string]bool{}
		for s := range d {
			res[k][s] = true
		}
	}
	changed := true
	for changed {
		changed = false
		for caller, outs := range cg.Out {
			for _, callee := range outs {
				for s := range res[callee] {
					if res[caller] == nil {
						res[caller] = map[string]bool{}
					}
					if !res[caller][s] {
						res[caller][s] = true
						changed = true
					}
				}
			}
		}
	}
	p.produce = res
	return res
}

type wrapOpts struct {
	Sentinels []string            // sentinels whose class must survive (e.g. fs_db.ErrNotFound)
	Entries   []string            // API entry points (function keys)
	SkipPkgs  []string            // packages below which the chain is not followed (adapters checked elsewhere)
	Tolerated map[string][]string // function key -> error states in which ignoring the error is part of the design
	Through   []string
	Sinks     []string
}

// wrapClassRule checks every relevant call site in the functions reachable from the entries.
func wrapClassRule(p *Prog, r *Report, rule string, o wrapOpts) int {
	cg := p.CallGraph()
	prod := p.mayProduce()
	want := map[string]bool{}
	for _, s := range o.Sentinels {
		want[s] = true
	}
	skip := func(k string) bool {
		for _, sp := range o.SkipPkgs {
			if strings.Contains(k, sp+".") {
				return true
			}
		}
		return false
	}
	reach := cg.Reachable(o.Entries, skip)
	var fns []string
	for k := range reach {
		if p.Funcs[k] != nil && p.Funcs[k].Decl.Body != nil {
			fns = append(fns, k)
		}
	}
	sort.Strings(fns)
	// a tolerance granted to a function extends to its function literals and to helpers of its package that only
	// it (or other functions with the same tolerance) calls: the design decision "a missing content file is fine
	// while deleting" does not depend on which statement of the deletion sits in which function
	tolerated := map[string][]string{}
	for k, v := range o.Tolerated {
		tolerated[k] = v
		// (the same method with a value instead of a pointer receiver, or the reverse)
		if alt := toggleRecvStar(k); alt != k {
			if _, own := o.Tolerated[alt]; !own {
				tolerated[alt] = v
			}
		}
	}
	// a tolerance written for the per-file step of the cleaner holds for the whole package: the step may be
	// merged into the loop that calls it (nothing else in that package looks contents up)
	for k, v := range o.Tolerated {
		if fi := p.Funcs[k]; fi != nil || !strings.Contains(k, "internal/usecase/cleaner.") {
			continue
		}
		for _, fk := range fns {
			if f2 := p.Funcs[fk]; f2 != nil && shortPath(f2.Pkg.PkgPath) == "internal/usecase/cleaner" {
				if _, has := tolerated[fk]; !has {
					tolerated[fk] = v
				}
			}
		}
	}
	callers := map[string][]string{}
	for caller, outs := range cg.Out {
		for _, callee := range outs {
			callers[callee] = append(callers[callee], caller)
		}
	}
	for changed := true; changed; {
		changed = false
		for _, k := range fns {
			if _, has := tolerated[k]; has || len(callers[k]) == 0 {
				continue
			}
			var tol []string
			all := true
			for _, c := range callers[k] {
				c = strings.SplitN(c, "$", 2)[0]
				t, ok := tolerated[c]
				if !ok || p.Funcs[c] == nil || p.Funcs[k] == nil || p.Funcs[c].Pkg != p.Funcs[k].Pkg {
					all = false
					break
				}
				tol = t
			}
			if all && tol != nil {
				tolerated[k] = tol
				changed = true
			}
		}
	}
	n := 0
	var units []*FuncInfo
	for _, k := range fns {
		fi := p.Funcs[k]
		units = append(units, fi)
		ln := 0
		ast.Inspect(fi.Decl.Body, func(x ast.Node) bool {
			if lit, ok := x.(*ast.FuncLit); ok {
				ln++
				units = append(units, fi.LitInfo(lit, ln))
			}
			return true
		})
	}
	for _, fi := range units {
		k := fi.Key
		res := fi.Sig().Results()
		if res.Len() == 0 || !isErrorType(res.At(res.Len()-1).Type()) {
			// functions without error result (goroutine bodies, callbacks) are handled by their own rules
			continue
		}
		f := p.FlatOf(fi)
		idx := map[string]int{}
		for _, gn := range f.Nodes {
			if gn.Ast == nil {
				continue
			}
			for _, c := range callsIn(gn.Ast, false) {
				rel := []string{}
				for _, ck := range p.calleeKeys(fi.Pkg, c) {
					for s := range prod[ck] {
						if want[s] {
							rel = append(rel, s)
						}
					}
				}
				// a function literal called on the spot (a row of an unrolled table of steps): what the calls in
				// its body may produce comes out of this call
				if lit, isLit := ast.Unparen(c.Fun).(*ast.FuncLit); isLit {
					ast.Inspect(lit.Body, func(y ast.Node) bool {
						if ic, ok := y.(*ast.CallExpr); ok {
							for _, ck := range p.calleeKeys(fi.Pkg, ic) {
								for s := range prod[ck] {
									if want[s] {
										rel = append(rel, s)
									}
								}
							}
						}
						return true
					})
				}
				if len(rel) == 0 {
					continue
				}
				bs := f.bindOf(gn, c)
				if bs.Kind == "none" {
					continue
				}
				name := types.ExprString(c.Fun)
				idx[name]++
				cons := fmt.Sprintf("%s#%s/%d", k, name, idx[name])
				n++
				if bs.Kind == "deferred" || bs.Kind == "dropped" || bs.Kind == "go" {
					// e.g. defer content.Close(): not an origin of the sentinels even if the static callee set says so
					isClose := strings.HasSuffix(name, ".Close") || strings.HasSuffix(name, ".GC")
					if isClose {
						n--
						continue
					}
				}
				tol := tolerated[strings.SplitN(k, "$", 2)[0]]
				// a helper that can only fail with tolerated sentinels (a lookup answering "not registered"): its
				// error states are those sentinels, whatever test the caller applies (err == nil for "is registered")
				if len(tol) > 0 {
					only := true
					any := false
					for _, ck := range p.calleeKeys(fi.Pkg, c) {
						h := p.Funcs[ck]
						if h == nil || h.Pkg != fi.Pkg || h.Obj.Exported() {
							only = false
							continue
						}
						for s := range prod[ck] {
							any = true
							isTol := false
							for _, t := range tol {
								if t == "is:"+s {
									isTol = true
								}
							}
							if !isTol {
								only = false
							}
						}
					}
					if only && any && bs.Kind == "assigned" {
						r.Hold(rule, cons, p.pos(c), "the helper can only fail with a tolerated sentinel")
						continue
					}
				}
				f.SiteConsumed(r, rule, cons, fi, bs, flowOpts{Class: true, Tolerated: tol, Through: o.Through, Sinks: o.Sinks})
			}
		}
	}
	return n
}
