package main

// runThorough: additional configurations and checker self-validation (filled in below).
func runThorough(p *Prog, r *Report, repo, verif string) {
	thoroughConfigs(p, r, repo)
	thoroughSelftest(p, r, repo, verif)
}
