package main

import (
	"fmt"
	"go/ast"
	"go/token"
	"go/types"
	"golang.org/x/tools/go/cfg"
	"strings"

	"golang.org/x/tools/go/packages"
	"golang.org/x/tools/go/types/typeutil"
)

// Interprocedural helpers shared by the structural rules: the rules state what must happen to a value
// ("the popped node reaches DeleteLink", "the header is sent") and must not care whether the code does it
// in place or through a small helper of the same module. Summaries are computed on demand from the helper's
// own flow graph, memoised, and bounded by a visiting set (recursion counts as "does not").

// staticCallee returns the product function a call statically resolves to (nil for interface calls,
// function values, builtins and functions outside the module).
func (p *Prog) staticCallee(pkg *packages.Package, c *ast.CallExpr) *FuncInfo {
	return p.staticCalleeInfo(pkg.TypesInfo, c)
}

func (p *Prog) staticCalleeInfo(info *types.Info, c *ast.CallExpr) *FuncInfo {
	fn, ok := typeutil.Callee(info, c).(*types.Func)
	if !ok || fn == nil {
		return nil
	}
	fn = fn.Origin()
	if sig, ok := fn.Type().(*types.Signature); ok && sig.Recv() != nil {
		if _, isIface := sig.Recv().Type().Underlying().(*types.Interface); isIface {
			return nil
		}
	}
	fi := p.Funcs[fkey(fn)]
	if fi == nil || fi.Decl == nil || fi.Decl.Body == nil {
		return nil
	}
	return fi
}

// funcOfObj returns the analysed function behind a function object (generic origin), nil for interface methods
// and functions without a body in the module.
func (p *Prog) funcOfObj(fn *types.Func) *FuncInfo {
	if fn == nil {
		return nil
	}
	fn = fn.Origin()
	if sig, ok := fn.Type().(*types.Signature); ok && sig.Recv() != nil {
		if _, isIface := sig.Recv().Type().Underlying().(*types.Interface); isIface {
			return nil
		}
	}
	fi := p.Funcs[fkey(fn)]
	if fi == nil || fi.Decl == nil || fi.Decl.Body == nil {
		return nil
	}
	return fi
}

// paramObjs lists the receiver (index -1) and parameters of a declared function as objects.
func paramObjs(fi *FuncInfo) map[int]types.Object {
	res := map[int]types.Object{}
	info := fi.Pkg.TypesInfo
	if fi.Lit != nil {
		i := 0
		for _, fl := range fi.Lit.Type.Params.List {
			for _, nm := range fl.Names {
				res[i] = info.Defs[nm]
				i++
			}
			if len(fl.Names) == 0 {
				i++
			}
		}
		return res
	}
	if fi.Decl.Recv != nil && len(fi.Decl.Recv.List) == 1 && len(fi.Decl.Recv.List[0].Names) == 1 {
		res[-1] = info.Defs[fi.Decl.Recv.List[0].Names[0]]
	}
	i := 0
	for _, fl := range fi.Decl.Type.Params.List {
		for _, nm := range fl.Names {
			res[i] = info.Defs[nm]
			i++
		}
		if len(fl.Names) == 0 {
			i++
		}
	}
	return res
}

// argExprs maps parameter indices (receiver = -1) to the argument expressions of a static call.
func argExprs(c *ast.CallExpr, callee *FuncInfo) map[int]ast.Expr {
	res := map[int]ast.Expr{}
	if callee.Lit == nil && callee.Decl != nil && callee.Decl.Recv != nil {
		if sel, ok := ast.Unparen(c.Fun).(*ast.SelectorExpr); ok {
			res[-1] = sel.X
		}
	}
	for i, a := range c.Args {
		res[i] = a
	}
	return res
}

// mustUse is a demand-driven summary "every path through the function applies <direct use> to parameter i".
type mustUse struct {
	p      *Prog
	name   string
	direct func(fi *FuncInfo, c *ast.CallExpr, match func(ast.Expr) bool) bool
	memo   map[string]bool
	open   map[string]bool
	// Prune optionally removes edges that are irrelevant for the parameter (e.g. the "list is empty" edge)
	Prune func(fi *FuncInfo, f *Flat, po types.Object) *Flat
	// may: "some path of the helper applies the use" instead of "every path"
	may bool
}

func (p *Prog) newMustUse(name string, direct func(fi *FuncInfo, c *ast.CallExpr, match func(ast.Expr) bool) bool) *mustUse {
	return &mustUse{p: p, name: name, direct: direct, memo: map[string]bool{}, open: map[string]bool{}}
}

// CallUses reports whether the call applies the use to an expression accepted by match: directly, or by
// handing it to a module function whose every path applies it to the corresponding parameter.
func (m *mustUse) CallUses(fi *FuncInfo, c *ast.CallExpr, match func(ast.Expr) bool) bool {
	if m.direct(fi, c, match) {
		return true
	}
	callee := m.p.staticCallee(fi.Pkg, c)
	if callee == nil {
		return false
	}
	for idx, a := range argExprs(c, callee) {
		if match(a) && m.Param(callee, idx) {
			return true
		}
	}
	return false
}

// Param reports whether every path from the entry of fi to a return applies the use to parameter idx.
func (m *mustUse) Param(fi *FuncInfo, idx int) bool { return m.ParamField(fi, idx, "") }

// ParamField is Param for a value that travels in a field of the parameter (a small carrier struct:
// batch{files: list} handed to batch.run): every path applies the use to parameter.field.
func (m *mustUse) ParamField(fi *FuncInfo, idx int, field string) bool {
	key := fi.Key + "#" + itoa(idx) + "." + field
	if v, ok := m.memo[key]; ok {
		return v
	}
	if m.open[key] {
		return false
	}
	m.open[key] = true
	defer delete(m.open, key)
	po := paramObjs(fi)[idx]
	res := false
	if po != nil {
		info := fi.Pkg.TypesInfo
		f := m.p.FlatOf(fi)
		if m.Prune != nil {
			f = m.Prune(fi, f, po)
		}
		match := func(e ast.Expr) bool { return objOf(info, e) == po }
		if field != "" {
			match = func(e ast.Expr) bool {
				sel, ok := ast.Unparen(e).(*ast.SelectorExpr)
				return ok && sel.Sel.Name == field && objOf(info, sel.X) == po
			}
		}
		done := setOf(f.Match(func(n *GNode) bool {
			for _, c := range callsIn(n.Ast, false) {
				if m.CallUses(fi, c, match) {
					return true
				}
				// the carrier handed on whole
				if field != "" {
					if callee := m.p.staticCallee(fi.Pkg, c); callee != nil {
						for i2, a := range argExprs(c, callee) {
							if objOf(info, a) == po && m.ParamField(callee, i2, field) {
								return true
							}
						}
					}
				}
			}
			return false
		}))
		if len(done) > 0 {
			res = true
			if !done[f.Entry] && !m.may {
				reach := f.Reach([]int{f.Entry}, func(x *GNode) bool { return done[x.ID] }, nil)
				for _, e := range f.Exits() {
					if reach[e] && !f.isNoReturnExit(f.Nodes[e]) {
						res = false
					}
				}
			}
		}
	}
	m.memo[key] = res
	return res
}

func itoa(i int) string {
	if i < 0 {
		return "recv"
	}
	return string(rune('0'+i/10)) + string(rune('0'+i%10))
}

// deepCalls reports whether calling fi certainly or possibly (any=true) reaches a call of one of keys through
// static calls into module functions, to the given depth.
func (p *Prog) deepCalls(pkg *packages.Package, c *ast.CallExpr, depth int, keys ...string) bool {
	if p.callIs(pkg, c, keys...) {
		return true
	}
	if depth <= 0 {
		return false
	}
	callee := p.staticCallee(pkg, c)
	if callee == nil {
		return false
	}
	found := false
	walkNoLit(callee.Decl.Body, func(x ast.Node) bool {
		if found {
			return false
		}
		if cc, ok := x.(*ast.CallExpr); ok && p.deepCalls(callee.Pkg, cc, depth-1, keys...) {
			found = true
		}
		return true
	})
	return found
}

// callPred is a named predicate on call expressions; the name keys the memoised summaries.
type callPred struct {
	name string
	fn   func(pkg *packages.Package, c *ast.CallExpr) bool
}

// mayCall reports whether the call matches pred or statically enters a module function that contains
// (outside function literals, transitively) a matching call.
func (p *Prog) mayCall(pkg *packages.Package, c *ast.CallExpr, pred callPred) bool {
	if pred.fn(pkg, c) {
		return true
	}
	callee := p.staticCallee(pkg, c)
	return callee != nil && p.funcCalls(callee, pred, false)
}

// mustCall reports whether the call matches pred or statically enters a module function every path of which
// passes a matching call.
func (p *Prog) mustCall(pkg *packages.Package, c *ast.CallExpr, pred callPred) bool {
	if pred.fn(pkg, c) {
		return true
	}
	callee := p.staticCallee(pkg, c)
	return callee != nil && p.funcCalls(callee, pred, true)
}

func (p *Prog) funcCalls(fi *FuncInfo, pred callPred, must bool) bool {
	if p.callSum == nil {
		p.callSum = map[string]int{}
	}
	key := pred.name + "|" + fi.Key
	if must {
		key += "|must"
	}
	switch p.callSum[key] {
	case 1:
		return true
	case 2, 3: // 3 = being computed: recursion contributes nothing
		return false
	}
	p.callSum[key] = 3
	res := false
	if !must {
		walkNoLit(fi.Decl.Body, func(x ast.Node) bool {
			if c, ok := x.(*ast.CallExpr); ok && !res && p.mayCall(fi.Pkg, c, pred) {
				res = true
			}
			return !res
		})
	} else {
		f := p.FlatOf(fi)
		done := setOf(f.Match(func(n *GNode) bool {
			if _, isDefer := n.Ast.(*ast.DeferStmt); isDefer {
				return false
			}
			if _, isGo := n.Ast.(*ast.GoStmt); isGo {
				return false
			}
			for _, c := range callsIn(n.Ast, false) {
				if p.mustCall(fi.Pkg, c, pred) {
					return true
				}
			}
			return false
		}))
		if len(done) > 0 {
			res = true
			if !done[f.Entry] {
				reach := f.Reach([]int{f.Entry}, func(x *GNode) bool { return done[x.ID] }, nil)
				for _, e := range f.Exits() {
					if reach[e] && !f.isNoReturnExit(f.Nodes[e]) {
						res = false
					}
				}
			}
		}
	}
	if res {
		p.callSum[key] = 1
	} else {
		p.callSum[key] = 2
	}
	return res
}

// NodesMay / NodesMust list the nodes of the flow graph that contain a call which may / must reach pred.
// Deferred and spawned calls are not counted.
func (f *Flat) NodesMay(pred callPred) []int  { return f.nodesCalling(pred, false) }
func (f *Flat) NodesMust(pred callPred) []int { return f.nodesCalling(pred, true) }

func (f *Flat) nodesCalling(pred callPred, must bool) []int {
	return f.Match(func(n *GNode) bool {
		switch n.Ast.(type) {
		case *ast.DeferStmt, *ast.GoStmt:
			return false
		}
		for _, c := range callsIn(n.Ast, false) {
			if must && f.P.mustCall(f.Pkg, c, pred) || !must && f.P.mayCall(f.Pkg, c, pred) {
				return true
			}
		}
		return false
	})
}

// keysPred builds a call predicate from callee keys.
func (p *Prog) keysPred(keys ...string) callPred {
	name := ""
	for _, k := range keys {
		name += k + ","
	}
	return callPred{name: name, fn: func(pkg *packages.Package, c *ast.CallExpr) bool { return p.callIs(pkg, c, keys...) }}
}

// classThrough reports whether the call hands an expression accepted by match to a module function whose error
// result keeps that parameter's class on every path on which the parameter may be non-nil (decided by the
// error-flow analysis of the helper itself, with the parameter as the tracked error).
func (p *Prog) classThrough(info *types.Info, c *ast.CallExpr, match func(ast.Expr) bool) (bool, string) {
	callee := p.staticCalleeInfo(info, c)
	if callee == nil {
		return false, ""
	}
	res := callee.Sig().Results()
	if res.Len() == 0 || !isErrorType(res.At(res.Len()-1).Type()) {
		return false, ""
	}
	for idx, a := range argExprs(c, callee) {
		if idx < 0 || !match(a) {
			continue
		}
		if p.keepsParamClass(callee, idx) {
			return true, "through " + callee.Key + " (keeps the class of its argument)"
		}
	}
	return false, ""
}

func (p *Prog) keepsParamClass(fi *FuncInfo, idx int) bool {
	if p.callSum == nil {
		p.callSum = map[string]int{}
	}
	key := "keepsParamClass|" + fi.Key + "#" + itoa(idx)
	switch p.callSum[key] {
	case 1:
		return true
	case 2, 3:
		return false
	}
	p.callSum[key] = 3
	ok := false
	if po := paramObjs(fi)[idx]; po != nil && isErrorType(po.Type()) {
		f := p.FlatOf(fi)
		ok = f.errorConsumed(fi, f.Entry, po, flowOpts{Class: true}).OK
	}
	if ok {
		p.callSum[key] = 1
	} else {
		p.callSum[key] = 2
	}
	return ok
}

// errSitesInScope applies the error-flow rule to every error source inside a set of functions (typically the
// methods of one type): the base sources matched by pred, and calls of scope functions that return an error and
// may reach a base source (a helper hands the error on, so its caller owes the same care). It returns the
// number of base sites seen.
func (p *Prog) errSitesInScope(r *Report, rule string, scope []string, base callPred, optsFor func(isBase bool) flowOpts) int {
	in := map[string]bool{}
	for _, k := range scope {
		in[k] = true
	}
	nBase := 0
	doneIter := map[string]bool{}
	for _, k := range scope {
		fi := p.Func(k)
		if fi == nil {
			continue
		}
		f := p.FlatOf(fi)
		// a loop over an iterator of the module that yields (value, error): the base calls inside the iterator are
		// judged there (yielding the error is delivery), the loop variable is a derived source here
		for _, rs := range rangeLoops(fi.Decl.Body) {
			ic, ok := ast.Unparen(rs.X).(*ast.CallExpr)
			if !ok || rs.Value == nil {
				continue
			}
			lit, yield := p.errIterator(fi.Pkg, ic)
			if lit == nil {
				continue
			}
			lf := p.FlatOf(lit)
			inLit := 0
			for _, n := range lf.Nodes {
				if n.Ast == nil {
					continue
				}
				for _, c := range callsIn(n.Ast, false) {
					if !base.fn(lit.Pkg, c) {
						continue
					}
					inLit++
					if !doneIter[lit.Key] {
						nBase++
						o := optsFor(true)
						o.SinkParams = map[types.Object]bool{yield: true}
						lf.SiteConsumed(r, rule, fmt.Sprintf("%s#source/%s", lit.Key, types.ExprString(c.Fun)), lit, lf.bindOf(n, c), o)
					}
				}
			}
			doneIter[lit.Key] = true
			if inLit == 0 {
				continue
			}
			if eo := objOf(fi.Pkg.TypesInfo, rs.Value); eo != nil && isErrorType(eo.Type()) {
				f.RangeErrConsumed(r, rule, fmt.Sprintf("%s#iterator/%s", k, types.ExprString(ic.Fun)), fi, rs, eo, optsFor(false))
			}
		}
		for _, n := range f.Nodes {
			if n.Ast == nil {
				continue
			}
			for _, c := range callsIn(n.Ast, false) {
				isBase := base.fn(fi.Pkg, c)
				derived := false
				if !isBase {
					if callee := p.staticCallee(fi.Pkg, c); callee != nil && in[callee.Key] {
						res := callee.Sig().Results()
						derived = res.Len() > 0 && isErrorType(res.At(res.Len()-1).Type()) && p.funcCalls(callee, base, false)
					}
				}
				if !isBase && !derived {
					continue
				}
				what := "source"
				if isBase {
					nBase++
				} else {
					what = "helper"
				}
				f.SiteConsumed(r, rule, fmt.Sprintf("%s#%s/%s", k, what, types.ExprString(c.Fun)), fi, f.bindOf(n, c), optsFor(isBase))
			}
		}
	}
	return nBase
}

// callbackOf returns the function that a call runs as its callback argument: a function literal (pseudo entry of
// the owner) or a function / method value of the module (u.persist, persist). nil when there is none.
func (p *Prog) callbackOf(owner *FuncInfo, call *ast.CallExpr) *FuncInfo {
	info := owner.Pkg.TypesInfo
	for i, a := range call.Args {
		a = ast.Unparen(a)
		if l, ok := a.(*ast.FuncLit); ok {
			return owner.LitInfo(l, i+1)
		}
		if tv, ok := info.Types[a]; !ok || tv.Type == nil {
			continue
		} else if _, isSig := tv.Type.Underlying().(*types.Signature); !isSig {
			continue
		}
		var fn *types.Func
		switch x := a.(type) {
		case *ast.Ident:
			fn, _ = info.Uses[x].(*types.Func)
		case *ast.SelectorExpr:
			fn, _ = info.Uses[x.Sel].(*types.Func)
		}
		if fn != nil {
			if fi := p.Funcs[fkey(fn.Origin())]; fi != nil && fi.Decl.Body != nil {
				return fi
			}
		}
	}
	return nil
}

// buildsType reports whether the expression contains a composite literal whose type name contains typeName,
// directly or inside a module function it calls statically (a message built by a helper).
func (p *Prog) buildsType(pkg *packages.Package, e ast.Node, typeName string, depth int) bool {
	found := false
	ast.Inspect(e, func(x ast.Node) bool {
		if found {
			return false
		}
		switch y := x.(type) {
		case *ast.CompositeLit:
			if tv, ok := pkg.TypesInfo.Types[y]; ok && tv.Type != nil && strings.Contains(tv.Type.String(), typeName) {
				found = true
			}
		case *ast.CallExpr:
			if depth > 0 {
				if callee := p.staticCallee(pkg, y); callee != nil && p.buildsType(callee.Pkg, callee.Decl.Body, typeName, depth-1) {
					found = true
				}
			}
		}
		return !found
	})
	return found
}

// funcCallsDeep reports whether the function, one of its function literals, or a module function reachable from
// them by static calls (three levels) contains a call matching pred. It is used to tell "the step is gone"
// from "the step is somewhere the rule cannot see in order".
func (p *Prog) funcCallsDeep(fi *FuncInfo, pred callPred) bool {
	seen := map[string]bool{}
	var walk func(pkg *packages.Package, body ast.Node, depth int) bool
	walk = func(pkg *packages.Package, body ast.Node, depth int) bool {
		found := false
		ast.Inspect(body, func(x ast.Node) bool {
			if found {
				return false
			}
			c, ok := x.(*ast.CallExpr)
			if !ok {
				return true
			}
			if pred.fn(pkg, c) {
				found = true
				return false
			}
			if depth > 0 {
				if callee := p.staticCallee(pkg, c); callee != nil && !seen[callee.Key] {
					seen[callee.Key] = true
					if walk(callee.Pkg, callee.Decl.Body, depth-1) {
						found = true
					}
				}
			}
			return !found
		})
		return found
	}
	b := fi.body()
	if b == nil {
		return false
	}
	return walk(fi.Pkg, b, 3)
}

// returnedFunc resolves the function a function returns (its single return of a function value): a literal
// (pseudo entry of fi), or a method value / function of the module. pos is the syntax to report at.
func (p *Prog) returnedFunc(fi *FuncInfo) (*FuncInfo, ast.Node) {
	all := p.returnedFuncs(fi)
	if len(all) == 0 {
		return nil, nil
	}
	last := all[len(all)-1]
	return last.FI, last.Pos
}

// returnedFn is one function value a function returns; Value is the returned expression (for a method value
// its receiver expression is Value.(*ast.SelectorExpr).X).
type returnedFn struct {
	FI    *FuncInfo
	Pos   ast.Node
	Value ast.Expr
}

func (p *Prog) returnedFuncs(fi *FuncInfo) []returnedFn {
	var out []returnedFn
	info := fi.Pkg.TypesInfo
	var res *FuncInfo
	var pos ast.Node
	n := 0
	walkNoLit(fi.Decl.Body, func(x ast.Node) bool {
		rs, ok := x.(*ast.ReturnStmt)
		if !ok || len(rs.Results) != 1 {
			return true
		}
		if tv, ok := info.Types[rs.Results[0]]; !ok || tv.Type == nil {
			return true
		} else if _, isSig := tv.Type.Underlying().(*types.Signature); !isSig {
			return true
		}
		switch v := ast.Unparen(rs.Results[0]).(type) {
		case *ast.FuncLit:
			n++
			res, pos = fi.LitInfo(v, n), v
			out = append(out, returnedFn{res, pos, v})
		case *ast.SelectorExpr:
			if fn, ok := info.Uses[v.Sel].(*types.Func); ok {
				if cfi := p.Funcs[fkey(fn.Origin())]; cfi != nil && cfi.Decl.Body != nil {
					n++
					res, pos = cfi, cfi.Decl
					out = append(out, returnedFn{res, pos, v})
				}
			}
		case *ast.Ident:
			if fn, ok := info.Uses[v].(*types.Func); ok {
				if cfi := p.Funcs[fkey(fn.Origin())]; cfi != nil && cfi.Decl.Body != nil {
					n++
					res, pos = cfi, cfi.Decl
					out = append(out, returnedFn{res, pos, v})
				}
			}
		case *ast.CallExpr:
			// built by a function of the module that returns the function value: terminated(slices.Values(ds))
			if h := p.staticCallee(fi.Pkg, v); h != nil && h != fi && h.Decl != nil && h.Decl.Body != nil && h.Pkg == fi.Pkg {
				for _, inner := range p.returnedFuncs(h) {
					n++
					out = append(out, inner)
				}
			}
		}
		return true
	})
	return out
}

// carrierCtor: the call builds a small struct of the module around one of its arguments - a function of the module
// whose body is "return T{..., F: param, ...}" (or &T{...}). It returns the field the argument at index arg is
// stored in ("" when the call is not of that shape).
func (p *Prog) carrierCtor(pkg *packages.Package, c *ast.CallExpr, arg int) string {
	h := p.staticCallee(pkg, c)
	if h == nil || h.Decl == nil || h.Decl.Body == nil || len(h.Decl.Body.List) != 1 {
		return ""
	}
	rs, ok := h.Decl.Body.List[0].(*ast.ReturnStmt)
	if !ok || len(rs.Results) != 1 {
		return ""
	}
	e := ast.Unparen(rs.Results[0])
	if u, ok := e.(*ast.UnaryExpr); ok && u.Op == token.AND {
		e = ast.Unparen(u.X)
	}
	cl, ok := e.(*ast.CompositeLit)
	if !ok {
		return ""
	}
	po := paramObjs(h)[arg]
	if po == nil {
		return ""
	}
	for _, el := range cl.Elts {
		if kv, ok := el.(*ast.KeyValueExpr); ok {
			if k, ok := kv.Key.(*ast.Ident); ok && objOf(h.Pkg.TypesInfo, kv.Value) == po {
				return k.Name
			}
		}
	}
	return ""
}

// errIterator: the call is of a module function that returns a range-over-func iterator whose last yielded value is
// an error (func Chunks(s) iter.Seq2[[]byte, error] { return func(yield func([]byte, error) bool) {...} }). It
// returns the literal as a pseudo function and its yield parameter.
func (p *Prog) errIterator(pkg *packages.Package, c *ast.CallExpr) (*FuncInfo, types.Object) {
	h := p.staticCallee(pkg, c)
	if h == nil || h.Decl == nil || h.Decl.Body == nil || len(h.Decl.Body.List) == 0 {
		return nil, nil
	}
	rs, ok := h.Decl.Body.List[len(h.Decl.Body.List)-1].(*ast.ReturnStmt)
	if !ok || len(rs.Results) != 1 {
		return nil, nil
	}
	lit, ok := ast.Unparen(rs.Results[0]).(*ast.FuncLit)
	if !ok || lit.Type.Params.NumFields() != 1 || len(lit.Type.Params.List[0].Names) != 1 {
		return nil, nil
	}
	yo := h.Pkg.TypesInfo.Defs[lit.Type.Params.List[0].Names[0]]
	if yo == nil {
		return nil, nil
	}
	ysig, ok := yo.Type().Underlying().(*types.Signature)
	if !ok || ysig.Params().Len() == 0 || !isErrorType(ysig.Params().At(ysig.Params().Len()-1).Type()) {
		return nil, nil
	}
	return h.LitInfo(lit, 1), yo
}

// RangeErrConsumed: the error variable of "for v, err := range iterator(...)" is handled in every iteration: on every
// path through the body on which it may be non-nil it is consumed (returned with its class, delivered), and the loop
// does not go on to the next element with it pending.
func (f *Flat) RangeErrConsumed(r *Report, rule, cons string, fi *FuncInfo, rs *ast.RangeStmt, E types.Object, o flowOpts) bool {
	p := f.P
	A := -1
	for b, id := range f.first {
		if b.Kind == cfg.KindRangeBody && b.Stmt == rs {
			A = id
		}
	}
	if A < 0 {
		r.Undecided(rule, cons, p.pos(rs), "the body of the loop over the iterator was not found in the flow graph")
		return false
	}
	res := f.errorConsumed(fi, A, E, o)
	if res.OK {
		st := f.ErrStatesFrom(A, E)
		if head := f.loopHeadStmt(rs); head >= 0 && len(st.at(head)) > 0 {
			res = flowResult{OK: false, Detail: "the loop goes on to the next element while the error may be non-nil", Pos: p.pos(rs)}
		}
	}
	r.Check(res.OK, rule, cons, p.pos(rs), "the error the iterator yields is consumed in every iteration", "the error yielded by the iterator is lost: "+res.Detail)
	return res.OK
}
