package main

// C05 Reopen preserves state; later writes keep winning.

import (
	"fmt"
	"go/ast"
	"go/constant"
	"go/token"
	"go/types"
	"strings"
)

func init() { register("C05", propC05) }

func propC05(p *Prog, r *Report) {
	r.Rule("C05.a", "monotone raise of the process-global counter: every exit of sequence.Set(s) is justified, i.e. every path to it crosses (i) the success edge of a compare-and-swap whose new value derives from s, (ii) the edge of a comparison establishing cur >= s on a value loaded from the counter, or (iii) a store of s that is itself dominated by such a comparison; an exit reached past a CAS whose result is ignored is unjustified (the counter may stay below the persisted maximum)")
	r.Rule("C05.b", "Load raises the counter before returning: every success return of Load passes sequence.Set(x), and x accumulates the maximum over the published records (evaluated abstractly on the publication loop body)")
	r.Rule("C05.c", "winner rule of recovery = C04.e")
	r.Rule("C05.d", "close order (siblings inline db.Close and app.Stop): Pool().Stop() precedes Badger().Close()")
	r.Rule("C05.e", "a version's sequence number is drawn under the locks that publish it = C06.b")
	r.NotDecided = []string{"equality of the observable state across a reopen"}
	r.Assume = []string{"sync/atomic semantics"}

	c05Set(p, r)
	c05LoadRaises(p, r)
	c04Recovery(p, r, "C05.c")
	c05CloseOrder(p, r)
	c06StoreRegionAs(p, r, "C05.e")
}

func c06StoreRegionAs(p *Prog, r *Report, rule string) {
	tmp := NewReport(r.Prop, r.Tier, r.Seed)
	c06StoreRegion(p, tmp)
	for _, o := range tmp.Obls {
		o.Rule = rule
		r.add(o)
	}
}

// isCounterRef: &seq or seq (the package-level counter variable)
func isCounterRef(info *types.Info, e ast.Expr, counter types.Object) bool {
	e = ast.Unparen(e)
	if u, ok := e.(*ast.UnaryExpr); ok && u.Op == token.AND {
		e = ast.Unparen(u.X)
	}
	return objOfSel(info, e) == counter
}

func c05Set(p *Prog, r *Report) {
	fi := p.Func(kSeqSet)
	if fi == nil {
		r.Undecided("C05.a", kSeqSet, "", "sequence.Set not found")
		return
	}
	info := fi.Pkg.TypesInfo
	// Set may hand over to a helper of the package that holds the loop (global.raiseTo(s)): that helper is read
	for depth := 0; depth < 3 && len(fi.Decl.Body.List) == 1; depth++ {
		es, ok := fi.Decl.Body.List[0].(*ast.ExprStmt)
		if !ok {
			break
		}
		c, ok := es.X.(*ast.CallExpr)
		if !ok {
			break
		}
		h := p.staticCallee(fi.Pkg, c)
		if h == nil || h.Pkg != fi.Pkg || h.Decl == nil || h.Decl.Body == nil || h.Decl.Type.Params.NumFields() != 1 || len(c.Args) != 1 {
			break
		}
		fi = h
	}
	f := p.FlatOf(fi)
	// the counter: the package-level variable (or the field of the package's counter object) that Next() adds to
	isCounterObj := func(o types.Object) bool {
		v, ok := o.(*types.Var)
		if !ok {
			return false
		}
		if !v.IsField() && v.Parent() != fi.Pkg.Types.Scope() {
			return false
		}
		if b, ok := v.Type().Underlying().(*types.Basic); ok && b.Info()&types.IsInteger != 0 {
			return true
		}
		return strings.HasPrefix(v.Type().String(), "sync/atomic.")
	}
	var counter types.Object
	if nx := p.Func(kSeqNext); nx != nil {
		for _, body := range p.deepBodies(nx) {
			ast.Inspect(body, func(x ast.Node) bool {
				if c, ok := x.(*ast.CallExpr); ok {
					if len(c.Args) >= 1 {
						if u, ok := ast.Unparen(c.Args[0]).(*ast.UnaryExpr); ok && u.Op == token.AND {
							if o := objOfSel(info, u.X); o != nil && isCounterObj(o) {
								counter = o
							}
						}
					}
					if sel, ok := c.Fun.(*ast.SelectorExpr); ok && sel.Sel.Name == "Add" {
						if o := objOfSel(info, sel.X); o != nil && isCounterObj(o) {
							counter = o
						}
					}
				}
				return true
			})
		}
	}
	if counter == nil {
		r.Undecided("C05.a", kSeqSet, p.pos(fi.Decl), "counter variable not identified from sequence.Next")
		return
	}
	var sParam types.Object
	for _, fld := range fi.Decl.Type.Params.List {
		for _, nm := range fld.Names {
			sParam = info.Defs[nm]
		}
	}
	// locals loaded from the counter
	loaded := map[types.Object]bool{}
	ast.Inspect(fi.Decl.Body, func(x ast.Node) bool {
		as, ok := x.(*ast.AssignStmt)
		if !ok || len(as.Lhs) != 1 || len(as.Rhs) != 1 {
			return true
		}
		c, ok := ast.Unparen(as.Rhs[0]).(*ast.CallExpr)
		if !ok {
			// plain read of the counter (under a mutex)
			if objOfSel(info, as.Rhs[0]) == counter {
				loaded[objOf(info, as.Lhs[0])] = true
			}
			return true
		}
		isLoad := false
		if strings.HasPrefix(exprPath(c.Fun), "atomic.Load") && len(c.Args) == 1 && isCounterRef(info, c.Args[0], counter) {
			isLoad = true
		}
		if sel, ok := c.Fun.(*ast.SelectorExpr); ok && sel.Sel.Name == "Load" && objOfSel(info, sel.X) == counter {
			isLoad = true
		}
		if isLoad {
			loaded[objOf(info, as.Lhs[0])] = true
		}
		return true
	})
	// values that stand for the target s: the parameter and locals computed from it alone (target := uint64(s))
	sDerived := map[types.Object]bool{sParam: true}
	for changed := true; changed; {
		changed = false
		ast.Inspect(fi.Decl.Body, func(x ast.Node) bool {
			as, ok := x.(*ast.AssignStmt)
			if !ok || len(as.Lhs) != len(as.Rhs) {
				return true
			}
			for i, l := range as.Lhs {
				lo := objOf(info, l)
				if lo == nil || sDerived[lo] || loaded[lo] || lo == counter {
					continue
				}
				fromS, other := false, false
				ast.Inspect(as.Rhs[i], func(y ast.Node) bool {
					if id, ok := y.(*ast.Ident); ok {
						if o, isVar := objOf(info, id).(*types.Var); isVar {
							if sDerived[o] {
								fromS = true
							} else if loaded[o] || o == counter {
								other = true
							}
						}
					}
					if _, isCall := y.(*ast.CallExpr); isCall {
						if tv, ok := info.Types[y.(*ast.CallExpr).Fun]; !ok || !tv.IsType() {
							other = true
						}
					}
					return true
				})
				if fromS && !other {
					sDerived[lo] = true
					changed = true
				}
			}
			return true
		})
	}
	usesS := func(n ast.Node) bool {
		for o := range sDerived {
			if usesObj(info, n, o) {
				return true
			}
		}
		return false
	}
	isCAS := func(c *ast.CallExpr) bool {
		name := exprPath(c.Fun)
		if strings.HasPrefix(name, "atomic.CompareAndSwap") && len(c.Args) == 3 && isCounterRef(info, c.Args[0], counter) {
			return usesS(c.Args[2])
		}
		if sel, ok := c.Fun.(*ast.SelectorExpr); ok && sel.Sel.Name == "CompareAndSwap" && objOfSel(info, sel.X) == counter && len(c.Args) == 2 {
			return usesS(c.Args[1])
		}
		return false
	}
	// classify atoms of a condition: which truth value establishes cur >= s / CAS success
	// returns (labelJustifies map[label]bool)
	evalCmp := func(e ast.Expr) (tJust, fJust, isCmp bool) {
		// comparison between a loaded value (or the counter) and s
		mentionsCur := false
		ast.Inspect(e, func(x ast.Node) bool {
			if id, ok := x.(*ast.Ident); ok {
				if o := objOf(info, id); o != nil && (loaded[o] || o == counter) {
					mentionsCur = true
				}
			}
			return true
		})
		if !mentionsCur || !usesS(e) {
			return false, false, false
		}
		res := map[[2]int64]bool{}
		for _, cs := range [][2]int64{{1, 2}, {2, 2}, {3, 2}} {
			env := &Env{P: p, Pkg: fi.Pkg, Vars: map[types.Object]*Val{sParam: intVal(cs[1]), counter: intVal(cs[0])}}
			for o := range loaded {
				env.Vars[o] = intVal(cs[0])
			}
			for o := range sDerived {
				env.Vars[o] = intVal(cs[1])
			}
			v, err := env.Eval(e)
			if err != nil || v.C == nil || v.C.Kind() != constant.Bool {
				return false, false, false
			}
			res[cs] = constant.BoolVal(v.C)
		}
		// true edge establishes cur >= s iff cond false when cur < s
		tJust = !res[[2]int64{1, 2}] && (res[[2]int64{2, 2}] || res[[2]int64{3, 2}])
		fJust = res[[2]int64{1, 2}] && (!res[[2]int64{2, 2}] || !res[[2]int64{3, 2}]) && !(res[[2]int64{2, 2}] && res[[2]int64{3, 2}])
		// false edge establishes cur >= s iff cond true exactly when cur < s (ties may go either way)
		fJust = res[[2]int64{1, 2}] && !res[[2]int64{3, 2}]
		return tJust, fJust, true
	}
	var atomJust func(e ast.Expr) (tJ, fJ bool, known bool)
	atomJust = func(e ast.Expr) (bool, bool, bool) {
		e = ast.Unparen(e)
		switch x := e.(type) {
		case *ast.UnaryExpr:
			if x.Op == token.NOT {
				t, f, k := atomJust(x.X)
				return f, t, k
			}
		case *ast.BinaryExpr:
			if x.Op == token.LOR {
				lt, _, lk := atomJust(x.X)
				rt, _, rk := atomJust(x.Y)
				// true edge justified iff both disjuncts justify when true
				return lk && rk && lt && rt, false, lk && rk
			}
			if x.Op == token.LAND {
				lt, _, lk := atomJust(x.X)
				rt, _, rk := atomJust(x.Y)
				return (lk && lt) || (rk && rt), false, lk || rk
			}
		case *ast.CallExpr:
			if isCAS(x) {
				return true, false, true
			}
		}
		if t, fj, ok := evalCmp(e); ok {
			return t, fj, true
		}
		return false, false, false
	}
	var cmpNodes []int
	g := f.WithoutEdges(func(from *GNode, e Edge) bool {
		if !from.IsCond {
			return false
		}
		t, fj, known := atomJust(from.Ast.(ast.Expr))
		if !known {
			return false
		}
		if _, _, isCmp := evalCmp(ast.Unparen(from.Ast.(ast.Expr))); isCmp {
			cmpNodes = append(cmpNodes, from.ID)
		}
		return (e.Label == 1 && t) || (e.Label == 2 && fj)
	})
	// stores of s dominated by a comparison are justifying too
	var stores []int
	for _, n := range f.Nodes {
		if n.Ast == nil {
			continue
		}
		isStore := false
		for _, c := range callsIn(n.Ast, false) {
			name := exprPath(c.Fun)
			if (strings.HasPrefix(name, "atomic.Store") || strings.HasPrefix(name, "atomic.Swap")) && len(c.Args) == 2 && isCounterRef(info, c.Args[0], counter) && usesS(c.Args[1]) {
				isStore = true
			}
			if sel, ok := c.Fun.(*ast.SelectorExpr); ok && (sel.Sel.Name == "Store" || sel.Sel.Name == "Swap") && objOfSel(info, sel.X) == counter {
				isStore = true
			}
		}
		if as, ok := n.Ast.(*ast.AssignStmt); ok && len(as.Lhs) == 1 && objOfSel(info, as.Lhs[0]) == counter && usesS(as.Rhs[0]) {
			isStore = true
		}
		if isStore {
			stores = append(stores, n.ID)
		}
	}
	unconditional := ""
	for _, s := range stores {
		if !f.MustPrecede(setOf(cmpNodes), s) {
			unconditional = p.pos(f.Nodes[s].Ast)
		}
	}
	// a compare-and-swap to s is a store of s too: it must come after the comparison that found the counter below s
	for _, n := range f.Nodes {
		if n.Ast == nil {
			continue
		}
		for _, c := range callsIn(n.Ast, false) {
			if isCAS(c) && !f.MustPrecede(setOf(cmpNodes), n.ID) {
				// ... or the comparison is the left operand of the short-circuit the swap sits in:
				// cur >= want || CAS(cur, want)   /   cur < want && CAS(cur, want)
				guarded := false
				ast.Inspect(n.Ast, func(x ast.Node) bool {
					be, ok := x.(*ast.BinaryExpr)
					if !ok || (be.Op != token.LOR && be.Op != token.LAND) {
						return true
					}
					inRight := false
					ast.Inspect(be.Y, func(y ast.Node) bool {
						if y == ast.Node(c) {
							inRight = true
						}
						return !inRight
					})
					if inRight {
						if tJ, fJ, known := atomJust(be.X); known && ((be.Op == token.LOR && tJ) || (be.Op == token.LAND && fJ)) {
							guarded = true
						}
					}
					return true
				})
				if !guarded {
					unconditional = p.pos(n.Ast)
				}
			}
		}
	}
	if unconditional != "" {
		r.Viol("C05.a", kSeqSet+"#monotone", unconditional, "the counter is overwritten with s without first establishing that s is larger: a later instance with fewer records lowers the counter and new writes get sequence numbers below persisted ones")
		return
	}
	storeSet := setOf(stores)
	g2 := g.WithoutEdges(func(from *GNode, e Edge) bool { return storeSet[from.ID] })
	reach := g2.Reach([]int{g2.Entry}, nil, nil)
	bad := ""
	for _, e := range g2.Exits() {
		if reach[e] {
			bad = p.pos(g2.Nodes[e].Ast)
		}
	}
	r.Check(bad == "", "C05.a", kSeqSet+"#monotone", p.pos(fi.Decl), "every exit is justified by a successful CAS of s or by cur >= s",
		"sequence.Set can return without having raised the counter to s and without having seen it at least s (exit at "+bad+"): with another database opened earlier in the process the counter stays below the persisted maximum, a later acknowledged write gets a smaller sequence number and loses at the next Load")
}

func c05LoadRaises(p *Prog, r *Report) {
	fi := p.Func(kCoreLoad)
	if fi == nil {
		r.Undecided("C05.b", kCoreLoad, "", "core.Load not found")
		return
	}
	info := fi.Pkg.TypesInfo
	f := p.FlatOf(fi)
	sets := f.CallSites(kSeqSet)
	succ := f.successReturns(fi)
	if len(sets) == 0 {
		r.Viol("C05.b", kCoreLoad+"#raises-counter", p.pos(fi.Decl), "Load never calls sequence.Set: after a reopen new writes start below the persisted sequence numbers and lose at the next Load")
		return
	}
	ok := len(succ) > 0
	nodes := map[int]bool{}
	for _, s := range sets {
		nodes[s.Node] = true
	}
	for _, s := range succ {
		if !f.MustPrecede(nodes, s) {
			ok = false
		}
	}
	r.Check(ok, "C05.b", kCoreLoad+"#raises-counter", p.pos(sets[0].Call), "every success return passes sequence.Set", "a success return of Load bypasses sequence.Set")
	// the argument accumulates the maximum over the published records
	arg := objOf(info, sets[0].Call.Args[0])
	var pubLoop *ast.RangeStmt
	for _, l := range rangeLoops(fi.Decl.Body) {
		ast.Inspect(l.Body, func(x ast.Node) bool {
			if c, ok := x.(*ast.CallExpr); ok && p.callIs(fi.Pkg, c, kStoreToTx) {
				pubLoop = l
			}
			return true
		})
	}
	if arg == nil || pubLoop == nil {
		r.Undecided("C05.b", kCoreLoad+"#max-accumulator", p.pos(sets[0].Call), "accumulator / publication loop not identified")
		return
	}
	body := p.NewFlat(fi.Pkg, pubLoop.Body)
	fileObj := objOf(info, pubLoop.Value)
	mainId, _ := constValOfKeyStr(p, "internal/model.MainTxId")
	// the maximum may be accumulated where the records are sorted: kept, dropped, maxSeq := split(records); the
	// loop evaluated is then the helper's, for a record that is kept (first main record of its key)
	if !assignsDeep(info, pubLoop.Body, arg) {
		var recordsObj types.Object
		for _, s := range f.CallSites(kFileGetAllRepo) {
			if as, ok := f.Nodes[s.Node].Ast.(*ast.AssignStmt); ok && len(as.Lhs) == 2 {
				recordsObj = objOf(info, as.Lhs[0])
			}
		}
		if sp := c04SplitHelper(p, fi, recordsObj); sp != nil && sp.results[arg] != nil {
			arg = sp.results[arg]
			body = p.NewFlat(fi.Pkg, sp.loop.Body)
			fileObj = objOf(info, sp.loop.Value)
			pubLoop = sp.loop
		} else if recordsObj != nil {
			// ... or in Load's own pass over all the records read: the maximum over every record of the main
			// transaction is at least the maximum over those that stay
			for _, l := range rangeLoops(fi.Decl.Body) {
				if objOf(info, l.X) == recordsObj && l.Value != nil && assignsDeep(info, l.Body, arg) {
					body = p.NewFlat(fi.Pkg, l.Body)
					fileObj = objOf(info, l.Value)
					pubLoop = l
				}
			}
		}
	}
	good := true
	detail := ""
	// (the record may be the first of its key, or replace an older one that was kept so far: in both cases it stays)
	type world struct {
		cs     [3]int64
		keptAt int64 // 0: the key has no kept version yet
	}
	var worlds []world
	for _, cs := range [][3]int64{{3, 5, 5}, {5, 3, 5}, {1, 7, 7}} {
		worlds = append(worlds, world{cs, 0}, world{cs, 1})
	}
	for _, w := range worlds {
		cs, keptAt := w.cs, w.keptAt
		env := &Env{P: p, Pkg: fi.Pkg, Vars: map[types.Object]*Val{arg: intVal(cs[0])}}
		env.MapOk = func(_ *Env, _ *ast.IndexExpr) (*Val, bool, bool) {
			if keptAt > 0 {
				return &Val{Fields: map[string]*Val{"Seq": intVal(keptAt), "Key": strVal("k"), "TxId": strVal(mainId)}}, true, true
			}
			return nil, false, true
		}
		env.Hook = func(env *Env, e ast.Expr) (*Val, bool) {
			// the record of the iteration: the loop value, or records[i] when the loop goes over kept positions
			if ix, ok := e.(*ast.IndexExpr); ok && env.Pkg == fi.Pkg && fileObj != nil && objOf(info, ix.Index) == fileObj {
				if bt, isB := fileObj.Type().Underlying().(*types.Basic); isB && bt.Info()&types.IsInteger != 0 {
					return &Val{Fields: map[string]*Val{"Seq": intVal(cs[1]), "Key": strVal("k"), "TxId": strVal(mainId)}}, true
				}
			}
			if id, ok := e.(*ast.Ident); ok && env.Pkg == fi.Pkg && objOf(info, id) == fileObj {
				return &Val{Fields: map[string]*Val{"Seq": intVal(cs[1]), "Key": strVal("k"), "TxId": strVal(mainId)}}, true
			}
			if c, ok := e.(*ast.CallExpr); ok && env.Pkg == fi.Pkg && p.callIs(fi.Pkg, c, kStoreToTx) {
				return intVal(0), true
			}
			return nil, false
		}
		_, _, err := body.WalkPath(env)
		if err != nil {
			// statements that are not assignments (the publication call) are skipped by WalkPath; a real error is undecided
			r.Undecided("C05.b", kCoreLoad+"#max-accumulator", p.pos(pubLoop), err.Error())
			return
		}
		got := env.Vars[arg]
		if got == nil || got.C == nil || got.C.ExactString() != fmt.Sprint(cs[2]) {
			good = false
			detail = fmt.Sprintf("accumulator %d, record sequence %d (an older version of the key kept so far: %v): accumulator becomes %v, expected %d", cs[0], cs[1], keptAt > 0, got, cs[2])
		}
	}
	r.Check(good, "C05.b", kCoreLoad+"#max-accumulator", p.pos(pubLoop), "the value given to sequence.Set is the maximum over the published records", "the value given to sequence.Set is not the maximum sequence number of the published records: "+detail)
}

func c05CloseOrder(p *Prog, r *Report) {
	for _, k := range []string{"(*pkg/inline/db.db).Close", "(*internal/app.app).Stop"} {
		fi := p.Func(k)
		if fi == nil {
			r.Undecided("C05.d", k, "", "not found")
			continue
		}
		f := p.FlatOf(fi)
		stops := f.CallNodes(kPoolStop)
		closes := f.CallNodes("(*internal/db/badger.Manager).Close")
		ok := len(stops) > 0 && len(closes) > 0
		for _, c := range closes {
			if !f.MustPrecede(setOf(stops), c) {
				ok = false
			}
		}
		r.Check(ok, "C05.d", k+"#pool-before-badger", p.pos(fi.Decl), "Pool().Stop() precedes Badger().Close()", "Badger is closed before the worker pool has stopped: background deletions still running fail or are lost")
	}
}

// assignedObjsOf: the assignments to o inside n.
func assignedObjsOf(info *types.Info, n ast.Node, o types.Object) []types.Object {
	var res []types.Object
	for _, a := range assignedObjs(info, n) {
		if a == o {
			res = append(res, a)
		}
	}
	return res
}

// assignsDeep: some statement inside n assigns o.
func assignsDeep(info *types.Info, n ast.Node, o types.Object) bool {
	found := false
	ast.Inspect(n, func(x ast.Node) bool {
		if x != nil && len(assignedObjsOf(info, x, o)) > 0 {
			found = true
		}
		return !found
	})
	return found
}
