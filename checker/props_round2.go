package main

// Rules added after the first pass of independently seeded changes (round 2).
// Each states a structural necessary condition that one of the missed changes violated.

import (
	"fmt"
	"go/ast"
	"go/constant"
	"go/token"
	"go/types"
	"golang.org/x/tools/go/packages"
	"os"
	"sort"
	"strings"
)

// c12EOFOnlyWhenDrained (C12.f, seeded C01-B): the pipe's Read reports io.EOF only when its buffer is empty.
func c12EOFOnlyWhenDrained(p *Prog, r *Report, rule string) {
	k := "(*" + pkgAsync + ".readWriter).Read"
	fi := p.Func(k)
	if fi == nil {
		r.Undecided(rule, k, "", "readWriter.Read not found")
		return
	}
	info := fi.Pkg.TypesInfo
	f := p.FlatOf(fi)
	// nodes that produce io.EOF as a value (assignment or return), not comparisons
	eofNodes := f.Match(func(n *GNode) bool {
		found := false
		check := func(e ast.Expr) {
			if exprObjKey(info, e) == "io.EOF" {
				found = true
			}
		}
		switch s := n.Ast.(type) {
		case *ast.AssignStmt:
			for _, rhs := range s.Rhs {
				check(rhs)
			}
		case *ast.ReturnStmt:
			for _, e := range s.Results {
				check(e)
			}
		}
		return found
	})
	if len(eofNodes) == 0 {
		r.Hold(rule, k+"#eof-only-when-drained", p.pos(fi.Decl), "Read never synthesises io.EOF: end of stream comes from the empty buffer's own Read")
		return
	}
	bad := ""
	for _, closed := range []bool{true, false} {
		env := &Env{P: p, Pkg: fi.Pkg, Vars: map[types.Object]*Val{}}
		env.Hook = func(env *Env, e ast.Expr) (*Val, bool) {
			if c, ok := e.(*ast.CallExpr); ok {
				if sel, ok := c.Fun.(*ast.SelectorExpr); ok {
					switch sel.Sel.Name {
					case "Len":
						return intVal(3), true // bytes are still buffered
					case "Load":
						return boolVal(closed), true
					}
				}
			}
			return nil, false
		}
		g := f.WithoutEdges(func(from *GNode, e Edge) bool {
			if !from.IsCond {
				return false
			}
			v, err := env.Eval(from.Ast.(ast.Expr))
			if err != nil || v.C == nil || v.C.Kind() != constant.Bool {
				// partially decidable conjunctions: evaluate three-valued by trying both values of unknown atoms is overkill; keep both edges
				return false
			}
			taken := 2
			if constant.BoolVal(v.C) {
				taken = 1
			}
			return e.Label != taken
		})
		reach := g.Reach([]int{g.Entry}, nil, nil)
		for _, id := range eofNodes {
			if reach[id] {
				bad = p.pos(f.Nodes[id].Ast)
			}
		}
	}
	r.Check(bad == "", rule, k+"#eof-only-when-drained", p.pos(fi.Decl), "io.EOF is produced only with an empty buffer",
		"Read can report io.EOF (at "+bad+") while bytes are still buffered: the store ends before the remaining writes and Close returns nil for a truncated file")
}

// c03StampReachesPublished (C03.g, seeded C02-A): the commit stamp is written into the very elements that are
// published in memory (not into a loop copy).
func c03StampReachesPublished(p *Prog, r *Report, rule string) {
	fi := p.Func(kUpdateTx)
	if fi == nil {
		return
	}
	info := fi.Pkg.TypesInfo
	cons := kUpdateTx + "#stamp-reaches-published-versions"
	// the slice ranged by the publication loop, as a storage path in UpdateTx's terms; the loop may sit in a
	// helper spliced into the graph (its parameter is then bound to UpdateTx's slice)
	outer := p.FlatInlExcept(fi, kStoreToTx)
	pubSlice := publishedSlicePath(p, fi, outer)
	var cb *FuncInfo
	var lit ast.Node
	for _, n := range outer.Nodes {
		if n.Ast == nil {
			continue
		}
		for _, c := range callsIn(n.Ast, false) {
			if p.callIs(fi.Pkg, c, kRepoRunTx) {
				cb = p.callbackOf(fi, c)
				lit = c
			}
		}
	}
	if pubSlice == "" || cb == nil {
		r.Undecided(rule, cons, p.pos(fi.Decl), "publication loop or commit callback not found")
		return
	}
	cf := p.FlatInl(cb)
	cf.Outer = outer
	good, found := true, false
	detail := ""
	// the storage an expression names, followed through the parameter bindings of inlined helpers and through
	// the captured variables of the callback
	rootOf := func(e ast.Expr) string { return cf.CanonPath(e) }
	_ = info
	for _, gn := range cf.Nodes {
		if gn.Ast == nil {
			continue
		}
		if as, ok := gn.Ast.(*ast.AssignStmt); ok {
			for _, l := range as.Lhs {
				sel, ok := l.(*ast.SelectorExpr)
				if !ok || sel.Sel.Name != "Seq" {
					continue
				}
				found = true
				switch b := ast.Unparen(sel.X).(type) {
				case *ast.IndexExpr:
					if rootOf(b.X) != pubSlice {
						good = false
						detail = "the stamp is written into " + types.ExprString(b.X) + ", not into the slice that is published"
					}
				case *ast.Ident:
					o := objOf(info, b)
					if _, isPtr := o.Type().(*types.Pointer); !isPtr {
						good = false
						detail = "the stamp is written into the loop copy " + b.Name + ": the versions published in memory keep their write-time sequence numbers while Badger gets the commit stamp"
					}
				default:
					good = false
					detail = "unrecognised stamp target " + types.ExprString(sel.X)
				}
			}
		}
		// and the durable write stores the same element
		for _, c := range callsIn(gn.Ast, false) {
			if p.callIs(fi.Pkg, c, kFileRepoSet) && len(c.Args) == 2 {
				if ix, ok := ast.Unparen(c.Args[1]).(*ast.IndexExpr); ok {
					if rootOf(ix.X) != pubSlice {
						good = false
						detail = "the version written to Badger is not an element of the published slice"
					}
				}
			}
		}
	}
	r.Check(found && good, rule, cons, p.pos(lit), "the commit stamp is stored into the elements that are written to Badger and published", detail)
}

// c10ChunkSaved (C10.c', seeded C10-A): after bufWriter.Write the saved chunk has exactly the length of the chunk written,
// for every previous buffer length/capacity (abstract lengths).
func c10ChunkSaved(p *Prog, r *Report, rule string) {
	cs := p.Func(kContentStore)
	if cs == nil {
		return
	}
	// writer type from io.Copy(&w, ..)
	info0 := cs.Pkg.TypesInfo
	var wObj types.Object
	ast.Inspect(cs.Decl.Body, func(x ast.Node) bool {
		if c, ok := x.(*ast.CallExpr); ok && isFunc(info0, c, "io", "Copy") && len(c.Args) == 2 {
			if u, ok := ast.Unparen(c.Args[0]).(*ast.UnaryExpr); ok {
				wObj = objOf(info0, u.X)
			} else {
				wObj = objOf(info0, c.Args[0])
			}
		}
		return true
	})
	if wObj == nil {
		return
	}
	t := wObj.Type()
	if pt, ok := t.(*types.Pointer); ok {
		t = pt.Elem()
	}
	nt, ok := t.(*types.Named)
	if !ok {
		return
	}
	wk := "(*" + shortPath(nt.Obj().Pkg().Path()) + "." + nt.Obj().Name() + ").Write"
	fi := p.Func(wk)
	if fi == nil {
		r.Undecided(rule, wk+"#saved-chunk-length", "", "chunk-saving Write not found")
		return
	}
	info := fi.Pkg.TypesInfo
	f := p.FlatOf(fi)
	var recv, pObj types.Object
	if len(fi.Decl.Recv.List[0].Names) == 1 {
		recv = info.Defs[fi.Decl.Recv.List[0].Names[0]]
	}
	for _, fld := range fi.Decl.Type.Params.List {
		for _, nm := range fld.Names {
			pObj = info.Defs[nm]
		}
	}
	// which receiver field is the saved chunk: the []byte field
	bufField := ""
	if st, ok := nt.Underlying().(*types.Struct); ok {
		for i := 0; i < st.NumFields(); i++ {
			if sl, ok := st.Field(i).Type().Underlying().(*types.Slice); ok && types.Identical(sl.Elem(), types.Typ[types.Byte]) {
				bufField = st.Field(i).Name()
			}
		}
	}
	if bufField == "" || recv == nil || pObj == nil {
		r.Undecided(rule, wk+"#saved-chunk-length", p.pos(fi.Decl), "saved-chunk field not identified")
		return
	}
	isBuf := func(e ast.Expr) bool {
		sel, ok := ast.Unparen(e).(*ast.SelectorExpr)
		return ok && sel.Sel.Name == bufField && objOf(info, sel.X) == recv
	}
	const L = 10
	bad := ""
	for _, sc := range [][2]int64{{0, 0}, {L - 2, L - 2}, {L, L}, {L + 3, L + 3}, {L - 2, L + 3}} {
		blen, bcap := sc[0], sc[1]
		locals := map[types.Object]*Val{}
		env := &Env{P: p, Pkg: fi.Pkg, Vars: locals}
		env.Hook = func(env *Env, e ast.Expr) (*Val, bool) {
			if c, ok := e.(*ast.CallExpr); ok {
				if id, ok := c.Fun.(*ast.Ident); ok {
					if _, isB := info.Uses[id].(*types.Builtin); isB {
						switch id.Name {
						case "len", "cap":
							if len(c.Args) == 1 {
								if isBuf(c.Args[0]) {
									if id.Name == "len" {
										return intVal(blen), true
									}
									return intVal(bcap), true
								}
								if objOf(info, c.Args[0]) == pObj {
									return intVal(L), true
								}
							}
						case "copy":
							if len(c.Args) == 2 && isBuf(c.Args[0]) {
								return intVal(min(blen, L)), true
							}
						}
					}
				}
			}
			return nil, false
		}
		cur := f.Entry
		steps := 0
		undecided := ""
		for steps < 200 {
			steps++
			n := f.Nodes[cur]
			if n.Exit {
				break
			}
			if n.Ast != nil && !n.IsCond {
				if as, ok := n.Ast.(*ast.AssignStmt); ok {
					for i, l := range as.Lhs {
						if isBuf(l) && i < len(as.Rhs) {
							rhs := ast.Unparen(as.Rhs[i])
							switch x := rhs.(type) {
							case *ast.CallExpr:
								if id, ok := x.Fun.(*ast.Ident); ok && id.Name == "make" && len(x.Args) >= 2 {
									v, err := env.Eval(x.Args[1])
									if err != nil || v.C == nil {
										undecided = "make length"
										break
									}
									nl, _ := constant.Int64Val(v.C)
									blen, bcap = nl, nl
									if len(x.Args) == 3 {
										if cv, err := env.Eval(x.Args[2]); err == nil && cv.C != nil {
											bcap, _ = constant.Int64Val(cv.C)
										}
									}
								} else if ok && id.Name == "append" {
									blen = L
									if bcap < L {
										bcap = L
									}
								} else {
									undecided = "assignment " + types.ExprString(rhs)
								}
							case *ast.SliceExpr:
								if isBuf(x.X) && x.Low == nil && x.High != nil {
									v, err := env.Eval(x.High)
									if err != nil || v.C == nil {
										undecided = "slice bound"
										break
									}
									nl, _ := constant.Int64Val(v.C)
									if nl > bcap {
										bad = fmt.Sprintf("with a previous buffer of len %d cap %d the reslice to %d panics", sc[0], sc[1], nl)
									}
									blen = nl
								} else {
									undecided = "slice " + types.ExprString(rhs)
								}
							default:
								undecided = "assignment " + types.ExprString(rhs)
							}
						} else if o := objOf(info, l); o != nil && i < len(as.Rhs) && len(as.Lhs) == len(as.Rhs) {
							if v, err := env.Eval(as.Rhs[i]); err == nil {
								locals[o] = v
							}
						}
					}
				}
			}
			if undecided != "" {
				break
			}
			if len(n.Succs) == 1 {
				cur = n.Succs[0].To
				continue
			}
			if !n.IsCond {
				undecided = "branch"
				break
			}
			v, err := env.Eval(n.Ast.(ast.Expr))
			if err != nil || v.C == nil {
				undecided = "condition " + types.ExprString(n.Ast.(ast.Expr))
				break
			}
			want := 2
			if constant.BoolVal(v.C) {
				want = 1
			}
			next := -1
			for _, e := range n.Succs {
				if e.Label == want {
					next = e.To
				}
			}
			if next < 0 {
				break
			}
			cur = next
		}
		if undecided != "" {
			r.Undecided(rule, wk+"#saved-chunk-length", p.pos(fi.Decl), "abstract length evaluation stopped at "+undecided)
			return
		}
		if blen != L && bad == "" {
			bad = fmt.Sprintf("after writing a %d-byte chunk over a previous buffer of len %d cap %d the saved chunk has length %d: the retry stream's Middle (buf[n:]) replays %d stale bytes of an earlier chunk (or loses bytes)", L, sc[0], sc[1], blen, blen-L)
		}
	}
	r.Check(bad == "", rule, wk+"#saved-chunk-length", p.pos(fi.Decl), "the saved chunk always has exactly the length of the chunk written (5 abstract buffer states)", bad)
}

// c13WhoRegisters (seeded C13-A): only Begin registers a transaction; (seeded C13-B) every piece of registry state that
// Get consults is updated by Delete.
func c13RegistryDiscipline(p *Prog, r *Report, rule string) {
	cg := p.CallGraph()
	for _, caller := range cg.In[kTxRepoStore] {
		r.Check(caller == kTxBegin, rule, "who-may-call "+kTxRepoStore+" from "+caller, p.pos(p.Funcs[caller].Decl), "only Begin registers transactions",
			caller+" registers a transaction: a finished transaction can come back to life (only Begin may call the registry's Store)")
	}
	get, del := p.Func(kTxRepoGet), p.Func(kTxRepoDelete)
	if get == nil || del == nil {
		return
	}
	fieldsOf := func(fi *FuncInfo, wantWrite bool) map[string]bool {
		info := fi.Pkg.TypesInfo
		var recv types.Object
		if len(fi.Decl.Recv.List[0].Names) == 1 {
			recv = info.Defs[fi.Decl.Recv.List[0].Names[0]]
		}
		res := map[string]bool{}
		ast.Inspect(fi.Decl.Body, func(x ast.Node) bool {
			switch s := x.(type) {
			case *ast.CallExpr:
				if sel, ok := s.Fun.(*ast.SelectorExpr); ok {
					if inner, ok := ast.Unparen(sel.X).(*ast.SelectorExpr); ok && objOf(info, inner.X) == recv {
						fv, _ := info.Uses[inner.Sel].(*types.Var)
						if fv == nil || isSyncMutex(fv.Type()) {
							return true
						}
						isW := map[string]bool{"Store": true, "Delete": true, "Swap": true, "CompareAndSwap": true, "Clear": true}[sel.Sel.Name]
						// a compound step of a small type of the package wrapped round the container
						// (r.storage.take(id)): a write when its body - or what it calls - writes
						if h := p.staticCallee(fi.Pkg, s); h != nil && h.Pkg == fi.Pkg && h.Decl != nil && h.Decl.Body != nil {
							isW = bodyWritesState(p, h)
						}
						if wantWrite == isW {
							res[fv.Name()] = true
						}
					}
				}
			case *ast.AssignStmt:
				if wantWrite {
					for _, l := range s.Lhs {
						if sel, ok := l.(*ast.SelectorExpr); ok && objOf(info, sel.X) == recv {
							res[sel.Sel.Name] = true
						}
					}
				}
			}
			return true
		})
		return res
	}
	reads, writes := fieldsOf(get, false), fieldsOf(del, true)
	var names []string
	for f := range reads {
		names = append(names, f)
	}
	sort.Strings(names)
	for _, f := range names {
		r.Check(writes[f], rule, kTxRepoGet+"#consults "+f, p.pos(get.Decl), "state consulted by Get is updated by Delete",
			fmt.Sprintf("the registry's Get consults field %s but Delete never updates it: a finished transaction is still found through it", f))
	}
}

func isSyncMutex(t types.Type) bool {
	s := t.String()
	return s == "sync.Mutex" || s == "sync.RWMutex"
}

// c14ReturnsAccumulated (seeded C14-A): a return reachable after an append to the producer's result list returns that list.
func c14ReturnsAccumulated(p *Prog, r *Report, rule string) {
	for _, k := range []string{kUpdateTx, kCoreDeleteTx, kCoreDeleteOld} {
		fi := p.Func(k)
		if fi == nil {
			continue
		}
		info := fi.Pkg.TypesInfo
		f := p.FlatOf(fi)
		var list types.Object
		res := fi.Sig().Results()
		for i := 0; i < res.Len(); i++ {
			if _, ok := res.At(i).Type().Underlying().(*types.Slice); ok && res.At(i).Name() != "" {
				list = res.At(i)
			}
		}
		if list == nil {
			for _, id := range f.ReturnNodes() {
				if rs := f.returnStmt(id); rs != nil && len(rs.Results) >= 1 {
					if o := objOf(info, rs.Results[0]); o != nil {
						list = o
					}
				}
			}
		}
		if list == nil {
			r.Undecided(rule, k+"#returns-accumulated-list", p.pos(fi.Decl), "result list not identified")
			continue
		}
		appends := f.Match(func(n *GNode) bool {
			as, ok := n.Ast.(*ast.AssignStmt)
			if !ok || len(as.Lhs) != 1 || len(as.Rhs) != 1 || objOf(info, as.Lhs[0]) != list {
				return false
			}
			c, ok := ast.Unparen(as.Rhs[0]).(*ast.CallExpr)
			if !ok {
				return false
			}
			id, ok := c.Fun.(*ast.Ident)
			return ok && id.Name == "append"
		})
		bad := ""
		for _, id := range f.ReturnNodes() {
			rs := f.returnStmt(id)
			if rs == nil || len(rs.Results) == 0 {
				continue // bare return: the named result
			}
			if objOf(info, rs.Results[0]) == list {
				continue
			}
			for _, a := range appends {
				if f.ReachableAfter(a, setOf([]int{id}), nil) {
					bad = p.pos(rs)
				}
			}
		}
		r.Check(bad == "", rule, k+"#returns-accumulated-list", p.pos(fi.Decl), "every return after an append hands the accumulated list back",
			"the return at "+bad+" discards the delete list accumulated so far (it does not return the list variable): those versions' contents are never removed")
	}
}

// loopClosureCapture (seeded C14-B): a function literal that outlives its loop iteration (stored in a struct/passed on, not
// called in place) must not capture a variable declared outside the loop and assigned inside it.
func loopClosureCapture(p *Prog, r *Report, rule string, pkgs ...string) {
	n := 0
	for _, k := range sortedFuncKeys(p) {
		fi := p.Funcs[k]
		if fi.Decl.Body == nil {
			continue
		}
		okPkg := len(pkgs) == 0
		for _, pk := range pkgs {
			if shortPath(fi.Pkg.PkgPath) == pk {
				okPkg = true
			}
		}
		if !okPkg {
			continue
		}
		info := fi.Pkg.TypesInfo
		var loops []ast.Stmt
		ast.Inspect(fi.Decl.Body, func(x ast.Node) bool {
			switch s := x.(type) {
			case *ast.ForStmt:
				loops = append(loops, s)
			case *ast.RangeStmt:
				loops = append(loops, s)
			}
			return true
		})
		for _, loop := range loops {
			var body *ast.BlockStmt
			switch s := loop.(type) {
			case *ast.ForStmt:
				body = s.Body
			case *ast.RangeStmt:
				body = s.Body
			}
			// variables assigned in the loop body but declared outside the loop statement
			assigned := map[types.Object]bool{}
			ast.Inspect(body, func(x ast.Node) bool {
				if _, isLit := x.(*ast.FuncLit); isLit {
					return false
				}
				if as, ok := x.(*ast.AssignStmt); ok && as.Tok == token.ASSIGN {
					for _, l := range as.Lhs {
						if o := objOf(info, l); o != nil && (o.Pos() < loop.Pos() || o.Pos() > loop.End()) {
							if v, ok := o.(*types.Var); ok && !v.IsField() && o.Parent() != fi.Pkg.Types.Scope() {
								assigned[o] = true
							}
						}
					}
				}
				return true
			})
			if len(assigned) == 0 {
				continue
			}
			ast.Inspect(body, func(x ast.Node) bool {
				lit, ok := x.(*ast.FuncLit)
				if !ok {
					return true
				}
				// escaping: a value in a composite literal / call argument / assignment (not go/defer/immediate call)
				escaping := false
				ast.Inspect(body, func(y ast.Node) bool {
					switch s := y.(type) {
					case *ast.KeyValueExpr:
						if ast.Unparen(s.Value) == lit {
							escaping = true
						}
					case *ast.CallExpr:
						for _, a := range s.Args {
							if ast.Unparen(a) == lit {
								// passed to a callee: may be stored
								if !strings.HasPrefix(types.ExprString(s.Fun), "slices.") && !strings.HasPrefix(types.ExprString(s.Fun), "sort.") {
									escaping = true
								}
							}
						}
					}
					return true
				})
				if !escaping {
					return false
				}
				ast.Inspect(lit.Body, func(y ast.Node) bool {
					if id, ok := y.(*ast.Ident); ok {
						if o := info.Uses[id]; o != nil && assigned[o] {
							n++
							r.Viol(rule, k+"#closure-captures "+id.Name, p.pos(id), fmt.Sprintf("the function literal handed on inside the loop captures %s, which is declared outside the loop and reassigned in every iteration: when the job runs later it sees the value of a later (usually the last) iteration", id.Name))
						}
					}
					return true
				})
				return false
			})
		}
	}
	if n == 0 {
		r.Hold(rule, "escaping-closures-capture-per-iteration-state", "", "no escaping function literal in a loop captures a variable that the loop reassigns")
	}
}

// c16FlagReleasedOnEveryExit (seeded C16-B): the flusher releases its single-flusher flag on every exit.
func c16FlagReleasedOnEveryExit(p *Prog, r *Report, rule string) {
	rs := p.Func(kPoolResend)
	if rs == nil {
		return
	}
	for _, gb := range p.goBodies(rs) {
		lit := gb.Pos
		f := p.FlatInl(gb.FI).SplitBools()
		rel := f.Match(func(n *GNode) bool {
			found := false
			ast.Inspect(n.Ast, func(x ast.Node) bool {
				if c, ok := x.(*ast.CallExpr); ok {
					if op := p.lockOpOf(rs.Pkg, c); op != nil && !op.Acquire && op.Class == clsFlusher {
						found = true
					}
				}
				return true
			})
			return found
		})
		bad := ""
		if os.Getenv("FSDBCHECK_DUMP") == "flusher" {
			fmt.Print(f.Dump())
			fmt.Println("rel", rel, "exits", f.Exits())
		}
		for _, e := range f.Exits() {
			if f.isNoReturnExit(f.Nodes[e]) {
				continue
			}
			if !f.MustPrecedeNil(setOf(rel), e) {
				bad = "line " + p.pos(f.Nodes[e].Ast)
			}
		}
		r.Check(bad == "" && len(rel) > 0, rule, kPoolResend+"#flag-released-on-every-exit", p.pos(lit), "every exit of the flusher releases the single-flusher flag",
			"the flusher can end (at "+bad+") without releasing its flag: after the pool is stopped and run again no flusher can ever start and every deferred job is stranded")
	}
}

// c17RootsCanonical (seeded C17-B): the directory registry cleans every configured root before using it as a key / Root.
func c17RootsCanonical(p *Prog, r *Report, rule string) {
	k := "internal/repository/dir.New"
	fi := p.Func(k)
	if fi == nil {
		r.Undecided(rule, k, "", "dir.New not found")
		return
	}
	info := fi.Pkg.TypesInfo
	var param types.Object
	for _, fld := range fi.Decl.Type.Params.List {
		for _, nm := range fld.Names {
			param = info.Defs[nm]
		}
	}
	var loop *ast.RangeStmt
	for _, rs := range rangeLoops(fi.Decl.Body) {
		if objOf(info, rs.X) == param {
			loop = rs
		}
	}
	cons := k + "#roots-canonical"
	if loop == nil || loop.Value == nil {
		r.Undecided(rule, cons, p.pos(fi.Decl), "loop over the configured roots not found")
		return
	}
	rootObj := objOf(info, loop.Value)
	body := p.NewFlat(fi.Pkg, loop.Body)
	isClean := func(e ast.Expr) bool {
		c, ok := ast.Unparen(e).(*ast.CallExpr)
		if !ok {
			return false
		}
		return (isFunc(info, c, "path", "Join") || isFunc(info, c, "path", "Clean") || isFunc(info, c, "path/filepath", "Clean") || isFunc(info, c, "path/filepath", "Join")) && len(c.Args) >= 1 && objOf(info, c.Args[0]) == rootObj
	}
	cleans := body.Match(func(n *GNode) bool {
		as, ok := n.Ast.(*ast.AssignStmt)
		return ok && len(as.Lhs) == 1 && len(as.Rhs) == 1 && objOf(info, as.Lhs[0]) == rootObj && isClean(as.Rhs[0])
	})
	uses := body.Match(func(n *GNode) bool {
		if setOf(cleans)[n.ID] {
			return false
		}
		return usesObj(info, n.Ast, rootObj)
	})
	ok := len(cleans) > 0
	for _, u := range uses {
		if !body.MustPrecede(setOf(cleans), u) {
			ok = false
		}
	}
	// the cleaned spelling is what the registry keeps as its root list
	stored := false
	ast.Inspect(loop.Body, func(x ast.Node) bool {
		if as, ok := x.(*ast.AssignStmt); ok && len(as.Lhs) == 1 && len(as.Rhs) == 1 {
			if ix, ok := as.Lhs[0].(*ast.IndexExpr); ok {
				if sel, ok := ast.Unparen(ix.X).(*ast.SelectorExpr); ok && sel.Sel.Name == "roots" && objOf(info, as.Rhs[0]) == rootObj {
					stored = true
				}
			}
			if c, ok := ast.Unparen(as.Rhs[0]).(*ast.CallExpr); ok {
				if id, ok := c.Fun.(*ast.Ident); ok && id.Name == "append" && len(c.Args) == 2 && objOf(info, c.Args[1]) == rootObj {
					stored = true
				}
			}
		}
		return true
	})
	r.Check(ok && stored, rule, cons, p.pos(loop), "every configured root is cleaned before it is used and stored",
		"the configured roots are used as spelled: a directory re-registered through ParseDir(path.Join(...)) (always clean) no longer matches a root written with a trailing slash or dot segment, its free space reads as 0 and it is never used again")
}

// c19DecodeTargetFresh (seeded C19-B): every decode fills a fresh record, or the decoder assigns every field on every path.
func c19DecodeTargetFresh(p *Prog, r *Report, rule string) {
	unm := p.Func(kUnmarshal)
	if unm == nil {
		return
	}
	uinfo := unm.Pkg.TypesInfo
	uf := p.FlatOf(unm)
	// fields assigned on every success path
	allAssigned := true
	var missing []string
	for _, fld := range []string{"Seq", "TxId", "ContentId", "Key"} {
		as := uf.Match(func(n *GNode) bool {
			a, ok := n.Ast.(*ast.AssignStmt)
			if !ok {
				return false
			}
			for _, l := range a.Lhs {
				if sel, ok := l.(*ast.SelectorExpr); ok && sel.Sel.Name == fld {
					return true
				}
			}
			return false
		})
		for _, id := range uf.successReturns(unm) {
			if !uf.MustPrecede(setOf(as), id) {
				allAssigned = false
				missing = append(missing, fld)
				break
			}
		}
	}
	_ = uinfo
	if allAssigned {
		r.Hold(rule, kUnmarshal+"#assigns-every-field", p.pos(unm.Decl), "the decoder assigns every field on every success path")
		return
	}
	// otherwise every call site must pass a fresh record
	for _, k := range sortedFuncKeys(p) {
		fi := p.Funcs[k]
		if fi.Decl.Body == nil || fi == unm {
			continue
		}
		info := fi.Pkg.TypesInfo
		ast.Inspect(fi.Decl.Body, func(x ast.Node) bool {
			c, ok := x.(*ast.CallExpr)
			if !ok || !p.callIs(fi.Pkg, c, kUnmarshal) || len(c.Args) != 2 {
				return true
			}
			fresh := false
			target := ast.Unparen(c.Args[1])
			// the target may be kept in a local of the iteration first: f := &files[i]; unmarshalFile(rec, f)
			if id, isId := target.(*ast.Ident); isId {
				if o := objOf(info, id); o != nil {
					if d := singleDef(info, fi.Decl.Body, o); d != nil {
						target = ast.Unparen(d)
					}
				}
			}
			if u, ok := target.(*ast.UnaryExpr); ok && u.Op == token.AND {
				switch t := ast.Unparen(u.X).(type) {
				case *ast.IndexExpr:
					// element of a slice made in this function and indexed by the loop variable: each element is decoded once
					if o := objOf(info, t.X); o != nil {
						if d := singleDef(info, fi.Decl.Body, o); d != nil {
							if mc, ok := ast.Unparen(d).(*ast.CallExpr); ok {
								if id, ok := mc.Fun.(*ast.Ident); ok && id.Name == "make" {
									fresh = true
								}
							}
						}
					}
				case *ast.Ident:
					// a variable declared inside the innermost loop body (fresh per iteration) or not in a loop at all
					if o := objOf(info, t); o != nil {
						inLoop := insideLoop(fi.Decl.Body, c)
						declInLoop := false
						ast.Inspect(fi.Decl.Body, func(y ast.Node) bool {
							var body *ast.BlockStmt
							switch l := y.(type) {
							case *ast.ForStmt:
								body = l.Body
							case *ast.RangeStmt:
								body = l.Body
							}
							if body != nil && o.Pos() >= body.Pos() && o.Pos() <= body.End() && c.Pos() >= body.Pos() && c.End() <= body.End() {
								declInLoop = true
							}
							return true
						})
						fresh = !inLoop || declInLoop
					}
				}
			}
			r.Check(fresh, rule, k+"#decode-target-fresh", p.pos(c), "each record is decoded into a fresh value",
				fmt.Sprintf("records are decoded into a reused value while the decoder leaves %v untouched on some paths (empty key): a record inherits the field of the record decoded before it", missing))
			return true
		})
	}
}

// ---------------------------------------------------------------------------------------------------------------
// Round 3 (rules added after the second round of independently seeded changes)

const pkgBadger = "internal/db/badger"

func isBadgerMethod(info *types.Info, c *ast.CallExpr, recv, name string) bool {
	sel, ok := ast.Unparen(c.Fun).(*ast.SelectorExpr)
	if !ok || sel.Sel.Name != name {
		return false
	}
	fn, ok := info.Uses[sel.Sel].(*types.Func)
	if !ok || fn.Pkg() == nil {
		return false
	}
	sig, _ := fn.Type().(*types.Signature)
	if sig == nil || sig.Recv() == nil {
		return false
	}
	if !strings.Contains(fn.Pkg().Path(), "dgraph-io/badger") {
		// a narrow interface of the module that the Badger type satisfies (the manager holds "engine", say)
		iface, isIface := sig.Recv().Type().Underlying().(*types.Interface)
		if !isIface || !strings.HasPrefix(fn.Pkg().Path(), modPrefix) {
			return false
		}
		for _, imp := range fn.Pkg().Imports() {
			if !strings.Contains(imp.Path(), "dgraph-io/badger") {
				continue
			}
			if tn, ok := imp.Scope().Lookup(recv).(*types.TypeName); ok && types.Implements(types.NewPointer(tn.Type()), iface) {
				return true
			}
		}
		return false
	}
	return strings.HasSuffix(sig.Recv().Type().String(), "."+recv)
}

// c04SyncCommit (seeded C04-C): a Badger write is acknowledged only after its transaction has committed. Every
// write transaction of the Badger layer is a synchronous DB.Update, or a NewTransaction whose Commit error is
// consumed; asynchronous commits (CommitWith, write batches) are not used.
func c04SyncCommit(p *Prog, r *Report, rule string) {
	nUpd := 0
	for _, k := range sortedFuncKeys(p) {
		fi := p.Funcs[k]
		if shortPath(fi.Pkg.PkgPath) != pkgBadger || fi.Decl.Body == nil {
			continue
		}
		info := fi.Pkg.TypesInfo
		f := p.FlatOf(fi)
		ast.Inspect(fi.Decl.Body, func(x ast.Node) bool {
			c, ok := x.(*ast.CallExpr)
			if !ok {
				return true
			}
			switch {
			case isBadgerMethod(info, c, "Txn", "CommitWith"), isBadgerMethod(info, c, "DB", "NewWriteBatch"), isBadgerMethod(info, c, "DB", "NewWriteBatchAt"):
				r.Viol(rule, k+"#asynchronous-commit", p.pos(c), "the write is handed to Badger's asynchronous commit path: the caller is told about success before the write is durable, and a commit failure reaches nobody. A kill right after the acknowledgement loses an acknowledged Set / Delete")
			case isBadgerMethod(info, c, "DB", "Update"):
				nUpd++
				r.Hold(rule, fmt.Sprintf("%s#synchronous-update/%d", k, nUpd), p.pos(c), "DB.Update commits before it returns")
			case isBadgerMethod(info, c, "DB", "NewTransaction"):
				// a hand-rolled write transaction: Commit must be called and its error consumed
				commits := 0
				for _, n := range f.Nodes {
					if n.Ast == nil {
						continue
					}
					for _, cc := range callsIn(n.Ast, false) {
						if isBadgerMethod(info, cc, "Txn", "Commit") {
							commits++
							f.SiteConsumed(r, rule, k+"#commit-error", fi, f.bindOf(n, cc), flowOpts{})
						}
					}
				}
				if len(c.Args) == 1 {
					if tv, ok := info.Types[c.Args[0]]; ok && tv.Value != nil && tv.Value.ExactString() == "false" {
						break // read-only transaction
					}
				}
				r.Check(commits > 0, rule, k+"#explicit-transaction-commits", p.pos(c), "the explicit transaction is committed synchronously", "a write transaction is opened but never committed with Commit(): its writes are lost or acknowledged before they are durable")
			}
			return true
		})
	}
	r.Floor(rule, "badger-update-sites", nUpd, 1)
}

// c19IteratorCopies (seeded C04-D / C19-D): Badger recycles the key and value buffers of iterator items; bytes that
// leave one iteration must be copied. In every function of the Badger layer that iterates, each use of the value
// handed to an Item.Value callback, and each Item.Key() of an iterator item, is the operand of a copying
// operation (slices.Clone, bytes.Clone, string(...), copy, append(x, v...)) - or the copying accessors
// KeyCopy / ValueCopy are used.
func c19IteratorCopies(p *Prog, r *Report, rule string) {
	n := 0
	for _, k := range sortedFuncKeys(p) {
		fi := p.Funcs[k]
		if shortPath(fi.Pkg.PkgPath) != pkgBadger || fi.Decl.Body == nil {
			continue
		}
		info := fi.Pkg.TypesInfo
		// iterator items: every *badger.Item variable or parameter of the function, except those obtained from
		// Txn.Get (a fresh item that owns its buffers). Items travel through helpers, callbacks and range-over-func
		// iterators; judging by type keeps the rule independent of how they travel.
		items := map[types.Object]bool{}
		isItemType := func(t types.Type) bool {
			pt, ok := t.(*types.Pointer)
			if !ok {
				return false
			}
			nt, ok := pt.Elem().(*types.Named)
			return ok && nt.Obj().Name() == "Item" && nt.Obj().Pkg() != nil && strings.Contains(nt.Obj().Pkg().Path(), "dgraph-io/badger")
		}
		fromGet := map[types.Object]bool{}
		ast.Inspect(fi.Decl.Body, func(x ast.Node) bool {
			if as, ok := x.(*ast.AssignStmt); ok && len(as.Rhs) == 1 {
				if c, ok := ast.Unparen(as.Rhs[0]).(*ast.CallExpr); ok && isBadgerMethod(info, c, "Txn", "Get") {
					if o := objOf(info, as.Lhs[0]); o != nil {
						fromGet[o] = true
					}
				}
			}
			return true
		})
		for id, o := range info.Defs {
			if o == nil || id.Pos() < fi.Decl.Pos() || id.End() > fi.Decl.End() {
				continue
			}
			if v, ok := o.(*types.Var); ok && isItemType(v.Type()) && !fromGet[o] {
				items[o] = true
			}
		}
		if len(items) == 0 {
			// a function that only calls Iterator.Item() inline
			has := false
			ast.Inspect(fi.Decl.Body, func(x ast.Node) bool {
				if c, ok := x.(*ast.CallExpr); ok && isBadgerMethod(info, c, "Iterator", "Item") {
					has = true
				}
				return !has
			})
			if !has {
				continue
			}
		}
		isItem := func(e ast.Expr) bool {
			if o := objOf(info, e); o != nil && items[o] {
				return true
			}
			if c, ok := ast.Unparen(e).(*ast.CallExpr); ok && isBadgerMethod(info, c, "Iterator", "Item") {
				return true
			}
			return false
		}
		// volatile byte expressions: parameters of Value callbacks of iterator items, and item.Key() calls
		vol := map[types.Object]bool{}
		var volCalls []*ast.CallExpr
		ast.Inspect(fi.Decl.Body, func(x ast.Node) bool {
			c, ok := x.(*ast.CallExpr)
			if !ok {
				return true
			}
			sel, ok := ast.Unparen(c.Fun).(*ast.SelectorExpr)
			if !ok || !isItem(sel.X) {
				return true
			}
			switch {
			case isBadgerMethod(info, c, "Item", "Value") && len(c.Args) == 1:
				if lit, ok := ast.Unparen(c.Args[0]).(*ast.FuncLit); ok && len(lit.Type.Params.List) == 1 && len(lit.Type.Params.List[0].Names) == 1 {
					if o := info.Defs[lit.Type.Params.List[0].Names[0]]; o != nil {
						vol[o] = true
					}
				}
			case isBadgerMethod(info, c, "Item", "Key"):
				volCalls = append(volCalls, c)
			}
			return true
		})
		// every use is the operand of a copy
		var stack []ast.Node
		ast.Inspect(fi.Decl.Body, func(x ast.Node) bool {
			if x == nil {
				stack = stack[:len(stack)-1]
				return true
			}
			stack = append(stack, x)
			isVol := false
			if id, ok := x.(*ast.Ident); ok {
				if o := info.Uses[id]; o != nil && vol[o] {
					isVol = true
				}
			}
			if c, ok := x.(*ast.CallExpr); ok {
				for _, vc := range volCalls {
					if vc == c {
						isVol = true
					}
				}
			}
			if !isVol {
				return true
			}
			n++
			copied, how := false, ""
			if len(stack) >= 2 {
				parent := stack[len(stack)-2]
				if pc, ok := parent.(*ast.CallExpr); ok && pc.Fun != x {
					switch {
					case isFunc(info, pc, "slices", "Clone"), isFunc(info, pc, "bytes", "Clone"):
						copied, how = true, types.ExprString(pc.Fun)
					default:
						if tv, ok := info.Types[pc.Fun]; ok && tv.IsType() {
							if bt, ok := tv.Type.Underlying().(*types.Basic); ok && bt.Info()&types.IsString != 0 {
								copied, how = true, "string conversion"
							}
						}
						if id, ok := pc.Fun.(*ast.Ident); ok {
							if _, isB := info.Uses[id].(*types.Builtin); isB {
								switch id.Name {
								case "copy":
									if len(pc.Args) == 2 && pc.Args[1] == x {
										copied, how = true, "copy"
									}
								case "append":
									if pc.Ellipsis.IsValid() && len(pc.Args) == 2 && pc.Args[1] == x {
										copied, how = true, "append(x, v...)"
									}
								case "len":
									copied, how = true, "len"
								}
							}
						}
					}
				}
			}
			what := types.ExprString(x.(ast.Expr))
			r.Check(copied, rule, fmt.Sprintf("%s#iterator-bytes-copied/%s@%d", k, what, n), p.pos(x), "copied by "+how,
				"bytes owned by a Badger iterator item ("+what+") leave the iteration without being copied: Badger recycles the item's buffers, so once more records than the prefetch window are read, earlier records are overwritten by later ones - recovery drops or duplicates versions and deletes live content")
			return true
		})
	}
	r.Floor(rule, "iterator-byte-uses", n, 1)
}

// c11MessageLimits (seeded C11-D): no transport option lowers the gRPC message size limit below the library default.
// Keys are unbounded strings and travel in single messages: a smaller limit makes the server (or client) refuse,
// with ResourceExhausted, requests that the inline client accepts.
func c11MessageLimits(p *Prog, r *Report, rule string) {
	const grpcDefault = 4 << 20
	n := 0
	for _, k := range sortedFuncKeys(p) {
		fi := p.Funcs[k]
		if fi.Decl.Body == nil {
			continue
		}
		info := fi.Pkg.TypesInfo
		ast.Inspect(fi.Decl.Body, func(x ast.Node) bool {
			c, ok := x.(*ast.CallExpr)
			if !ok || len(c.Args) != 1 {
				return true
			}
			name := ""
			for _, nm := range []string{"MaxRecvMsgSize", "MaxSendMsgSize", "MaxCallRecvMsgSize", "MaxCallSendMsgSize", "MaxMsgSize"} {
				if isFunc(info, c, "google.golang.org/grpc", nm) {
					name = nm
				}
			}
			if name == "" {
				return true
			}
			n++
			cons := fmt.Sprintf("%s#grpc.%s", k, name)
			tv, ok := info.Types[c.Args[0]]
			if !ok || tv.Value == nil {
				r.Hold(rule, cons, p.pos(c), "limit is not a compile-time constant (not decided)")
				return true
			}
			v, exact := constant.Int64Val(constant.ToInt(tv.Value))
			r.Check(exact && v >= grpcDefault, rule, cons, p.pos(c), fmt.Sprintf("limit %d >= the default %d", v, grpcDefault),
				fmt.Sprintf("grpc.%s(%d) lowers the message size limit below gRPC's default of %d bytes: a request whose key (or any single message) exceeds it is refused by the transport with ResourceExhausted, which the client maps to ErrNoFreeSpace, while the inline client accepts the same call", name, v, grpcDefault))
			return true
		})
	}
	if n == 0 {
		r.Hold(rule, "grpc-message-size-options", "", "no message size option is set: the library defaults apply on both sides")
	}
}

// c11WriterFIFO (seeded C11-C): bytes leave the stream writer in the order they were written. The writer keeps a
// buffer of bytes not yet sent; a Send whose payload is taken from the argument of the current Write overtakes
// them unless the buffer was tested or drained first.
func c11WriterFIFO(p *Prog, r *Report, rule string) {
	const swPkg = "internal/utils/grpc/streamwriter"
	k := "(*" + swPkg + ".writer).Write"
	fi := p.Func(k)
	if fi == nil {
		r.Undecided(rule, k, "", "not found")
		return
	}
	info := fi.Pkg.TypesInfo
	f := p.FlatInl(fi)
	pObj := paramObjs(fi)[0]
	// does the writer buffer at all? (a Write on a bytes.Buffer field of the receiver)
	isBufOp := func(c *ast.CallExpr, names ...string) bool {
		sel, ok := ast.Unparen(c.Fun).(*ast.SelectorExpr)
		if !ok {
			return false
		}
		tv, ok := info.Types[sel.X]
		if !ok || !strings.HasSuffix(strings.TrimPrefix(tv.Type.String(), "*"), "bytes.Buffer") {
			return false
		}
		for _, nm := range names {
			if sel.Sel.Name == nm {
				return true
			}
		}
		return false
	}
	buffers := false
	for _, mk := range p.methodsOf(swPkg, "writer") {
		ast.Inspect(p.Func(mk).Decl.Body, func(x ast.Node) bool {
			if c, ok := x.(*ast.CallExpr); ok && isBufOp(c, "Write", "WriteByte", "WriteString", "ReadFrom") {
				buffers = true
			}
			return true
		})
	}
	// values derived from the argument: p itself, slices of it, locals assigned from those
	derived := map[types.Object]bool{pObj: true}
	for changed := true; changed; {
		changed = false
		for _, n := range f.Nodes {
			as, ok := n.Ast.(*ast.AssignStmt)
			if !ok || len(as.Lhs) != len(as.Rhs) {
				continue
			}
			for i, l := range as.Lhs {
				lo := objOf(info, l)
				if lo == nil || derived[lo] {
					continue
				}
				if ro := f.CanonRoot(as.Rhs[i]); ro != nil && derived[ro] {
					if _, isCall := ast.Unparen(as.Rhs[i]).(*ast.CallExpr); !isCall {
						derived[lo] = true
						changed = true
					}
				}
				if ro := rootIdentObj(info, as.Rhs[i]); ro != nil && derived[ro] {
					derived[lo] = true
					changed = true
				}
			}
		}
	}
	fromArg := func(e ast.Expr) bool {
		found := false
		ast.Inspect(e, func(x ast.Node) bool {
			if id, ok := x.(*ast.Ident); ok {
				if o := info.Uses[id]; o != nil && derived[o] {
					found = true
				}
			}
			return !found
		})
		return found
	}
	// evidence that the buffer is empty or being consumed: a test of its length, or a draining call
	var evidence []int
	for _, n := range f.Nodes {
		if n.Ast == nil {
			continue
		}
		for _, c := range callsIn(n.Ast, false) {
			if isBufOp(c, "Len", "Read", "Next", "Reset", "Bytes", "WriteTo", "ReadByte", "Truncate") {
				evidence = append(evidence, n.ID)
			}
		}
	}
	nSend := 0
	for _, n := range f.Nodes {
		if n.Ast == nil {
			continue
		}
		for _, c := range callsIn(n.Ast, false) {
			sel, ok := ast.Unparen(c.Fun).(*ast.SelectorExpr)
			if !ok || sel.Sel.Name != "Send" || p.staticCallee(fi.Pkg, c) != nil || len(c.Args) != 1 {
				continue
			}
			nSend++
			cons := fmt.Sprintf("%s#send-in-write-order/%d", k, nSend)
			if !fromArg(c.Args[0]) || !buffers {
				r.Hold(rule, cons, p.pos(c), "the payload comes out of the writer's buffer")
				continue
			}
			r.Check(f.MustPrecede(setOf(evidence), n.ID), rule, cons, p.pos(c), "the buffer is examined before bytes of the argument are sent directly",
				"Write sends bytes of its argument straight to the stream although bytes of an earlier Write may still sit in the writer's buffer: they are overtaken and the server stores a permutation of the written bytes (right length, no error)")
		}
	}
	r.Floor(rule, "stream-writer-sends-in-Write", nSend, 1)
}

func rootIdentObj(info *types.Info, e ast.Expr) types.Object {
	for {
		switch x := ast.Unparen(e).(type) {
		case *ast.Ident:
			return objOf(info, x)
		case *ast.SliceExpr:
			e = x.X
		case *ast.IndexExpr:
			e = x.X
		default:
			return nil
		}
	}
}

// c11CtxFromCaller (seeded C03-D): the transaction id travels as outgoing metadata inside the caller's context, so
// every gRPC call of the external client must be made with a context derived from the context the caller passed
// (context.With*, metadata.AppendToOutgoingContext, the tx's own ctx helper) - never with a fresh root context.
func c11CtxFromCaller(p *Prog, r *Report, rule string) {
	n := 0
	rpcNames := map[string]bool{}
	for _, k := range sortedFuncKeys(p) {
		fi := p.Funcs[k]
		if shortPath(fi.Pkg.PkgPath) != pkgExtDB || fi.Decl.Body == nil {
			continue
		}
		info := fi.Pkg.TypesInfo
		var ctxParam types.Object
		for _, o := range paramObjs(fi) {
			if o != nil && strings.HasSuffix(o.Type().String(), "context.Context") {
				ctxParam = o
			}
		}
		var rooted func(e ast.Expr, depth int) bool
		rooted = func(e ast.Expr, depth int) bool {
			if depth > 6 {
				return false
			}
			switch x := ast.Unparen(e).(type) {
			case *ast.Ident:
				o := objOf(info, x)
				if o == nil {
					return false
				}
				if o == ctxParam {
					// the parameter itself, unless it is reassigned from something unrooted
					ok := true
					ast.Inspect(fi.Decl.Body, func(y ast.Node) bool {
						if as, isAs := y.(*ast.AssignStmt); isAs {
							for i, l := range as.Lhs {
								if objOf(info, l) == o && as.Tok.String() == "=" {
									rhs := as.Rhs[0]
									if len(as.Rhs) == len(as.Lhs) {
										rhs = as.Rhs[i]
									}
									if !rootedCall(info, rhs, func(a ast.Expr) bool { return objOf(info, a) == o || rooted(a, depth+1) }) {
										ok = false
									}
								}
							}
						}
						return true
					})
					return ok
				}
				// a local: every definition is rooted
				defs, all := 0, true
				ast.Inspect(fi.Decl.Body, func(y ast.Node) bool {
					if as, isAs := y.(*ast.AssignStmt); isAs {
						for i, l := range as.Lhs {
							if objOf(info, l) == o {
								defs++
								rhs := as.Rhs[0]
								if len(as.Rhs) == len(as.Lhs) {
									rhs = as.Rhs[i]
								}
								if !rooted(rhs, depth+1) {
									all = false
								}
							}
						}
					}
					return true
				})
				return defs > 0 && all
			case *ast.CallExpr:
				return rootedCall(info, x, func(a ast.Expr) bool { return rooted(a, depth+1) })
			}
			return false
		}
		ast.Inspect(fi.Decl.Body, func(x ast.Node) bool {
			c, ok := x.(*ast.CallExpr)
			if !ok || len(c.Args) == 0 {
				return true
			}
			sel, ok := ast.Unparen(c.Fun).(*ast.SelectorExpr)
			if !ok {
				return true
			}
			fn, ok := info.Uses[sel.Sel].(*types.Func)
			if !ok {
				return true
			}
			sig, _ := fn.Type().(*types.Signature)
			if sig == nil || sig.Recv() == nil || !p.isStoreClientIface(sig.Recv().Type()) {
				return true
			}
			n++
			rpcNames[fn.Name()] = true
			cons := fmt.Sprintf("%s#%s-context-from-caller", k, fn.Name())
			if ctxParam == nil {
				r.Viol(rule, cons, p.pos(c), "the method has no context parameter to derive the call's context from")
				return true
			}
			r.Check(rooted(c.Args[0], 0), rule, cons, p.pos(c), "the call's context is derived from the caller's context",
				"the gRPC call is made with a context that is not derived from the one the caller passed: the transaction id (outgoing metadata of the caller's context) is lost and the operation runs outside the transaction - a write through Tx."+fi.Decl.Name.Name+" is stored as an autocommit write, survives Rollback and is not part of Commit")
			return true
		})
	}
	// the floor counts the distinct RPCs the client uses (two methods may share one call through a helper)
	r.Floor(rule, "external-client-rpcs", len(rpcNames), 7)
}

// rootedCall: a call that derives a context from a context argument (context.With*, metadata helpers, or any
// function returning a context.Context that takes one): rooted iff that argument is.
func rootedCall(info *types.Info, e ast.Expr, argRooted func(ast.Expr) bool) bool {
	c, ok := ast.Unparen(e).(*ast.CallExpr)
	if !ok {
		return false
	}
	if isFunc(info, c, "context", "Background") || isFunc(info, c, "context", "TODO") {
		return false
	}
	tv, ok := info.Types[c]
	if !ok {
		return false
	}
	returnsCtx := false
	switch t := tv.Type.(type) {
	case *types.Tuple:
		for i := 0; i < t.Len(); i++ {
			if strings.HasSuffix(t.At(i).Type().String(), "context.Context") {
				returnsCtx = true
			}
		}
	default:
		returnsCtx = strings.HasSuffix(tv.Type.String(), "context.Context")
	}
	if !returnsCtx {
		return false
	}
	for _, a := range c.Args {
		if at, ok := info.Types[a]; ok && strings.HasSuffix(at.Type.String(), "context.Context") {
			return argRooted(a)
		}
	}
	// a method whose receiver carries the context (stream.Context()) is not a derivation from the parameter
	return false
}

// c06ReleaseThenHandsOff (seeded C06-D): Pool.Release clears an element before it publishes it on the free list;
// once published (the append to p.free) the releaser no longer touches the elements - another goroutine may have
// acquired them already.
func c06ReleaseThenHandsOff(p *Prog, r *Report, rule string) {
	k := "(*internal/model/core.Pool).Release"
	fi := p.Func(k)
	if fi == nil {
		r.Undecided(rule, k, "", "Pool.Release not found")
		return
	}
	info := fi.Pkg.TypesInfo
	f := p.FlatInl(fi)
	els := paramObjs(fi)[0]
	// values derived from the released elements: the parameter and range variables over it
	derived := map[types.Object]bool{els: true}
	for _, n := range f.Nodes {
		if id, ok := n.Ast.(*ast.Ident); ok && n.Block != nil && n.Block.Kind.String() == "RangeLoop" || false {
			_ = id
		}
	}
	for _, rs := range rangeLoops(fi.Decl.Body) {
		if ro := rootIdentObj(info, rs.X); ro != nil && derived[ro] {
			if rs.Value != nil {
				if o := objOf(info, rs.Value); o != nil {
					derived[o] = true
				}
			}
		}
	}
	var pubs []int
	for _, n := range f.Nodes {
		as, ok := n.Ast.(*ast.AssignStmt)
		if !ok {
			continue
		}
		for _, l := range as.Lhs {
			if sel, ok := ast.Unparen(l).(*ast.SelectorExpr); ok && sel.Sel.Name == "free" {
				pubs = append(pubs, n.ID)
			}
		}
	}
	if len(pubs) == 0 {
		r.Undecided(rule, k+"#publication", p.pos(fi.Decl), "no assignment of the free list found")
		return
	}
	bad := ""
	for _, pub := range pubs {
		after := f.Reach(f.succsOf(pub), nil, nil)
		for id := range after {
			n := f.Nodes[id]
			if n.Ast == nil || id == pub {
				continue
			}
			if _, isRet := n.Ast.(*ast.ReturnStmt); isRet {
				continue
			}
			touched := false
			ast.Inspect(n.Ast, func(x ast.Node) bool {
				if idn, ok := x.(*ast.Ident); ok {
					if o := info.Uses[idn]; o != nil && derived[o] {
						touched = true
					}
				}
				return !touched
			})
			if touched {
				bad = p.pos(n.Ast)
			}
		}
	}
	r.Check(bad == "", rule, k+"#hands-off-after-publication", p.pos(f.Nodes[pubs[0]].Ast), "elements are cleared before they are published; nothing touches them afterwards",
		"Release publishes the elements on the free list and still works on them afterwards (at "+bad+"): a concurrent Acquire can hand out an element that is being cleared - a fresh transaction receives a store whose map is wiped under it (lost write, or a fatal concurrent map write)")
}

// c14FreshLists (seeded C14-C): a delete list returned by the core is owned by the caller: it is built in a slice
// allocated by the call (make / nil / literal, grown with append) and is not kept in, or taken from, a field of
// the use case. The list outlives the call (it is walked later by a pool worker).
func c14FreshLists(p *Prog, r *Report, rule string) {
	n := 0
	for _, k := range []string{kUpdateTx, kCoreDeleteTx, kCoreDeleteOld, kCoreLoad} {
		fi := p.Func(k)
		if fi == nil {
			continue
		}
		info := fi.Pkg.TypesInfo
		f := p.FlatInl(fi)
		// result variables of slice type: named results and variables returned
		// (a list is named by its storage path: a variable, or a slice field of a local state struct)
		lists := map[string]string{}
		res := fi.Sig().Results()
		for i := 0; i < res.Len(); i++ {
			if _, ok := res.At(i).Type().Underlying().(*types.Slice); ok && res.At(i).Name() != "" {
				lists[objID(res.At(i))] = res.At(i).Name()
			}
		}
		for _, id := range f.ReturnNodes() {
			if rs := f.returnStmt(id); rs != nil {
				for _, e := range rs.Results {
					if tv, ok := info.Types[e]; ok {
						if _, isSlice := tv.Type.Underlying().(*types.Slice); isSlice {
							if lp := f.rawPath(e); lp != "" {
								lists[lp] = types.ExprString(e)
							}
						}
					}
				}
			}
		}
		var lkeys []string
		for lp := range lists {
			lkeys = append(lkeys, lp)
		}
		sort.Strings(lkeys)
		for qi := 0; qi < len(lkeys); qi++ {
			lp := lkeys[qi]
			n++
			cons := fmt.Sprintf("%s#list %s is owned by the caller", k, lists[lp])
			bad := ""
			for _, gn := range f.Nodes {
				as, ok := gn.Ast.(*ast.AssignStmt)
				if !ok || len(as.Lhs) != len(as.Rhs) {
					continue
				}
				for i, l := range as.Lhs {
					// list = <expr>
					if f.rawPath(l) == lp {
						rhs := ast.Unparen(as.Rhs[i])
						okRhs := false
						// the result binding of a spliced-in helper: the helper's own list is judged in its place
						if rp := f.rawPath(rhs); gn.Synth != "" && rp != "" && rp != lp {
							if _, seen := lists[rp]; !seen {
								lists[rp] = types.ExprString(rhs) + " (of a helper)"
								lkeys = append(lkeys, rp)
							}
							continue
						}
						switch x := rhs.(type) {
						case *ast.Ident:
							okRhs = isNilIdent(info, x)
						case *ast.CompositeLit:
							okRhs = true
						case *ast.CallExpr:
							if id, isId := x.Fun.(*ast.Ident); isId {
								if _, isB := info.Uses[id].(*types.Builtin); isB {
									switch id.Name {
									case "make":
										okRhs = true
									case "append":
										okRhs = len(x.Args) > 0 && f.rawPath(x.Args[0]) == lp
									}
								}
							}
							// the list itself, grown or trimmed: slices.Grow(list, n), slices.Clip(list); a copy
							if len(x.Args) > 0 && (isFunc(info, x, "slices", "Grow") || isFunc(info, x, "slices", "Clip")) {
								okRhs = f.rawPath(x.Args[0]) == lp
							}
							if isFunc(info, x, "slices", "Clone") {
								okRhs = true
							}
						}
						if !okRhs {
							bad = p.pos(as) + ": the list is taken from " + types.ExprString(rhs)
						}
					}
					// field = list
					if sel, isSel := ast.Unparen(l).(*ast.SelectorExpr); isSel {
						if fv, ok := info.Uses[sel.Sel].(*types.Var); ok && fv.IsField() && f.rawPath(as.Rhs[i]) == lp && f.rawPath(l) != lp && !localRoot(f, fi, sel.X) {
							bad = p.pos(as) + ": the list is kept in the field " + fv.Name()
						}
					}
				}
			}
			r.Check(bad == "", rule, cons, p.pos(fi.Decl), "allocated by the call and handed over",
				"the delete list shares its backing array with storage that outlives the call ("+bad+"): the next call overwrites the list while a pool worker is still walking it - the contents of the first transaction are never deleted")
		}
	}
	r.Floor(rule, "core-delete-lists", n, 3)
}

// c14VisitsEveryFile (seeded C14-D): cleaner.DeleteFiles attempts every file of its list: inside the loop over
// the list, every path from the start of an iteration to the next iteration passes the call of deleteFile, and
// nothing leaves the loop early. A list that is abandoned half way is never queued again.
func c14VisitsEveryFile(p *Prog, r *Report, rule string) {
	fi := p.Func(kDeleteFiles)
	if fi == nil {
		r.Undecided(rule, kDeleteFiles, "", "cleaner.DeleteFiles not found")
		return
	}
	info := fi.Pkg.TypesInfo
	f := p.FlatOf(fi)
	var listParam types.Object
	for _, o := range paramObjs(fi) {
		if o != nil {
			if _, ok := o.Type().Underlying().(*types.Slice); ok {
				listParam = o
			}
		}
	}
	var loop *ast.RangeStmt
	for _, rs := range rangeLoops(fi.Decl.Body) {
		if objOf(info, rs.X) == listParam && listParam != nil {
			loop = rs
		}
	}
	cons := kDeleteFiles + "#every-file-attempted"
	var loopStmt ast.Stmt
	var loopBody *ast.BlockStmt
	var post ast.Stmt
	if loop != nil {
		loopStmt, loopBody = loop, loop.Body
	} else {
		// an index loop over the whole list: for i := 0; i < n; i++ { ... files[i] ... } (n = len(files), hoisted or not)
		for _, fs := range forLoops(fi.Decl.Body) {
			if fs.Cond == nil || fs.Init == nil || fs.Post == nil {
				continue
			}
			init, ok := fs.Init.(*ast.AssignStmt)
			if !ok || len(init.Lhs) != 1 || len(init.Rhs) != 1 {
				continue
			}
			iv := objOf(info, init.Lhs[0])
			if z, isZ := constInt(info, init.Rhs[0]); !isZ || z != 0 || iv == nil {
				continue
			}
			cond, ok := ast.Unparen(fs.Cond).(*ast.BinaryExpr)
			if !ok || cond.Op != token.LSS || objOf(info, cond.X) != iv {
				continue
			}
			// the bound is the length of the list
			bound := ast.Unparen(cond.Y)
			if o := objOf(info, bound); o != nil {
				if def := singleDefIn(info, fi.Decl.Body, o); def != nil {
					bound = ast.Unparen(def)
				}
			}
			bc, ok := bound.(*ast.CallExpr)
			if !ok || len(bc.Args) != 1 || objOf(info, bc.Args[0]) != listParam {
				continue
			}
			if id, isId := bc.Fun.(*ast.Ident); !isId || id.Name != "len" {
				continue
			}
			if inc, isInc := fs.Post.(*ast.IncDecStmt); !isInc || inc.Tok != token.INC || objOf(info, inc.X) != iv {
				continue
			}
			loopStmt, loopBody, post = fs, fs.Body, fs.Post
		}
	}
	if loopStmt == nil {
		r.Undecided(rule, cons, p.pos(fi.Decl), "no loop over the list parameter")
		return
	}
	head := f.loopHeadStmt(loopStmt)
	del := p.keysPred("(*internal/usecase/cleaner.UseCase).deleteFile")
	if p.Func(kCleanDeleteFile) == nil {
		// the per-file step was merged into this loop: an iteration attempts the file when it looks its content
		// record up (the first step of the removal)
		del = p.keysPred(kCFGet)
	}
	dels := setOf(f.NodesMust(del))
	inLoop := func(n *GNode) bool {
		if post != nil && n.Ast != nil && n.Ast.Pos() >= post.Pos() && n.Ast.End() <= post.End() {
			return true // the post statement belongs to the loop
		}
		return n.Ast != nil && n.Ast.Pos() >= loopBody.Pos() && n.Ast.End() <= loopBody.End()
	}
	var start []int
	for _, e := range f.Nodes[head].Succs {
		if e.Label == 1 {
			start = append(start, e.To)
		}
	}
	reach := f.Reach(start, func(n *GNode) bool { return dels[n.ID] }, nil)
	bad := ""
	for id := range reach {
		n := f.Nodes[id]
		if id == head {
			bad = "an iteration can end without the deletion being attempted"
		}
		if n.Ast != nil && !inLoop(n) && id != head {
			bad = "the loop can be left at " + p.pos(n.Ast) + " before every file has been attempted"
		}
	}
	// after the deletion attempt: only back to the head
	for d := range dels {
		after := f.Reach(f.succsOf(d), func(n *GNode) bool { return n.ID == head }, nil)
		for id := range after {
			n := f.Nodes[id]
			if n.Ast != nil && !inLoop(n) {
				bad = "the loop can be left at " + p.pos(n.Ast) + " after a failed deletion, before every file has been attempted"
			}
		}
	}
	r.Check(bad == "" && len(dels) > 0, rule, cons, p.pos(loopStmt), "every file of the list is attempted",
		bad+": the rest of the list is abandoned and nothing queues it again - the contents stay on disk until the next restart")
}

// c17RegisterAfterMkdir (seeded C17-C): the directory registry records a directory only after it exists: in
// dir.Create the registry writes are reachable only after MkdirAll succeeded.
func c17RegisterAfterMkdir(p *Prog, r *Report, rule string) {
	k := "(*internal/repository/dir.Repo).Create"
	fi := p.Func(k)
	if fi == nil {
		r.Undecided(rule, k, "", "dir.Create not found")
		return
	}
	info := fi.Pkg.TypesInfo
	f := p.FlatInl(fi)
	var mk []callSite
	for _, n := range f.Nodes {
		if n.Ast == nil {
			continue
		}
		for _, c := range callsIn(n.Ast, false) {
			if isFunc(info, c, "os", "MkdirAll") || isFunc(info, c, "os", "Mkdir") || p.callIs(fi.Pkg, c, "internal/utils/os.MkdirAll") {
				mk = append(mk, f.bindOf(n, c))
			}
		}
	}
	var writes []int
	for _, n := range f.Nodes {
		touched := false
		switch st := n.Ast.(type) {
		case *ast.AssignStmt:
			for _, l := range st.Lhs {
				if rootIsField(info, l) {
					touched = true
				}
			}
		case *ast.IncDecStmt:
			touched = rootIsField(info, st.X)
		}
		if touched {
			writes = append(writes, n.ID)
		}
	}
	cons := k + "#registered-only-after-mkdir"
	if len(mk) != 1 || len(writes) == 0 {
		r.Undecided(rule, cons, p.pos(fi.Decl), fmt.Sprintf("%d mkdir calls, %d registry writes", len(mk), len(writes)))
		return
	}
	pre := true
	for _, w := range writes {
		if !f.MustPrecede(setOf([]int{mk[0].Node}), w) {
			pre = false
		}
	}
	g, _, st := f.GatedBy(mk[0], writes)
	r.Check(pre && g, rule, cons, p.pos(mk[0].Call), "the registry is updated only after MkdirAll succeeded",
		"the directory is entered into the registry before (or although) its creation failed ("+strings.Join(st, ",")+"): a directory that does not exist stays registered as the root's active directory and every later write of every root fails until restart")
}

func rootIsField(info *types.Info, e ast.Expr) bool {
	for {
		switch x := ast.Unparen(e).(type) {
		case *ast.IndexExpr:
			e = x.X
		case *ast.SelectorExpr:
			fv, ok := info.Uses[x.Sel].(*types.Var)
			return ok && fv.IsField()
		default:
			return false
		}
	}
}

// c13HandleIdentityImmutable (seeded C13-D): a transaction handle names one transaction for ever: the id of the
// handle types is set where the handle is constructed (composite literal) and never assigned afterwards, so a
// handle the caller still holds can never come to denote a later transaction.
func c13HandleIdentityImmutable(p *Prog, r *Report, rule string) {
	n := 0
	for _, pk := range []string{"pkg/inline/db", pkgExtDB} {
		pkg := p.Pkg(pk)
		if pkg == nil {
			continue
		}
		info := pkg.TypesInfo
		bad := ""
		lits := 0
		// the handle type (pinned name tx) and its id: the string field(s) of the handle
		isHandle := func(t types.Type) bool {
			ts := strings.TrimPrefix(t.String(), "*")
			i := strings.LastIndex(ts, "/")
			if j := strings.LastIndex(ts, "."); j > i {
				return strings.HasSuffix(ts[:j], pk) && canonTypeName(pk+"."+ts[j+1:]) == pk+".tx"
			}
			return false
		}
		for _, k := range sortedFuncKeys(p) {
			fi := p.Funcs[k]
			if fi.Pkg != pkg || fi.Decl.Body == nil {
				continue
			}
			ast.Inspect(fi.Decl.Body, func(x ast.Node) bool {
				switch st := x.(type) {
				case *ast.AssignStmt:
					for _, l := range st.Lhs {
						if sel, ok := ast.Unparen(l).(*ast.SelectorExpr); ok {
							fv, isF := info.Uses[sel.Sel].(*types.Var)
							if !isF || !fv.IsField() {
								continue
							}
							if bt, isB := fv.Type().Underlying().(*types.Basic); !isB || bt.Kind() != types.String {
								continue
							}
							if tv, ok := info.Types[sel.X]; ok && isHandle(tv.Type) {
								bad = p.pos(st)
							}
						}
					}
				case *ast.CompositeLit:
					if tv, ok := info.Types[st]; ok && isHandle(tv.Type) {
						lits++
					}
				}
				return true
			})
		}
		n += lits
		r.Check(bad == "" && lits > 0, rule, pk+".tx#id-set-only-at-construction", bad, "the handle's id is set in its composite literal only",
			"the id of an existing transaction handle is assigned at "+bad+": a handle object is re-used for another transaction, so an ended handle that the caller still holds acts on (commits, rolls back, reads inside) somebody else's open transaction")
	}
	r.Floor(rule, "transaction-handle-constructions", n, 2)
}

// c10CopySourceIsPlainReader (seeded C10-D): content.Store resumes a failed write on the next root from
// {bytes already taken from the source but not written} + {rest of the source}. That accounting is only right
// when io.Copy moves the data through Read/Write pairs; a source that implements io.WriterTo (bytes.Reader of
// every inline Set) writes everything in one call and is then advanced only by the short count. The source
// handed to io.Copy must therefore be a value whose concrete type has no WriteTo (and the destination none with
// ReadFrom) on every path.
func c10CopySourceIsPlainReader(p *Prog, r *Report, rule string) {
	fi := p.Func(kContentStore)
	if fi == nil {
		return
	}
	info := fi.Pkg.TypesInfo
	f := p.FlatInl(fi)
	hasMethod := func(t types.Type, name string) bool {
		ms := types.NewMethodSet(t)
		for i := 0; i < ms.Len(); i++ {
			if ms.At(i).Obj().Name() == name {
				return true
			}
		}
		if _, isPtr := t.(*types.Pointer); !isPtr {
			ms = types.NewMethodSet(types.NewPointer(t))
			for i := 0; i < ms.Len(); i++ {
				if ms.At(i).Obj().Name() == name {
					return true
				}
			}
		}
		return false
	}
	n := 0
	for _, gn := range f.Nodes {
		if gn.Ast == nil {
			continue
		}
		for _, c := range callsIn(gn.Ast, false) {
			if !isFunc(info, c, "io", "Copy") || len(c.Args) != 2 {
				continue
			}
			n++
			cons := fmt.Sprintf("%s#copy-source-is-a-plain-reader/%d", kContentStore, n)
			src := ast.Unparen(c.Args[1])
			bad := ""
			check := func(e ast.Expr) {
				tv, ok := info.Types[e]
				if !ok {
					bad = "untyped source"
					return
				}
				if _, isIface := tv.Type.Underlying().(*types.Interface); isIface {
					bad = "the source is an arbitrary " + tv.Type.String() + " (it may implement io.WriterTo)"
					return
				}
				if hasMethod(tv.Type, "WriteTo") {
					bad = "the source type " + tv.Type.String() + " implements io.WriterTo"
				}
			}
			if sel, isSel := src.(*ast.SelectorExpr); isSel {
				// a field of the call's state: judged by the value its one struct literal stores there
				init := ast.Expr(nil)
				if base := f.CanonPath(sel.X); base != "" {
					init = f.pathInit(base, sel.Sel.Name)
				}
				if init != nil {
					check(init)
				} else {
					check(src)
				}
			} else if o := objOf(info, src); o != nil {
				defs := f.ReachingDefs(gn.ID, o)
				if len(defs) == 0 {
					check(src)
				}
				for _, d := range defs {
					if d.Rhs == nil {
						bad = "the source is declared without a value"
						continue
					}
					check(d.Rhs)
				}
				// the parameter's own value also reaches the copy when some path has no assignment
				for _, po := range paramObjs(fi) {
					if po == o {
						if !f.MustPrecede(defNodes(defs), gn.ID) {
							check(src)
						}
					}
				}
			} else {
				check(src)
			}
			if dt, ok := info.Types[c.Args[0]]; ok && bad == "" {
				t := dt.Type
				if _, isIface := t.Underlying().(*types.Interface); isIface || hasMethod(t, "ReadFrom") {
					bad = "the destination " + t.String() + " may implement io.ReaderFrom"
				}
			}
			r.Check(bad == "", rule, cons, p.pos(c), "io.Copy moves the data through Read/Write pairs", bad+": the whole content arrives in one Write; after a short write the bytes kept for the retry and the rest of the source overlap, and the retry on the next root stores the tail twice while reporting success")
		}
	}
	r.Floor(rule, "io.Copy-in-content.Store", n, 1)
}

func defNodes(defs []reachingDef) map[int]bool {
	m := map[int]bool{}
	for _, d := range defs {
		m[d.Node] = true
	}
	return m
}

// ---------------------------------------------------------------------------------------------------------------
// Round 4 (rules added after the third round of independently seeded changes)

// c09ReaderPinsContent (seeded C09-E): a reader handed out by content.Get keeps the content alive because it is an
// open file: the collector may unlink the file afterwards. The value returned on the success path must therefore
// be the result of the Open call made in this invocation (helpers spliced in), not a value that opens the file later.
func c09ReaderPinsContent(p *Prog, r *Report, rule string) {
	k := "(*internal/repository/content.Repo).Get"
	fi := p.Func(k)
	if fi == nil {
		r.Undecided(rule, k, "", "content.Get not found")
		return
	}
	info := fi.Pkg.TypesInfo
	f := p.FlatInl(fi)
	isOpen := func(e ast.Expr) bool {
		c, ok := ast.Unparen(e).(*ast.CallExpr)
		return ok && (p.callIs(fi.Pkg, c, "internal/utils/os.Open") || isFunc(info, c, "os", "Open") || isFunc(info, c, "os", "OpenFile"))
	}
	n, bad := 0, ""
	for _, id := range f.ReturnNodes() {
		rs := f.returnStmt(id)
		if rs == nil || len(rs.Results) != 2 || !isNilIdent(info, rs.Results[1]) {
			continue
		}
		n++
		res := rs.Results[0]
		if isOpen(res) {
			continue
		}
		o := objOf(info, res)
		if o == nil {
			bad = p.pos(rs) + ": the reader returned is " + types.ExprString(res)
			continue
		}
		defs := f.ReachingDefs(id, o)
		if len(defs) == 0 {
			bad = p.pos(rs) + ": the reader returned has no definition in the function"
		}
		for _, d := range defs {
			if d.Rhs == nil || !isOpen(d.Rhs) {
				bad = p.pos(f.Nodes[d.Node].Ast) + ": the reader returned is not the file opened by this call"
			}
		}
	}
	r.Check(bad == "" && n > 0, rule, k+"#returns-the-open-file", p.pos(fi.Decl), "the reader is the open file itself",
		bad+": a reader handed out no longer pins its content; once the key is overwritten and the collector has removed the file, a permitted read (a GetReader result consumed later, a snapshot read in progress) fails with 'no such file'")
}

// c10SkipAtEquality (seeded C10-F): after a root failed with F bytes free, store.Set tries only directories with
// strictly more free space: the guard that skips a directory is true for Free == F. (The sub-directories of the
// root that just failed report exactly F; trying one of them closes the partially written file of the previous
// attempt after its first chunk, and the continuation on a root that has room fails.)
func c10SkipAtEquality(p *Prog, r *Report, rule string) {
	fi := p.Func(kStoreSet)
	if fi == nil {
		return
	}
	info := fi.Pkg.TypesInfo
	f := p.FlatInl(fi)
	cons := kStoreSet + "#skip-directories-that-are-not-larger"
	// minSize: the place (a variable, or a field of the object that carries the attempt) that receives dir.Free on
	// the retry path
	var dirObj types.Object
	for _, body := range p.deepBodies(fi) {
		for _, rs := range rangeLoops(body) {
			if c, ok := ast.Unparen(rs.X).(*ast.CallExpr); ok && p.callIs(fi.Pkg, c, kDirsIterate) && rs.Key != nil {
				dirObj = objOf(info, rs.Key)
			}
		}
	}
	var mins *placeSet
	if dirObj != nil {
		mins = minPlaces(f, dirObj)
	}
	if mins == nil || len(mins.keys) == 0 {
		r.Undecided(rule, cons, p.pos(fi.Decl), "the variable remembering the free space of the failed attempt was not found")
		return
	}
	stores := setOf(f.CallNodes(kContentStore))
	found := false
	for _, n := range f.Nodes {
		if !n.IsCond || !mins.mentions(n.Ast) {
			continue
		}
		mentionsFree := false
		ast.Inspect(n.Ast, func(x ast.Node) bool {
			if sel, ok := x.(*ast.SelectorExpr); ok && sel.Sel.Name == "Free" {
				mentionsFree = true
			}
			return true
		})
		if !mentionsFree {
			continue
		}
		found = true
		env := &Env{P: p, Pkg: fi.Pkg, Vars: map[types.Object]*Val{}}
		env.Hook = func(env *Env, e ast.Expr) (*Val, bool) {
			if sel, ok := e.(*ast.SelectorExpr); ok && sel.Sel.Name == "Free" {
				return intVal(5), true
			}
			switch e.(type) {
			case *ast.Ident, *ast.SelectorExpr:
				if mins.has(e) {
					return intVal(5), true
				}
			}
			return nil, false
		}
		v, err := env.Eval(n.Ast.(ast.Expr))
		if err != nil || v.C == nil {
			r.Undecided(rule, cons, p.pos(n.Ast), fmt.Sprintf("guard not evaluable: %v", err))
			return
		}
		taken := 2
		if constant.BoolVal(v.C) {
			taken = 1
		}
		// on the edge taken at equality the content store must not be reachable before the next iteration
		tries := false
		for _, e := range n.Succs {
			if e.Label == taken {
				reach := f.Reach([]int{e.To}, func(x *GNode) bool { return x.Block != nil && x.Block.Kind.String() == "RangeLoop" && x.Ast == nil }, nil)
				for id := range reach {
					if stores[id] {
						tries = true
					}
				}
			}
		}
		r.Check(!tries, rule, cons, p.pos(n.Ast), "a directory with exactly the free space of the failed attempt is skipped",
			"a directory that reports exactly the free space of the attempt that just failed is tried again: the other sub-directories of the full root report that very value, the attempt fails on its first chunk, Set closes the partially written file of the previous attempt, and the continuation on a root that does have room fails with 'file already closed'")
	}
	if !found {
		r.Undecided(rule, cons, p.pos(fi.Decl), "no guard comparing a directory's free space with the failed attempt's was found")
	}
}

// c10FreshMeasurements (seeded C10-E, C08-E): answers that steer a decision must be computed from the current
// state, not replayed from a field that caches an earlier computation. Checked for the free space reported by
// repository/dir.Get (must come from disk.Usage in this call) and for transaction.Repo.Oldest (must come from
// the ordered map in this call). A cached value whose validity is decided by a clock is reported as a
// violation (age says nothing about the writes made meanwhile); an event-invalidated cache is undecided.
func c10FreshMeasurements(p *Prog, r *Report, rule, which string) {
	type target struct {
		key, what, consequence string
		source                 func(fi *FuncInfo, c *ast.CallExpr) bool
		value                  func(f *Flat, fi *FuncInfo) []struct {
			node int
			e    ast.Expr
		}
	}
	var t target
	switch which {
	case "free":
		t = target{key: "(*internal/repository/dir.Repo).Get", what: "the free space of a root", consequence: "a root that has just been filled is still listed with its old free space: the write starts there, fails, and every root whose (equally stale) value is not larger is skipped - Set reports ErrNoFreeSpace although another root has room",
			source: func(fi *FuncInfo, c *ast.CallExpr) bool { return p.callIs(fi.Pkg, c, "internal/utils/disk.Usage") }}
		t.value = func(f *Flat, fi *FuncInfo) (res []struct {
			node int
			e    ast.Expr
		}) {
			for _, n := range f.Nodes {
				if as, ok := n.Ast.(*ast.AssignStmt); ok && len(as.Lhs) == len(as.Rhs) {
					for i, l := range as.Lhs {
						if sel, ok := ast.Unparen(l).(*ast.SelectorExpr); ok && sel.Sel.Name == "Free" {
							res = append(res, struct {
								node int
								e    ast.Expr
							}{n.ID, as.Rhs[i]})
						}
					}
				}
			}
			return
		}
	case "oldest":
		t = target{key: kTxRepoOldest, what: "the oldest registered transaction", consequence: "the collector takes its horizon from a remembered transaction instead of the head of the registry: when the remembered one is younger than an open transaction, versions that transaction still reads are removed",
			source: func(fi *FuncInfo, c *ast.CallExpr) bool {
				sel, ok := ast.Unparen(c.Fun).(*ast.SelectorExpr)
				return ok && (sel.Sel.Name == "Iter" || sel.Sel.Name == "Val" || sel.Sel.Name == "Next")
			}}
		t.value = func(f *Flat, fi *FuncInfo) (res []struct {
			node int
			e    ast.Expr
		}) {
			info := fi.Pkg.TypesInfo
			for _, id := range f.ReturnNodes() {
				rs := f.returnStmt(id)
				if rs == nil || len(rs.Results) != 2 {
					continue
				}
				// the success return: the error is nil, or a variable (named results answered through one return)
				_, errIsVar := ast.Unparen(rs.Results[1]).(*ast.Ident)
				if isNilIdent(info, rs.Results[1]) || errIsVar {
					res = append(res, struct {
						node int
						e    ast.Expr
					}{id, rs.Results[0]})
				}
			}
			return
		}
	}
	fi := p.Func(t.key)
	if fi == nil {
		r.Undecided(rule, t.key, "", "not found")
		return
	}
	info := fi.Pkg.TypesInfo
	f := p.FlatInl(fi)
	recv := paramObjs(fi)[-1]
	// does the expression (through reaching definitions of the variables it mentions) come from a field of the receiver?
	var fromField func(node int, e ast.Expr, depth int, seen map[types.Object]bool) (string, bool)
	fromField = func(node int, e ast.Expr, depth int, seen map[types.Object]bool) (string, bool) {
		if depth > 5 {
			return "", false
		}
		field, sourced := "", false
		ast.Inspect(e, func(x ast.Node) bool {
			switch y := x.(type) {
			case *ast.CallExpr:
				if t.source(fi, y) {
					sourced = true
					return false
				}
			case *ast.SelectorExpr:
				if fv, ok := info.Uses[y.Sel].(*types.Var); ok && fv.IsField() && recv != nil && f.CanonObj(objOf(info, y.X)) == recv {
					if !isSyncPrimitive(fv.Type()) && fv.Name() != "storage" && fv.Name() != "roots" && fv.Name() != "dirs" && fv.Name() != "counts" {
						field = fv.Name()
					}
				}
			case *ast.Ident:
				o := objOf(info, y)
				if v, ok := o.(*types.Var); ok && !v.IsField() && !seen[o] && o != recv {
					seen[o] = true
					for _, d := range f.ReachingDefs(node, o) {
						if d.Rhs != nil {
							if fl, _ := fromField(d.Node, d.Rhs, depth+1, seen); fl != "" {
								field = fl
							}
						}
					}
					// element writes m[k] = v count as definitions of m
					for _, gn := range f.Nodes {
						if as, ok := gn.Ast.(*ast.AssignStmt); ok && len(as.Lhs) == len(as.Rhs) {
							for i, l := range as.Lhs {
								if ix, ok := ast.Unparen(l).(*ast.IndexExpr); ok && objOf(info, ix.X) == o {
									if fl, _ := fromField(gn.ID, as.Rhs[i], depth+1, seen); fl != "" {
										field = fl
									}
								}
							}
						}
					}
				}
			}
			return true
		})
		return field, sourced
	}
	vals := t.value(f, fi)
	cons := t.key + "#computed-in-this-call"
	if len(vals) == 0 {
		r.Undecided(rule, cons, p.pos(fi.Decl), "the place where "+t.what+" is produced was not found")
		return
	}
	cached := ""
	for _, v := range vals {
		if fl, _ := fromField(v.node, v.e, 0, map[types.Object]bool{}); fl != "" {
			cached = fl
		}
	}
	if cached == "" {
		r.Hold(rule, cons, p.pos(fi.Decl), t.what+" is computed from the current state on every call")
		return
	}
	// validity decided by a clock?
	byClock := false
	for _, n := range f.Nodes {
		if n.IsCond {
			for _, c := range callsIn(n.Ast, false) {
				if isFunc(info, c, "time", "Since") || isFunc(info, c, "time", "Now") || isFunc(info, c, "time", "Until") {
					byClock = true
				}
				if sel, ok := c.Fun.(*ast.SelectorExpr); ok && (sel.Sel.Name == "After" || sel.Sel.Name == "Before" || sel.Sel.Name == "Sub") {
					if tv, ok := info.Types[sel.X]; ok && strings.HasSuffix(tv.Type.String(), "time.Time") {
						byClock = true
					}
				}
			}
		}
	}
	if byClock {
		r.Viol(rule, cons, p.pos(fi.Decl), t.what+" is replayed from the field "+cached+" while it is young enough: the age of a measurement says nothing about the writes made since; "+t.consequence)
		return
	}
	r.Undecided(rule, cons, p.pos(fi.Decl), t.what+" can be answered from the field "+cached+" instead of the current state: whether every mutation keeps that field current is beyond this rule ("+t.consequence+")")
}

// loopVisitsEvery checks that the loop of fi over the given collection calls a function matching pred in every
// iteration and is never left early: from the start of an iteration every path to the next iteration passes
// the call, and no path leaves the loop body except through the loop head.
func loopVisitsEvery(p *Prog, fi *FuncInfo, isCollection func(e ast.Expr) bool, pred callPred, keep ...string) (found bool, bad string) {
	// (helpers are spliced in: the loop may sit in one; infeasible branches of a shared helper are pruned by
	// nil-facts; calls of the functions in keep stay calls)
	f := p.FlatInlExcept(fi, keep...)
	// (the parameter of a spliced-in helper stands for the collection it was handed)
	plain := isCollection
	isCollection = func(e ast.Expr) bool {
		if plain(e) {
			return true
		}
		if o := objOf(f.Pkg.TypesInfo, e); o != nil && f.Alias != nil {
			if a, ok := f.Alias[o]; ok {
				return plain(a)
			}
		}
		return false
	}
	var loop *ast.RangeStmt
	scopes := []*ast.BlockStmt{fi.Decl.Body}
	seenBody := map[string]bool{}
	for _, ii := range f.Inl {
		if h := p.Func(ii.Callee); h != nil && h.Decl != nil && h.Decl.Body != nil && !seenBody[ii.Callee] {
			seenBody[ii.Callee] = true
			scopes = append(scopes, h.Decl.Body)
		}
	}
	var loopStmt ast.Stmt
	var loopBody *ast.BlockStmt
	for _, sc := range scopes {
		for _, rs := range rangeLoops(sc) {
			if isCollection(rs.X) {
				loop, loopStmt, loopBody = rs, rs, rs.Body
			}
		}
		// an index loop over the whole collection: for i := 0; i < n; i++ { ... coll[i] ... }
		for _, fs := range forLoops(sc) {
			if fs.Cond == nil || fs.Init == nil || fs.Post == nil {
				continue
			}
			init, ok := fs.Init.(*ast.AssignStmt)
			if !ok || len(init.Lhs) != 1 {
				continue
			}
			iv := objOf(f.Pkg.TypesInfo, init.Lhs[0])
			cond, ok := ast.Unparen(fs.Cond).(*ast.BinaryExpr)
			if iv == nil || !ok || cond.Op != token.LSS || objOf(f.Pkg.TypesInfo, cond.X) != iv {
				continue
			}
			indexed := false
			ast.Inspect(fs.Body, func(x ast.Node) bool {
				if ix, ok := x.(*ast.IndexExpr); ok && isCollection(ix.X) && objOf(f.Pkg.TypesInfo, ix.Index) == iv {
					indexed = true
				}
				return true
			})
			if indexed {
				loopStmt, loopBody = fs, fs.Body
			}
		}
	}
	_ = loop
	if loopStmt == nil {
		return false, ""
	}
	head := f.loopHeadStmt(loopStmt)
	if head < 0 {
		return false, ""
	}
	calls := setOf(f.NodesMust(pred))
	inLoop := func(n *GNode) bool {
		if fs, ok := loopStmt.(*ast.ForStmt); ok && n.Ast != nil && fs.Post != nil && n.Ast.Pos() >= fs.Post.Pos() && n.Ast.End() <= fs.Post.End() {
			return true // the post statement belongs to the loop
		}
		return n.Ast != nil && n.Ast.Pos() >= loopBody.Pos() && n.Ast.End() <= loopBody.End()
	}
	var start []int
	for _, e := range f.Nodes[head].Succs {
		if e.Label == 1 {
			start = append(start, e.To)
		}
	}
	reachable := f.ReachNil([]int{f.Entry}, nil)
	reach := f.Reach(start, func(n *GNode) bool { return calls[n.ID] || !reachable[n.ID] }, nil)
	for id := range reach {
		n := f.Nodes[id]
		if id == head {
			bad = "an iteration can end without the call"
		}
		if n.Ast != nil && !inLoop(n) && id != head {
			bad = "the loop can be left at " + p.pos(n.Ast) + " before every element was handled"
		}
	}
	any := false
	for c := range calls {
		if inLoop(f.Nodes[c]) {
			any = true
		}
	}
	if !any {
		bad = "the loop body does not make the call"
	}
	return true, bad
}

// c20DefaultsNotWrittenThrough (seeded C20-E): ParseConfig starts from a copy of the package-level defaults; slices
// and maps in that copy still share their storage with the defaults. No setting may therefore be written in
// place (append(x[:0], ...), x[i] = v, copy(x, ...), in-place helpers of package slices): it must be replaced
// by a fresh value.
func c20DefaultsNotWrittenThrough(p *Prog, r *Report, rule string) {
	pkg := p.Pkg("config")
	if pkg == nil {
		return
	}
	info := pkg.TypesInfo
	isSetting := func(e ast.Expr) (string, bool) {
		for {
			switch x := ast.Unparen(e).(type) {
			case *ast.SliceExpr:
				e = x.X
				continue
			case *ast.IndexExpr:
				e = x.X
				continue
			case *ast.SelectorExpr:
				fv, ok := info.Uses[x.Sel].(*types.Var)
				if !ok || !fv.IsField() {
					return "", false
				}
				switch fv.Type().Underlying().(type) {
				case *types.Slice, *types.Map:
					return fv.Name(), true
				}
				return "", false
			}
			return "", false
		}
	}
	n := 0
	for _, k := range sortedFuncKeys(p) {
		fi := p.Funcs[k]
		if fi.Pkg != pkg || fi.Decl.Body == nil {
			continue
		}
		ast.Inspect(fi.Decl.Body, func(x ast.Node) bool {
			switch st := x.(type) {
			case *ast.AssignStmt:
				for _, l := range st.Lhs {
					if ix, ok := ast.Unparen(l).(*ast.IndexExpr); ok {
						if name, ok := isSetting(ix.X); ok {
							n++
							r.Viol(rule, fmt.Sprintf("%s#writes-through %s", k, name), p.pos(st), "an element of the setting "+name+" is assigned in place: the storage is shared with the package-level defaults (ParseConfig starts from a copy of them), so the default itself changes for every later parse in the process")
						}
					}
				}
			case *ast.CallExpr:
				id, isId := st.Fun.(*ast.Ident)
				if isId {
					if _, isB := info.Uses[id].(*types.Builtin); isB && len(st.Args) >= 1 {
						switch id.Name {
						case "append":
							if se, ok := ast.Unparen(st.Args[0]).(*ast.SliceExpr); ok {
								if name, ok := isSetting(se); ok {
									n++
									r.Viol(rule, fmt.Sprintf("%s#writes-through %s", k, name), p.pos(st), "the setting "+name+" is rebuilt inside its old backing array (append(x[:k], ...)): that array is shared with the package-level defaults (ParseConfig starts from a copy of them), so a later parse without this setting returns the overwritten value instead of the documented default")
								}
							}
						case "copy", "clear":
							if name, ok := isSetting(st.Args[0]); ok {
								n++
								r.Viol(rule, fmt.Sprintf("%s#writes-through %s", k, name), p.pos(st), "the setting "+name+" is overwritten in place ("+id.Name+"): its storage is shared with the package-level defaults")
							}
						}
					}
				}
				for _, fn := range []string{"Sort", "SortFunc", "Reverse", "Delete", "DeleteFunc", "Insert", "Compact", "CompactFunc", "Replace"} {
					if isFunc(info, st, "slices", fn) && len(st.Args) >= 1 {
						if name, ok := isSetting(st.Args[0]); ok {
							n++
							r.Viol(rule, fmt.Sprintf("%s#writes-through %s", k, name), p.pos(st), "slices."+fn+" rewrites the setting "+name+" in place: its storage is shared with the package-level defaults")
						}
					}
				}
			}
			return true
		})
	}
	if n == 0 {
		r.Hold(rule, "config#settings-replaced-not-written-through", "", "no slice or map setting is written in place")
	}
}

// c17UsageOfConfiguredRoots (seeded C17-E): free space is looked up for the configured roots only; a registered
// directory whose root is not configured keeps Free = 0 and is never chosen. Every disk.Usage call of
// repository/dir.Get takes its root from a loop over the configured roots.
func c17UsageOfConfiguredRoots(p *Prog, r *Report, rule string) {
	k := "(*internal/repository/dir.Repo).Get"
	fi := p.Func(k)
	if fi == nil {
		return
	}
	info := fi.Pkg.TypesInfo
	f := p.FlatInl(fi)
	rootVars := map[types.Object]bool{}
	bodies := []ast.Node{fi.Decl.Body}
	for _, n := range f.Nodes {
		if ii, ok := f.Inl[n.ID]; ok {
			if h := p.Func(ii.Callee); h != nil {
				bodies = append(bodies, h.Decl.Body)
			}
		}
	}
	// the configured roots: the registry's field of type []string (whatever it is called); an element of it is
	// the value variable of a range over it, or a variable defined as roots[i], or roots[i] itself
	var isRoots func(e ast.Expr) bool
	isRoots = func(e ast.Expr) bool {
		// a parameter of a spliced-in helper that was handed the roots: freeSpace(ctx, r.roots)
		if id, isId := ast.Unparen(e).(*ast.Ident); isId {
			if o := objOf(info, id); o != nil && f.Alias != nil {
				if a, ok := f.Alias[o]; ok {
					return isRoots(a)
				}
			}
			return false
		}
		sel, ok := ast.Unparen(e).(*ast.SelectorExpr)
		if !ok {
			return false
		}
		fv, ok := info.Uses[sel.Sel].(*types.Var)
		if !ok || !fv.IsField() {
			return false
		}
		sl, ok := fv.Type().Underlying().(*types.Slice)
		return ok && types.Identical(sl.Elem(), types.Typ[types.String])
	}
	isRootElemExpr := func(e ast.Expr) bool {
		ix, ok := ast.Unparen(e).(*ast.IndexExpr)
		return ok && isRoots(ix.X)
	}
	for _, b := range bodies {
		for _, rs := range rangeLoops(b) {
			if isRoots(rs.X) && rs.Value != nil {
				if o := objOf(info, rs.Value); o != nil {
					rootVars[o] = true
				}
			}
		}
		ast.Inspect(b, func(x ast.Node) bool {
			if as, ok := x.(*ast.AssignStmt); ok && len(as.Lhs) == len(as.Rhs) {
				for i, l := range as.Lhs {
					if o := objOf(info, l); o != nil && isRootElemExpr(as.Rhs[i]) && singleDef(info, b, o) != nil {
						rootVars[o] = true
					}
				}
			}
			return true
		})
	}
	n, bad := 0, ""
	for _, gn := range f.Nodes {
		if gn.Ast == nil {
			continue
		}
		for _, c := range callsIn(gn.Ast, false) {
			if !p.callIs(fi.Pkg, c, "internal/utils/disk.Usage") || len(c.Args) < 2 {
				continue
			}
			n++
			if isRootElemExpr(c.Args[1]) {
				continue
			}
			if o := f.CanonObj(objOf(info, c.Args[1])); o == nil || !rootVars[o] {
				bad = p.pos(c) + ": disk.Usage(" + types.ExprString(c.Args[1]) + ")"
			}
		}
	}
	if n == 0 {
		r.Undecided(rule, k+"#usage-of-configured-roots", p.pos(fi.Decl), "no disk.Usage call found")
		return
	}
	r.Check(bad == "", rule, k+"#usage-of-configured-roots", p.pos(fi.Decl), "free space is measured for the configured roots only",
		bad+" measures a root taken from a registered directory instead of the configured roots: a directory under a root that is no longer configured (re-registered by the cleaner from its stored path) reports real free space and new content is created outside the configured roots")
}

// c17AddConsultsRegistry (seeded C17-F): dir.Add answers "already active" only from the registry itself: every
// successful return is preceded by a look-up of the directory map (a memo of the last path goes stale when the
// directory is rotated out).
func c17AddConsultsRegistry(p *Prog, r *Report, rule string) {
	k := "(*internal/repository/dir.Repo).Add"
	fi := p.Func(k)
	if fi == nil {
		return
	}
	info := fi.Pkg.TypesInfo
	f := p.FlatInl(fi)
	lookups := setOf(f.Match(func(n *GNode) bool {
		found := false
		ast.Inspect(n.Ast, func(x ast.Node) bool {
			if ix, ok := x.(*ast.IndexExpr); ok {
				if sel, ok := ast.Unparen(ix.X).(*ast.SelectorExpr); ok {
					if fv, ok := info.Uses[sel.Sel].(*types.Var); ok && fv.IsField() {
						if _, isMap := fv.Type().Underlying().(*types.Map); isMap && fv.Name() == "dirs" {
							found = true
						}
					}
				}
			}
			return !found
		})
		return found
	}))
	bad := ""
	for _, id := range f.successReturns(fi) {
		if !f.MustPrecede(lookups, id) {
			bad = p.pos(f.Nodes[id].Ast)
		}
	}
	r.Check(bad == "" && len(lookups) > 0, rule, k+"#answers-from-the-registry", p.pos(fi.Decl), "every successful return consulted the directory map",
		"Add can report success at "+bad+" without looking the directory up in the registry: a directory that was rotated out and has regained room through deletions is taken for active and never used again")
}

// c16SendKeepsAcceptedJobs (seeded C16-F): once Send has registered, the job is handed over or deferred: the only
// case of its select that gives the job up is the pool's own context (Stop). Waiting on any other Done channel
// (the caller's context) drops an accepted job.
func c16SendKeepsAcceptedJobs(p *Prog, r *Report, rule string) {
	fi := p.Func(kPoolSend)
	if fi == nil {
		return
	}
	info := fi.Pkg.TypesInfo
	bodies := []*FuncInfo{fi}
	walkNoLit(fi.Decl.Body, func(x ast.Node) bool {
		if c, ok := x.(*ast.CallExpr); ok {
			if callee := p.staticCallee(fi.Pkg, c); callee != nil && callee.Pkg == fi.Pkg {
				bodies = append(bodies, callee)
			}
		}
		return true
	})
	n, bad := 0, ""
	for _, b := range bodies {
		ast.Inspect(b.Decl.Body, func(x ast.Node) bool {
			cc, ok := x.(*ast.CommClause)
			if !ok || cc.Comm == nil {
				return true
			}
			var recv ast.Expr
			switch s := cc.Comm.(type) {
			case *ast.ExprStmt:
				if u, ok := ast.Unparen(s.X).(*ast.UnaryExpr); ok && u.Op == token.ARROW {
					recv = u.X
				}
			case *ast.AssignStmt:
				if len(s.Rhs) == 1 {
					if u, ok := ast.Unparen(s.Rhs[0]).(*ast.UnaryExpr); ok && u.Op == token.ARROW {
						recv = u.X
					}
				}
			}
			c, ok := ast.Unparen(recv).(*ast.CallExpr)
			if !ok {
				return true
			}
			sel, ok := ast.Unparen(c.Fun).(*ast.SelectorExpr)
			if !ok || sel.Sel.Name != "Done" {
				return true
			}
			n++
			// the pool's own context: a field of the receiver
			isField := false
			if inner, ok := ast.Unparen(sel.X).(*ast.SelectorExpr); ok {
				if fv, ok := info.Uses[inner.Sel].(*types.Var); ok && fv.IsField() {
					isField = true
				}
			}
			if !isField {
				bad = p.pos(cc) + " (" + types.ExprString(recv) + ")"
			}
			return true
		})
	}
	r.Check(bad == "" && n > 0, rule, kPoolSend+"#only-the-pool-gives-a-job-up", p.pos(fi.Decl), "the only Done channel Send waits on is the pool's own",
		"Send gives the job up when a context other than the pool's ends at "+bad+": a job the pool has accepted is silently dropped (the contents of a rolled-back transaction stay on disk when the request context is cancelled)")
}

// c11ClientAlwaysAsks (seeded C11-E): the external transaction handle has no opinion of its own: every return of
// Commit and Rollback is preceded by the RPC (the inline client always asks the usecase, whose Rollback
// tolerates an unknown transaction).
func c11ClientAlwaysAsks(p *Prog, r *Report, rule string) {
	for _, m := range []struct{ name, rpc string }{{"Commit", "CommitTx"}, {"Rollback", "RollbackTx"}} {
		k := "(*" + pkgExtDB + ".tx)." + m.name
		fi := p.Func(k)
		if fi == nil {
			r.Undecided(rule, k, "", "not found")
			continue
		}
		f := p.FlatInl(fi)
		rpc := callPred{name: "rpc:" + m.rpc, fn: func(pkg *packages.Package, c *ast.CallExpr) bool {
			sel, ok := ast.Unparen(c.Fun).(*ast.SelectorExpr)
			return ok && sel.Sel.Name == m.rpc && p.staticCallee(pkg, c) == nil
		}}
		calls := setOf(f.NodesMust(rpc))
		bad := ""
		for _, id := range f.ReturnNodes() {
			if !f.MustPrecede(calls, id) {
				bad = p.pos(f.Nodes[id].Ast)
			}
		}
		r.Check(bad == "" && len(calls) > 0, rule, k+"#always-asks-the-server", p.pos(fi.Decl), "every return is preceded by "+m.rpc,
			m.name+" can return at "+bad+" without having asked the server: the client answers from its own state, and its answer differs from the inline client's (a second Rollback is nil inline)")
	}
}

// c11HandlersOriginateNoSentinels (seeded C11-F): the gRPC handlers pass on what the usecases decide. The only
// sentinel a handler produces itself is the protocol error ErrHeaderNotFound; any other fs_db sentinel used in
// the delivery package is a decision the inline client does not make.
func c11HandlersOriginateNoSentinels(p *Prog, r *Report, rule string) {
	allowed := map[string]bool{"fs_db.ErrHeaderNotFound": true}
	n := 0
	for _, k := range sortedFuncKeys(p) {
		fi := p.Funcs[k]
		if shortPath(fi.Pkg.PkgPath) != pkgDelivery || fi.Decl.Body == nil {
			continue
		}
		info := fi.Pkg.TypesInfo
		ast.Inspect(fi.Decl.Body, func(x ast.Node) bool {
			sel, ok := x.(*ast.SelectorExpr)
			if !ok {
				return true
			}
			v, ok := info.Uses[sel.Sel].(*types.Var)
			if !ok || v.Pkg() == nil || !isErrorType(v.Type()) || v.Parent() != v.Pkg().Scope() {
				return true
			}
			key := objKey(v)
			if !strings.HasPrefix(key, "fs_db.") {
				return true
			}
			n++
			r.Check(allowed[key], rule, fmt.Sprintf("%s#originates %s", k, key), p.pos(sel), "protocol error of the stream",
				"the handler layer produces "+key+" itself: the server answers from its own judgement where the inline client asks the usecase (the usecases accept an empty key for Get and Delete)")
			return true
		})
	}
	r.Floor(rule, "sentinels-in-the-delivery-layer", n, 1)
}

// c19RejectsOnlyShortRecords (seeded C19-E): the decoder accepts everything the encoder can produce: the only
// reason for unmarshalFile to fail is a record shorter than the fixed header (or a nil target). Every error
// return is guarded by conditions over len(data) and the target pointer only.
func c19RejectsOnlyShortRecords(p *Prog, r *Report, rule string) {
	fi := p.Func(kUnmarshal)
	if fi == nil {
		return
	}
	info := fi.Pkg.TypesInfo
	f := p.FlatOf(fi)
	var dataObj types.Object
	for _, o := range paramObjs(fi) {
		if o != nil {
			if sl, ok := o.Type().Underlying().(*types.Slice); ok && types.Identical(sl.Elem(), types.Typ[types.Byte]) {
				dataObj = o
			}
		}
	}
	sig := fi.Sig()
	n, bad := 0, ""
	for _, id := range f.ReturnNodes() {
		if isRet, nilErr := f.returnsNilError(id, sig); !isRet || nilErr {
			continue
		}
		n++
		// conditions on which this return depends: branch nodes from which the return is reachable on one edge only
		for _, c := range f.Nodes {
			if !c.IsCond {
				continue
			}
			reachT := f.Reach(f.edgeTargets(c.ID, 1), nil, nil)[id]
			reachF := f.Reach(f.edgeTargets(c.ID, 2), nil, nil)[id]
			if reachT == reachF {
				continue
			}
			okCond := true
			ast.Inspect(c.Ast, func(x ast.Node) bool {
				switch y := x.(type) {
				case *ast.CallExpr:
					if id2, ok := y.Fun.(*ast.Ident); ok && id2.Name == "len" && len(y.Args) == 1 && objOf(info, y.Args[0]) == dataObj {
						return false
					}
					okCond = false
				case *ast.SliceExpr, *ast.IndexExpr:
					okCond = false
				}
				return true
			})
			if !okCond {
				bad = p.pos(c.Ast) + ": " + types.ExprString(c.Ast.(ast.Expr))
			}
		}
	}
	r.Check(bad == "" && n > 0, rule, kUnmarshal+"#rejects-only-short-records", p.pos(fi.Decl), "the decoder fails only for records shorter than the fixed header",
		"the decoder rejects a record for a reason other than its length ("+bad+"): the encoder accepts such a record, so a value that was stored cannot be read back and the database no longer opens")
}

func (f *Flat) edgeTargets(id, label int) []int {
	var res []int
	for _, e := range f.Nodes[id].Succs {
		if e.Label == label {
			res = append(res, e.To)
		}
	}
	return res
}

// c19GetAllDecodesEverything (seeded C19-F): file.Repo.GetAll decodes every record it was given; nothing is skipped.
func c19GetAllDecodesEverything(p *Prog, r *Report, rule string) {
	k := "(*internal/repository/file.Repo).GetAll"
	fi := p.Func(k)
	if fi == nil {
		return
	}
	info := fi.Pkg.TypesInfo
	// the collection: the result of the provider's GetAll
	var items types.Object
	ast.Inspect(fi.Decl.Body, func(x ast.Node) bool {
		if as, ok := x.(*ast.AssignStmt); ok && len(as.Lhs) == 2 && len(as.Rhs) == 1 {
			if c, ok := ast.Unparen(as.Rhs[0]).(*ast.CallExpr); ok {
				if sel, ok := c.Fun.(*ast.SelectorExpr); ok && sel.Sel.Name == "GetAll" {
					items = objOf(info, as.Lhs[0])
				}
			}
		}
		return true
	})
	found, bad := loopVisitsEvery(p, fi, func(e ast.Expr) bool { return items != nil && objOf(info, e) == items }, p.keysPred(kUnmarshal), kUnmarshal)
	if !found {
		r.Undecided(rule, k+"#every-record-decoded", p.pos(fi.Decl), "no range loop over the records read")
		return
	}
	r.Check(bad == "", rule, k+"#every-record-decoded", p.pos(fi.Decl), "every record read is decoded (or the whole call fails)",
		bad+": a record is skipped instead of decoded or rejected; its slot in the result is an invented zero record (empty key, zero sequence) that recovery takes for a version, and a damaged database opens instead of being refused")
}

// c18MirrorWritersCopy (seeded C18-F): a method that replaces the search array must carry the elements over: a
// copy into a slice made with length 0 moves nothing.
func c18MirrorWritersCopy(p *Prog, r *Report, rule string) {
	n := 0
	for _, k := range sortedFuncKeys(p) {
		fi := p.Funcs[k]
		if shortPath(fi.Pkg.PkgPath) != "internal/model/core" || fi.Decl.Body == nil {
			continue
		}
		info := fi.Pkg.TypesInfo
		// locals made with length 0
		zeroLen := map[types.Object]bool{}
		ast.Inspect(fi.Decl.Body, func(x ast.Node) bool {
			if as, ok := x.(*ast.AssignStmt); ok && len(as.Lhs) == len(as.Rhs) {
				for i, rhs := range as.Rhs {
					if c, ok := ast.Unparen(rhs).(*ast.CallExpr); ok {
						if id, ok := c.Fun.(*ast.Ident); ok && id.Name == "make" && len(c.Args) >= 2 {
							if v, ok := constInt(info, c.Args[1]); ok && v == 0 {
								if o := objOf(info, as.Lhs[i]); o != nil {
									zeroLen[o] = true
								}
							}
						}
					}
				}
			}
			return true
		})
		ast.Inspect(fi.Decl.Body, func(x ast.Node) bool {
			c, ok := x.(*ast.CallExpr)
			if !ok || len(c.Args) != 2 {
				return true
			}
			if id, ok := c.Fun.(*ast.Ident); ok && id.Name == "copy" {
				if _, isB := info.Uses[id].(*types.Builtin); isB {
					n++
					if o := objOf(info, c.Args[0]); o != nil && zeroLen[o] {
						// unless the destination was grown in between: keep it simple - any append/reslice of the destination before the copy
						grown := false
						ast.Inspect(fi.Decl.Body, func(y ast.Node) bool {
							if as, ok := y.(*ast.AssignStmt); ok && as.Pos() < c.Pos() {
								for i, l := range as.Lhs {
									if objOf(info, l) == o && i < len(as.Rhs) {
										if _, isMake := ast.Unparen(as.Rhs[i]).(*ast.CallExpr); !isMake || !strings.HasPrefix(types.ExprString(as.Rhs[i]), "make(") {
											grown = true
										}
									}
								}
							}
							return true
						})
						r.Check(grown, rule, fmt.Sprintf("%s#copy-into-%s", k, o.Name()), p.pos(c), "the destination has room for the elements",
							"copy("+o.Name()+", ...) copies into a slice made with length 0: nothing is carried over, so the search array no longer mirrors the version list and snapshot lookups report 'not found' for keys that have visible versions")
					}
				}
			}
			return true
		})
	}
	if n == 0 {
		r.Hold(rule, "model/core#copies-carry-elements", "", "no copy into a zero-length slice")
	}
}

// c06ReadersDoNotWrite (seeded C15-E): the guarded-by table of the version stores classifies File / Files / Len /
// Latest / LastBefore / IterateBeforeSeq as reads, which callers perform under the store's read lock. The
// classification is checked against the code: none of these methods (nor a same-package helper it calls)
// assigns a field of its receiver, deletes from or clears one of its maps, or appends to one of its slices.
func c06ReadersDoNotWrite(p *Prog, r *Report, rule string) {
	n := 0
	for _, op := range guardedOps() {
		if op.Mode != "R" {
			continue
		}
		for _, k := range op.Keys {
			fi := p.Func(k)
			if fi == nil {
				continue
			}
			n++
			bad := ""
			for _, ev := range p.DeepLockEvents(fi, nil, 3) {
				if ev.Kind != "fieldwrite" || ev.Field == nil || ev.Ctx == "go" {
					continue
				}
				// a field of the type (or of a type of the same package) - locals of struct type excluded by IsField
				if ev.Field.Pkg() != nil && ev.Field.Pkg().Path() == fi.Pkg.PkgPath {
					where := ""
					if ev.Node != nil {
						where = p.pos(ev.Node)
					}
					bad = where + " writes the field " + ev.Field.Name()
				}
			}
			r.Check(bad == "", rule, k+"#read-operation-does-not-write", p.pos(fi.Decl), "no field of the store is written",
				k+" is used as a read (callers hold the store's read lock only) but "+bad+": two concurrent readers write shared state - a data race on first use")
		}
	}
	r.Floor(rule, "read-operations-of-the-version-stores", n, 5)
}

// c14CollectorVisitsEveryKey (seeded C14-E): a collector pass examines every key of the store: in core.DeleteOld
// every iteration of the loop over the store's keys walks the key's versions before the horizon
// (IterateBeforeSeq); no key is skipped on the strength of what an earlier pass - with another horizon - did.
func c14CollectorVisitsEveryKey(p *Prog, r *Report, rule string) {
	fi := p.Func(kCoreDeleteOld)
	if fi == nil {
		return
	}
	info := fi.Pkg.TypesInfo
	found, bad := loopVisitsEvery(p, fi, func(e ast.Expr) bool {
		c, ok := ast.Unparen(e).(*ast.CallExpr)
		return ok && p.callIs(fi.Pkg, c, kTxFiles)
	}, callPred{name: "walks-versions", fn: func(pkg *packages.Package, c *ast.CallExpr) bool {
		return p.callIs(pkg, c, kIterBefore)
	}})
	_ = info
	cons := kCoreDeleteOld + "#every-key-examined"
	if !found {
		r.Undecided(rule, cons, p.pos(fi.Decl), "no range loop over the store's keys")
		return
	}
	r.Check(bad == "", rule, cons, p.pos(fi.Decl), "every key is examined in every pass",
		bad+": a key can be skipped by a collector pass; versions that an earlier pass had to keep (an open transaction pinned them) are never looked at again once that transaction has ended, and their contents stay on disk until the key is written again")
}

// localRoot: is the root of the selector chain a variable declared inside the function body (a local state
// struct), as opposed to the receiver, a parameter or a package variable?
func localRoot(f *Flat, fi *FuncInfo, e ast.Expr) bool {
	root := f.CanonRoot(e)
	return root != nil && fi.body() != nil && root.Pos() >= fi.body().Pos() && root.Pos() < fi.body().End()
}

// publishedSlicePath: the slice ranged by the publication loop of UpdateTx (the loop calling storeToTx), as a
// storage path in UpdateTx's terms; the loop may sit in a helper spliced into the graph.
func publishedSlicePath(p *Prog, fi *FuncInfo, outer *Flat) string {
	bodies := []*ast.BlockStmt{fi.Decl.Body}
	seenBody := map[string]bool{}
	for _, ii := range outer.Inl {
		if h := p.Func(ii.Callee); h != nil && h.Decl != nil && h.Decl.Body != nil && !seenBody[ii.Callee] {
			seenBody[ii.Callee] = true
			bodies = append(bodies, h.Decl.Body)
		}
	}
	pubSlice := ""
	for _, body := range bodies {
		for _, rs := range rangeLoops(body) {
			ast.Inspect(rs.Body, func(x ast.Node) bool {
				if c, ok := x.(*ast.CallExpr); ok && p.callIs(fi.Pkg, c, kStoreToTx) {
					pubSlice = outer.CanonPath(rs.X)
				}
				return true
			})
		}
		// the whole slice handed over at once: storeToTx(dst, files...)
		ast.Inspect(body, func(x ast.Node) bool {
			if c, ok := x.(*ast.CallExpr); ok && p.callIs(fi.Pkg, c, kStoreToTx) && c.Ellipsis != token.NoPos && len(c.Args) > 0 {
				pubSlice = outer.CanonPath(c.Args[len(c.Args)-1])
			}
			return true
		})
	}
	return pubSlice
}

// bodyWritesState: the function (or a function of its package it calls, two levels) updates a container or a field:
// a call of Store / Delete / Swap / CompareAndSwap / Clear, the builtins delete / clear, or an assignment to a field
// or an element.
func bodyWritesState(p *Prog, h *FuncInfo) bool {
	w := false
	for _, body := range p.deepBodies(h) {
		ast.Inspect(body, func(y ast.Node) bool {
			switch z := y.(type) {
			case *ast.CallExpr:
				if zs, ok := z.Fun.(*ast.SelectorExpr); ok && map[string]bool{"Store": true, "Delete": true, "Swap": true, "CompareAndSwap": true, "Clear": true}[zs.Sel.Name] {
					w = true
				}
				if id, ok := z.Fun.(*ast.Ident); ok && (id.Name == "delete" || id.Name == "clear") {
					w = true
				}
			case *ast.AssignStmt:
				for _, l := range z.Lhs {
					switch ast.Unparen(l).(type) {
					case *ast.SelectorExpr, *ast.IndexExpr:
						w = true
					}
				}
			}
			return !w
		})
	}
	return w
}

// isStoreClientIface: the generated gRPC client interface, or a narrower interface of the module that it satisfies
// (type txRPC interface { CommitTx(...); RollbackTx(...) }): a call through it is a call of the client.
func (p *Prog) isStoreClientIface(t types.Type) bool {
	if strings.HasSuffix(t.String(), "StoreV1Client") {
		return true
	}
	it, ok := t.Underlying().(*types.Interface)
	if !ok || it.NumMethods() == 0 {
		return false
	}
	pkg := p.Pkg("internal/proto")
	if pkg == nil {
		return false
	}
	o := pkg.Types.Scope().Lookup("StoreV1Client")
	if o == nil {
		return false
	}
	return types.Implements(o.Type(), it)
}
