package main

// C12 A created file stores the concatenation of its writes; Close always returns.

import (
	"fmt"
	"go/ast"
	"go/token"
	"go/types"
	"golang.org/x/tools/go/packages"
	"sort"
	"strings"
)

func init() { register("C12", propC12) }

const (
	pkgAsync      = "internal/utils/async"
	kInlineCreate = "(*pkg/inline/db.db).Create"
)

// condVars finds sync.NewCond(&x.m) assignments: cond field -> mutex class / path suffix.
type condInfoT struct {
	condField *types.Var
	lockClass string
	lockField string
	pos       string
}

func findConds(p *Prog) []condInfoT {
	var res []condInfoT
	for _, fi := range p.Funcs {
		if fi.Decl.Body == nil {
			continue
		}
		info := fi.Pkg.TypesInfo
		ast.Inspect(fi.Decl.Body, func(x ast.Node) bool {
			// the condition variable built in the constructor's literal over a mutex of its own:
			// &readWriter{cv: sync.NewCond(new(sync.Mutex))} - its locker cv.L is then the lock
			if kv, isKV := x.(*ast.KeyValueExpr); isKV {
				if c, ok := ast.Unparen(kv.Value).(*ast.CallExpr); ok && isFunc(info, c, "sync", "NewCond") && len(c.Args) == 1 {
					if kid, ok := kv.Key.(*ast.Ident); ok {
						if cfv, ok := info.Uses[kid].(*types.Var); ok && cfv.IsField() {
							if _, isSel := ast.Unparen(c.Args[0]).(*ast.UnaryExpr); !isSel {
								owner := ""
								for _, tn := range p.named {
									if st, ok := tn.Type().Underlying().(*types.Struct); ok {
										for i := 0; i < st.NumFields(); i++ {
											if st.Field(i) == cfv {
												owner = canonTypeName(stripTypeArgs(shorten(tn.Type().String())))
											}
										}
									}
								}
								res = append(res, condInfoT{condField: cfv, lockClass: owner + "." + cfv.Name() + ".L", lockField: cfv.Name() + ".L", pos: p.pos(kv)})
							}
						}
					}
				}
				return true
			}
			as, ok := x.(*ast.AssignStmt)
			if !ok || len(as.Lhs) != 1 || len(as.Rhs) != 1 {
				return true
			}
			// a condition variable kept by value: x.cond.L = &x.mu
			if lsel, isSel := ast.Unparen(as.Lhs[0]).(*ast.SelectorExpr); isSel && lsel.Sel.Name == "L" {
				if csel, isC := ast.Unparen(lsel.X).(*ast.SelectorExpr); isC {
					if cfv, ok := info.Uses[csel.Sel].(*types.Var); ok && cfv.IsField() && strings.HasSuffix(cfv.Type().String(), "sync.Cond") {
						arg := ast.Unparen(as.Rhs[0])
						if u, ok := arg.(*ast.UnaryExpr); ok && u.Op == token.AND {
							arg = ast.Unparen(u.X)
						}
						lf := ""
						if ls, ok := arg.(*ast.SelectorExpr); ok {
							lf = ls.Sel.Name
							if tv, ok := info.Types[ls.X]; ok {
								lf = canonFieldName(tv.Type, lf)
							}
						}
						res = append(res, condInfoT{condField: cfv, lockClass: mutexClass(info, arg), lockField: lf, pos: p.pos(as)})
						return true
					}
				}
			}
			c, ok := ast.Unparen(as.Rhs[0]).(*ast.CallExpr)
			if !ok || !isFunc(info, c, "sync", "NewCond") || len(c.Args) != 1 {
				return true
			}
			sel, ok := as.Lhs[0].(*ast.SelectorExpr)
			if !ok {
				return true
			}
			fv, ok := info.Uses[sel.Sel].(*types.Var)
			if !ok {
				return true
			}
			arg := ast.Unparen(c.Args[0])
			if u, ok := arg.(*ast.UnaryExpr); ok && u.Op == token.AND {
				arg = ast.Unparen(u.X)
			}
			lf := ""
			if ls, ok := arg.(*ast.SelectorExpr); ok {
				lf = ls.Sel.Name
				if tv, ok := info.Types[ls.X]; ok {
					lf = canonFieldName(tv.Type, lf) // lock paths are written with the pinned field names
				}
			}
			res = append(res, condInfoT{condField: fv, lockClass: mutexClass(info, arg), lockField: lf, pos: p.pos(as)})
			return true
		})
	}
	return res
}

var growingMethods = map[string]bool{"Write": true, "WriteString": true, "WriteByte": true, "WriteRune": true, "ReadFrom": true,
	"Store": true, "Swap": true, "CompareAndSwap": true, "Add": true}
var mutatingMethods = map[string]bool{"Write": true, "WriteString": true, "WriteByte": true, "WriteRune": true, "ReadFrom": true,
	"Read": true, "ReadByte": true, "ReadRune": true, "ReadBytes": true, "ReadString": true, "Next": true, "Reset": true, "Truncate": true, "Grow": true, "WriteTo": true,
	"Store": true, "Swap": true, "CompareAndSwap": true, "Add": true}

func propC12(p *Prog, r *Report) {
	r.Rule("C12.a", "wait in a loop: every (*sync.Cond).Wait lies on a CFG cycle that re-evaluates a condition (a Wait under a plain if is reported: a wake-up that does not establish the predicate lets the reader continue)")
	r.Rule("C12.b", "predicate written under the condition's lock: L is resolved from sync.NewCond(&x.m); every mutation of a field read in a wait predicate holds L, and every mutation that can make the predicate true is followed by Signal/Broadcast on every path (a deferred notification registered before it counts)")
	r.Rule("C12.c", "wait-group discipline: in inline Create Add(1) precedes the go statement, the spawned function registers Done before anything else can return, and Close waits before it reads the stored error")
	r.Rule("C12.d", "the error reaches the writer: in inline Create the error of the store usecase's Set is delivered to SetError with its class; Write consults the stored error (error-gated) before buffering; Close returns the stored error")
	r.Rule("C12.e", "the external client's File sanitises transport errors (= C11.d)")
	r.NotDecided = []string{"that Get returns the concatenation of the writes (FIFO behaviour of bytes.Buffer is trusted)", "schedules"}
	r.Assume = []string{"sync.Cond, sync.WaitGroup and bytes.Buffer as documented"}

	conds := findConds(p)
	r.Floor("C12.b", "condition-variables", len(conds), 1)
	c12Waits(p, r, conds)
	c12WaitGroup(p, r)
	c12SetErrorFlow(p, r, "C12.d")
	c12WriterError(p, r)
	r.Rule("C12.f", "end of stream only when drained: the pipe's Read produces io.EOF only on paths where its buffer is empty (guards evaluated with a non-empty buffer, closed and not closed)")
	c12EOFOnlyWhenDrained(p, r, "C12.f")
}

func c12Waits(p *Prog, r *Report, conds []condInfoT) {
	nWait := 0
	for _, ci := range conds {
		// owner type's methods
		var methods []*FuncInfo
		for _, fi := range p.Funcs {
			if fi.Decl.Recv == nil || fi.Decl.Body == nil {
				continue
			}
			rt := fi.Sig().Recv().Type()
			if pt, ok := rt.(*types.Pointer); ok {
				rt = pt.Elem()
			}
			if st, ok := rt.Underlying().(*types.Struct); ok {
				for i := 0; i < st.NumFields(); i++ {
					if st.Field(i) == ci.condField {
						methods = append(methods, fi)
					}
				}
			}
		}
		sort.Slice(methods, func(i, j int) bool { return methods[i].Key < methods[j].Key })
		predFields := map[*types.Var]bool{}
		shrinkWaited := map[*types.Var]bool{} // fields some waiter waits on to shrink (every mutation must notify)
		// C12.a and predicate discovery
		for _, fi := range methods {
			info := fi.Pkg.TypesInfo
			f := p.FlatInl(fi)
			for _, n := range f.Nodes {
				if n.Ast == nil {
					continue
				}
				if _, spliced := f.Inl[n.ID]; spliced {
					continue // a Wait inside a helper is counted in the helper's own method
				}
				for _, c := range callsIn(n.Ast, false) {
					sel, ok := c.Fun.(*ast.SelectorExpr)
					if !ok || sel.Sel.Name != "Wait" {
						continue
					}
					if fn, ok := info.Uses[sel.Sel].(*types.Func); !ok || fkey(fn) != "(*sync.Cond).Wait" {
						continue
					}
					nWait++
					cons := fi.Key + "#" + exprPath(sel.X) + ".Wait"
					// on a cycle through a condition node?
					seen := f.Reach(f.succsOf(n.ID), nil, nil)
					inLoop := seen[n.ID]
					condOnCycle := false
					if inLoop {
						for id := range seen {
							if back := f.Reach(f.succsOf(id), nil, nil); back[n.ID] && f.Nodes[id].Ast != nil {
								// every field read on the wait cycle can be part of the predicate (it may be read through a
								// helper and tested through a local: err = rw.checkErr(); if err != nil ...)
								ast.Inspect(f.Nodes[id].Ast, func(x ast.Node) bool {
									if _, isLit := x.(*ast.FuncLit); isLit {
										return false
									}
									if s, ok := x.(*ast.SelectorExpr); ok {
										if fv, ok := info.Uses[s.Sel].(*types.Var); ok && fv.IsField() && fv != ci.condField && !isSyncPrimitive(fv.Type()) {
											if rt := fi.Sig().Recv().Type(); fieldOfType(rt, fv) {
												predFields[fv] = true
											}
										}
									}
									return true
								})
								// a test of <field>.Len() against a non-zero bound waits for the buffer to shrink
								if f.Nodes[id].IsCond {
									ast.Inspect(f.Nodes[id].Ast, func(x ast.Node) bool {
										be, ok := x.(*ast.BinaryExpr)
										if !ok {
											return true
										}
										for _, pair := range [][2]ast.Expr{{be.X, be.Y}, {be.Y, be.X}} {
											lc, ok := ast.Unparen(pair[0]).(*ast.CallExpr)
											if !ok {
												continue
											}
											ls, ok := lc.Fun.(*ast.SelectorExpr)
											if !ok || ls.Sel.Name != "Len" {
												continue
											}
											inner, ok := ast.Unparen(ls.X).(*ast.SelectorExpr)
											if !ok {
												continue
											}
											fv, ok := info.Uses[inner.Sel].(*types.Var)
											if !ok {
												continue
											}
											if v, isC := constInt(info, pair[1]); !isC || v != 0 {
												shrinkWaited[fv] = true
											}
										}
										return true
									})
								}
							}
							if f.Nodes[id].IsCond {
								back := f.Reach(f.succsOf(id), nil, nil)
								if back[n.ID] {
									condOnCycle = true
									// fields read in that condition are predicate fields
									ast.Inspect(f.Nodes[id].Ast, func(x ast.Node) bool {
										if s, ok := x.(*ast.SelectorExpr); ok {
											if fv, ok := info.Uses[s.Sel].(*types.Var); ok && fv.IsField() && fv != ci.condField {
												predFields[fv] = true
											}
										}
										return true
									})
								}
							}
						}
					}
					if !inLoop {
						// predicate of the guarding if, for the field table
						for _, id := range n.Preds {
							_ = id
						}
						ast.Inspect(fi.Decl.Body, func(x ast.Node) bool {
							if ifs, ok := x.(*ast.IfStmt); ok && c.Pos() >= ifs.Body.Pos() && c.End() <= ifs.Body.End() {
								ast.Inspect(ifs.Cond, func(y ast.Node) bool {
									if s, ok := y.(*ast.SelectorExpr); ok {
										if fv, ok := info.Uses[s.Sel].(*types.Var); ok && fv.IsField() && fv != ci.condField {
											predFields[fv] = true
										}
									}
									return true
								})
							}
							return true
						})
					}
					r.Check(inLoop && condOnCycle, "C12.a", cons, p.pos(c), "Wait re-evaluates its predicate in a loop",
						"Cond.Wait is not in a loop that re-tests the predicate: a Signal that does not establish the predicate (e.g. after an empty Write) lets the reader go on with an empty buffer and end the stream early")
				}
			}
		}
		// C12.b
		var pf []string
		for fv := range predFields {
			pf = append(pf, fv.Name())
		}
		sort.Strings(pf)
		r.Tables["wait_predicate_fields"] = pf
		if len(predFields) == 0 {
			continue
		}
		for _, fi := range methods {
			info := fi.Pkg.TypesInfo
			lr := p.LockFlow(fi, nil)
			// plain assignments to a predicate field (x.err = e)
			for _, n := range p.FlatOf(fi).Nodes {
				as, ok := n.Ast.(*ast.AssignStmt)
				if !ok {
					continue
				}
				for _, l := range as.Lhs {
					ls, ok := ast.Unparen(l).(*ast.SelectorExpr)
					if !ok {
						continue
					}
					fv, ok := info.Uses[ls.Sel].(*types.Var)
					if !ok || !predFields[fv] {
						continue
					}
					rn := ""
					if len(fi.Decl.Recv.List[0].Names) == 1 {
						rn = fi.Decl.Recv.List[0].Names[0].Name
					}
					lp := rn + "." + ci.lockField
					var hs []Held
					found := false
					for _, ev := range lr.Events {
						if ev.Kind == "fieldwrite" && ev.Field == fv && ev.Node != nil && as.Pos() <= ev.Node.Pos() && ev.Node.End() <= as.End() {
							hs, found = ev.Held, true
						}
					}
					cons := fmt.Sprintf("%s#%s=", fi.Key, fv.Name())
					r.Check(found && holdsMode(hs, lp, "W"), "C12.b", cons+"/under-lock", p.pos(as), "assignment of wait-predicate field "+fv.Name()+" under "+lp,
						fmt.Sprintf("wait-predicate field %s is assigned without %s (held %s): the change can fall between a waiter's test and its Wait, the wake-up is lost and the waiter sleeps forever", fv.Name(), lp, heldString(hs)))
					okN := false
					if c := firstCallIn(as); c != nil {
						okN = notifiedAfter(p, fi, c)
					} else {
						okN = notifiedAfterNode(p, fi, as)
					}
					r.Check(okN, "C12.b", cons+"/notifies", p.pos(as), "followed by Signal/Broadcast on every path", "an assignment that can satisfy a waiter's predicate is not followed by Signal/Broadcast on every path: a goroutine parked in Wait is never woken")
				}
			}
			recvName := ""
			if len(fi.Decl.Recv.List[0].Names) == 1 {
				recvName = fi.Decl.Recv.List[0].Names[0].Name
			}
			lockPath := recvName + "." + ci.lockField
			done := map[*ast.CallExpr]bool{}
			for _, ev := range lr.Events {
				if ev.Kind != "call" || done[ev.Call] {
					continue
				}
				sel, ok := ev.Call.Fun.(*ast.SelectorExpr)
				if !ok || !mutatingMethods[sel.Sel.Name] {
					continue
				}
				inner, ok := ast.Unparen(sel.X).(*ast.SelectorExpr)
				if !ok {
					continue
				}
				fv, ok := info.Uses[inner.Sel].(*types.Var)
				if !ok || !predFields[fv] {
					continue
				}
				done[ev.Call] = true
				hs, _ := mustHeldAny(lr, ev.Call)
				cons := fmt.Sprintf("%s#%s.%s", fi.Key, fv.Name(), sel.Sel.Name)
				r.Check(holdsMode(hs, lockPath, "W"), "C12.b", cons+"/under-lock", p.pos(ev.Call), "mutation of wait-predicate field "+fv.Name()+" under "+lockPath,
					fmt.Sprintf("wait-predicate field %s is changed without %s (held %s): the change can fall between the waiter's test and its Wait, the wake-up is lost and Close blocks forever", fv.Name(), lockPath, heldString(hs)))
				if growingMethods[sel.Sel.Name] || shrinkWaited[fv] {
					// notification follows: in this method, or - when the mutation sits in an unexported helper - after
					// every call of the helper in the methods of the type
					ok := notifiedAfter(p, fi, ev.Call)
					if !ok && !ast.IsExported(fi.Decl.Name.Name) {
						callers := 0
						all := true
						for _, cf := range methods {
							ast.Inspect(cf.Decl.Body, func(x ast.Node) bool {
								if c, isC := x.(*ast.CallExpr); isC {
									if callee := p.staticCallee(cf.Pkg, c); callee != nil && callee.Key == fi.Key {
										callers++
										if !notifiedAfter(p, cf, c) {
											all = false
										}
									}
								}
								return true
							})
						}
						ok = callers > 0 && all
					}
					r.Check(ok, "C12.b", cons+"/notifies", p.pos(ev.Call), "followed by Signal/Broadcast on every path", "a change that can satisfy the waiter's predicate is not followed by Signal/Broadcast on every path")
				}
			}
		}
	}
	r.Floor("C12.a", "cond-wait-sites", nWait, 1)
}

func isSyncPrimitive(t types.Type) bool {
	if pt, ok := t.(*types.Pointer); ok {
		t = pt.Elem()
	}
	s := t.String()
	return s == "sync.Mutex" || s == "sync.RWMutex" || s == "sync.Cond" || s == "sync.WaitGroup" || s == "sync.Once"
}

func fieldOfType(t types.Type, fv *types.Var) bool {
	if pt, ok := t.(*types.Pointer); ok {
		t = pt.Elem()
	}
	st, ok := t.Underlying().(*types.Struct)
	if !ok {
		return false
	}
	for i := 0; i < st.NumFields(); i++ {
		if st.Field(i) == fv {
			return true
		}
	}
	return false
}

// notifiedAfter reports whether every path of fi from the statement containing call to an exit passes a
// sync.Cond Signal/Broadcast (or such a call was deferred before the statement).
func firstCallIn(n ast.Node) *ast.CallExpr {
	var res *ast.CallExpr
	ast.Inspect(n, func(x ast.Node) bool {
		if c, ok := x.(*ast.CallExpr); ok && res == nil {
			res = c
		}
		return res == nil
	})
	return res
}

func notifiedAfterNode(p *Prog, fi *FuncInfo, at ast.Node) bool {
	return notifiedAfterPos(p, fi, at)
}

func notifiedAfter(p *Prog, fi *FuncInfo, call *ast.CallExpr) bool {
	return notifiedAfterPos(p, fi, call)
}

func notifiedAfterPos(p *Prog, fi *FuncInfo, call ast.Node) bool {
	info := fi.Pkg.TypesInfo
	f := p.FlatOf(fi)
	var wnode int = -1
	for _, n := range f.Nodes {
		if n.Ast != nil && n.Ast.Pos() <= call.Pos() && call.End() <= n.Ast.End() {
			if _, isDefer := n.Ast.(*ast.DeferStmt); !isDefer {
				wnode = n.ID
			}
		}
	}
	isNotify := func(x ast.Node) bool {
		found := false
		ast.Inspect(x, func(y ast.Node) bool {
			if c, ok := y.(*ast.CallExpr); ok {
				if s, ok := c.Fun.(*ast.SelectorExpr); ok && (s.Sel.Name == "Signal" || s.Sel.Name == "Broadcast") {
					if fn, ok := info.Uses[s.Sel].(*types.Func); ok && strings.HasPrefix(fkey(fn), "(*sync.Cond).") {
						found = true
					}
				}
			}
			return true
		})
		return found
	}
	var notes, dnotes []int
	for _, n := range f.Nodes {
		if n.Ast == nil {
			continue
		}
		if ds, ok := n.Ast.(*ast.DeferStmt); ok {
			if isNotify(ds) {
				dnotes = append(dnotes, n.ID)
			}
			continue
		}
		hasN := false
		for _, c := range callsIn(n.Ast, false) {
			if isNotify(c) {
				hasN = true
			}
		}
		if hasN {
			notes = append(notes, n.ID)
		}
	}
	if wnode < 0 {
		return false
	}
	if len(dnotes) > 0 && f.MustPrecede(setOf(dnotes), wnode) {
		return true
	}
	if len(notes) == 0 {
		return false
	}
	// every path from the write to an exit passes a notification
	ns := setOf(notes)
	var start []int
	for _, sid := range f.succsOf(wnode) {
		if !ns[sid] {
			start = append(start, sid)
		}
	}
	reach := f.Reach(start, func(n *GNode) bool { return ns[n.ID] }, nil)
	for _, e := range f.Exits() {
		if reach[e] {
			return false
		}
	}
	return true
}

func c12WaitGroup(p *Prog, r *Report) {
	fi := p.Func(kInlineCreate)
	if fi == nil {
		r.Undecided("C12.c", kInlineCreate, "", "inline Create not found")
		return
	}
	info := fi.Pkg.TypesInfo
	// the goroutine may be started by a method the job is handed to (rw.Produce(job)): the rules apply there
	create := fi
	if pr := p.createProducer(fi); pr != nil && pr.runner != fi {
		fi = pr.runner
		info = fi.Pkg.TypesInfo
	}
	_ = create
	f := p.FlatOf(fi)
	var gos []int
	var lit *ast.FuncLit
	for _, n := range f.Nodes {
		if g, ok := n.Ast.(*ast.GoStmt); ok {
			gos = append(gos, n.ID)
			lit, _ = g.Call.Fun.(*ast.FuncLit)
		}
	}
	isWG := func(c *ast.CallExpr, name string) bool { return p.isWaitGroupOp(fi.Pkg, c, name) }
	_ = info
	adds := f.Match(func(n *GNode) bool {
		for _, c := range callsIn(n.Ast, false) {
			if isWG(c, "Add") {
				return true
			}
		}
		return false
	})
	ok := len(gos) == 1 && len(adds) > 0
	for _, g := range gos {
		if !f.MustPrecede(setOf(adds), g) {
			ok = false
		}
	}
	r.Check(ok, "C12.c", kInlineCreate+"#add-before-go", p.pos(fi.Decl), "Add(1) precedes the go statement", "the storing goroutine is started before the wait group is incremented: Close can return before the store finished")
	if lit != nil {
		lf := p.NewFlat(fi.Pkg, lit.Body)
		if len(lit.Body.List) == 1 && lit.Type.Params.NumFields() == 0 {
			// the goroutine body is a method of the client (go db.store(ctx, key, up)): splice it in
			if es, ok := lit.Body.List[0].(*ast.ExprStmt); ok {
				if c, ok := es.X.(*ast.CallExpr); ok && p.staticCallee(fi.Pkg, c) != nil {
					lf = p.NewFlatInl(fi, lit.Body)
				}
			}
		}
		// the first executed node registers Done
		first := -1
		for _, e := range lf.Nodes[lf.Entry].Succs {
			first = e.To
		}
		good := false
		if first >= 0 {
			if ds, ok := lf.Nodes[first].Ast.(*ast.DeferStmt); ok && isWG(ds.Call, "Done") {
				good = true
			}
		}
		if !good {
			// or: Done is called on every path to every exit
			dones := lf.Match(func(n *GNode) bool {
				if _, isD := n.Ast.(*ast.DeferStmt); isD {
					return false
				}
				for _, c := range callsIn(n.Ast, false) {
					if isWG(c, "Done") {
						return true
					}
				}
				return false
			})
			good = len(dones) > 0
			for _, e := range lf.Exits() {
				if !lf.MustPrecede(setOf(dones), e) {
					good = false
				}
			}
		}
		r.Check(good, "C12.c", kInlineCreate+"#done-on-all-paths", p.pos(lit), "the goroutine defers Done first", "the storing goroutine can end without calling Done: Close blocks forever")
	} else {
		r.Undecided("C12.c", kInlineCreate+"#done-on-all-paths", p.pos(fi.Decl), "no goroutine literal")
	}
	// Close waits before reading the error
	ck := "(*" + pkgAsync + ".readWriter).Close"
	cf := p.Func(ck)
	if cf == nil {
		r.Undecided("C12.c", ck, "", "readWriter.Close not found")
		return
	}
	cinfo := cf.Pkg.TypesInfo
	ff := p.FlatOf(cf)
	waits := ff.Match(func(n *GNode) bool {
		switch n.Ast.(type) {
		case *ast.DeferStmt, *ast.GoStmt:
			// a deferred Wait runs after the return value has been evaluated: it does not order the read of the error
			return false
		}
		for _, c := range callsIn(n.Ast, false) {
			if p.isWaitGroupOp(cf.Pkg, c, "Wait") {
				return true
			}
		}
		_ = cinfo
		return false
	})
	good := len(waits) > 0
	returnsErr := false
	for _, id := range ff.ReturnNodes() {
		rs := ff.returnStmt(id)
		if rs == nil || len(rs.Results) != 1 {
			continue
		}
		mentionsErr := false
		ast.Inspect(rs.Results[0], func(x ast.Node) bool {
			if s, ok := x.(*ast.SelectorExpr); ok {
				// the stored error: the pipe's only field of type error, whatever it is called
				if fv, isF := cf.Pkg.TypesInfo.Uses[s.Sel].(*types.Var); isF && fv.IsField() && isErrorType(fv.Type()) {
					mentionsErr = true
				}
			}
			if c, ok := x.(*ast.CallExpr); ok && p.callIs(cf.Pkg, c, "(*"+pkgAsync+".readWriter).checkErr") {
				mentionsErr = true
			}
			return true
		})
		if mentionsErr {
			returnsErr = true
			if !ff.MustPrecede(setOf(waits), id) {
				good = false
			}
		}
	}
	r.Check(good && returnsErr, "C12.c", ck+"#wait-then-error", p.pos(cf.Decl), "Close waits for the storing goroutine, then returns the stored error",
		"Close does not wait for the storing goroutine before it reads the stored error (or does not return it): a failed store is reported as success")
}

func c12WriterError(p *Prog, r *Report) {
	wk := "(*" + pkgAsync + ".readWriter).Write"
	fi := p.Func(wk)
	if fi == nil {
		r.Undecided("C12.d", wk, "", "readWriter.Write not found")
		return
	}
	f := p.FlatOf(fi)
	f.CheckChain(r, "C12.d", fi, []step{
		{Name: "stored error consulted", Keys: []string{"(*" + pkgAsync + ".readWriter).checkErr"}},
		{Name: "bytes buffered", Keys: []string{"(*bytes.Buffer).Write"}},
	})
}

// isWaitGroupOp: c is (*sync.WaitGroup).<name>, directly (an embedded or named wait group) or through a method of
// the module that does nothing but forward to it (func (rw *readWriter) Done() { rw.producers.Done() }).
func (p *Prog) isWaitGroupOp(pkg *packages.Package, c *ast.CallExpr, name string) bool {
	fn, ok := typeutilCallee(pkg.TypesInfo, c)
	if !ok {
		return false
	}
	if fkey(fn) == "(*sync.WaitGroup)."+name {
		return true
	}
	callee := p.staticCallee(pkg, c)
	if callee == nil || callee.Decl.Body == nil || len(callee.Decl.Body.List) != 1 {
		return false
	}
	es, ok := callee.Decl.Body.List[0].(*ast.ExprStmt)
	if !ok {
		return false
	}
	inner, ok := es.X.(*ast.CallExpr)
	if !ok {
		return false
	}
	ifn, ok := typeutilCallee(callee.Pkg.TypesInfo, inner)
	return ok && fkey(ifn) == "(*sync.WaitGroup)."+name
}

// producer describes how inline Create runs the storing side: runner is the function that holds the go statement
// (Create itself, or a method it hands its job to: rw.Produce(func() error {...})), goLit the goroutine's literal,
// job the literal Create hands to the runner (nil when Create starts the goroutine itself) and jobParam the
// runner's parameter it is bound to.
type producer struct {
	runner   *FuncInfo
	goLit    *ast.FuncLit
	job      *ast.FuncLit
	jobParam types.Object
}

func (p *Prog) createProducer(fi *FuncInfo) *producer {
	var res *producer
	ast.Inspect(fi.Decl.Body, func(x ast.Node) bool {
		if g, ok := x.(*ast.GoStmt); ok && res == nil {
			if l, ok := g.Call.Fun.(*ast.FuncLit); ok {
				res = &producer{runner: fi, goLit: l}
			}
		}
		return true
	})
	if res != nil {
		return res
	}
	ast.Inspect(fi.Decl.Body, func(x ast.Node) bool {
		c, ok := x.(*ast.CallExpr)
		if !ok || res != nil {
			return true
		}
		callee := p.staticCallee(fi.Pkg, c)
		if callee == nil || callee.Decl.Body == nil {
			return true
		}
		args := argExprs(c, callee)
		for i, po := range paramObjs(callee) {
			if po == nil || i < 0 || args[i] == nil {
				continue
			}
			job, isLit := ast.Unparen(args[i]).(*ast.FuncLit)
			if !isLit {
				continue
			}
			// the callee starts a goroutine whose literal calls that parameter
			ast.Inspect(callee.Decl.Body, func(y ast.Node) bool {
				g, ok := y.(*ast.GoStmt)
				if !ok {
					return true
				}
				l, ok := g.Call.Fun.(*ast.FuncLit)
				if !ok {
					return true
				}
				calls := false
				ast.Inspect(l.Body, func(z ast.Node) bool {
					if cc, ok := z.(*ast.CallExpr); ok && objOf(callee.Pkg.TypesInfo, cc.Fun) == po {
						calls = true
					}
					return true
				})
				if calls {
					res = &producer{runner: callee, goLit: l, job: job, jobParam: po}
				}
				return true
			})
		}
		return true
	})
	return res
}
