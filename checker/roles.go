package main

// Anchors by role. The rules name a few unexported functions and types of fs_db (storeToTx, binarySearch,
// core.file, ...). A rename of an unexported thing changes no behaviour, so the loader resolves an anchor whose
// name is gone by its role: the only function of the package with the anchor's shape (receiver type, parameter
// and result types), the only unexported struct type of the package with the anchor's method set. A resolved
// anchor is registered under its pinned name (the key the rules use) and the resolution is listed in the
// evidence ("role_aliases"); an anchor with no or several candidates stays unresolved and the rules that need
// it answer UNDECIDED, as before.

import (
	"go/ast"
	"go/types"
	"sort"
	"strings"

	"golang.org/x/tools/go/packages"
)

// keyAlias maps the key of a renamed function to the pinned anchor key; typeAlias maps "pkg.renamedType" to
// "pkg.pinnedType" (applied to receiver types inside function keys).
var (
	keyAlias  = map[string]string{}
	typeAlias = map[string]string{}
	// fieldAlias maps "pkg.Type.renamedField" to the pinned field name (mutex fields: lock classes and lock
	// paths are written with the pinned names)
	fieldAlias = map[string]string{}
	roleNotes  []string
)

// single-mutex structs: the pinned name of their only mutex field
var singleMutex = map[string]string{
	"internal/model/core.Transaction":      "m",
	"internal/model/core.Transactions":     "m",
	"internal/model/core.Pool":             "m",
	"internal/model/core.file":             "m",
	"internal/repository/dir.Repo":         "m",
	"internal/repository/transaction.Repo": "m",
}

type typeRole struct {
	Pkg     string   // short package path
	Name    string   // pinned type name
	Methods []string // methods that identify the type within its package
}

type funcRole struct {
	Key     string   // pinned key
	Pkg     string   // short package path
	Recv    string   // pinned receiver type name ("" = any / package-level function)
	Params  []string // suffixes of the parameter types
	Results []string // suffixes of the result types
	Body    string   // "" or a feature the body must have: "sel:NAME" (a selector .NAME), "recv" (a channel receive)
}

var typeRoles = []typeRole{
	{"internal/model/core", "file", []string{"PopFront", "PopBack", "LastBefore", "IterateBeforeSeq"}},
	{"internal/utils/async", "readWriter", []string{"SetError", "Read", "Write", "Close"}},
	{"internal/utils/grpc/streamreader", "reader", []string{"Read"}},
	{"pkg/inline/db", "db", []string{"Begin", "Create", "Close"}},
	{"pkg/inline/db", "tx", []string{"Commit", "Rollback"}},
	{"pkg/external/db", "db", []string{"Begin", "Create"}},
	{"pkg/external/db", "tx", []string{"Commit", "Rollback"}},
	{"internal/app", "app", []string{"Run", "Stop"}},
	{"internal/repository/content", "bufWriter", []string{"Write"}},
	{".", "tx", []string{"Set", "SetReader", "Get", "GetKeys", "Delete", "Create"}},
}

var funcRoles = []funcRole{
	{"(*internal/usecase/cleaner.UseCase).deleteFile", "internal/usecase/cleaner", "UseCase", []string{"context.Context", "internal/model.File"}, []string{"error"}, ""},
	{"internal/repository/file.unmarshalFile", "internal/repository/file", "", []string{"[]byte", "*internal/model.File"}, []string{"error"}, ""},
	{"internal/repository/file.marshalFile", "internal/repository/file", "", []string{"internal/model.File", "[]byte"}, []string{"error"}, ""},
	{"internal/repository/file.fileLen", "internal/repository/file", "", []string{"internal/model.File"}, []string{"int"}, ""},
	{"internal/model/core.binarySearch", "internal/model/core", "", []string{"internal/model.File]", "sequence.Seq"}, []string{"internal/model.File]"}, ""},
	{"(*internal/usecase/core.UseCase).storeToTx", "internal/usecase/core", "", []string{"*internal/model/core.Transaction", "internal/model.File"}, nil, ""},
	{"(*internal/usecase/core.UseCase).mergeFiles", "internal/usecase/core", "", []string{"[]internal/model.File", "[]internal/model.File"}, []string{"[]internal/model.File"}, ""},
	{"(*internal/repository/file.Repo).key", "internal/repository/file", "", []string{"string"}, []string{"[]byte"}, ""},
	{"(*internal/repository/content_file.Repo).key", "internal/repository/content_file", "", []string{"string"}, []string{"[]byte"}, ""},
	// worker pool: exec runs the job's function, lazySend parks the job in the list, run receives from the job
	// channel, lazyResend takes the single-flusher flag with TryLock
	{Key: "(*internal/utils/wpool.Pool).exec", Pkg: "internal/utils/wpool", Params: []string{"...", "wpool.Event"}, Body: "sel:Fn"},
	{Key: "(*internal/utils/wpool.Pool).lazySend", Pkg: "internal/utils/wpool", Recv: "Pool", Params: []string{"wpool.Event"}, Body: "sel:PushBack"},
	{Key: "(*internal/utils/wpool.Pool).run", Pkg: "internal/utils/wpool", Recv: "Pool", Body: "recv"},
	{Key: "(*internal/utils/wpool.Pool).lazyResend", Pkg: "internal/utils/wpool", Recv: "Pool", Body: "sel:TryLock"},
}

func shortType(t types.Type) string {
	return stripTypeArgsKeep(shorten(t.String()))
}

// stripTypeArgsKeep leaves type arguments in place (Node[model.File] must stay recognisable).
func stripTypeArgsKeep(s string) string { return s }

func sigMatches(sig *types.Signature, params, results []string) bool {
	// a leading "..." lets any parameters precede the listed ones
	if len(params) > 0 && params[0] == "..." {
		params = params[1:]
		if sig.Params().Len() < len(params) || sig.Results().Len() != len(results) {
			return false
		}
		off := sig.Params().Len() - len(params)
		for i, want := range params {
			if !strings.HasSuffix(shortType(sig.Params().At(off+i).Type()), want) {
				return false
			}
		}
		params = nil
	} else if sig.Params().Len() != len(params) || sig.Results().Len() != len(results) {
		return false
	}
	for i, want := range params {
		if !strings.HasSuffix(shortType(sig.Params().At(i).Type()), want) {
			return false
		}
	}
	for i, want := range results {
		if !strings.HasSuffix(shortType(sig.Results().At(i).Type()), want) {
			return false
		}
	}
	return true
}

func recvTypeName(sig *types.Signature) string {
	if sig.Recv() == nil {
		return ""
	}
	t := sig.Recv().Type()
	if pt, ok := t.(*types.Pointer); ok {
		t = pt.Elem()
	}
	if nt, ok := t.(*types.Named); ok {
		return nt.Obj().Name()
	}
	return ""
}

// rawFuncKey is fkey without aliases.
func rawFuncKey(f *types.Func) string {
	return stripTypeArgs(shorten(f.Origin().FullName()))
}

// resolveRoles fills keyAlias / typeAlias for the loaded packages (called once per load, before functions are
// registered).
func resolveRoles(pkgs map[string]*packages.Package) {
	keyAlias = map[string]string{}
	typeAlias = map[string]string{}
	roleNotes = nil
	// types first: function keys contain receiver type names
	for _, tr := range typeRoles {
		pkg := pkgs[tr.Pkg]
		if pkg == nil || pkg.Types == nil {
			continue
		}
		sc := pkg.Types.Scope()
		if _, ok := sc.Lookup(tr.Name).(*types.TypeName); ok {
			continue
		}
		var cands []string
		for _, n := range sc.Names() {
			tn, ok := sc.Lookup(n).(*types.TypeName)
			if !ok || tn.Exported() || tn.IsAlias() {
				continue
			}
			nt, ok := tn.Type().(*types.Named)
			if !ok {
				continue
			}
			if _, isStruct := nt.Underlying().(*types.Struct); !isStruct {
				continue
			}
			ms := types.NewMethodSet(types.NewPointer(nt))
			all := true
			for _, m := range tr.Methods {
				if ms.Lookup(pkg.Types, m) == nil {
					all = false
				}
			}
			if all {
				cands = append(cands, n)
			}
		}
		if len(cands) == 1 {
			typeAlias[tr.Pkg+"."+cands[0]] = tr.Pkg + "." + tr.Name
			roleNotes = append(roleNotes, "type "+tr.Pkg+"."+tr.Name+" is now "+cands[0])
		}
	}
	for _, fr := range funcRoles {
		pkg := pkgs[fr.Pkg]
		if pkg == nil || pkg.TypesInfo == nil {
			continue
		}
		type cand struct {
			key string
			fn  *types.Func
		}
		var cands []cand
		present := false
		pinned := map[string]bool{}
		for _, o := range funcRoles {
			pinned[o.Key] = true
		}
		for _, obj := range pkg.TypesInfo.Defs {
			fn, ok := obj.(*types.Func)
			if !ok || fn == nil {
				continue
			}
			k := applyTypeAlias(rawFuncKey(fn))
			if k == fr.Key {
				present = true
			}
			sig, _ := fn.Type().(*types.Signature)
			if sig == nil || fn.Exported() {
				continue
			}
			if fr.Recv != "" && recvTypeName(sig) != fr.Recv {
				continue
			}
			if !sigMatches(sig, fr.Params, fr.Results) {
				continue
			}
			if fr.Body != "" && !bodyHas(pkg, fn, fr.Body) {
				continue
			}
			cands = append(cands, cand{k, fn})
		}
		if present {
			continue
		}
		// candidates that are themselves pinned anchors keep their own role
		var free []cand
		for _, c := range cands {
			if !pinned[c.key] {
				free = append(free, c)
			}
		}
		if len(free) == 1 {
			keyAlias[free[0].key] = fr.Key
			roleNotes = append(roleNotes, fr.Key+" is now "+free[0].key)
		}
	}
	resolveMutexFields(pkgs)
	resolveFileFields(pkgs)
	resolvePoolFields(pkgs)
	resolveAllStore(pkgs)
	resolveUniqueTyped(pkgs)
	sort.Strings(roleNotes)
}

func isMutexType(t types.Type) bool {
	s := t.String()
	return s == "sync.Mutex" || s == "sync.RWMutex"
}

// resolveMutexFields names renamed mutex fields by role: the only mutex of a single-mutex struct; in the worker
// pool the only RWMutex (stopM), the mutex try-locked in Run (runM), the other try-locked one (lazySendM) and the
// remaining one (listM); in the pipe the mutex handed to sync.NewCond (m) and the other one (errM).
func resolveMutexFields(pkgs map[string]*packages.Package) {
	fieldAlias = map[string]string{}
	mutexFields := func(pkgShort, typeName string) (st *types.Struct, fields []*types.Var) {
		pkg := pkgs[pkgShort]
		if pkg == nil || pkg.Types == nil {
			return nil, nil
		}
		for _, n := range pkg.Types.Scope().Names() {
			tn, ok := pkg.Types.Scope().Lookup(n).(*types.TypeName)
			if !ok {
				continue
			}
			if canonTypeName(pkgShort+"."+n) != pkgShort+"."+typeName {
				continue
			}
			s, ok := tn.Type().Underlying().(*types.Struct)
			if !ok {
				continue
			}
			for i := 0; i < s.NumFields(); i++ {
				if isMutexType(s.Field(i).Type()) {
					fields = append(fields, s.Field(i))
				}
			}
			return s, fields
		}
		return nil, nil
	}
	note := func(owner, actual, pinned string) {
		if actual != pinned {
			fieldAlias[owner+"."+actual] = pinned
			roleNotes = append(roleNotes, "field "+owner+"."+pinned+" is now "+actual)
		}
	}
	for owner, pinned := range singleMutex {
		i := strings.LastIndex(owner, ".")
		_, fs := mutexFields(owner[:i], owner[i+1:])
		if len(fs) == 1 {
			note(owner, fs[0].Name(), pinned)
		}
	}
	// worker pool
	if pkg := pkgs["internal/utils/wpool"]; pkg != nil {
		_, fs := mutexFields("internal/utils/wpool", "Pool")
		var plain []*types.Var
		for _, f := range fs {
			if f.Type().String() == "sync.RWMutex" {
				note("internal/utils/wpool.Pool", f.Name(), "stopM")
			} else {
				plain = append(plain, f)
			}
		}
		if len(plain) == 3 {
			tryIn := map[*types.Var]string{} // field -> name of a function that try-locks it
			for _, file := range pkg.Syntax {
				for _, d := range file.Decls {
					fd, ok := d.(*ast.FuncDecl)
					if !ok || fd.Body == nil {
						continue
					}
					ast.Inspect(fd.Body, func(x ast.Node) bool {
						c, ok := x.(*ast.CallExpr)
						if !ok {
							return true
						}
						sel, ok := c.Fun.(*ast.SelectorExpr)
						if !ok || sel.Sel.Name != "TryLock" {
							return true
						}
						if in, ok := ast.Unparen(sel.X).(*ast.SelectorExpr); ok {
							if fv, ok := pkg.TypesInfo.Uses[in.Sel].(*types.Var); ok {
								if fd.Name.Name == "Run" || tryIn[fv] == "" {
									tryIn[fv] = fd.Name.Name
								}
							}
						}
						return true
					})
				}
			}
			var run, flush, list *types.Var
			for _, f := range plain {
				switch {
				case tryIn[f] == "Run":
					run = f
				case tryIn[f] != "":
					flush = f
				default:
					list = f
				}
			}
			if run != nil && flush != nil && list != nil {
				note("internal/utils/wpool.Pool", run.Name(), "runM")
				note("internal/utils/wpool.Pool", flush.Name(), "lazySendM")
				note("internal/utils/wpool.Pool", list.Name(), "listM")
			}
		}
	}
	// pipe
	if pkg := pkgs["internal/utils/async"]; pkg != nil {
		_, fs := mutexFields("internal/utils/async", "readWriter")
		if len(fs) == 2 {
			var condM *types.Var
			for _, file := range pkg.Syntax {
				ast.Inspect(file, func(x ast.Node) bool {
					c, ok := x.(*ast.CallExpr)
					if !ok || len(c.Args) != 1 {
						return true
					}
					if sel, ok := c.Fun.(*ast.SelectorExpr); ok && sel.Sel.Name == "NewCond" && condM == nil {
						a := ast.Unparen(c.Args[0])
						if u, ok := a.(*ast.UnaryExpr); ok {
							a = ast.Unparen(u.X)
						}
						if in, ok := a.(*ast.SelectorExpr); ok {
							if fv, ok := pkg.TypesInfo.Uses[in.Sel].(*types.Var); ok {
								condM = fv
							}
						}
					}
					return true
				})
			}
			// ... or a condition variable kept by value whose locker is set: x.cond.L = &x.mu
			for _, file := range pkg.Syntax {
				ast.Inspect(file, func(x ast.Node) bool {
					as, ok := x.(*ast.AssignStmt)
					if !ok || len(as.Lhs) != 1 || len(as.Rhs) != 1 || condM != nil {
						return true
					}
					if l, ok := ast.Unparen(as.Lhs[0]).(*ast.SelectorExpr); ok && l.Sel.Name == "L" {
						a := ast.Unparen(as.Rhs[0])
						if u, ok := a.(*ast.UnaryExpr); ok {
							a = ast.Unparen(u.X)
						}
						if in, ok := a.(*ast.SelectorExpr); ok {
							if fv, ok := pkg.TypesInfo.Uses[in.Sel].(*types.Var); ok && isMutexType(fv.Type()) {
								condM = fv
							}
						}
					}
					return true
				})
			}
			for _, f := range fs {
				if f == condM {
					note("internal/utils/async.readWriter", f.Name(), "m")
				} else if condM != nil {
					note("internal/utils/async.readWriter", f.Name(), "errM")
				}
			}
		}
	}
}

// canonFieldName returns the pinned name of a (possibly renamed) mutex field of the named struct type.
func canonFieldName(owner types.Type, field string) string {
	if pt, ok := owner.(*types.Pointer); ok {
		owner = pt.Elem()
	}
	k := canonTypeName(stripTypeArgs(shorten(owner.String()))) + "." + field
	if a, ok := fieldAlias[k]; ok {
		return a
	}
	return field
}

func applyTypeAlias(k string) string {
	for from, to := range typeAlias {
		if strings.Contains(k, from+")") {
			k = strings.Replace(k, from+")", to+")", 1)
		}
	}
	return k
}

// canonKey applies both alias tables to a raw key.
func canonKey(k string) string {
	k = applyTypeAlias(k)
	if a, ok := keyAlias[k]; ok {
		return a
	}
	return k
}

// canonTypeName maps "pkg.renamedType" to the pinned "pkg.Type" (identity for everything else).
func canonTypeName(n string) string {
	if a, ok := typeAlias[n]; ok {
		return a
	}
	return n
}

// fileFieldNames: the fields of the per-key version list type (pinned: core.file{l List, arr []*Node,
// withoutSearch bool}) by role, whatever they are called now: the list, the search mirror (a slice of node
// pointers, possibly behind a named slice type) and the flag that switches the mirror off.
var fileFields = struct{ List, Arr, Flag string }{"l", "arr", "withoutSearch"}

func resolveFileFields(pkgs map[string]*packages.Package) {
	fileFields = struct{ List, Arr, Flag string }{"l", "arr", "withoutSearch"}
	fileFlagInit, fileFlagPkg = nil, nil
	pkg := pkgs["internal/model/core"]
	if pkg == nil || pkg.Types == nil {
		return
	}
	for _, n := range pkg.Types.Scope().Names() {
		tn, ok := pkg.Types.Scope().Lookup(n).(*types.TypeName)
		if !ok || canonTypeName("internal/model/core."+n) != "internal/model/core.file" {
			continue
		}
		st, ok := tn.Type().Underlying().(*types.Struct)
		if !ok {
			return
		}
		var lists, arrs, flags []string
		for i := 0; i < st.NumFields(); i++ {
			f := st.Field(i)
			ts := f.Type().String()
			switch {
			case strings.Contains(ts, "core.List["):
				lists = append(lists, f.Name())
			case isNodeSlice(f.Type()):
				arrs = append(arrs, f.Name())
			default:
				if bt, ok := f.Type().Underlying().(*types.Basic); ok && bt.Kind() == types.Bool {
					flags = append(flags, f.Name())
				}
			}
		}
		if len(lists) == 1 && len(arrs) == 1 {
			if lists[0] != "l" || arrs[0] != "arr" {
				roleNotes = append(roleNotes, "fields of core.file: list "+lists[0]+", search mirror "+arrs[0])
			}
			fileFields.List, fileFields.Arr = lists[0], arrs[0]
		}
		if len(flags) == 1 {
			fileFields.Flag = flags[0]
		}
		if len(flags) == 0 {
			// no boolean: the switch may be a small mode type. It is the field of the per-key list that is set from
			// the store's exported WithoutSearch when the list is created (fs.index = indexModeOf(tx.WithoutSearch))
			for _, file := range pkg.Syntax {
				ast.Inspect(file, func(x ast.Node) bool {
					as, ok := x.(*ast.AssignStmt)
					if !ok || len(as.Lhs) != 1 || len(as.Rhs) != 1 {
						return true
					}
					sel, ok := as.Lhs[0].(*ast.SelectorExpr)
					if !ok {
						return true
					}
					fv, ok := pkg.TypesInfo.Uses[sel.Sel].(*types.Var)
					if !ok || !fv.IsField() {
						return true
					}
					owns := false
					for i := 0; i < st.NumFields(); i++ {
						if st.Field(i) == fv {
							owns = true
						}
					}
					mentions := false
					ast.Inspect(as.Rhs[0], func(y ast.Node) bool {
						if s2, ok := y.(*ast.SelectorExpr); ok && s2.Sel.Name == "WithoutSearch" {
							mentions = true
						}
						return true
					})
					if owns && mentions {
						fileFields.Flag = fv.Name()
						fileFlagInit = as.Rhs[0]
						fileFlagPkg = pkg
						roleNotes = append(roleNotes, "the search switch of core.file is the field "+fv.Name()+" (set from WithoutSearch)")
					}
					return true
				})
			}
		}
	}
}

// fileFlagInit / fileFlagPkg: when the switch is not a plain boolean, the expression that computes it from the
// store's WithoutSearch (evaluated by fileFlagVal for both settings).
var (
	fileFlagInit ast.Expr
	fileFlagPkg  *packages.Package
)

// fileFlagVal is the value of the switch field for a store with / without the search mirror.
func fileFlagVal(p *Prog, withoutSearch bool) *Val {
	if fileFlagInit == nil {
		return boolVal(withoutSearch)
	}
	env := &Env{P: p, Pkg: fileFlagPkg, Vars: map[types.Object]*Val{}}
	env.Hook = func(env *Env, e ast.Expr) (*Val, bool) {
		if sel, ok := e.(*ast.SelectorExpr); ok && sel.Sel.Name == "WithoutSearch" {
			return boolVal(withoutSearch), true
		}
		return nil, false
	}
	if v, err := env.Eval(fileFlagInit); err == nil && v != nil {
		return v
	}
	return boolVal(withoutSearch)
}

func isNodeSlice(t types.Type) bool {
	sl, ok := t.Underlying().(*types.Slice)
	if !ok {
		return false
	}
	return strings.Contains(sl.Elem().String(), "core.Node[")
}

// poolFields: the fields of wpool.Pool the C16 rules talk about, by role: the only context.Context, the only
// context.CancelFunc, the only channel, and of the two WaitGroups the one Run adds to (workers) and the other
// one (senders).
var poolFields = struct{ Ctx, Cancel, Ch, SendWg, RunWg string }{"ctx", "cancel", "ch", "sendWg", "runWg"}

// uniqueTyped: fields that are the only one of their type in their struct (pinned name by type)
var uniqueTyped = map[string]map[string]string{
	"internal/utils/wpool.Pool":       {"core.List[": "el"},
	"internal/utils/async.readWriter": {"error": "err", "bytes.Buffer": "buf", "sync.Cond": "cv", "atomic.Bool": "closed"},
}

func resolveUniqueTyped(pkgs map[string]*packages.Package) {
	for owner, byType := range uniqueTyped {
		i := strings.LastIndex(owner, ".")
		pkg := pkgs[owner[:i]]
		if pkg == nil || pkg.Types == nil {
			continue
		}
		for _, n := range pkg.Types.Scope().Names() {
			tn, ok := pkg.Types.Scope().Lookup(n).(*types.TypeName)
			if !ok || canonTypeName(owner[:i]+"."+n) != owner {
				continue
			}
			st, ok := tn.Type().Underlying().(*types.Struct)
			if !ok {
				continue
			}
			for tpat, pinned := range byType {
				var hits []string
				for j := 0; j < st.NumFields(); j++ {
					ts := stripTypeArgsKeep(shorten(st.Field(j).Type().String()))
					if ts == tpat || (strings.HasSuffix(tpat, "[") && strings.Contains(ts, tpat)) || strings.HasSuffix(ts, "/"+tpat) || strings.HasSuffix(ts, "."+tpat) && !strings.Contains(tpat, ".") {
						hits = append(hits, st.Field(j).Name())
					}
				}
				if len(hits) == 1 && hits[0] != pinned {
					fieldAlias[owner+"."+hits[0]] = pinned
					roleNotes = append(roleNotes, "field "+owner+"."+pinned+" is now "+hits[0])
				}
			}
		}
	}
}

func resolvePoolFields(pkgs map[string]*packages.Package) {
	poolFields = struct{ Ctx, Cancel, Ch, SendWg, RunWg string }{"ctx", "cancel", "ch", "sendWg", "runWg"}
	pkg := pkgs["internal/utils/wpool"]
	if pkg == nil || pkg.Types == nil {
		return
	}
	tn, ok := pkg.Types.Scope().Lookup("Pool").(*types.TypeName)
	if !ok {
		return
	}
	st, ok := tn.Type().Underlying().(*types.Struct)
	if !ok {
		return
	}
	var ctxs, cancels, chans, wgs []*types.Var
	for i := 0; i < st.NumFields(); i++ {
		f := st.Field(i)
		switch ts := f.Type().String(); {
		case ts == "context.Context":
			ctxs = append(ctxs, f)
		case ts == "context.CancelFunc":
			cancels = append(cancels, f)
		case ts == "sync.WaitGroup":
			wgs = append(wgs, f)
		default:
			if _, isChan := f.Type().Underlying().(*types.Chan); isChan {
				chans = append(chans, f)
			}
		}
	}
	before := poolFields
	if len(ctxs) == 1 {
		poolFields.Ctx = ctxs[0].Name()
	}
	if len(cancels) == 1 {
		poolFields.Cancel = cancels[0].Name()
	}
	if len(chans) == 1 {
		poolFields.Ch = chans[0].Name()
	}
	if len(wgs) == 2 {
		// the WaitGroup that Run adds to counts the workers
		var runWg *types.Var
		for _, file := range pkg.Syntax {
			for _, d := range file.Decls {
				fd, ok := d.(*ast.FuncDecl)
				if !ok || fd.Body == nil || fd.Name.Name != "Run" {
					continue
				}
				ast.Inspect(fd.Body, func(x ast.Node) bool {
					c, ok := x.(*ast.CallExpr)
					if !ok {
						return true
					}
					if sel, ok := c.Fun.(*ast.SelectorExpr); ok && sel.Sel.Name == "Add" {
						if in, ok := ast.Unparen(sel.X).(*ast.SelectorExpr); ok {
							if fv, ok := pkg.TypesInfo.Uses[in.Sel].(*types.Var); ok && (fv == wgs[0] || fv == wgs[1]) {
								runWg = fv
							}
						}
					}
					return true
				})
			}
		}
		if runWg != nil {
			poolFields.RunWg = runWg.Name()
			if runWg == wgs[0] {
				poolFields.SendWg = wgs[1].Name()
			} else {
				poolFields.SendWg = wgs[0].Name()
			}
		}
	}
	if poolFields != before {
		roleNotes = append(roleNotes, "fields of wpool.Pool by role: ctx="+poolFields.Ctx+" cancel="+poolFields.Cancel+" ch="+poolFields.Ch+" sendWg="+poolFields.SendWg+" runWg="+poolFields.RunWg)
	}
}

// allStoreField: the field of the core use case that holds the all-store: its only field of type
// core.Transaction (a value, the per-transaction stores are pointers in a registry).
var allStoreField = "allStore"

// allStoreWrapper / allStoreEmbedded: when the all-store field is a type of the package that embeds the
// transaction (type linkStore struct { core.Transaction; ... }), the names of that type and of the embedded field.
var allStoreWrapper, allStoreEmbedded string

func resolveAllStore(pkgs map[string]*packages.Package) {
	allStoreField = "allStore"
	pkg := pkgs["internal/usecase/core"]
	if pkg == nil || pkg.Types == nil {
		return
	}
	tn, ok := pkg.Types.Scope().Lookup("UseCase").(*types.TypeName)
	if !ok {
		return
	}
	st, ok := tn.Type().Underlying().(*types.Struct)
	if !ok {
		return
	}
	var hits []string
	allStoreWrapper, allStoreEmbedded = "", ""
	for i := 0; i < st.NumFields(); i++ {
		ft := st.Field(i).Type()
		if strings.HasSuffix(ft.String(), "internal/model/core.Transaction") && !strings.HasPrefix(ft.String(), "*") {
			hits = append(hits, st.Field(i).Name())
			continue
		}
		// ... or a type of the package that embeds the transaction by value (the all-store with what belongs to it)
		if nt, ok := ft.(*types.Named); ok && nt.Obj().Pkg() == pkg.Types {
			if wst, ok := nt.Underlying().(*types.Struct); ok {
				for j := 0; j < wst.NumFields(); j++ {
					wf := wst.Field(j)
					if wf.Embedded() && strings.HasSuffix(wf.Type().String(), "internal/model/core.Transaction") && !strings.HasPrefix(wf.Type().String(), "*") {
						hits = append(hits, st.Field(i).Name())
						allStoreWrapper, allStoreEmbedded = nt.Obj().Name(), wf.Name()
					}
				}
			}
		}
	}
	if len(hits) != 1 {
		allStoreWrapper, allStoreEmbedded = "", ""
	}
	if len(hits) == 1 && hits[0] != allStoreField {
		roleNotes = append(roleNotes, "field usecase/core.UseCase.allStore is now "+hits[0])
		allStoreField = hits[0]
	}
}

// bodyHas: does the declaration of fn contain the feature (see funcRole.Body)? Function literals count.
func bodyHas(pkg *packages.Package, fn *types.Func, feature string) bool {
	for _, file := range pkg.Syntax {
		for _, d := range file.Decls {
			fd, ok := d.(*ast.FuncDecl)
			if !ok || fd.Body == nil || pkg.TypesInfo.Defs[fd.Name] != fn {
				continue
			}
			found := false
			ast.Inspect(fd.Body, func(x ast.Node) bool {
				switch {
				case strings.HasPrefix(feature, "sel:"):
					if sel, ok := x.(*ast.SelectorExpr); ok && sel.Sel.Name == feature[4:] {
						found = true
					}
				case feature == "recv":
					if u, ok := x.(*ast.UnaryExpr); ok && u.Op.String() == "<-" {
						if tv, ok := pkg.TypesInfo.Types[u.X]; ok && strings.Contains(tv.Type.String(), "Event") {
							found = true
						}
					}
					if rs, ok := x.(*ast.RangeStmt); ok {
						if tv, ok := pkg.TypesInfo.Types[rs.X]; ok {
							if _, isChan := tv.Type.Underlying().(*types.Chan); isChan {
								found = true
							}
						}
					}
				}
				return !found
			})
			return found
		}
	}
	return false
}

// mergedRoles: a pinned helper whose body may have been inlined into its only caller.
var mergedRoles = []struct{ Missing, Host, Body string }{
	{"(*internal/utils/wpool.Pool).lazyResend", "(*internal/utils/wpool.Pool).lazySend", "sel:TryLock"},
}
