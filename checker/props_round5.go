package main

// Rules added after the fourth round of seeded changes (DESIGN.md 8.13). Each is a structural necessary
// condition of the property it is registered under, silent on the pinned tree and on the refactoring corpus.

import (
	"fmt"
	"go/ast"
	"go/token"
	"go/types"
	"strings"
)

// c16LifecycleUnderStopLock (seeded C16-A): the pool's context, cancel function and job channel are replaced
// only while the lock that orders senders against Stop (stopM) is write-held: a sender that sees the new context
// must see the new channel.
func c16LifecycleUnderStopLock(p *Prog, r *Report, rule string) {
	fi := p.Func(kPoolRun)
	if fi == nil {
		return
	}
	recv := "p"
	if fi.Decl.Recv != nil && len(fi.Decl.Recv.List[0].Names) == 1 {
		recv = fi.Decl.Recv.List[0].Names[0].Name
	}
	n := 0
	for _, ev := range p.DeepLockEvents(fi, nil, 2) {
		if ev.Kind != "fieldwrite" || ev.Field == nil || !isLifecycleField("internal/utils/wpool.Pool."+ev.Field.Name()) {
			continue
		}
		n++
		r.Check(holdsMode(ev.Held, recv+".stopM", "W"), rule, fmt.Sprintf("%s#%s written under the stop lock", kPoolRun, canonPoolField(ev.Field.Name())), p.pos(ev.Node),
			"replaced under W(stopM)", "Run replaces the pool's "+ev.Field.Name()+" without holding the lock that Send takes to read the context and the channel together: a Send that sees the new context can use the old, closed channel (panic, lost job)")
	}
	r.Floor(rule, "lifecycle-field-writes-in-Run", n, 2)
}

func canonPoolField(name string) string {
	switch name {
	case poolFields.Ctx:
		return "ctx"
	case poolFields.Cancel:
		return "cancel"
	case poolFields.Ch:
		return "ch"
	}
	return name
}

// c16ExecRunsJobSynchronously (seeded C16-B): the worker runs the job's function on its own stack, so that the
// worker's Done (and with it Stop) cannot come before the job has returned.
func c16ExecRunsJobSynchronously(p *Prog, r *Report, rule string) {
	fi := p.Func(kPoolExec)
	if fi == nil {
		return
	}
	info := fi.Pkg.TypesInfo
	calls, async := 0, ""
	var walk func(n ast.Node, inGo bool)
	walk = func(n ast.Node, inGo bool) {
		ast.Inspect(n, func(x ast.Node) bool {
			switch s := x.(type) {
			case *ast.GoStmt:
				walk(s.Call, true)
				return false
			case *ast.CallExpr:
				if sel, ok := ast.Unparen(s.Fun).(*ast.SelectorExpr); ok && sel.Sel.Name == "Fn" {
					if fv, ok := info.Uses[sel.Sel].(*types.Var); ok && fv.IsField() {
						calls++
						if inGo {
							async = p.pos(s)
						}
					}
				}
			}
			return true
		})
	}
	walk(fi.Decl.Body, false)
	if calls == 0 {
		r.Undecided(rule, kPoolExec+"#runs-the-job-itself", p.pos(fi.Decl), "the call of the job's function was not found")
		return
	}
	r.Check(async == "", rule, kPoolExec+"#runs-the-job-itself", p.pos(fi.Decl), "the job's function is called on the worker's stack",
		"the job's function is started in a goroutine of its own ("+async+"): the worker can report itself done, and Stop can return, while the job is still running against a database that is being closed")
}

// c20NoValidationBeforeEnv (seeded C20-A): the file is not judged before the environment had its say: if
// ParseConfig validates at all, the environment has been applied before.
func c20NoValidationBeforeEnv(p *Prog, r *Report, rule string) {
	fi := p.Func("config.ParseConfig")
	if fi == nil {
		return
	}
	f := p.FlatInlExcept(fi, kValid, kCfgParseEnv)
	valids := f.CallNodes(kValid)
	envs := f.CallNodes(kCfgParseEnv)
	if len(valids) == 0 {
		r.Hold(rule, "config.ParseConfig#no-validation-before-the-environment", p.pos(fi.Decl), "ParseConfig does not validate (the clients do, on the final value)")
		return
	}
	ok := len(envs) > 0
	for _, v := range valids {
		if !f.MustPrecede(setOf(envs), v) {
			ok = false
		}
	}
	r.Check(ok, rule, "config.ParseConfig#no-validation-before-the-environment", p.pos(f.Nodes[valids[0]].Ast), "validation only after the environment was applied",
		"ParseConfig validates the storage options before the environment is applied: a setting that is empty in the file and given in the environment is rejected although the effective configuration is valid (file < environment is broken)")
}

// c17ReadDirUnbounded (seeded C17-B): the directory listing behind every entry count is complete: the os wrapper
// lists with os.ReadDir, or with File.ReadDir / Readdir / Readdirnames and a count <= 0.
func c17ReadDirUnbounded(p *Prog, r *Report, rule string) {
	fi := p.Func("internal/utils/os.ReadDir")
	if fi == nil {
		r.Undecided(rule, "internal/utils/os.ReadDir", "", "the ReadDir wrapper was not found")
		return
	}
	info := fi.Pkg.TypesInfo
	bad, n := "", 0
	ast.Inspect(fi.Decl.Body, func(x ast.Node) bool {
		c, ok := x.(*ast.CallExpr)
		if !ok {
			return true
		}
		fn := calleeFunc(info, c)
		if fn == nil || fn.Pkg() == nil || fn.Pkg().Path() != "os" {
			return true
		}
		switch fn.Name() {
		case "ReadDir", "Readdir", "Readdirnames":
			n++
			if sig, _ := fn.Type().(*types.Signature); sig != nil && sig.Recv() != nil && len(c.Args) == 1 {
				if v, ok := constInt(info, c.Args[0]); !ok || v > 0 {
					bad = p.pos(c)
				}
			}
		}
		return true
	})
	if n == 0 {
		r.Undecided(rule, "internal/utils/os.ReadDir#complete-listing", p.pos(fi.Decl), "no directory-listing call found in the wrapper")
		return
	}
	r.Check(bad == "", rule, "internal/utils/os.ReadDir#complete-listing", p.pos(fi.Decl), "the wrapper lists the whole directory",
		"the wrapper lists at most a fixed number of entries ("+bad+"): entry counts saturate there, a directory is never seen as full and grows without bound")
}

func calleeFunc(info *types.Info, c *ast.CallExpr) *types.Func {
	switch f := ast.Unparen(c.Fun).(type) {
	case *ast.SelectorExpr:
		fn, _ := info.Uses[f.Sel].(*types.Func)
		return fn
	case *ast.Ident:
		fn, _ := info.Uses[f].(*types.Func)
		return fn
	}
	return nil
}

// c17DeleteRemovesOnlyTheContent (seeded C17-A, round 4): the content repository removes exactly the path it was
// asked to remove - never the directory around it (the registry still offers that directory).
func c17DeleteRemovesOnlyTheContent(p *Prog, r *Report, rule string) {
	n := 0
	for _, k := range sortedFuncKeys(p) {
		fi := p.Funcs[k]
		if fi.Decl == nil || fi.Decl.Body == nil || shortPath(fi.Pkg.PkgPath) != "internal/repository/content" {
			continue
		}
		info := fi.Pkg.TypesInfo
		params := map[types.Object]bool{}
		for _, o := range paramObjs(fi) {
			if o != nil {
				params[o] = true
			}
		}
		ast.Inspect(fi.Decl.Body, func(x ast.Node) bool {
			c, ok := x.(*ast.CallExpr)
			if !ok || !p.callIs(fi.Pkg, c, "internal/utils/os.Remove", "internal/utils/os.RemoveAll") || len(c.Args) != 1 {
				return true
			}
			n++
			r.Check(params[objOf(info, c.Args[0])], rule, fmt.Sprintf("%s#removes-only-its-argument/%d", k, n), p.pos(c), "removes the path it was given",
				"the content repository removes "+types.ExprString(c.Args[0])+", not the content path it was given: a directory the registry still offers disappears and every later write into that root fails")
			return true
		})
	}
	r.Floor(rule, "content-removals", n, 1)
}

// c13RegistryDeleteOnlyWhatWasFound (seeded C13-A, round 4): the registry acknowledges a removal only for a
// transaction it found: every success return of Repo.Delete is preceded by the removal from the storage.
func c13RegistryDeleteOnlyWhatWasFound(p *Prog, r *Report, rule string) {
	k := "(*internal/repository/transaction.Repo).Delete"
	fi := p.Func(k)
	if fi == nil {
		return
	}
	f := p.FlatInl(fi).SplitBools()
	info := fi.Pkg.TypesInfo
	dels := f.Match(func(n *GNode) bool {
		for _, c := range callsIn(n.Ast, false) {
			if sel, ok := ast.Unparen(c.Fun).(*ast.SelectorExpr); ok && sel.Sel.Name == "Delete" {
				// the registry's storage: an ordered map, under whatever name (a type with Load and Delete)
				if tv, ok := info.Types[sel.X]; ok {
					if strings.Contains(tv.Type.String(), "omap") {
						return true
					}
					ms := types.NewMethodSet(tv.Type)
					if _, isPtr := tv.Type.(*types.Pointer); !isPtr {
						ms = types.NewMethodSet(types.NewPointer(tv.Type))
					}
					hasLoad := false
					for i := 0; i < ms.Len(); i++ {
						if ms.At(i).Obj().Name() == "Load" {
							hasLoad = true
						}
					}
					if hasLoad && len(c.Args) == 1 {
						return true
					}
				}
			}
		}
		return false
	})
	if len(dels) == 0 {
		r.Undecided(rule, k+"#acknowledges-only-what-it-removed", p.pos(fi.Decl), "the removal from the registry's storage was not found")
		return
	}
	ok := true
	bad := ""
	for _, id := range f.successReturns(fi) {
		if !f.MustPrecedeNil(setOf(dels), id) {
			ok, bad = false, p.pos(f.Nodes[id].Ast)
		}
	}
	r.Check(ok, rule, k+"#acknowledges-only-what-it-removed", p.pos(fi.Decl), "every success return follows the removal from the storage",
		"Repo.Delete reports success at "+bad+" without having removed a registered transaction: Commit / Rollback naming an id no Begin issued go on into the version stores (the whole committed store is re-published or wiped)")
}

// c13InterceptorsKeepTheId (seeded C13-B, round 4): the server interceptors hand every transaction id they are
// given on to the use cases: between reading the metadata and model.StoreTxId no test other than "is there a
// value" may drop it.
func c13InterceptorsKeepTheId(p *Prog, r *Report, rule string) {
	for _, ik := range []string{"internal/utils/grpc/interceptors/server.ContextInterceptor", "internal/utils/grpc/interceptors/server.ContextStreamInterceptor"} {
		root := p.Func(ik)
		if root == nil {
			continue
		}
		// the function (the interceptor or a helper of its package) that calls StoreTxId
		var owner *FuncInfo
		for _, cand := range localClosure(p, ik) {
			if len(p.FlatOf(cand).CallNodes("internal/model.StoreTxId")) > 0 {
				owner = cand
			}
		}
		cons := ik + "#id-is-handed-on-unconditionally"
		if owner == nil {
			r.Undecided(rule, cons, p.pos(root.Decl), "model.StoreTxId is not called by the interceptor or its helpers")
			continue
		}
		f := p.FlatOf(owner)
		info := owner.Pkg.TypesInfo
		stores := setOf(f.CallNodes("internal/model.StoreTxId"))
		bad := ""
		for _, n := range f.Nodes {
			if !n.IsCond {
				continue
			}
			// a condition that decides whether the id is stored: one edge reaches the store, the other can leave
			// without it
			reachStore, avoid := false, false
			for _, e := range n.Succs {
				rs := f.Reach([]int{e.To}, func(x *GNode) bool { return stores[x.ID] }, nil)
				hit := stores[e.To]
				for s := range stores {
					for _, pr := range f.Nodes[s].Preds {
						if rs[pr] {
							hit = true
						}
					}
				}
				exit := false
				for _, ex := range f.Exits() {
					if rs[ex] || e.To == ex {
						exit = true
					}
				}
				if hit {
					reachStore = true
				}
				if exit && !hit {
					avoid = true
				}
			}
			if !reachStore || !avoid {
				continue
			}
			// allowed: presence tests (ok, len(x) > 0 / == 0, x != "")
			calls := callsIn(n.Ast, false)
			for _, c := range calls {
				if id, ok := c.Fun.(*ast.Ident); ok && id.Name == "len" {
					continue
				}
				bad = p.pos(n.Ast) + ": " + types.ExprString(n.Ast.(ast.Expr))
			}
			ast.Inspect(n.Ast, func(x ast.Node) bool {
				if id, ok := x.(*ast.Ident); ok {
					if o := objOf(info, id); o != nil && isErrorType(o.Type()) {
						bad = p.pos(n.Ast) + ": " + types.ExprString(n.Ast.(ast.Expr))
					}
				}
				return true
			})
		}
		r.Check(bad == "", rule, cons, p.pos(owner.Decl), "only the presence of the header decides whether the id is stored",
			"the interceptor drops a transaction id it was given ("+bad+"): the request then runs outside any transaction instead of failing with ErrTxNotFound, and writes reach the committed store")
	}
}

// c15SingletonsBuiltOnce (seeded C09-A, round 4): every repository / use case of the container is constructed in
// exactly one place (its accessor): a second construction site gives one consumer a private copy of shared state
// (the collector a transaction registry nobody registers in).
func c15SingletonsBuiltOnce(p *Prog, r *Report, rule string) {
	pkg := p.Pkg("internal/di")
	if pkg == nil {
		return
	}
	sites := map[string][]string{}
	for _, k := range sortedFuncKeys(p) {
		fi := p.Funcs[k]
		if fi.Decl == nil || fi.Decl.Body == nil || fi.Pkg != pkg {
			continue
		}
		ast.Inspect(fi.Decl.Body, func(x ast.Node) bool {
			c, ok := x.(*ast.CallExpr)
			if !ok {
				return true
			}
			h := p.staticCallee(fi.Pkg, c)
			if h == nil || h.Pkg == pkg || h.Decl == nil || h.Decl.Recv != nil || !strings.HasPrefix(h.Obj.Name(), "New") {
				return true
			}
			sp := shortPath(h.Pkg.PkgPath)
			if !strings.HasPrefix(sp, "internal/repository/") && !strings.HasPrefix(sp, "internal/usecase/") && sp != "internal/utils/wpool" && sp != "internal/db/badger" {
				return true
			}
			sites[h.Key] = append(sites[h.Key], p.pos(c))
			return true
		})
	}
	n := 0
	for _, k := range sortedKeys(sites) {
		n++
		r.Check(len(sites[k]) == 1, rule, "internal/di#"+k+" constructed once", sites[k][0], "one construction site",
			fmt.Sprintf("%s is constructed at %d places in the container (%s): the consumers do not share one instance", k, len(sites[k]), strings.Join(sites[k], ", ")))
	}
	r.Floor(rule, "container-constructions", n, 8)
}

func sortedKeys(m map[string][]string) []string {
	var ks []string
	for k := range m {
		ks = append(ks, k)
	}
	sortStrings(ks)
	return ks
}

func sortStrings(s []string) {
	for i := 1; i < len(s); i++ {
		for j := i; j > 0 && s[j] < s[j-1]; j-- {
			s[j], s[j-1] = s[j-1], s[j]
		}
	}
}

// c11NoStreamOrKeepaliveLimits (seeded C11-A/B, round 4): every open handle of the gRPC client is a stream of one
// connection for as long as it is open; options that cap the number of streams or let one side police the other's
// keepalive pings make long-lived or numerous handles fail where the inline client does not.
func c11NoStreamOrKeepaliveLimits(p *Prog, r *Report, rule string) {
	n := 0
	for _, k := range sortedFuncKeys(p) {
		fi := p.Funcs[k]
		if fi.Decl == nil || fi.Decl.Body == nil {
			continue
		}
		info := fi.Pkg.TypesInfo
		ast.Inspect(fi.Decl.Body, func(x ast.Node) bool {
			c, ok := x.(*ast.CallExpr)
			if !ok {
				return true
			}
			for _, nm := range []string{"MaxConcurrentStreams", "WithKeepaliveParams", "KeepaliveParams", "KeepaliveEnforcementPolicy", "ConnectionTimeout", "MaxHeaderListSize", "WithMaxHeaderListSize"} {
				if isFunc(info, c, "google.golang.org/grpc", nm) {
					n++
					r.Viol(rule, fmt.Sprintf("%s#grpc.%s", k, nm), p.pos(c), "grpc."+nm+" is set on one side of the connection only: handles that stay open (a created file, a reader) are streams of that connection, so a cap on streams or one-sided keepalive policing makes calls hang or fail with ErrUnknown where the inline client succeeds")
				}
			}
			return true
		})
	}
	if n == 0 {
		r.Hold(rule, "grpc-stream-and-keepalive-options", "", "no option caps streams or changes keepalive: the library defaults apply on both sides")
	}
}

// c06AllStoreLockSpansTheKeyLoop (seeded C06-B, round 4): a rollback (and a collection pass) unlinks all versions
// of the transaction under one all-store write region: the lock is not taken inside the loop over the keys.
func c06AllStoreLockSpansTheKeyLoop(p *Prog, r *Report, rule string) {
	for _, k := range []string{kCoreDeleteTx, kCoreDeleteOld} {
		fi := p.Func(k)
		if fi == nil {
			continue
		}
		f := p.FlatInl(fi)
		scopes := []*ast.BlockStmt{fi.Decl.Body}
		seen := map[string]bool{}
		for _, ii := range f.Inl {
			if h := p.Func(ii.Callee); h != nil && h.Decl != nil && h.Decl.Body != nil && !seen[ii.Callee] {
				seen[ii.Callee] = true
				scopes = append(scopes, h.Decl.Body)
			}
		}
		bad := ""
		loops := 0
		for _, sc := range scopes {
			for _, rs := range rangeLoops(sc) {
				c, ok := ast.Unparen(rs.X).(*ast.CallExpr)
				if !ok || !p.callIs(fi.Pkg, c, kTxFiles) {
					continue
				}
				loops++
				ast.Inspect(rs.Body, func(x ast.Node) bool {
					if lc, ok := x.(*ast.CallExpr); ok {
						if op := p.lockOpOf(fi.Pkg, lc); op != nil && op.Acquire && strings.HasSuffix(op.Path, "."+allStoreField+".m") {
							bad = p.pos(lc)
						}
					}
					return true
				})
			}
		}
		if loops == 0 {
			r.Undecided(rule, k+"#one-all-store-region", p.pos(fi.Decl), "no loop over the store's keys found")
			continue
		}
		r.Check(bad == "", rule, k+"#one-all-store-region", p.pos(fi.Decl), "the all-store lock is not taken per key",
			"the all-store lock is taken inside the loop over the keys ("+bad+"): a ReadUncommitted listing granted between two keys sees the operation half done")
	}
}

// c12PipeClosedOnlyByItsWriter (seeded C01-A / C10-A, round 4): Close of the pipe is the end-of-stream signal of a
// successful upload; nothing in the inline client calls it on the writer's behalf (a cancelled context must not
// publish the bytes written so far).
func c12PipeClosedOnlyByItsWriter(p *Prog, r *Report, rule string) {
	closeKey := "(*internal/utils/async.readWriter).Close"
	n := 0
	for _, k := range sortedFuncKeys(p) {
		fi := p.Funcs[k]
		if fi.Decl == nil || fi.Decl.Body == nil || shortPath(fi.Pkg.PkgPath) != "pkg/inline/db" {
			continue
		}
		ast.Inspect(fi.Decl.Body, func(x ast.Node) bool {
			c, ok := x.(*ast.CallExpr)
			if !ok {
				return true
			}
			// a Close whose receiver is statically the pipe (its type or the interface its constructor returns);
			// Close on an arbitrary io.Closer is not it
			hit := false
			if sel, ok := ast.Unparen(c.Fun).(*ast.SelectorExpr); ok && sel.Sel.Name == "Close" && len(c.Args) == 0 {
				if tv, ok := fi.Pkg.TypesInfo.Types[sel.X]; ok && strings.Contains(tv.Type.String(), "internal/utils/async") {
					hit = true
				}
			}
			_ = closeKey
			if hit {
				n++
				r.Viol(rule, fmt.Sprintf("%s#closes-the-pipe/%d", k, n), p.pos(c), "the inline client closes the upload pipe itself: Close is the writer's end-of-stream signal, so the storing side sees a clean end and publishes the bytes written so far (a cancelled or timed-out Create overwrites the key with a prefix)")
			}
			return true
		})
	}
	if n == 0 {
		r.Hold(rule, "pkg/inline/db#pipe-closed-only-by-its-writer", "", "no call of the pipe's Close in the inline client")
	}
}

// c01NotFoundOnlyFromOpen (seeded C01-B, round 4): the content repository reports "not found" only when opening
// the file failed: an existing file - of any length, zero included - is a value.
func c01NotFoundOnlyFromOpen(p *Prog, r *Report, rule string) {
	fi := p.Func(kContentGet)
	if fi == nil {
		return
	}
	info := fi.Pkg.TypesInfo
	f := p.FlatInl(fi)
	sites := f.CallSites("internal/utils/os.Open")
	if len(sites) != 1 || sites[0].Kind != "assigned" {
		r.Undecided(rule, kContentGet+"#not-found-only-when-open-failed", p.pos(fi.Decl), "the Open call and its error variable were not found")
		return
	}
	st := f.ErrStatesFrom(sites[0].Node, sites[0].ErrVar)
	bad := ""
	for _, id := range f.ReturnNodes() {
		rs := f.returnStmt(id)
		if rs == nil {
			continue
		}
		mentions := false
		for _, e := range rs.Results {
			ast.Inspect(e, func(x ast.Node) bool {
				if ex, ok := x.(ast.Expr); ok && exprObjKey(info, ex) == "fs_db.ErrNotFound" {
					mentions = true
				}
				return true
			})
		}
		if mentions && len(st.at(id)) == 0 {
			bad = p.pos(rs)
		}
	}
	r.Check(bad == "", rule, kContentGet+"#not-found-only-when-open-failed", p.pos(fi.Decl), "ErrNotFound is produced only on the error path of Open",
		"content.Get returns ErrNotFound at "+bad+" although the file was opened: a stored value (an empty one) reads as missing while GetKeys still lists the key")
}

// c04LoadRefusesNoRecord (seeded C04-B, round 4): recovery accepts every record the repository decoded: Load
// returns an error only when a call it made failed.
func c04LoadRefusesNoRecord(p *Prog, r *Report, rule string) {
	fi := p.Func(kCoreLoad)
	if fi == nil {
		return
	}
	info := fi.Pkg.TypesInfo
	f := p.FlatInl(fi)
	sig := fi.Sig()
	bad := ""
	for _, id := range f.ReturnNodes() {
		if isRet, nilErr := f.returnsNilError(id, sig); !isRet || nilErr {
			continue
		}
		rs := f.returnStmt(id)
		if rs == nil || len(rs.Results) == 0 {
			continue
		}
		last := rs.Results[len(rs.Results)-1]
		fromCall := false
		ast.Inspect(last, func(x ast.Node) bool {
			if idn, ok := x.(*ast.Ident); ok {
				if o, ok := objOf(info, idn).(*types.Var); ok && !o.IsField() && isErrorType(o.Type()) && o.Pkg() == fi.Pkg.Types && o.Parent() != fi.Pkg.Types.Scope() {
					fromCall = true
				}
			}
			return true
		})
		if !fromCall {
			bad = p.pos(rs) + " (" + types.ExprString(last) + ")"
		}
	}
	r.Check(bad == "", rule, kCoreLoad+"#refuses-no-decoded-record", p.pos(fi.Decl), "Load fails only with the error of a call it made",
		"Load originates an error of its own at "+bad+": a record that an ordinary operation can write (a tombstone of the empty key) makes the database unopenable and every acknowledged write unavailable")
}

// c19DecoderReadsEveryFieldFromItsBytes (seeded C19-A, round 4): every assignment of a record field in
// unmarshalFile takes its value from the bytes of the record.
func c19DecoderReadsEveryFieldFromItsBytes(p *Prog, r *Report, rule string) {
	unm := p.Func(kUnmarshal)
	if unm == nil {
		return
	}
	info := unm.Pkg.TypesInfo
	var dataParam types.Object
	for _, o := range paramObjs(unm) {
		if o != nil {
			if sl, ok := o.Type().Underlying().(*types.Slice); ok && types.Identical(sl.Elem(), types.Typ[types.Byte]) {
				dataParam = o
			}
		}
	}
	if dataParam == nil {
		return
	}
	// locals filled from the record: copy(local[:], data[..]) and x := <expr using data>
	derived := map[types.Object]bool{dataParam: true}
	for changed := true; changed; {
		changed = false
		ast.Inspect(unm.Decl.Body, func(x ast.Node) bool {
			switch s := x.(type) {
			case *ast.AssignStmt:
				if len(s.Lhs) == len(s.Rhs) {
					for i, l := range s.Lhs {
						if o := objOf(info, l); o != nil && !derived[o] {
							for d := range derived {
								if usesObj(info, s.Rhs[i], d) {
									derived[o] = true
									changed = true
								}
							}
						}
					}
				}
			case *ast.CallExpr:
				if id, ok := s.Fun.(*ast.Ident); ok && id.Name == "copy" && len(s.Args) == 2 {
					if dst, ok := ast.Unparen(s.Args[0]).(*ast.SliceExpr); ok {
						if o := objOf(info, dst.X); o != nil && !derived[o] {
							for d := range derived {
								if usesObj(info, s.Args[1], d) {
									derived[o] = true
									changed = true
								}
							}
						}
					}
				}
			}
			return true
		})
	}
	n := 0
	ast.Inspect(unm.Decl.Body, func(x ast.Node) bool {
		as, ok := x.(*ast.AssignStmt)
		if !ok || len(as.Lhs) != len(as.Rhs) {
			return true
		}
		for i, l := range as.Lhs {
			sel, ok := ast.Unparen(l).(*ast.SelectorExpr)
			if !ok || fileFieldIn(unm, sel, 0) == "" {
				continue
			}
			n++
			uses := false
			for d := range derived {
				if usesObj(info, as.Rhs[i], d) {
					uses = true
				}
			}
			r.Check(uses, rule, fmt.Sprintf("%s#%s=/%d", kUnmarshal, sel.Sel.Name, n), p.pos(as), "assigned from the record's bytes",
				"unmarshalFile sets "+sel.Sel.Name+" to "+types.ExprString(as.Rhs[i])+", a value that is not read from the record: some encoded records decode to something else than was encoded")
		}
		return true
	})
	r.Floor(rule, "decoder-field-assignments", n, 4)
	_ = token.ADD
}

func init() {
	wrap := func(id string, extra func(p *Prog, r *Report)) {
		old := registry[id]
		registry[id] = func(p *Prog, r *Report) {
			old(p, r)
			extra(p, r)
		}
	}
	wrap("C16", func(p *Prog, r *Report) {
		r.Rule("C16.i", "the pool's context, cancel function and job channel are replaced only under the write lock that orders senders against Stop")
		c16LifecycleUnderStopLock(p, r, "C16.i")
		r.Rule("C16.j", "the worker calls the job's function on its own stack (Stop returns only after in-flight jobs have finished)")
		c16ExecRunsJobSynchronously(p, r, "C16.j")
	})
	wrap("C20", func(p *Prog, r *Report) {
		r.Rule("C20.e", "ParseConfig does not validate before the environment has been applied")
		c20NoValidationBeforeEnv(p, r, "C20.e")
	})
	wrap("C17", func(p *Prog, r *Report) {
		r.Rule("C17.l", "entry counts come from complete listings: the os.ReadDir wrapper lists the whole directory")
		c17ReadDirUnbounded(p, r, "C17.l")
		r.Rule("C17.m", "the content repository removes exactly the path it is given, never the directory around it")
		c17DeleteRemovesOnlyTheContent(p, r, "C17.m")
	})
	wrap("C13", func(p *Prog, r *Report) {
		r.Rule("C13.g", "the registry acknowledges the removal of a transaction only when it removed one")
		c13RegistryDeleteOnlyWhatWasFound(p, r, "C13.g")
		r.Rule("C13.h", "the server interceptors hand on every transaction id they are given (only the presence of the header decides)")
		c13InterceptorsKeepTheId(p, r, "C13.h")
	})
	wrap("C15", func(p *Prog, r *Report) {
		r.Rule("C15.e", "every repository / use case of the container has exactly one construction site")
		c15SingletonsBuiltOnce(p, r, "C15.e")
	})
	wrap("C09", func(p *Prog, r *Report) {
		r.Rule("C09.h", "the collector consults the registry the transactions register in: one construction site per container singleton (= C15.e)")
		c15SingletonsBuiltOnce(p, r, "C09.h")
	})
	wrap("C11", func(p *Prog, r *Report) {
		r.Rule("C11.l", "no gRPC option caps the number of streams or changes keepalive policing on one side")
		c11NoStreamOrKeepaliveLimits(p, r, "C11.l")
	})
	wrap("C06", func(p *Prog, r *Report) {
		r.Rule("C06.h", "rollback and collection unlink under one all-store write region: the lock is not taken inside the loop over the keys")
		c06AllStoreLockSpansTheKeyLoop(p, r, "C06.h")
	})
	for _, id := range []string{"C12", "C10", "C01"} {
		rule := map[string]string{"C12": "C12.g", "C10": "C10.k", "C01": "C01.g"}[id]
		wrap(id, func(p *Prog, r *Report) {
			r.Rule(rule, "the upload pipe is closed only by its writer: nothing in the inline client calls its Close (a cancelled Create must not publish a prefix)")
			c12PipeClosedOnlyByItsWriter(p, r, rule)
		})
	}
	wrap("C01", func(p *Prog, r *Report) {
		r.Rule("C01.h", "the content repository reports ErrNotFound only when opening the file failed")
		c01NotFoundOnlyFromOpen(p, r, "C01.h")
	})
	for _, id := range []string{"C04", "C05"} {
		rule := map[string]string{"C04": "C04.j", "C05": "C05.f"}[id]
		wrap(id, func(p *Prog, r *Report) {
			r.Rule(rule, "recovery refuses no decoded record: Load fails only with the error of a call it made")
			c04LoadRefusesNoRecord(p, r, rule)
		})
	}
	wrap("C19", func(p *Prog, r *Report) {
		r.Rule("C19.i", "every assignment of a record field in the decoder takes its value from the record's bytes")
		c19DecoderReadsEveryFieldFromItsBytes(p, r, "C19.i")
	})
}
