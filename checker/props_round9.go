package main

// Rules added after the seventh round of seeded changes (seeds Cxx-M / -N).

import (
	"fmt"
	"go/ast"
	"go/constant"
	"go/token"
	"go/types"
	"golang.org/x/tools/go/packages"
	"sort"
	"strings"

	"golang.org/x/tools/go/types/typeutil"
)

func wrapRule(id string, extra func(p *Prog, r *Report)) {
	old := registry[id]
	registry[id] = func(p *Prog, r *Report) {
		old(p, r)
		extra(p, r)
	}
}

func init() {
	for id, rule := range map[string]string{"C19": "C19.l", "C04": "C04.j"} {
		id, rule := id, rule
		wrapRule(id, func(p *Prog, r *Report) {
			r.Rule(rule, "a prefix scan of the Badger layer ends with the prefix: the loop over an iterator is bounded by ValidForPrefix(prefix), or the iterator's options carry the prefix (the version records \"file/\" are followed in the key space by the content records \"fileContent/\": an unbounded scan decodes those as versions); and the bytes a scan hands out have the length the copy reported (the result of ValueCopy / KeyCopy is what is kept, not the buffer passed in, whose length comes from the estimate ValueSize)")
			c19ScanBounded(p, r, rule)
		})
	}
	for id, rule := range map[string]string{"C10": "C10.n", "C17": "C17.q"} {
		id, rule := id, rule
		wrapRule(id, func(p *Prog, r *Report) {
			r.Rule(rule, "no unsigned quantity of the placement path (free space, directory counts and limits) is computed by a subtraction that can wrap: every subtraction of unsigned values in disk.Usage, the directory registry, the directory use case, store.Set and the model's Dir / Stat is dominated by a comparison that makes the minuend the larger one (a full root or an over-full directory otherwise looks like the emptiest one)")
			c10NoWrappingSubtraction(p, r, rule)
		})
	}
}

// c19ScanBounded (seeded C19-M, C19-N).
func c19ScanBounded(p *Prog, r *Report, rule string) {
	nLoops, nCopies := 0, 0
	for _, k := range sortedFuncKeys(p) {
		fi := p.Funcs[k]
		if shortPath(fi.Pkg.PkgPath) != pkgBadger || fi.Decl.Body == nil {
			continue
		}
		info := fi.Pkg.TypesInfo
		// iterators created here and whether their options carry a prefix
		iters := map[types.Object]bool{}
		ast.Inspect(fi.Decl.Body, func(x ast.Node) bool {
			as, ok := x.(*ast.AssignStmt)
			if !ok || len(as.Rhs) != 1 || len(as.Lhs) != 1 {
				return true
			}
			c, ok := ast.Unparen(as.Rhs[0]).(*ast.CallExpr)
			if !ok || !isBadgerMethod(info, c, "Txn", "NewIterator") || len(c.Args) != 1 {
				return true
			}
			o := objOf(info, as.Lhs[0])
			if o == nil {
				return true
			}
			iters[o] = optsCarryPrefix(info, fi.Decl.Body, c.Args[0])
			return true
		})
		if len(iters) == 0 {
			// the copying accessors can be used on items however they were obtained
			goto copies
		}
		ast.Inspect(fi.Decl.Body, func(x ast.Node) bool {
			fs, ok := x.(*ast.ForStmt)
			if !ok || fs.Cond == nil {
				return true
			}
			var it types.Object
			form := ""
			ast.Inspect(fs.Cond, func(y ast.Node) bool {
				c, ok := y.(*ast.CallExpr)
				if !ok {
					return true
				}
				sel, ok := ast.Unparen(c.Fun).(*ast.SelectorExpr)
				if !ok {
					return true
				}
				o := objOf(info, sel.X)
				if _, isIt := iters[o]; !isIt {
					return true
				}
				switch {
				case isBadgerMethod(info, c, "Iterator", "ValidForPrefix"):
					it, form = o, "prefix"
				case isBadgerMethod(info, c, "Iterator", "Valid"):
					if form == "" {
						it, form = o, "valid"
					}
				}
				return true
			})
			if it == nil {
				return true
			}
			nLoops++
			cons := fmt.Sprintf("%s#scan-bounded/%d", k, nLoops)
			switch {
			case form == "prefix":
				r.Hold(rule, cons, p.pos(fs.Cond), "the loop ends with the prefix (ValidForPrefix)")
			case iters[it]:
				r.Hold(rule, cons, p.pos(fs.Cond), "the iterator's options carry the prefix")
			default:
				r.Viol(rule, cons, p.pos(fs.Cond), "the scan runs while the iterator is Valid() and its options carry no prefix: it does not stop at the end of the prefix but at the end of the key space, and every record behind the version records (the content records \"fileContent/<id>\") is handed to the version decoder - a reopen fails with ErrInvalidFileFormat or loads phantom versions")
			}
			return true
		})
	copies:
		ast.Inspect(fi.Decl.Body, func(x ast.Node) bool {
			var call *ast.CallExpr
			kept := true
			switch st := x.(type) {
			case *ast.ExprStmt:
				call, _ = ast.Unparen(st.X).(*ast.CallExpr)
				kept = false
			case *ast.AssignStmt:
				if len(st.Rhs) == 1 {
					call, _ = ast.Unparen(st.Rhs[0]).(*ast.CallExpr)
					if id, ok := st.Lhs[0].(*ast.Ident); ok && id.Name == "_" {
						kept = false
					}
				}
			}
			if call == nil || !(isBadgerMethod(info, call, "Item", "ValueCopy") || isBadgerMethod(info, call, "Item", "KeyCopy")) {
				return true
			}
			nCopies++
			cons := fmt.Sprintf("%s#copy-result-kept/%d", k, nCopies)
			r.Check(kept, rule, cons, p.pos(call), "the slice the copy returns is what is kept",
				"the result of "+types.ExprString(call.Fun)+" is dropped and the buffer passed in is kept: only the result has the value's true length (the buffer was sized beforehand, by the estimate ValueSize for values in the value log: one or two bytes too long), so large records come back with zero bytes appended to the key")
			return true
		})
	}
	r.Floor(rule, "iterator-loops-in-the-badger-layer", nLoops, 1)
}

// optsCarryPrefix: the iterator options expression sets Prefix (in a literal, or a local that is assigned .Prefix).
func optsCarryPrefix(info *types.Info, body *ast.BlockStmt, e ast.Expr) bool {
	e = ast.Unparen(e)
	if cl, ok := e.(*ast.CompositeLit); ok {
		for _, el := range cl.Elts {
			if kv, ok := el.(*ast.KeyValueExpr); ok {
				if id, ok := kv.Key.(*ast.Ident); ok && id.Name == "Prefix" {
					return true
				}
			}
		}
		return false
	}
	o := objOf(info, e)
	if o == nil {
		return false
	}
	found := false
	ast.Inspect(body, func(x ast.Node) bool {
		switch st := x.(type) {
		case *ast.AssignStmt:
			for i, l := range st.Lhs {
				if sel, ok := ast.Unparen(l).(*ast.SelectorExpr); ok && sel.Sel.Name == "Prefix" && objOf(info, sel.X) == o {
					found = true
				}
				if objOf(info, l) == o && i < len(st.Rhs) && len(st.Lhs) == len(st.Rhs) {
					if cl, ok := ast.Unparen(st.Rhs[i]).(*ast.CompositeLit); ok && optsCarryPrefix(info, body, cl) {
						found = true
					}
				}
			}
		}
		return true
	})
	return found
}

// c10NoWrappingSubtraction (seeded C10-M, C17-N).
func c10NoWrappingSubtraction(p *Prog, r *Report, rule string) {
	scope := map[string]bool{"internal/utils/disk": true, "internal/repository/dir": true, "internal/usecase/dir": true, "internal/usecase/store": true, "internal/model": true}
	n := 0
	isUnsigned := func(t types.Type) bool {
		b, ok := t.Underlying().(*types.Basic)
		return ok && b.Info()&types.IsUnsigned != 0
	}
	for _, k := range sortedFuncKeys(p) {
		fi := p.Funcs[k]
		if !scope[shortPath(fi.Pkg.PkgPath)] || fi.Decl.Body == nil {
			continue
		}
		info := fi.Pkg.TypesInfo
		var stack []ast.Node
		ast.Inspect(fi.Decl.Body, func(x ast.Node) bool {
			if x == nil {
				stack = stack[:len(stack)-1]
				return true
			}
			stack = append(stack, x)
			var a, b ast.Expr
			switch e := x.(type) {
			case *ast.BinaryExpr:
				if e.Op == token.SUB {
					a, b = e.X, e.Y
				}
			case *ast.AssignStmt:
				if e.Tok == token.SUB_ASSIGN && len(e.Lhs) == 1 && len(e.Rhs) == 1 {
					a, b = e.Lhs[0], e.Rhs[0]
				}
			}
			if a == nil {
				return true
			}
			tv, ok := info.Types[a]
			if !ok || !isUnsigned(tv.Type) {
				return true
			}
			if whole, ok := x.(ast.Expr); ok {
				if wtv, ok := info.Types[whole]; ok && wtv.Value != nil {
					return true // a constant expression
				}
			}
			n++
			cons := fmt.Sprintf("%s#subtraction/%s", k, types.ExprString(a)+" - "+types.ExprString(b))
			guarded := subtractionGuarded(info, fi.Decl.Body, stack, a, b)
			r.Check(guarded, rule, cons, p.pos(x), "the minuend is known to be the larger value here",
				"unsigned subtraction "+types.ExprString(a)+" - "+types.ExprString(b)+" without a comparison that excludes "+types.ExprString(a)+" < "+types.ExprString(b)+": the result wraps to a huge value exactly in the boundary case (a full root reports 2^64-n bytes free and every other root is skipped; an over-full directory looks like it has room and is never retired)")
			return true
		})
	}
	r.Analysed["unsigned_subtractions_in_placement_path"] = n
}

// subtractionGuarded: an enclosing if / for condition says a > b or a >= b (in either spelling), or an earlier
// statement of an enclosing block leaves (return / continue / break) when a < b or a <= b.
func subtractionGuarded(info *types.Info, body *ast.BlockStmt, stack []ast.Node, a, b ast.Expr) bool {
	as, bs := types.ExprString(ast.Unparen(a)), types.ExprString(ast.Unparen(b))
	rel := func(cond ast.Expr) (ge, lt bool) {
		ast.Inspect(cond, func(y ast.Node) bool {
			be, ok := y.(*ast.BinaryExpr)
			if !ok {
				return true
			}
			xs, ys := types.ExprString(ast.Unparen(be.X)), types.ExprString(ast.Unparen(be.Y))
			switch {
			case xs == as && ys == bs:
				switch be.Op {
				case token.GTR, token.GEQ:
					ge = true
				case token.LSS, token.LEQ:
					lt = true
				}
			case xs == bs && ys == as:
				switch be.Op {
				case token.LSS, token.LEQ:
					ge = true
				case token.GTR, token.GEQ:
					lt = true
				}
			}
			return true
		})
		return
	}
	for i := len(stack) - 1; i >= 0; i-- {
		switch st := stack[i].(type) {
		case *ast.IfStmt:
			// inside the then-branch of a >= b, or the else-branch of a < b
			if i+1 < len(stack) {
				ge, lt := rel(st.Cond)
				if stack[i+1] == st.Body && ge && !strings.Contains(types.ExprString(st.Cond), "||") {
					return true
				}
				if st.Else != nil && stack[i+1] == st.Else && lt && !strings.Contains(types.ExprString(st.Cond), "&&") {
					return true
				}
			}
		case *ast.BlockStmt:
			// an earlier statement of this block leaves when a < b
			for _, s := range st.List {
				if i+1 < len(stack) && s == stack[i+1] {
					break
				}
				ifs, ok := s.(*ast.IfStmt)
				if !ok || ifs.Else != nil || len(ifs.Body.List) == 0 {
					continue
				}
				_, lt := rel(ifs.Cond)
				if !lt || strings.Contains(types.ExprString(ifs.Cond), "&&") {
					continue
				}
				switch ifs.Body.List[len(ifs.Body.List)-1].(type) {
				case *ast.ReturnStmt, *ast.BranchStmt:
					return true
				}
			}
		}
	}
	_ = body
	return false
}

var _ = sort.Strings
var _ = typeutil.Callee

func init() {
	wrapRule("C15", func(p *Prog, r *Report) {
		r.Rule("C15.g", "a pseudo-random generator kept in a field of a shared object is safe to share: every *rand.Rand (math/rand or math/rand/v2) that a constructor stores in a struct field is built over a source of the module whose draw holds a mutex, or each use of the field happens under a lock of its owner (rand.Rand itself is not safe for concurrent use; the id generator and the directory shuffle are reached from every API goroutine)")
		c15RandInFields(p, r, "C15.g")
	})
}

// c15RandInFields (seeded C15-M).
func c15RandInFields(p *Prog, r *Report, rule string) {
	isRandNew := func(info *types.Info, c *ast.CallExpr) bool {
		return (isFunc(info, c, "math/rand", "New") || isFunc(info, c, "math/rand/v2", "New")) && len(c.Args) == 1
	}
	syncSource := func(info *types.Info, src ast.Expr) bool {
		st := info.Types[src].Type
		if pt, ok := st.(*types.Pointer); ok {
			st = pt.Elem()
		}
		nt, ok := st.(*types.Named)
		if !ok || nt.Obj().Pkg() == nil || !isProductPath(nt.Obj().Pkg().Path()) {
			return false
		}
		for _, m := range []string{"Uint64", "Int63"} {
			for _, mk := range []string{"(*" + shortPath(nt.Obj().Pkg().Path()) + "." + nt.Obj().Name() + ")." + m, "(" + shortPath(nt.Obj().Pkg().Path()) + "." + nt.Obj().Name() + ")." + m} {
				if mf := p.Funcs[mk]; mf != nil {
					for _, ev := range p.LockFlow(mf, nil).Events {
						if ev.Kind == "call" && len(ev.Held) > 0 {
							return true
						}
					}
				}
			}
		}
		return false
	}
	n := 0
	for _, k := range sortedFuncKeys(p) {
		fi := p.Funcs[k]
		if fi.Decl.Body == nil {
			continue
		}
		info := fi.Pkg.TypesInfo
		ast.Inspect(fi.Decl.Body, func(x ast.Node) bool {
			// field: rand.New(src) in a composite literal, or x.field = rand.New(src)
			var fld *types.Var
			var call *ast.CallExpr
			switch st := x.(type) {
			case *ast.KeyValueExpr:
				if c, ok := ast.Unparen(st.Value).(*ast.CallExpr); ok && isRandNew(info, c) {
					if id, ok := st.Key.(*ast.Ident); ok {
						fld, _ = info.Uses[id].(*types.Var)
						call = c
					}
				}
			case *ast.AssignStmt:
				if len(st.Lhs) == 1 && len(st.Rhs) == 1 {
					if c, ok := ast.Unparen(st.Rhs[0]).(*ast.CallExpr); ok && isRandNew(info, c) {
						if sel, ok := ast.Unparen(st.Lhs[0]).(*ast.SelectorExpr); ok {
							fld, _ = info.Uses[sel.Sel].(*types.Var)
							call = c
						}
					}
				}
			}
			if fld == nil || !fld.IsField() || call == nil {
				return true
			}
			n++
			cons := fmt.Sprintf("%s#rand-field %s", k, fld.Name())
			if syncSource(info, call.Args[0]) {
				r.Hold(rule, cons, p.pos(call), "built over a synchronised source of the module")
				return true
			}
			// every use of the field under a lock
			bad := ""
			uses := 0
			for _, uk := range sortedFuncKeys(p) {
				ufi := p.Funcs[uk]
				if ufi.Decl.Body == nil || uk == k {
					continue
				}
				uinfo := ufi.Pkg.TypesInfo
				var lr *LockResult
				ast.Inspect(ufi.Decl.Body, func(y ast.Node) bool {
					c, ok := y.(*ast.CallExpr)
					if !ok {
						return true
					}
					mentions := false
					check := func(e ast.Expr) {
						ast.Inspect(e, func(z ast.Node) bool {
							if _, isCall := z.(*ast.CallExpr); isCall && z != ast.Node(c) {
								return false
							}
							if sel, ok := z.(*ast.SelectorExpr); ok && uinfo.Uses[sel.Sel] == fld {
								mentions = true
							}
							return true
						})
					}
					check(c.Fun)
					for _, a := range c.Args {
						check(a)
					}
					if !mentions {
						return true
					}
					uses++
					if lr == nil {
						lr = p.LockFlow(ufi, entryHeldFor(p, ufi))
					}
					if hs, _ := mustHeldAny(lr, c); len(hs) == 0 {
						bad = uk + " at " + p.pos(c)
					}
					return true
				})
			}
			r.Check(bad == "", rule, cons, p.pos(call), fmt.Sprintf("%d uses, all under a lock of the owner", uses),
				"the *rand.Rand stored in the field "+fld.Name()+" is built over an unsynchronised source and used without a lock in "+bad+": the object is a singleton reached from every API goroutine, two concurrent calls race inside the generator (duplicate ids, or a panic in the source)")
			return true
		})
	}
	r.Analysed["rand_values_stored_in_fields"] = n
}

func init() {
	for id, rule := range map[string]string{"C03": "C03.l", "C07": "C07.e"} {
		id, rule := id, rule
		wrapRule(id, func(p *Prog, r *Report) {
			r.Rule(rule, "the snapshot point the commit is checked against is the one the caller passed: UpdateTx (helpers spliced in) never writes its filter parameter or the BeforeSeq it carries (a commit whose bound was dropped on some 'nothing can have changed' shortcut publishes over versions it never saw); and a transaction object taken from the pool starts without keys: the pool's clear function or the registry's Put empties its key map unconditionally (the conflict test runs for every key of the map, also for one a previous user left behind)")
			c03BoundReachesTheCheck(p, r, rule)
		})
	}
	for id, rule := range map[string]string{"C13": "C13.l", "C14": "C14.m"} {
		id, rule := id, rule
		wrapRule(id, func(p *Prog, r *Report) {
			r.Rule(rule, "a finished transaction's store is given back to the pool once, after its last use: in every function of the core use case that releases a pooled transaction, nothing touches the object after the Release (in execution order: the body, then the deferred calls last-registered first, helpers spliced in) - an object released twice is handed to two later transactions, which then share one write set")
			c13NoUseAfterRelease(p, r, rule)
		})
	}
	wrapRule("C15", func(p *Prog, r *Report) {
		r.Rule("C15.h", "a job handed to the worker pool owns what it reads: a function literal that becomes the Fn of a wpool.Event, or the body of a go statement, captures no local variable that the enclosing function assigns again after the variable's declaration (the worker reads the variable when it runs, concurrently with the next assignment)")
		c15JobsCaptureNoMovingVariable(p, r, "C15.h")
	})
}

// c03BoundReachesTheCheck (seeded C03-M, C03-N).
func c03BoundReachesTheCheck(p *Prog, r *Report, rule string) {
	fi := p.Func(kUpdateTx)
	if fi == nil {
		r.Undecided(rule, kUpdateTx, "", "core.UpdateTx not found")
		return
	}
	info := fi.Pkg.TypesInfo
	var filterObj types.Object
	for _, fld := range fi.Decl.Type.Params.List {
		for _, nm := range fld.Names {
			if o := info.Defs[nm]; o != nil && strings.HasSuffix(o.Type().String(), "model.FileFilter") {
				filterObj = o
			}
		}
	}
	cons := kUpdateTx + "#bound-not-written"
	if filterObj == nil {
		r.Undecided(rule, cons, p.pos(fi.Decl), "UpdateTx has no FileFilter parameter")
	} else {
		f := p.FlatInl(fi)
		bad := ""
		rootOf := func(e ast.Expr) types.Object {
			for {
				switch x := ast.Unparen(e).(type) {
				case *ast.SelectorExpr:
					e = x.X
					continue
				case *ast.StarExpr:
					e = x.X
					continue
				case *ast.Ident:
					o := objOf(info, x)
					if o != nil {
						return f.CanonObj(o)
					}
					return nil
				}
				return nil
			}
		}
		for _, n := range f.Nodes {
			if n.Ast == nil || n.Synth != "" {
				continue
			}
			walkNoLit(n.Ast, func(x ast.Node) bool {
				switch st := x.(type) {
				case *ast.AssignStmt:
					for _, l := range st.Lhs {
						if rootOf(l) == filterObj {
							bad = p.pos(st) + ": " + types.ExprString(l)
						}
					}
				case *ast.UnaryExpr:
					// &filter / &filter.BeforeSeq handed out: somebody else may write it
					if st.Op == token.AND && rootOf(st.X) == filterObj {
						bad = p.pos(st) + ": " + types.ExprString(st)
					}
				}
				return true
			})
		}
		// ... also inside the deferred / transaction literals of the function itself
		ast.Inspect(fi.Decl.Body, func(x ast.Node) bool {
			if as, ok := x.(*ast.AssignStmt); ok {
				for _, l := range as.Lhs {
					if rootOf(l) == filterObj {
						bad = p.pos(as) + ": " + types.ExprString(l)
					}
				}
			}
			return true
		})
		r.Check(bad == "", rule, cons, p.pos(fi.Decl), "the filter is only read", "UpdateTx writes the snapshot bound it was given ("+bad+"): the conflict test then runs against a different point than the transaction's snapshot (or not at all), a commit that overlaps an autocommit write or an unnoticed commit publishes over it - a lost update at RepeatableRead / Serializable")
	}
	// the recycled object starts empty
	cons2 := "core.Transaction#recycled-store-starts-empty"
	var storeField *types.Var
	if pkg := p.Pkgs["internal/model/core"]; pkg != nil {
		if tn, ok := pkg.Types.Scope().Lookup("Transaction").(*types.TypeName); ok {
			if st, ok := tn.Type().Underlying().(*types.Struct); ok {
				for i := 0; i < st.NumFields(); i++ {
					if _, isMap := st.Field(i).Type().Underlying().(*types.Map); isMap {
						storeField = st.Field(i)
					}
				}
			}
		}
	}
	if storeField == nil {
		r.Undecided(rule, cons2, "", "the key map of core.Transaction not found")
		return
	}
	empties := func(fn *FuncInfo, body *ast.BlockStmt) bool {
		if body == nil {
			return false
		}
		binfo := fn.Pkg.TypesInfo
		var isStoreD func(pkg *packages.Package, e ast.Expr, depth int) bool
		isStoreD = func(pkg *packages.Package, e ast.Expr, depth int) bool {
			// the map itself, or a view that shares it: a conversion, a helper handed &tx.store, a method that
			// returns one of those (fileTable(ensureMap(&tx.store)))
			found := false
			ast.Inspect(e, func(y ast.Node) bool {
				if sel, ok := y.(*ast.SelectorExpr); ok && pkg.TypesInfo.Uses[sel.Sel] == storeField {
					found = true
				}
				if c, ok := y.(*ast.CallExpr); ok && depth < 2 && !found {
					if h := p.staticCallee(pkg, c); h != nil && h.Decl.Body != nil {
						ast.Inspect(h.Decl.Body, func(z ast.Node) bool {
							if rs, ok := z.(*ast.ReturnStmt); ok {
								for _, res := range rs.Results {
									if isStoreD(h.Pkg, res, depth+1) {
										found = true
									}
								}
							}
							return true
						})
					}
				}
				return !found
			})
			return found
		}
		isStore := func(e ast.Expr) bool { return isStoreD(fn.Pkg, e, 0) }
		_ = binfo
		for _, st := range body.List {
			switch s := st.(type) {
			case *ast.ExprStmt:
				if c, ok := s.X.(*ast.CallExpr); ok {
					if id, ok := c.Fun.(*ast.Ident); ok && id.Name == "clear" && len(c.Args) == 1 && isStore(c.Args[0]) {
						return true
					}
				}
			case *ast.RangeStmt:
				if isStore(s.X) {
					del := false
					ast.Inspect(s.Body, func(y ast.Node) bool {
						if c, ok := y.(*ast.CallExpr); ok {
							if id, ok := c.Fun.(*ast.Ident); ok && id.Name == "delete" && len(c.Args) == 2 && isStore(c.Args[0]) {
								del = true
							}
						}
						return true
					})
					if del {
						return true
					}
				}
			case *ast.AssignStmt:
				if len(s.Lhs) == 1 && isStore(s.Lhs[0]) && s.Tok == token.ASSIGN {
					return true
				}
			}
		}
		return false
	}
	emptiesDeep := func(fn *FuncInfo, body *ast.BlockStmt) bool {
		if empties(fn, body) {
			return true
		}
		ok := false
		if body != nil {
			for _, st := range body.List {
				if es, isE := st.(*ast.ExprStmt); isE {
					if c, isC := es.X.(*ast.CallExpr); isC {
						if h := p.staticCallee(fn.Pkg, c); h != nil && h.Decl.Body != nil && empties(h, h.Decl.Body) {
							ok = true
						}
					}
				}
			}
		}
		return ok
	}
	where := ""
	if put := p.Func("(*internal/model/core.Transactions).Put"); put != nil && emptiesDeep(put, put.Decl.Body) {
		where = "Transactions.Put"
	}
	// the clear function given to the pool of transactions
	for _, k := range sortedFuncKeys(p) {
		cfi := p.Funcs[k]
		if cfi.Decl.Body == nil || shortPath(cfi.Pkg.PkgPath) != "internal/usecase/core" {
			continue
		}
		ast.Inspect(cfi.Decl.Body, func(x ast.Node) bool {
			c, ok := x.(*ast.CallExpr)
			if !ok || !p.callIs(cfi.Pkg, c, "internal/model/core.NewPool") || len(c.Args) != 1 {
				return true
			}
			tv, ok := cfi.Pkg.TypesInfo.Types[c]
			if !ok || !strings.Contains(tv.Type.String(), "core.Transaction]") {
				return true
			}
			switch a := ast.Unparen(c.Args[0]).(type) {
			case *ast.FuncLit:
				if emptiesDeep(cfi, a.Body) {
					where += " pool clear function"
				}
			default:
				if fn, _ := typeutil.Callee(cfi.Pkg.TypesInfo, &ast.CallExpr{Fun: a}).(*types.Func); fn != nil {
					if h := p.funcOfObj(fn); h != nil && emptiesDeep(h, h.Decl.Body) {
						where += " pool clear function"
					}
				}
				if sel, ok := a.(*ast.SelectorExpr); ok {
					if fn, ok := cfi.Pkg.TypesInfo.Uses[sel.Sel].(*types.Func); ok {
						if h := p.funcOfObj(fn); h != nil && emptiesDeep(h, h.Decl.Body) {
							where += " pool clear function"
						}
					}
				}
			}
			return true
		})
	}
	r.Check(where != "", rule, cons2, "", "emptied by "+strings.TrimSpace(where), "neither the pool's clear function nor Transactions.Put empties the key map of a recycled transaction: the object keeps the keys of its previous user (with empty lists); reads tolerate that, the conflict test of UpdateTx does not - a snapshot commit fails with ErrTxSerialization over a key it never wrote")
}

// c13NoUseAfterRelease (seeded C13-M).
func c13NoUseAfterRelease(p *Prog, r *Report, rule string) {
	n := 0
	for _, k := range sortedFuncKeys(p) {
		fi := p.Funcs[k]
		if fi.Decl.Body == nil || shortPath(fi.Pkg.PkgPath) != "internal/usecase/core" || fi.Decl.Recv == nil || !fi.Obj.Exported() {
			continue
		}
		info := fi.Pkg.TypesInfo
		// events in execution order
		type event struct {
			obj     types.Object
			release bool
			pos     string
			scopes  []ast.Node // enclosing branches that end in return / continue / break: what happens there stays there
		}
		var evs []event
		var visit func(owner *FuncInfo, node ast.Node, bind map[types.Object]types.Object, depth int, outer []ast.Node)
		canon := func(bind map[types.Object]types.Object, o types.Object) types.Object {
			for i := 0; i < 6; i++ {
				if b, ok := bind[o]; ok {
					o = b
				} else {
					break
				}
			}
			return o
		}
		isTx := func(o types.Object) bool {
			return o != nil && strings.HasSuffix(o.Type().String(), "core.Transaction") && strings.HasPrefix(o.Type().String(), "*")
		}
		visit = func(owner *FuncInfo, node ast.Node, bind map[types.Object]types.Object, depth int, outer []ast.Node) {
			oinfo := owner.Pkg.TypesInfo
			var deferred []*ast.DeferStmt
			var terminating []*ast.BlockStmt
			walkNoLit(node, func(x ast.Node) bool {
				var body *ast.BlockStmt
				switch st := x.(type) {
				case *ast.IfStmt:
					body = st.Body
				}
				if body != nil && len(body.List) > 0 {
					switch body.List[len(body.List)-1].(type) {
					case *ast.ReturnStmt, *ast.BranchStmt:
						terminating = append(terminating, body)
					}
				}
				return true
			})
			scopesAt := func(at ast.Node) []ast.Node {
				res := append([]ast.Node{}, outer...)
				for _, tb := range terminating {
					if tb.Pos() <= at.Pos() && at.End() <= tb.End() {
						res = append(res, tb)
					}
				}
				return res
			}
			walkNoLit(node, func(x ast.Node) bool {
				switch st := x.(type) {
				case *ast.DeferStmt:
					deferred = append(deferred, st)
					return false
				case *ast.CallExpr:
					// release?
					if p.callIs(owner.Pkg, st, "(*internal/model/core.Pool).Release") {
						for _, a := range st.Args {
							if o := objOf(oinfo, a); isTx(o) {
								evs = append(evs, event{canon(bind, o), true, p.pos(st), scopesAt(st)})
							}
						}
						return false
					}
					// a helper of the package: spliced in
					if h := p.staticCallee(owner.Pkg, st); h != nil && h.Pkg == owner.Pkg && h.Decl.Body != nil && depth < 3 && h.Decl.Recv != nil && shortPath(h.Pkg.PkgPath) == "internal/usecase/core" {
						nb := map[types.Object]types.Object{}
						for k2, v := range bind {
							nb[k2] = v
						}
						args := argExprs(st, h)
						for i, po := range paramObjs(h) {
							if po != nil && args[i] != nil {
								if ao := objOf(oinfo, args[i]); ao != nil {
									nb[po] = canon(bind, ao)
								}
							}
						}
						visit(h, h.Decl.Body, nb, depth+1, scopesAt(st))
						return false
					}
					// any other use of a transaction object: receiver or argument
					if sel, ok := ast.Unparen(st.Fun).(*ast.SelectorExpr); ok {
						if o := objOf(oinfo, sel.X); isTx(o) {
							evs = append(evs, event{canon(bind, o), false, p.pos(st), scopesAt(st)})
						}
					}
					for _, a := range st.Args {
						if o := objOf(oinfo, a); isTx(o) {
							evs = append(evs, event{canon(bind, o), false, p.pos(st), scopesAt(st)})
						}
					}
				}
				return true
			})
			for i := len(deferred) - 1; i >= 0; i-- {
				d := deferred[i]
				if lit, ok := ast.Unparen(d.Call.Fun).(*ast.FuncLit); ok {
					visit(owner, lit.Body, bind, depth, nil)
				} else {
					visit(owner, &ast.ExprStmt{X: d.Call}, bind, depth, nil)
				}
			}
		}
		visit(fi, fi.Decl.Body, map[types.Object]types.Object{}, 0, nil)
		bad := ""
		any := false
		for i, e := range evs {
			if e.release {
				any = true
			}
			for _, prev := range evs[:i] {
				if !prev.release || prev.obj != e.obj || bad != "" {
					continue
				}
				// a release inside a branch that leaves the function concerns only what follows inside that branch
				inScope := len(prev.scopes) == 0
				if !inScope {
					last := prev.scopes[len(prev.scopes)-1]
					for _, sc := range e.scopes {
						if sc == last {
							inScope = true
						}
					}
				}
				if !inScope {
					continue
				}
				what := "used"
				if e.release {
					what = "released again"
				}
				bad = fmt.Sprintf("%s is released to the pool at %s and %s at %s", e.obj.Name(), prev.pos, what, e.pos)
			}
		}
		if !any {
			continue
		}
		n++
		_ = info
		r.Check(bad == "", rule, k+"#released-once-and-last", p.pos(fi.Decl), "nothing touches a transaction after its Release",
			bad+": the pool hands the object to the next Acquire at once - released twice it backs two later transactions (one loses its writes when the other is registered, a commit of one publishes the other's uncommitted writes); unlocked after the release it is unlocked under its next user")
	}
	r.Floor(rule, "functions-that-release-a-pooled-transaction", n, 2)
}

// c15JobsCaptureNoMovingVariable (seeded C15-N).
func c15JobsCaptureNoMovingVariable(p *Prog, r *Report, rule string) {
	n := 0
	for _, k := range sortedFuncKeys(p) {
		fi := p.Funcs[k]
		if fi.Decl.Body == nil || !isProductPath(fi.Pkg.PkgPath) {
			continue
		}
		info := fi.Pkg.TypesInfo
		var jobs []*ast.FuncLit
		ast.Inspect(fi.Decl.Body, func(x ast.Node) bool {
			switch st := x.(type) {
			case *ast.GoStmt:
				if lit, ok := ast.Unparen(st.Call.Fun).(*ast.FuncLit); ok {
					jobs = append(jobs, lit)
				}
			case *ast.CompositeLit:
				if tv, ok := info.Types[st]; ok && strings.HasSuffix(tv.Type.String(), "wpool.Event") {
					for _, el := range st.Elts {
						if kv, ok := el.(*ast.KeyValueExpr); ok {
							if id, ok := kv.Key.(*ast.Ident); ok && id.Name == "Fn" {
								if lit, ok := ast.Unparen(kv.Value).(*ast.FuncLit); ok {
									jobs = append(jobs, lit)
								}
							}
						}
					}
				}
			}
			return true
		})
		for _, lit := range jobs {
			n++
			// free variables of the literal that are locals of the enclosing function
			free := map[types.Object]bool{}
			ast.Inspect(lit.Body, func(x ast.Node) bool {
				id, ok := x.(*ast.Ident)
				if !ok {
					return true
				}
				v, ok := info.Uses[id].(*types.Var)
				if !ok || v.IsField() || v.Parent() == nil || v.Parent() == fi.Pkg.Types.Scope() {
					return true
				}
				if v.Pos() >= lit.Pos() && v.Pos() <= lit.End() {
					return true // declared inside
				}
				if v.Pos() < fi.Decl.Pos() || v.Pos() > fi.Decl.End() {
					return true
				}
				free[v] = true
				return true
			})
			// assigned again in a loop outside the literal (not the declaration, not inside the literal itself)? A
			// straight-line assignment is ordered with the job's start or with a Wait by the code around it and is not
			// this rule's business; the variables of a for / range clause are per iteration (Go 1.22).
			var loops []ast.Node
			perIter := map[types.Object]bool{}
			ast.Inspect(fi.Decl.Body, func(x ast.Node) bool {
				switch st := x.(type) {
				case *ast.ForStmt:
					loops = append(loops, st.Body)
					if as, ok := st.Init.(*ast.AssignStmt); ok && as.Tok == token.DEFINE {
						for _, l := range as.Lhs {
							if id, ok := l.(*ast.Ident); ok && info.Defs[id] != nil {
								perIter[info.Defs[id]] = true
							}
						}
					}
				case *ast.RangeStmt:
					loops = append(loops, st.Body)
				}
				return true
			})
			inLoop := func(at ast.Node) bool {
				for _, l := range loops {
					if l.Pos() <= at.Pos() && at.End() <= l.End() {
						return true
					}
				}
				return false
			}
			for o := range perIter {
				delete(free, o)
			}
			bad := ""
			ast.Inspect(fi.Decl.Body, func(x ast.Node) bool {
				if x == ast.Node(lit) {
					return false
				}
				note := func(e ast.Expr, at ast.Node, define bool) {
					id, ok := ast.Unparen(e).(*ast.Ident)
					if !ok {
						return
					}
					if define && info.Defs[id] != nil {
						return // the declaration itself
					}
					if o := objOf(info, id); o != nil && free[o] {
						// a named result assigned on the way out is not a job's business (the job is synchronous with
						// the function when it writes results: errors collected by goroutines are joined before return)
						bad = o.Name() + " (assigned at " + p.pos(at) + ")"
					}
				}
				switch st := x.(type) {
				case *ast.AssignStmt:
					if inLoop(st) {
						for _, l := range st.Lhs {
							note(l, st, st.Tok == token.DEFINE)
						}
					}
				case *ast.RangeStmt:
					if st.Tok == token.ASSIGN {
						if st.Key != nil {
							note(st.Key, st, false)
						}
						if st.Value != nil {
							note(st.Value, st, false)
						}
					}
				case *ast.IncDecStmt:
					if inLoop(st) {
						note(st.X, st, false)
					}
				}
				return true
			})
			cons := fmt.Sprintf("%s#job at %s", k, p.pos(lit))
			r.Check(bad == "", rule, cons, p.pos(lit), "captures only variables that are never assigned again",
				"the job captures the local variable "+bad+" that the enclosing function assigns again: the worker goroutine reads it when the job runs, unsynchronised with that assignment (every job sees whatever value the variable holds then - usually the last one - and the race detector reports the pair)")
		}
	}
	r.Floor(rule, "jobs-and-goroutine-literals", n, 4)
}

func init() {
	wrapRule("C11", func(p *Prog, r *Report) {
		r.Rule("C11.o", "what the gRPC client puts into the metadata of a call is not the user's text: every value given to metadata.AppendToOutgoingContext / Pairs in pkg/external is a constant or a field of the receiver (the transaction id the server issued) - metadata values must be printable ASCII and grpc-go refuses the call otherwise, so a key or content fragment sent that way makes keys the inline client accepts fail with ErrUnknown over gRPC")
		c11MetadataCarriesNoUserText(p, r, "C11.o")
	})
	for id, rule := range map[string]string{"C11": "C11.p", "C10": "C10.o", "C12": "C12.k"} {
		id, rule := id, rule
		wrapRule(id, func(p *Prog, r *Report) {
			r.Rule(rule, "the upload reaches the store use case through the stream reader: in the gRPC SetFile handler the content handed to Set is streamreader.New(stream) itself or a reader built around it (so the end of the stream is io.EOF and a broken stream is an error, seen by Set on its own Read), and the handler itself receives exactly one message, the header (a second Recv would have to tell the end of an empty upload from a failure the way the stream reader does)")
			c11UploadThroughStreamReader(p, r, rule)
		})
	}
}

// c11MetadataCarriesNoUserText (seeded C11-M).
func c11MetadataCarriesNoUserText(p *Prog, r *Report, rule string) {
	n := 0
	for _, k := range sortedFuncKeys(p) {
		fi := p.Funcs[k]
		if fi.Decl.Body == nil || !strings.HasPrefix(shortPath(fi.Pkg.PkgPath), "pkg/external") {
			continue
		}
		info := fi.Pkg.TypesInfo
		var recv types.Object
		if fi.Decl.Recv != nil && len(fi.Decl.Recv.List) == 1 && len(fi.Decl.Recv.List[0].Names) == 1 {
			recv = info.Defs[fi.Decl.Recv.List[0].Names[0]]
		}
		ast.Inspect(fi.Decl.Body, func(x ast.Node) bool {
			c, ok := x.(*ast.CallExpr)
			if !ok {
				return true
			}
			first := -1
			switch {
			case isFunc(info, c, "google.golang.org/grpc/metadata", "AppendToOutgoingContext"):
				first = 1
			case isFunc(info, c, "google.golang.org/grpc/metadata", "Pairs"):
				first = 0
			case isFunc(info, c, "google.golang.org/grpc/metadata", "New"), isFunc(info, c, "google.golang.org/grpc/metadata", "NewOutgoingContext"):
				n++
				r.Undecided(rule, fmt.Sprintf("%s#metadata/%d", k, n), p.pos(c), "metadata built from a map / attached wholesale: the rule follows key-value argument lists only")
				return true
			}
			if first < 0 {
				return true
			}
			n++
			cons := fmt.Sprintf("%s#metadata/%d", k, n)
			bad := ""
			if c.Ellipsis.IsValid() {
				bad = "a slice spread into the key-value list"
			}
			for i := first + 1; i < len(c.Args); i += 2 {
				if src := c11UserTextSource(p, fi, c.Args[i], 0); src != "" {
					bad = types.ExprString(c.Args[i]) + " (" + src + ")"
				}
			}
			_ = recv
			r.Check(bad == "", rule, cons, p.pos(c), "no value comes from a parameter of an API method",
				"the metadata value "+bad+" is text the caller of the API supplied: user-supplied text (a key) as a metadata value must be printable ASCII - for any other key the call is refused on the client with codes.Internal, which the adapter turns into ErrUnknown, where the inline client stores the key (and a missing key reads as ErrUnknown instead of ErrNotFound)")
			return true
		})
	}
	r.Floor(rule, "metadata-sites-in-the-grpc-client", n, 1)
}

// c11UploadThroughStreamReader (seeded C10-N, C11-N).
func c11UploadThroughStreamReader(p *Prog, r *Report, rule string) {
	k := "(*" + pkgDelivery + ".Service).SetFile"
	fi := p.Func(k)
	if fi == nil {
		r.Undecided(rule, k, "", "the SetFile handler not found")
		return
	}
	isStream := func(pkg *packages.Package, e ast.Expr) bool {
		tv, ok := pkg.TypesInfo.Types[e]
		return ok && strings.Contains(tv.Type.String(), "SetFileServer")
	}
	isStreamReader := func(pkg *packages.Package, c *ast.CallExpr) bool {
		return p.callIs(pkg, c, "internal/utils/grpc/streamreader.New") && len(c.Args) == 1 && isStream(pkg, c.Args[0])
	}
	var derives func(in *FuncInfo, e ast.Expr, depth int) bool
	derives = func(in *FuncInfo, e ast.Expr, depth int) bool {
		if depth > 5 {
			return false
		}
		info := in.Pkg.TypesInfo
		e = ast.Unparen(e)
		switch x := e.(type) {
		case *ast.CallExpr:
			if isStreamReader(in.Pkg, x) {
				return true
			}
			// a helper of the package that answers with such a reader (in.body())
			if h := p.staticCallee(in.Pkg, x); h != nil && h.Pkg == in.Pkg && h.Decl.Body != nil {
				got := false
				walkNoLit(h.Decl.Body, func(y ast.Node) bool {
					if rs, ok := y.(*ast.ReturnStmt); ok {
						for _, res := range rs.Results {
							if derives(h, res, depth+1) {
								got = true
							}
						}
					}
					return true
				})
				if got {
					return true
				}
			}
			for _, a := range x.Args {
				if derives(in, a, depth+1) {
					return true
				}
			}
		case *ast.Ident:
			if o := objOf(info, x); o != nil {
				if rhs := singleDefIn(info, in.Decl.Body, o); rhs != nil {
					return derives(in, rhs, depth+1)
				}
			}
		case *ast.UnaryExpr:
			return derives(in, x.X, depth+1)
		case *ast.CompositeLit:
			for _, el := range x.Elts {
				if kv, ok := el.(*ast.KeyValueExpr); ok {
					el = kv.Value
				}
				if derives(in, el, depth+1) {
					return true
				}
			}
		}
		return false
	}
	local := localClosure(p, k)
	sets, recvs := 0, 0
	last := ""
	for _, lf := range local {
		walkNoLit(lf.Decl.Body, func(x ast.Node) bool {
			c, ok := x.(*ast.CallExpr)
			if !ok {
				return true
			}
			if p.callIs(lf.Pkg, c, kStoreSet) && len(c.Args) >= 3 {
				if o := objOf(lf.Pkg.TypesInfo, c.Args[2]); o != nil && lf != fi && isParamOf(lf.Pkg.TypesInfo, lf.Decl, o) {
					return true // a decorator of the use case hands its own parameter on: judged where it is called
				}
				sets++
				r.Check(derives(lf, c.Args[2], 0), rule, fmt.Sprintf("%s#content-is-the-stream-reader/%d", k, sets), p.pos(c), "Set reads the stream through streamreader.New(stream)",
					"the content handed to the store use case ("+types.ExprString(c.Args[2])+") is not the stream reader or a reader around it: what Set reads is decoupled from the stream (a pipe filled by a goroutine, a buffer), so a broken or cancelled upload ends as a clean EOF and the partial content is committed while the client is told about the failure")
			}
			if sel, ok := ast.Unparen(c.Fun).(*ast.SelectorExpr); ok && sel.Sel.Name == "Recv" && isStream(lf.Pkg, sel.X) {
				recvs++
				last = p.pos(c)
			}
			return true
		})
		// (function literals of the handler: a goroutine that receives is a receive of the handler)
		ast.Inspect(lf.Decl.Body, func(x ast.Node) bool {
			lit, ok := x.(*ast.FuncLit)
			if !ok {
				return true
			}
			ast.Inspect(lit.Body, func(y ast.Node) bool {
				if c, ok := y.(*ast.CallExpr); ok {
					if sel, ok := ast.Unparen(c.Fun).(*ast.SelectorExpr); ok && sel.Sel.Name == "Recv" && isStream(lf.Pkg, sel.X) {
						recvs++
						last = p.pos(c)
					}
				}
				return true
			})
			return false
		})
	}
	if sets == 0 {
		r.Undecided(rule, k+"#content-is-the-stream-reader", p.pos(fi.Decl), "the call of the store use case's Set was not found in the handler")
	}
	r.Check(recvs == 1, rule, k+"#one-recv-the-header", p.pos(fi.Decl), "the handler receives the header only",
		fmt.Sprintf("the handler calls stream.Recv %d times (last at %s): a message after the header is content, and its absence - io.EOF - is how an empty upload ends; treated like the header's error it turns Set(key, nil) / Create+Close into ErrUnknown over gRPC where the inline client stores an empty file", recvs, last))
}

func init() {
	for id, rule := range map[string]string{"C05": "C05.i", "C04": "C04.k"} {
		id, rule := id, rule
		wrapRule(id, func(p *Prog, r *Report) {
			r.Rule(rule, "the counter means 'last number handed out' on both sides: Load raises it to the largest persisted sequence number M with Set(M), so the first Next() afterwards must answer more than M - Next, evaluated on a counter that holds M, answers the counter's new value (M+1), not its old one (a first write after a restart that gets M again ties with the last write before it, and the next Load picks either)")
			c05NextAnswersTheNewValue(p, r, rule)
		})
	}
}

// c05NextAnswersTheNewValue (seeded C05-M).
func c05NextAnswersTheNewValue(p *Prog, r *Report, rule string) {
	fi := p.Func(kSeqNext)
	cons := kSeqNext + "#answers-more-than-the-counter-held"
	if fi == nil || fi.Decl.Body == nil {
		r.Undecided(rule, cons, "", "sequence.Next not found")
		return
	}
	const held = 5
	counter := int64(held)
	adds := 0
	env := &Env{P: p, Pkg: fi.Pkg, Vars: map[types.Object]*Val{}}
	env.Hook = func(e *Env, x ast.Expr) (*Val, bool) {
		c, ok := x.(*ast.CallExpr)
		if !ok {
			return nil, false
		}
		ci := e.Pkg.TypesInfo
		if tv, ok := ci.Types[c.Fun]; ok && tv.IsType() && len(c.Args) == 1 {
			return e.eval(c.Args[0]), true
		}
		fn, _ := typeutil.Callee(ci, c).(*types.Func)
		if fn == nil || fn.Pkg() == nil || fn.Pkg().Path() != "sync/atomic" {
			return nil, false
		}
		delta := func(a ast.Expr) (int64, bool) {
			v, err := e.Eval(a)
			if err != nil || v == nil || v.C == nil {
				return 0, false
			}
			return constant.Int64Val(v.C)
		}
		switch {
		case strings.HasPrefix(fn.Name(), "Add") && len(c.Args) >= 1:
			if d, ok := delta(c.Args[len(c.Args)-1]); ok {
				adds++
				counter += d
				return intVal(counter), true
			}
		case strings.HasPrefix(fn.Name(), "Load"):
			return intVal(counter), true
		}
		return nil, false
	}
	var ret []*Val
	var xerr error
	func() {
		defer func() {
			if rec := recover(); rec != nil {
				if ee, ok := rec.(evalErr); ok {
					xerr = ee
					return
				}
				panic(rec)
			}
		}()
		ret, _ = env.execBlock(fi.Decl.Body.List)
	}()
	if xerr != nil || len(ret) != 1 || ret[0] == nil || ret[0].C == nil {
		r.Undecided(rule, cons, p.pos(fi.Decl), fmt.Sprintf("Next is outside the evaluator's fragment (%v)", xerr))
		return
	}
	got, _ := constant.Int64Val(ret[0].C)
	r.Check(got > held && got == counter && adds == 1, rule, cons, p.pos(fi.Decl), fmt.Sprintf("on a counter holding %d Next answers %d and leaves %d", held, got, counter),
		fmt.Sprintf("on a counter that holds %d (Set(%d) after Load: the largest number in use) Next answers %d and leaves the counter at %d: the first number drawn after a reopen is not above every persisted one (or two consecutive draws can coincide) - an acknowledged write after the restart ties with the last write before it, and the next reopen may prefer the older", held, held, got, counter))
}

func init() {
	wrapRule("C16", func(p *Prog, r *Report) {
		r.Rule("C16.h", "the pool counts as stopped only when Stop is through: whatever admits the next Run (the running mutex released, an atomic running flag set to false) happens in Stop after its waits for the senders and the workers, or in a deferred call - a Run admitted while Stop still waits installs a new context and channel under it, jobs sent to the pool being stopped are executed, and the pending Stop waits on workers that no longer end")
		c16StoppedOnlyWhenThrough(p, r, "C16.h")
	})
}

// c16StoppedOnlyWhenThrough (seeded C16-M).
func c16StoppedOnlyWhenThrough(p *Prog, r *Report, rule string) {
	fi := p.Func(kPoolStop)
	cons := kPoolStop + "#flag-released-after-the-waits"
	if fi == nil {
		r.Undecided(rule, cons, "", "Pool.Stop not found")
		return
	}
	info := fi.Pkg.TypesInfo
	f := p.FlatInl(fi)
	isFalse := func(e ast.Expr) bool {
		tv, ok := info.Types[e]
		return ok && tv.Value != nil && tv.Value.Kind() == constant.Bool && !constant.BoolVal(tv.Value)
	}
	var releases, waits []int
	for _, n := range f.Nodes {
		if n.Ast == nil {
			continue
		}
		if _, isDefer := n.Ast.(*ast.DeferStmt); isDefer {
			continue
		}
		for _, c := range callsIn(n.Ast, false) {
			if p.isWaitGroupOp(fi.Pkg, c, "Wait") {
				waits = append(waits, n.ID)
			}
			if op := p.lockOpOf(fi.Pkg, c); op != nil && !op.Acquire && op.Class == clsRunM {
				releases = append(releases, n.ID)
			}
			// an atomic flag of the pool set to false
			if fn, _ := typeutil.Callee(info, c).(*types.Func); fn != nil && fn.Pkg() != nil && fn.Pkg().Path() == "sync/atomic" {
				if sel, ok := ast.Unparen(c.Fun).(*ast.SelectorExpr); ok {
					if _, onField := ast.Unparen(sel.X).(*ast.SelectorExpr); onField {
						switch fn.Name() {
						case "Store", "Swap":
							if len(c.Args) == 1 && isFalse(c.Args[0]) {
								releases = append(releases, n.ID)
							}
						case "CompareAndSwap":
							if len(c.Args) == 2 && isFalse(c.Args[1]) {
								releases = append(releases, n.ID)
							}
						}
					}
				}
			}
		}
	}
	if len(waits) == 0 {
		r.Undecided(rule, cons, p.pos(fi.Decl), "Stop waits for no wait group")
		return
	}
	bad := ""
	for _, rel := range releases {
		reach := f.Reach(f.succsOf(rel), nil, nil)
		for _, w := range waits {
			if reach[w] {
				bad = p.pos(f.Nodes[rel].Ast)
			}
		}
	}
	r.Check(bad == "", rule, cons, p.pos(fi.Decl), fmt.Sprintf("%d waits, nothing re-admits Run before them", len(waits)),
		"Stop marks the pool as not running at "+bad+" and waits for the senders / workers afterwards: a Run that overlaps the waiting Stop is admitted, replaces the context and the channel and adds workers to the very wait group Stop waits on - the Stop never returns (or closes the new channel under the new workers)")
}

// c11UserTextSource follows a metadata value back: constants, fields, results of calls (the id the server answered)
// are fine; a parameter of an unexported helper is followed to the helper's call sites; a string parameter of an
// exported function or method of the client is the user's text. Returns a description of that source, or "".
func c11UserTextSource(p *Prog, fi *FuncInfo, e ast.Expr, depth int) string {
	if depth > 5 {
		return ""
	}
	info := fi.Pkg.TypesInfo
	e = ast.Unparen(e)
	if tv, ok := info.Types[e]; ok && tv.Value != nil {
		return ""
	}
	id, ok := e.(*ast.Ident)
	if !ok {
		if c, isCall := e.(*ast.CallExpr); isCall {
			// a conversion or a pure string helper of its argument: string(key), strings.ToValidUTF8(key, "")
			if tv, ok := info.Types[c.Fun]; ok && tv.IsType() && len(c.Args) == 1 {
				return c11UserTextSource(p, fi, c.Args[0], depth+1)
			}
		}
		return ""
	}
	o := objOf(info, id)
	if o == nil {
		return ""
	}
	// a parameter of this function (or of the function enclosing a literal)?
	idx := -1
	i := 0
	for _, fld := range fi.Decl.Type.Params.List {
		for _, nm := range fld.Names {
			if info.Defs[nm] == o {
				idx = i
			}
			i++
		}
	}
	if idx < 0 {
		if rhs := singleDefIn(info, fi.Decl.Body, o); rhs != nil {
			return c11UserTextSource(p, fi, rhs, depth+1)
		}
		return ""
	}
	if fi.Obj.Exported() {
		if bt, ok := o.Type().Underlying().(*types.Basic); ok && bt.Info()&types.IsString != 0 {
			return "parameter " + o.Name() + " of " + fi.Key
		}
		return ""
	}
	// unexported helper: every call site
	for _, ck := range sortedFuncKeys(p) {
		cfi := p.Funcs[ck]
		if cfi.Decl.Body == nil || cfi.Pkg != fi.Pkg {
			continue
		}
		res := ""
		ast.Inspect(cfi.Decl.Body, func(x ast.Node) bool {
			c, ok := x.(*ast.CallExpr)
			if !ok || p.staticCallee(cfi.Pkg, c) != fi || idx >= len(c.Args) {
				return true
			}
			if src := c11UserTextSource(p, cfi, c.Args[idx], depth+1); src != "" {
				res = src
			}
			return true
		})
		if res != "" {
			return res
		}
	}
	return ""
}
