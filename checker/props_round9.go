package main

// Rules added after the seventh round of seeded changes (seeds Cxx-M / -N).

import (
	"fmt"
	"go/ast"
	"go/token"
	"go/types"
	"sort"
	"strings"

	"golang.org/x/tools/go/types/typeutil"
)

func wrapRule(id string, extra func(p *Prog, r *Report)) {
	old := registry[id]
	registry[id] = func(p *Prog, r *Report) {
		old(p, r)
		extra(p, r)
	}
}

func init() {
	for id, rule := range map[string]string{"C19": "C19.l", "C04": "C04.j"} {
		id, rule := id, rule
		wrapRule(id, func(p *Prog, r *Report) {
			r.Rule(rule, "a prefix scan of the Badger layer ends with the prefix: the loop over an iterator is bounded by ValidForPrefix(prefix), or the iterator's options carry the prefix (the version records \"file/\" are followed in the key space by the content records \"fileContent/\": an unbounded scan decodes those as versions); and the bytes a scan hands out have the length the copy reported (the result of ValueCopy / KeyCopy is what is kept, not the buffer passed in, whose length comes from the estimate ValueSize)")
			c19ScanBounded(p, r, rule)
		})
	}
	for id, rule := range map[string]string{"C10": "C10.n", "C17": "C17.q"} {
		id, rule := id, rule
		wrapRule(id, func(p *Prog, r *Report) {
			r.Rule(rule, "no unsigned quantity of the placement path (free space, directory counts and limits) is computed by a subtraction that can wrap: every subtraction of unsigned values in disk.Usage, the directory registry, the directory use case, store.Set and the model's Dir / Stat is dominated by a comparison that makes the minuend the larger one (a full root or an over-full directory otherwise looks like the emptiest one)")
			c10NoWrappingSubtraction(p, r, rule)
		})
	}
}

// c19ScanBounded (seeded C19-M, C19-N).
func c19ScanBounded(p *Prog, r *Report, rule string) {
	nLoops, nCopies := 0, 0
	for _, k := range sortedFuncKeys(p) {
		fi := p.Funcs[k]
		if shortPath(fi.Pkg.PkgPath) != pkgBadger || fi.Decl.Body == nil {
			continue
		}
		info := fi.Pkg.TypesInfo
		// iterators created here and whether their options carry a prefix
		iters := map[types.Object]bool{}
		ast.Inspect(fi.Decl.Body, func(x ast.Node) bool {
			as, ok := x.(*ast.AssignStmt)
			if !ok || len(as.Rhs) != 1 || len(as.Lhs) != 1 {
				return true
			}
			c, ok := ast.Unparen(as.Rhs[0]).(*ast.CallExpr)
			if !ok || !isBadgerMethod(info, c, "Txn", "NewIterator") || len(c.Args) != 1 {
				return true
			}
			o := objOf(info, as.Lhs[0])
			if o == nil {
				return true
			}
			iters[o] = optsCarryPrefix(info, fi.Decl.Body, c.Args[0])
			return true
		})
		if len(iters) == 0 {
			// the copying accessors can be used on items however they were obtained
			goto copies
		}
		ast.Inspect(fi.Decl.Body, func(x ast.Node) bool {
			fs, ok := x.(*ast.ForStmt)
			if !ok || fs.Cond == nil {
				return true
			}
			var it types.Object
			form := ""
			ast.Inspect(fs.Cond, func(y ast.Node) bool {
				c, ok := y.(*ast.CallExpr)
				if !ok {
					return true
				}
				sel, ok := ast.Unparen(c.Fun).(*ast.SelectorExpr)
				if !ok {
					return true
				}
				o := objOf(info, sel.X)
				if _, isIt := iters[o]; !isIt {
					return true
				}
				switch {
				case isBadgerMethod(info, c, "Iterator", "ValidForPrefix"):
					it, form = o, "prefix"
				case isBadgerMethod(info, c, "Iterator", "Valid"):
					if form == "" {
						it, form = o, "valid"
					}
				}
				return true
			})
			if it == nil {
				return true
			}
			nLoops++
			cons := fmt.Sprintf("%s#scan-bounded/%d", k, nLoops)
			switch {
			case form == "prefix":
				r.Hold(rule, cons, p.pos(fs.Cond), "the loop ends with the prefix (ValidForPrefix)")
			case iters[it]:
				r.Hold(rule, cons, p.pos(fs.Cond), "the iterator's options carry the prefix")
			default:
				r.Viol(rule, cons, p.pos(fs.Cond), "the scan runs while the iterator is Valid() and its options carry no prefix: it does not stop at the end of the prefix but at the end of the key space, and every record behind the version records (the content records \"fileContent/<id>\") is handed to the version decoder - a reopen fails with ErrInvalidFileFormat or loads phantom versions")
			}
			return true
		})
	copies:
		ast.Inspect(fi.Decl.Body, func(x ast.Node) bool {
			var call *ast.CallExpr
			kept := true
			switch st := x.(type) {
			case *ast.ExprStmt:
				call, _ = ast.Unparen(st.X).(*ast.CallExpr)
				kept = false
			case *ast.AssignStmt:
				if len(st.Rhs) == 1 {
					call, _ = ast.Unparen(st.Rhs[0]).(*ast.CallExpr)
					if id, ok := st.Lhs[0].(*ast.Ident); ok && id.Name == "_" {
						kept = false
					}
				}
			}
			if call == nil || !(isBadgerMethod(info, call, "Item", "ValueCopy") || isBadgerMethod(info, call, "Item", "KeyCopy")) {
				return true
			}
			nCopies++
			cons := fmt.Sprintf("%s#copy-result-kept/%d", k, nCopies)
			r.Check(kept, rule, cons, p.pos(call), "the slice the copy returns is what is kept",
				"the result of "+types.ExprString(call.Fun)+" is dropped and the buffer passed in is kept: only the result has the value's true length (the buffer was sized beforehand, by the estimate ValueSize for values in the value log: one or two bytes too long), so large records come back with zero bytes appended to the key")
			return true
		})
	}
	r.Floor(rule, "iterator-loops-in-the-badger-layer", nLoops, 1)
}

// optsCarryPrefix: the iterator options expression sets Prefix (in a literal, or a local that is assigned .Prefix).
func optsCarryPrefix(info *types.Info, body *ast.BlockStmt, e ast.Expr) bool {
	e = ast.Unparen(e)
	if cl, ok := e.(*ast.CompositeLit); ok {
		for _, el := range cl.Elts {
			if kv, ok := el.(*ast.KeyValueExpr); ok {
				if id, ok := kv.Key.(*ast.Ident); ok && id.Name == "Prefix" {
					return true
				}
			}
		}
		return false
	}
	o := objOf(info, e)
	if o == nil {
		return false
	}
	found := false
	ast.Inspect(body, func(x ast.Node) bool {
		switch st := x.(type) {
		case *ast.AssignStmt:
			for i, l := range st.Lhs {
				if sel, ok := ast.Unparen(l).(*ast.SelectorExpr); ok && sel.Sel.Name == "Prefix" && objOf(info, sel.X) == o {
					found = true
				}
				if objOf(info, l) == o && i < len(st.Rhs) && len(st.Lhs) == len(st.Rhs) {
					if cl, ok := ast.Unparen(st.Rhs[i]).(*ast.CompositeLit); ok && optsCarryPrefix(info, body, cl) {
						found = true
					}
				}
			}
		}
		return true
	})
	return found
}

// c10NoWrappingSubtraction (seeded C10-M, C17-N).
func c10NoWrappingSubtraction(p *Prog, r *Report, rule string) {
	scope := map[string]bool{"internal/utils/disk": true, "internal/repository/dir": true, "internal/usecase/dir": true, "internal/usecase/store": true, "internal/model": true}
	n := 0
	isUnsigned := func(t types.Type) bool {
		b, ok := t.Underlying().(*types.Basic)
		return ok && b.Info()&types.IsUnsigned != 0
	}
	for _, k := range sortedFuncKeys(p) {
		fi := p.Funcs[k]
		if !scope[shortPath(fi.Pkg.PkgPath)] || fi.Decl.Body == nil {
			continue
		}
		info := fi.Pkg.TypesInfo
		var stack []ast.Node
		ast.Inspect(fi.Decl.Body, func(x ast.Node) bool {
			if x == nil {
				stack = stack[:len(stack)-1]
				return true
			}
			stack = append(stack, x)
			var a, b ast.Expr
			switch e := x.(type) {
			case *ast.BinaryExpr:
				if e.Op == token.SUB {
					a, b = e.X, e.Y
				}
			case *ast.AssignStmt:
				if e.Tok == token.SUB_ASSIGN && len(e.Lhs) == 1 && len(e.Rhs) == 1 {
					a, b = e.Lhs[0], e.Rhs[0]
				}
			}
			if a == nil {
				return true
			}
			tv, ok := info.Types[a]
			if !ok || !isUnsigned(tv.Type) {
				return true
			}
			if whole, ok := x.(ast.Expr); ok {
				if wtv, ok := info.Types[whole]; ok && wtv.Value != nil {
					return true // a constant expression
				}
			}
			n++
			cons := fmt.Sprintf("%s#subtraction/%s", k, types.ExprString(a)+" - "+types.ExprString(b))
			guarded := subtractionGuarded(info, fi.Decl.Body, stack, a, b)
			r.Check(guarded, rule, cons, p.pos(x), "the minuend is known to be the larger value here",
				"unsigned subtraction "+types.ExprString(a)+" - "+types.ExprString(b)+" without a comparison that excludes "+types.ExprString(a)+" < "+types.ExprString(b)+": the result wraps to a huge value exactly in the boundary case (a full root reports 2^64-n bytes free and every other root is skipped; an over-full directory looks like it has room and is never retired)")
			return true
		})
	}
	r.Analysed["unsigned_subtractions_in_placement_path"] = n
}

// subtractionGuarded: an enclosing if / for condition says a > b or a >= b (in either spelling), or an earlier
// statement of an enclosing block leaves (return / continue / break) when a < b or a <= b.
func subtractionGuarded(info *types.Info, body *ast.BlockStmt, stack []ast.Node, a, b ast.Expr) bool {
	as, bs := types.ExprString(ast.Unparen(a)), types.ExprString(ast.Unparen(b))
	rel := func(cond ast.Expr) (ge, lt bool) {
		ast.Inspect(cond, func(y ast.Node) bool {
			be, ok := y.(*ast.BinaryExpr)
			if !ok {
				return true
			}
			xs, ys := types.ExprString(ast.Unparen(be.X)), types.ExprString(ast.Unparen(be.Y))
			switch {
			case xs == as && ys == bs:
				switch be.Op {
				case token.GTR, token.GEQ:
					ge = true
				case token.LSS, token.LEQ:
					lt = true
				}
			case xs == bs && ys == as:
				switch be.Op {
				case token.LSS, token.LEQ:
					ge = true
				case token.GTR, token.GEQ:
					lt = true
				}
			}
			return true
		})
		return
	}
	for i := len(stack) - 1; i >= 0; i-- {
		switch st := stack[i].(type) {
		case *ast.IfStmt:
			// inside the then-branch of a >= b, or the else-branch of a < b
			if i+1 < len(stack) {
				ge, lt := rel(st.Cond)
				if stack[i+1] == st.Body && ge && !strings.Contains(types.ExprString(st.Cond), "||") {
					return true
				}
				if st.Else != nil && stack[i+1] == st.Else && lt && !strings.Contains(types.ExprString(st.Cond), "&&") {
					return true
				}
			}
		case *ast.BlockStmt:
			// an earlier statement of this block leaves when a < b
			for _, s := range st.List {
				if i+1 < len(stack) && s == stack[i+1] {
					break
				}
				ifs, ok := s.(*ast.IfStmt)
				if !ok || ifs.Else != nil || len(ifs.Body.List) == 0 {
					continue
				}
				_, lt := rel(ifs.Cond)
				if !lt || strings.Contains(types.ExprString(ifs.Cond), "&&") {
					continue
				}
				switch ifs.Body.List[len(ifs.Body.List)-1].(type) {
				case *ast.ReturnStmt, *ast.BranchStmt:
					return true
				}
			}
		}
	}
	_ = body
	return false
}

var _ = sort.Strings
var _ = typeutil.Callee

func init() {
	wrapRule("C15", func(p *Prog, r *Report) {
		r.Rule("C15.g", "a pseudo-random generator kept in a field of a shared object is safe to share: every *rand.Rand (math/rand or math/rand/v2) that a constructor stores in a struct field is built over a source of the module whose draw holds a mutex, or each use of the field happens under a lock of its owner (rand.Rand itself is not safe for concurrent use; the id generator and the directory shuffle are reached from every API goroutine)")
		c15RandInFields(p, r, "C15.g")
	})
}

// c15RandInFields (seeded C15-M).
func c15RandInFields(p *Prog, r *Report, rule string) {
	isRandNew := func(info *types.Info, c *ast.CallExpr) bool {
		return (isFunc(info, c, "math/rand", "New") || isFunc(info, c, "math/rand/v2", "New")) && len(c.Args) == 1
	}
	syncSource := func(info *types.Info, src ast.Expr) bool {
		st := info.Types[src].Type
		if pt, ok := st.(*types.Pointer); ok {
			st = pt.Elem()
		}
		nt, ok := st.(*types.Named)
		if !ok || nt.Obj().Pkg() == nil || !isProductPath(nt.Obj().Pkg().Path()) {
			return false
		}
		for _, m := range []string{"Uint64", "Int63"} {
			for _, mk := range []string{"(*" + shortPath(nt.Obj().Pkg().Path()) + "." + nt.Obj().Name() + ")." + m, "(" + shortPath(nt.Obj().Pkg().Path()) + "." + nt.Obj().Name() + ")." + m} {
				if mf := p.Funcs[mk]; mf != nil {
					for _, ev := range p.LockFlow(mf, nil).Events {
						if ev.Kind == "call" && len(ev.Held) > 0 {
							return true
						}
					}
				}
			}
		}
		return false
	}
	n := 0
	for _, k := range sortedFuncKeys(p) {
		fi := p.Funcs[k]
		if fi.Decl.Body == nil {
			continue
		}
		info := fi.Pkg.TypesInfo
		ast.Inspect(fi.Decl.Body, func(x ast.Node) bool {
			// field: rand.New(src) in a composite literal, or x.field = rand.New(src)
			var fld *types.Var
			var call *ast.CallExpr
			switch st := x.(type) {
			case *ast.KeyValueExpr:
				if c, ok := ast.Unparen(st.Value).(*ast.CallExpr); ok && isRandNew(info, c) {
					if id, ok := st.Key.(*ast.Ident); ok {
						fld, _ = info.Uses[id].(*types.Var)
						call = c
					}
				}
			case *ast.AssignStmt:
				if len(st.Lhs) == 1 && len(st.Rhs) == 1 {
					if c, ok := ast.Unparen(st.Rhs[0]).(*ast.CallExpr); ok && isRandNew(info, c) {
						if sel, ok := ast.Unparen(st.Lhs[0]).(*ast.SelectorExpr); ok {
							fld, _ = info.Uses[sel.Sel].(*types.Var)
							call = c
						}
					}
				}
			}
			if fld == nil || !fld.IsField() || call == nil {
				return true
			}
			n++
			cons := fmt.Sprintf("%s#rand-field %s", k, fld.Name())
			if syncSource(info, call.Args[0]) {
				r.Hold(rule, cons, p.pos(call), "built over a synchronised source of the module")
				return true
			}
			// every use of the field under a lock
			bad := ""
			uses := 0
			for _, uk := range sortedFuncKeys(p) {
				ufi := p.Funcs[uk]
				if ufi.Decl.Body == nil || uk == k {
					continue
				}
				uinfo := ufi.Pkg.TypesInfo
				var lr *LockResult
				ast.Inspect(ufi.Decl.Body, func(y ast.Node) bool {
					c, ok := y.(*ast.CallExpr)
					if !ok {
						return true
					}
					mentions := false
					check := func(e ast.Expr) {
						ast.Inspect(e, func(z ast.Node) bool {
							if _, isCall := z.(*ast.CallExpr); isCall && z != ast.Node(c) {
								return false
							}
							if sel, ok := z.(*ast.SelectorExpr); ok && uinfo.Uses[sel.Sel] == fld {
								mentions = true
							}
							return true
						})
					}
					check(c.Fun)
					for _, a := range c.Args {
						check(a)
					}
					if !mentions {
						return true
					}
					uses++
					if lr == nil {
						lr = p.LockFlow(ufi, entryHeldFor(p, ufi))
					}
					if hs, _ := mustHeldAny(lr, c); len(hs) == 0 {
						bad = uk + " at " + p.pos(c)
					}
					return true
				})
			}
			r.Check(bad == "", rule, cons, p.pos(call), fmt.Sprintf("%d uses, all under a lock of the owner", uses),
				"the *rand.Rand stored in the field "+fld.Name()+" is built over an unsynchronised source and used without a lock in "+bad+": the object is a singleton reached from every API goroutine, two concurrent calls race inside the generator (duplicate ids, or a panic in the source)")
			return true
		})
	}
	r.Analysed["rand_values_stored_in_fields"] = n
}
