package main

// normalize.go: one normalisation of the syntax trees after type checking, before any rule looks at them.
//
// A push iterator consumed by calling it with a callback
//
//	visit := func(v T) bool { ...; return true }
//	seq(args)(visit)                      // or seq(args)(func(v T) bool { ... })
//
// is what `for v := range seq(args) { ... }` means (the language defines the range-over-func statement as exactly
// this call; `return true` is continue, `return false` is break). The rules speak about loops, so the call form
// is rewritten into the statement form: the callback's parameters become the loop variables (their objects stay the
// same, so type information stays valid), its body becomes the loop body with the boolean returns replaced by
// continue / break. Only done when that is exact: the callback is a literal (or a local defined once by a literal
// and used nowhere else), every return in it returns the constant true or false, and it contains no defer.

import (
	"go/ast"
	"go/constant"
	"go/token"
	"go/types"
	"golang.org/x/tools/go/types/typeutil"
	"strings"

	"golang.org/x/tools/go/packages"
)

var normalizeNotes []string

func normalizeIterCalls(pkg *packages.Package) {
	info := pkg.TypesInfo
	for _, file := range pkg.Syntax {
		for _, d := range file.Decls {
			fd, ok := d.(*ast.FuncDecl)
			if !ok || fd.Body == nil {
				continue
			}
			ast.Inspect(fd.Body, func(x ast.Node) bool {
				blk, ok := x.(*ast.BlockStmt)
				if !ok {
					return true
				}
				for i := 0; i < len(blk.List); i++ {
					es, ok := blk.List[i].(*ast.ExprStmt)
					if !ok {
						continue
					}
					call, ok := es.X.(*ast.CallExpr)
					if !ok || len(call.Args) != 1 {
						continue
					}
					// the callee is itself a value of a push-iterator type: func(yield func(..) bool)
					tv, ok := info.Types[call.Fun]
					if !ok || tv.IsType() {
						continue
					}
					sig, ok := tv.Type.Underlying().(*types.Signature)
					if !ok || sig.Params().Len() != 1 || sig.Results().Len() != 0 {
						continue
					}
					ysig, ok := sig.Params().At(0).Type().Underlying().(*types.Signature)
					if !ok || ysig.Results().Len() != 1 || ysig.Params().Len() > 2 {
						continue
					}
					if bt, ok := ysig.Results().At(0).Type().Underlying().(*types.Basic); !ok || bt.Kind() != types.Bool {
						continue
					}
					// only iterator *values* obtained from a call (seq(args)(cb)), not a plain function f(cb)
					if _, fromCall := ast.Unparen(call.Fun).(*ast.CallExpr); !fromCall {
						continue
					}
					var lit *ast.FuncLit
					defIdx := -1
					switch a := ast.Unparen(call.Args[0]).(type) {
					case *ast.FuncLit:
						lit = a
					case *ast.Ident:
						o := info.Uses[a]
						if o == nil {
							continue
						}
						// defined once in this block by a literal, used only here
						uses := 0
						ast.Inspect(fd.Body, func(y ast.Node) bool {
							if id, ok := y.(*ast.Ident); ok && info.Uses[id] == o {
								uses++
							}
							return true
						})
						for j := 0; j < i; j++ {
							if as, ok := blk.List[j].(*ast.AssignStmt); ok && as.Tok == token.DEFINE && len(as.Lhs) == 1 && len(as.Rhs) == 1 {
								if id, ok := as.Lhs[0].(*ast.Ident); ok && info.Defs[id] == o {
									if l, ok := as.Rhs[0].(*ast.FuncLit); ok && uses == 1 {
										lit, defIdx = l, j
									}
								}
							}
						}
					}
					if lit == nil || !boolReturnsOnly(info, lit) {
						continue
					}
					rs := &ast.RangeStmt{For: es.Pos(), Tok: token.DEFINE, TokPos: es.Pos(), X: call.Fun, Body: lit.Body}
					var names []*ast.Ident
					for _, fld := range lit.Type.Params.List {
						names = append(names, fld.Names...)
					}
					if len(names) != ysig.Params().Len() {
						continue // unnamed parameters: nothing to bind, leave the call form
					}
					if len(names) > 0 {
						rs.Key = names[0]
					}
					if len(names) > 1 {
						rs.Value = names[1]
					}
					if len(names) == 0 {
						rs.Tok = token.ILLEGAL
					}
					rewriteBoolReturns(info, lit.Body)
					blk.List[i] = rs
					if defIdx >= 0 {
						blk.List = append(blk.List[:defIdx:defIdx], blk.List[defIdx+1:]...)
						i--
					}
					normalizeNotes = append(normalizeNotes, "iterator call rewritten as a range statement in "+fd.Name.Name)
				}
				return true
			})
		}
	}
}

// boolReturnsOnly: every return of the literal (not of literals nested in it) returns the constant true or false,
// and the literal has no defer (a deferred call would run per iteration).
func boolReturnsOnly(info *types.Info, lit *ast.FuncLit) bool {
	ok := true
	var walk func(n ast.Node)
	// a return inside an inner loop / switch / select cannot become a plain break or continue
	ast.Inspect(lit.Body, func(x ast.Node) bool {
		switch s := x.(type) {
		case *ast.FuncLit:
			return false
		case *ast.ForStmt, *ast.RangeStmt, *ast.SwitchStmt, *ast.TypeSwitchStmt, *ast.SelectStmt:
			ast.Inspect(s, func(y ast.Node) bool {
				if _, isLit := y.(*ast.FuncLit); isLit {
					return false
				}
				if _, isRet := y.(*ast.ReturnStmt); isRet {
					ok = false
				}
				return true
			})
		}
		return true
	})
	walk = func(n ast.Node) {
		ast.Inspect(n, func(x ast.Node) bool {
			switch s := x.(type) {
			case *ast.FuncLit:
				return s == lit
			case *ast.DeferStmt, *ast.GoStmt:
				ok = false
			case *ast.ReturnStmt:
				if len(s.Results) != 1 {
					ok = false
					return true
				}
				tv, has := info.Types[s.Results[0]]
				if !has || tv.Value == nil || tv.Value.Kind() != constant.Bool {
					ok = false
				}
			}
			return true
		})
	}
	walk(lit)
	return ok
}

// rewriteBoolReturns replaces `return true` by continue and `return false` by break in the statement lists of body
// (nested literals are left alone). A return inside an inner loop or switch would need a label: such bodies keep
// a labelled form by wrapping nothing - they are rare, and the caller has already checked returns are constants.
func rewriteBoolReturns(info *types.Info, body *ast.BlockStmt) {
	var fix func(list []ast.Stmt, inner bool)
	fix = func(list []ast.Stmt, inner bool) {
		for i, s := range list {
			switch x := s.(type) {
			case *ast.ReturnStmt:
				tok := token.BREAK
				if tv := info.Types[x.Results[0]]; tv.Value != nil && constant.BoolVal(tv.Value) {
					tok = token.CONTINUE
				}
				list[i] = &ast.BranchStmt{TokPos: x.Pos(), Tok: tok}
			case *ast.BlockStmt:
				fix(x.List, inner)
			case *ast.IfStmt:
				fix(x.Body.List, inner)
				for el := x.Else; el != nil; {
					switch e := el.(type) {
					case *ast.BlockStmt:
						fix(e.List, inner)
						el = nil
					case *ast.IfStmt:
						fix(e.Body.List, inner)
						el = e.Else
					default:
						el = nil
					}
				}
			case *ast.SwitchStmt:
				for _, cl := range x.Body.List {
					fix(cl.(*ast.CaseClause).Body, true)
				}
			case *ast.ForStmt:
				fix(x.Body.List, true)
			case *ast.RangeStmt:
				fix(x.Body.List, true)
			}
		}
	}
	fix(body.List, false)
}

// normalizeVarDecls: inside function bodies `var x = e` / `var ( a = e1; b = e2 )` say what `x := e` says (the declared
// type, if any, is the static type the type checker already recorded for x). The rules are written against
// assignments, so initialised variable declarations are rewritten into short variable declarations, one per
// specification and in order; declarations without a value (var x T) stay as they are. The identifiers keep their
// objects.
func normalizeVarDecls(pkg *packages.Package) {
	for _, file := range pkg.Syntax {
		for _, d := range file.Decls {
			fd, ok := d.(*ast.FuncDecl)
			if !ok || fd.Body == nil {
				continue
			}
			ast.Inspect(fd.Body, func(x ast.Node) bool {
				var list *[]ast.Stmt
				switch b := x.(type) {
				case *ast.BlockStmt:
					list = &b.List
				case *ast.CaseClause:
					list = &b.Body
				case *ast.CommClause:
					list = &b.Body
				default:
					return true
				}
				var out []ast.Stmt
				changed := false
				for _, st := range *list {
					ds, ok := st.(*ast.DeclStmt)
					if !ok {
						out = append(out, st)
						continue
					}
					gd, ok := ds.Decl.(*ast.GenDecl)
					if !ok || gd.Tok != token.VAR {
						out = append(out, st)
						continue
					}
					var keep []ast.Spec
					var repl []ast.Stmt
					okAll := true
					for _, sp := range gd.Specs {
						vs := sp.(*ast.ValueSpec)
						if len(vs.Values) == 0 {
							keep = append(keep, sp)
							// a value-less spec between initialised ones keeps its place
							repl = append(repl, &ast.DeclStmt{Decl: &ast.GenDecl{TokPos: vs.Pos(), Tok: token.VAR, Specs: []ast.Spec{vs}}})
							continue
						}
						blank := true
						var lhs []ast.Expr
						for _, nm := range vs.Names {
							lhs = append(lhs, nm)
							if nm.Name != "_" {
								blank = false
							}
						}
						if blank {
							okAll = false
							break
						}
						repl = append(repl, &ast.AssignStmt{Lhs: lhs, TokPos: vs.Pos(), Tok: token.DEFINE, Rhs: vs.Values})
					}
					if !okAll || len(repl) == len(keep) {
						out = append(out, st)
						continue
					}
					out = append(out, repl...)
					changed = true
				}
				if changed {
					*list = out
				}
				return true
			})
		}
	}
}

// normalizeGoCalls: `go x.store(ctx, key, up)` with a function of the same package is what
// `go func() { x.store(ctx, key, up) }()` is for every rule here (the rules look at what the goroutine does, and the
// splice-in of helpers shows it); the arguments are plain values at all such sites of this repository's size. The
// statement is rewritten at load time so that "the goroutine literal" exists in both forms.
func normalizeGoCalls(pkg *packages.Package) {
	for _, file := range pkg.Syntax {
		ast.Inspect(file, func(x ast.Node) bool {
			g, ok := x.(*ast.GoStmt)
			if !ok {
				return true
			}
			if _, isLit := ast.Unparen(g.Call.Fun).(*ast.FuncLit); isLit {
				return true
			}
			fn, _ := typeutil.Callee(pkg.TypesInfo, g.Call).(*types.Func)
			if fn == nil || fn.Pkg() != pkg.Types {
				return true
			}
			if sig, _ := fn.Type().(*types.Signature); sig != nil && sig.Recv() != nil {
				if _, isIface := sig.Recv().Type().Underlying().(*types.Interface); isIface {
					return true
				}
			}
			// arguments must be evaluable later with the same result: identifiers, selectors, literals only
			for _, a := range g.Call.Args {
				switch ast.Unparen(a).(type) {
				case *ast.Ident, *ast.SelectorExpr, *ast.BasicLit:
				default:
					return true
				}
			}
			inner := g.Call
			lit := &ast.FuncLit{
				Type: &ast.FuncType{Func: inner.Pos(), Params: &ast.FieldList{}},
				Body: &ast.BlockStmt{Lbrace: inner.Pos(), List: []ast.Stmt{&ast.ExprStmt{X: inner}}, Rbrace: inner.End()},
			}
			pkg.TypesInfo.Types[lit] = types.TypeAndValue{Type: types.NewSignatureType(nil, nil, nil, nil, nil, false)}
			g.Call = &ast.CallExpr{Fun: lit, Lparen: inner.Pos(), Rparen: inner.End()}
			pkg.TypesInfo.Types[g.Call] = types.TypeAndValue{Type: types.NewTuple()}
			return false
		})
	}
}

// normalizeHoistedRanges: `byKey := tx.Files(); ...; for k, v := range byKey` is, for every rule here, the loop
// `for k, v := range tx.Files()` (the rules recognise what is iterated by the accessor call). When the ranged-over
// expression is a local that is assigned exactly once, from a call of a method without arguments, the range
// statement is given that call as its operand; the assignment stays where it is.
func normalizeHoistedRanges(pkg *packages.Package) {
	info := pkg.TypesInfo
	for _, file := range pkg.Syntax {
		for _, d := range file.Decls {
			fd, ok := d.(*ast.FuncDecl)
			if !ok || fd.Body == nil {
				continue
			}
			ast.Inspect(fd.Body, func(x ast.Node) bool {
				rs, ok := x.(*ast.RangeStmt)
				if !ok {
					return true
				}
				id, ok := ast.Unparen(rs.X).(*ast.Ident)
				if !ok {
					return true
				}
				o, ok := info.Uses[id].(*types.Var)
				if !ok || o.IsField() || o.Pos() < fd.Pos() || o.Pos() > fd.End() {
					return true
				}
				var rhs ast.Expr
				n := 0
				ast.Inspect(fd.Body, func(y ast.Node) bool {
					switch st := y.(type) {
					case *ast.AssignStmt:
						for i, l := range st.Lhs {
							if lid, ok := l.(*ast.Ident); ok && (info.Defs[lid] == o || info.Uses[lid] == o) {
								n++
								if len(st.Lhs) == len(st.Rhs) {
									rhs = st.Rhs[i]
								} else {
									rhs = nil
								}
							}
						}
					case *ast.UnaryExpr:
						if st.Op == token.AND {
							if aid, ok := ast.Unparen(st.X).(*ast.Ident); ok && info.Uses[aid] == o {
								n += 2 // its address is taken: not a plain value
							}
						}
					}
					return true
				})
				c, ok := ast.Unparen(rhs).(*ast.CallExpr)
				if n != 1 || !ok || len(c.Args) != 0 {
					return true
				}
				if _, isSel := ast.Unparen(c.Fun).(*ast.SelectorExpr); !isSel {
					return true
				}
				if fn, _ := typeutil.Callee(info, c).(*types.Func); fn == nil || fn.Pkg() == nil || !strings.HasPrefix(fn.Pkg().Path(), modPrefix) {
					return true
				}
				rs.X = c
				return true
			})
		}
	}
}

// normalizeIndexLoops: `for i := 0; i < len(xs); i++ { ... }` (the bound may be a local assigned once from len(xs))
// is `for i := range xs { ... }` when the body assigns neither i nor xs: the rules recognise what a loop goes over by
// the range operand. The statement is replaced at load time; the identifiers keep their objects.
func normalizeIndexLoops(pkg *packages.Package) {
	info := pkg.TypesInfo
	for _, file := range pkg.Syntax {
		for _, d := range file.Decls {
			fd, ok := d.(*ast.FuncDecl)
			if !ok || fd.Body == nil {
				continue
			}
			lenOperand := func(e ast.Expr) ast.Expr {
				c, ok := ast.Unparen(e).(*ast.CallExpr)
				if !ok || len(c.Args) != 1 {
					return nil
				}
				if id, ok := c.Fun.(*ast.Ident); !ok || id.Name != "len" {
					return nil
				} else if _, isB := info.Uses[id].(*types.Builtin); !isB {
					return nil
				}
				switch ast.Unparen(c.Args[0]).(type) {
				case *ast.Ident, *ast.SelectorExpr:
					if tv, ok := info.Types[c.Args[0]]; ok {
						if _, isSlice := tv.Type.Underlying().(*types.Slice); isSlice {
							return c.Args[0]
						}
					}
				}
				return nil
			}
			convert := func(fs *ast.ForStmt) ast.Stmt {
				init, ok := fs.Init.(*ast.AssignStmt)
				if !ok || init.Tok != token.DEFINE || len(init.Lhs) != 1 || len(init.Rhs) != 1 {
					return nil
				}
				iv, ok := init.Lhs[0].(*ast.Ident)
				if !ok || info.Defs[iv] == nil {
					return nil
				}
				if tv, ok := info.Types[init.Rhs[0]]; !ok || tv.Value == nil || tv.Value.ExactString() != "0" {
					return nil
				}
				io := info.Defs[iv]
				cond, ok := ast.Unparen(fs.Cond).(*ast.BinaryExpr)
				if !ok || cond.Op != token.LSS || objOf(info, cond.X) != io {
					return nil
				}
				post, ok := fs.Post.(*ast.IncDecStmt)
				if !ok || post.Tok != token.INC || objOf(info, post.X) != io {
					return nil
				}
				xs := lenOperand(cond.Y)
				if xs == nil {
					// a local assigned once from len(xs)
					if bo, isVar := objOf(info, cond.Y).(*types.Var); isVar && !bo.IsField() {
						var rhs ast.Expr
						n := 0
						ast.Inspect(fd.Body, func(y ast.Node) bool {
							if as, ok := y.(*ast.AssignStmt); ok {
								for i, l := range as.Lhs {
									if objOf(info, l) == bo {
										n++
										if len(as.Lhs) == len(as.Rhs) {
											rhs = as.Rhs[i]
										}
									}
								}
							}
							return true
						})
						if n == 1 && rhs != nil {
							xs = lenOperand(rhs)
						}
					}
				}
				if xs == nil {
					return nil
				}
				xo := objOf(info, xs)
				bad := false
				ast.Inspect(fs.Body, func(y ast.Node) bool {
					switch st := y.(type) {
					case *ast.AssignStmt:
						for _, l := range st.Lhs {
							if o := objOf(info, l); o != nil && (o == io || (xo != nil && o == xo)) {
								if _, isIdent := ast.Unparen(l).(*ast.Ident); isIdent {
									bad = true
								}
							}
							if types.ExprString(ast.Unparen(l)) == types.ExprString(ast.Unparen(xs)) {
								bad = true
							}
						}
					case *ast.IncDecStmt:
						if objOf(info, st.X) == io {
							bad = true
						}
					case *ast.UnaryExpr:
						if st.Op == token.AND && objOf(info, st.X) == io {
							bad = true
						}
					}
					return !bad
				})
				if bad {
					return nil
				}
				return &ast.RangeStmt{For: fs.For, Key: iv, TokPos: init.TokPos, Tok: token.DEFINE, Range: fs.For, X: xs, Body: fs.Body}
			}
			ast.Inspect(fd.Body, func(x ast.Node) bool {
				var list *[]ast.Stmt
				switch b := x.(type) {
				case *ast.BlockStmt:
					list = &b.List
				case *ast.CaseClause:
					list = &b.Body
				case *ast.CommClause:
					list = &b.Body
				default:
					return true
				}
				for i, st := range *list {
					target := st
					var lab *ast.LabeledStmt
					if l, ok := st.(*ast.LabeledStmt); ok {
						lab, target = l, l.Stmt
					}
					if fs, ok := target.(*ast.ForStmt); ok && fs.Init != nil && fs.Cond != nil && fs.Post != nil {
						if rs := convert(fs); rs != nil {
							if lab != nil {
								lab.Stmt = rs
							} else {
								(*list)[i] = rs
							}
						}
					}
				}
				return true
			})
		}
	}
}
