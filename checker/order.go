package main

// E3 helpers: ordered, error-gated chains of effects on the flat CFG.

import (
	"fmt"
	"go/ast"
	"strings"

	"golang.org/x/tools/go/cfg"
)

// WithoutEdges returns a copy of the graph without the edges for which drop returns true.
func (f *Flat) WithoutEdges(drop func(from *GNode, e Edge) bool) *Flat {
	g := *f
	g.Nodes = make([]*GNode, len(f.Nodes))
	for i, n := range f.Nodes {
		c := *n
		c.Succs = nil
		c.Preds = nil
		for _, e := range n.Succs {
			if !drop(n, e) {
				c.Succs = append(c.Succs, e)
			}
		}
		g.Nodes[i] = &c
	}
	for _, n := range g.Nodes {
		for _, e := range n.Succs {
			g.Nodes[e.To].Preds = append(g.Nodes[e.To].Preds, n.ID)
		}
	}
	return &g
}

type step struct {
	Name string
	Keys []string
	// Last marks the final step of a chain that runs once per element of a loop: the obligations against the
	// function's success return do not apply (the function returns after the loop, whatever single elements did)
	LastInLoop bool
	Tolerated  []string // error states of this step in which the chain may continue
	EarlyExit  []string // error states of this step in which a success return without the later steps is accepted
}

// successReturns lists the return nodes whose error result is the nil identifier.
func (f *Flat) successReturns(fi *FuncInfo) []int {
	sig := fi.Sig()
	var res []int
	for _, id := range f.ReturnNodes() {
		if isRet, nilErr := f.returnsNilError(id, sig); isRet && nilErr {
			res = append(res, id)
		}
	}
	return res
}

// CheckChain checks that the steps occur in order and error-gated on every path to a success
// return: step[i] precedes step[i+1]; step[i+1] is unreachable while step[i]'s error may be non-nil
// (tolerated states excepted); every success return is preceded by and gated on the last step.
func (f *Flat) CheckChain(r *Report, rule string, fi *FuncInfo, steps []step) bool {
	p := f.P
	all := true
	missing := func(g *Flat) int {
		n := 0
		for _, s := range steps {
			if len(g.CallSites(s.Keys...)) == 0 {
				n++
			}
		}
		return n
	}
	// a step may have moved into a helper (a stage method): use the graph with same-package helpers spliced in
	// when that finds steps the plain graph does not show
	if m := missing(f); m > 0 {
		var keys []string
		for _, s := range steps {
			keys = append(keys, s.Keys...)
		}
		if g := p.FlatInlExcept(fi, keys...); g != nil && missing(g) < m {
			// (edges the caller has shown to be infeasible - the exhaustion edge of store.Set's directory loop - stay
			// removed in the graph with the helpers spliced in)
			for _, st := range f.InfeasibleLoopExits {
				st := st
				g = g.WithoutEdges(func(from *GNode, e Edge) bool {
					return from.Ast == nil && from.Block != nil && from.Block.Kind == cfg.KindRangeLoop && from.Block.Stmt == st && e.Label == 2
				})
				g.InfeasibleLoopExits = append(g.InfeasibleLoopExits, st)
			}
			f = g
		}
	}
	// flags that correlate a helper's early exit with the caller's test of it (known, ok): paths with different
	// constants are kept apart
	f = f.SplitBools()
	sites := make([][]callSite, len(steps))
	for i, s := range steps {
		sites[i] = f.CallSites(s.Keys...)
		if len(sites[i]) == 0 {
			// a witness of absence: not even a helper or a function literal of the function calls it
			if p.funcCallsDeep(fi, p.keysPred(s.Keys...)) {
				r.Undecided(rule, fi.Key+"#"+s.Name, p.pos(fi.Decl), "step '"+s.Name+"' happens inside a function literal or a helper the rule cannot order against the other steps")
			} else {
				r.Viol(rule, fi.Key+"#"+s.Name, p.pos(fi.Decl), "the function no longer performs step '"+s.Name+"'")
			}
			all = false
		}
	}
	if !all {
		return false
	}
	nodesOf := func(cs []callSite) []int {
		var ids []int
		for _, c := range cs {
			ids = append(ids, c.Node)
		}
		return ids
	}
	succ := f.successReturns(fi)
	// accepted early exits: success returns reached only in an EarlyExit state of some step
	for i := range steps {
		if len(steps[i].EarlyExit) == 0 {
			continue
		}
		ee := map[string]bool{}
		for _, s := range steps[i].EarlyExit {
			ee[s] = true
		}
		for _, site := range sites[i] {
			if site.Kind != "assigned" {
				continue
			}
			st := f.ErrStatesFrom(site.Node, site.ErrVar)
			var keep []int
			for _, id := range succ {
				states := st.at(id)
				early := len(states) > 0
				for _, x := range states {
					if !ee[x] {
						early = false
					}
				}
				if !early {
					keep = append(keep, id)
				}
			}
			succ = keep
		}
	}
	for i := range steps {
		if i+1 == len(steps) && steps[i].LastInLoop {
			break
		}
		var next []int
		nextName := "success return"
		if i+1 < len(steps) {
			next = nodesOf(sites[i+1])
			nextName = steps[i+1].Name
		} else {
			next = succ
		}
		cons := fmt.Sprintf("%s#%s -> %s", fi.Key, steps[i].Name, nextName)
		// order
		cur := setOf(nodesOf(sites[i]))
		ordered := true
		var witness int
		for _, t := range next {
			if !f.MustPrecedeNil(cur, t) {
				ordered = false
				witness = t
			}
		}
		if !ordered {
			r.Viol(rule, cons+"/order", p.pos(f.Nodes[witness].Ast), fmt.Sprintf("'%s' can be reached without '%s' having happened first", nextName, steps[i].Name))
			all = false
		} else {
			r.Hold(rule, cons+"/order", p.pos(sites[i][0].Call), "on every path")
		}
		// gating
		for _, s := range sites[i] {
			if s.Kind == "none" {
				continue // the step cannot fail (no error result)
			}
			if s.Kind == "returned" {
				continue // the step's own result is what the function returns
			}
			ok, t, st := f.GatedBy(s, next, steps[i].Tolerated...)
			if !ok {
				pos := p.pos(s.Call)
				if t >= 0 {
					pos = p.pos(f.Nodes[t].Ast)
				}
				r.Viol(rule, cons+"/gated", pos, fmt.Sprintf("'%s' is reachable although '%s' may have failed (%s)", nextName, steps[i].Name, strings.Join(st, ",")), p.pos(s.Call))
				all = false
			} else {
				r.Hold(rule, cons+"/gated", p.pos(s.Call), "next step only on the err == nil edge")
			}
		}
	}
	return all
}

// rangeLoops returns the range statements in the function body (literals excluded).
func rangeLoops(body ast.Node) []*ast.RangeStmt {
	var res []*ast.RangeStmt
	walkNoLit(body, func(x ast.Node) bool {
		if s, ok := x.(*ast.RangeStmt); ok {
			res = append(res, s)
		}
		return true
	})
	return res
}

// loopHead returns the entry node id of the KindRangeLoop block of rs.
// loopHeadStmt is loopHead for range and three-clause loops.
func (f *Flat) loopHeadStmt(st ast.Stmt) int {
	for b, id := range f.first {
		if (b.Kind == cfg.KindRangeLoop || b.Kind == cfg.KindForLoop) && b.Stmt == st {
			return id
		}
	}
	return -1
}

// forLoops lists the three-clause / condition-only for statements under a node (function literals excluded).
func forLoops(n ast.Node) []*ast.ForStmt {
	var res []*ast.ForStmt
	ast.Inspect(n, func(x ast.Node) bool {
		if _, ok := x.(*ast.FuncLit); ok {
			return false
		}
		if fs, ok := x.(*ast.ForStmt); ok {
			res = append(res, fs)
		}
		return true
	})
	return res
}

func (f *Flat) loopHead(rs *ast.RangeStmt) int {
	for b, id := range f.first {
		if b.Kind == cfg.KindRangeLoop && b.Stmt == rs {
			return id
		}
	}
	// a loop of a spliced-in helper: the entry node of its block was copied with the helper's graph
	for _, n := range f.Nodes {
		if n.Ast == nil && n.Block != nil && n.Block.Kind == cfg.KindRangeLoop && n.Block.Stmt == rs {
			return n.ID
		}
	}
	return -1
}
